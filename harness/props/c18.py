"""C18 Estimated polynomial degree never underestimates the true degree.

Ties
* translator: harness/translate/degree.py regenerates Gen/DegreeTable.lean (the estimator's own dispatch table, the
  variant of its `indexed` refinement, the pass order of compute_form_data); Props/C18.lean re-checks the model's
  dispatch against it by kernel `decide`.
* correspondence: the Lean model `Degree.estimateTotal` / `attachDegrees` (Model/Degree.lean, Drivers/C18.lean) against
  `estimate_total_polynomial_degree` / `attach_estimated_degrees` on generated expressions over random element trees
  (mixed, nested, symmetric, Piola on immersed meshes, elements without degree, quadrilaterals), raw, preprocessed and
  pulled back; value-exact including `None` and raising.
Oracle (the property read literally on the implementation): polynomial integrands are expanded exactly (own sparse
polynomial arithmetic modulo a large prime, random fields of exactly the degree of the sub-element owning each
physical component, exact derivatives) and the true total degree is compared with the estimate of the raw integrand,
of the preprocessed integrand, and with the degree compute_form_data attaches to the integral."""
import itertools
import random
import warnings
from fractions import Fraction

import common
from common import Prop, Witness, Failure, LEAN, write_if_changed
import uflio, gen, leandrv

leandrv.EXES["C18"] = "c18drv"

P = (1 << 61) - 1


# --------------------------------------------------------------------------------------------------------------
# sparse polynomials over GF(P) in gdim variables:  {exponent tuple: coefficient}
class NonPoly(Exception):
    pass


class TooBig(Exception):
    pass


def pconst(c, n):
    c = c % P
    return {(0,) * n: c} if c else {}


def padd(a, b):
    out = dict(a)
    for k, v in b.items():
        w = (out.get(k, 0) + v) % P
        if w:
            out[k] = w
        else:
            out.pop(k, None)
    return out


def pmul(a, b):
    if len(a) * len(b) > 300000:
        raise TooBig()
    out = {}
    for ka, va in a.items():
        for kb, vb in b.items():
            k = tuple(x + y for x, y in zip(ka, kb))
            out[k] = (out.get(k, 0) + va * vb) % P
    return {k: v for k, v in out.items() if v}


def pscale(a, c):
    c %= P
    return {k: v * c % P for k, v in a.items() if v * c % P}


def ppow(a, n, nv):
    r = pconst(1, nv)
    for _ in range(n):
        r = pmul(r, a)
    return r


def pderiv(a, i):
    out = {}
    for k, v in a.items():
        if k[i]:
            kk = k[:i] + (k[i] - 1,) + k[i + 1:]
            w = v * k[i] % P
            if w:
                out[kk] = w
    return out


def pdeg(a):
    return max((sum(k) for k in a), default=0)


def frac_mod(q):
    q = Fraction(q)
    return q.numerator % P * pow(q.denominator % P, P - 2, P) % P


def _dim(x):
    return int(x() if callable(x) else x)


def prod(xs):
    r = 1
    for x in xs:
        r *= int(x)
    return r


def comps(shape):
    return list(itertools.product(*[range(int(n)) for n in shape]))


def flat(shape, c):
    n = 0
    for d, i in zip(shape, c):
        n = n * int(d) + int(i)
    return n


# --------------------------------------------------------------------------------------------------------------
# element trees: serialisation for the model, and an independent reading of "which sub-element owns a component"
def phys_shape(el, mesh):
    return tuple(int(i) for i in el.pullback.physical_value_shape(el, mesh))


def is_sym(el):
    from ufl.pullback import SymmetricPullback
    return isinstance(el.pullback, SymmetricPullback)


def elem_ser(el, mesh):
    d = el.embedded_superdegree
    ds = "N" if d is None else str(int(d))
    subs = list(el.sub_elements)
    ps = prod(phys_shape(el, mesh))
    if not subs:
        lay = "L"
    elif is_sym(el):
        pb = el.pullback
        sub_ps = prod(phys_shape(subs[0], mesh))
        lay = "(S %d %s)" % (sub_ps, " ".join(str(int(pb._symmetry[idx])) for idx in itertools.product(*[range(n) for n in pb._block_shape])))
    else:
        lay = "C"
    return "(E %s %d %d %s%s)" % (ds, int(el.reference_value_size), ps, lay, "".join(" " + elem_ser(s, mesh) for s in subs))


def comp_degs(el, mesh):
    """degree of the sub-element that owns each flattened physical component (independent of the estimator and of the Lean model)"""
    subs = list(el.sub_elements)
    if not subs:
        return [el.embedded_superdegree] * prod(phys_shape(el, mesh))
    parts = [comp_degs(s, mesh) for s in subs]
    out = []
    if is_sym(el):
        pb = el.pullback
        for idx in itertools.product(*[range(n) for n in pb._block_shape]):
            out += parts[pb._symmetry[idx]]
    else:
        for p in parts:
            out += p
    return out


def ref_degs(el):
    """degree of the leaf that owns each reference component (reference values are concatenated)"""
    subs = list(el.sub_elements)
    if not subs:
        return [el.embedded_superdegree] * int(el.reference_value_size)
    out = []
    for s in subs:
        out += ref_degs(s)
    return out


def describe(el):
    subs = list(el.sub_elements)
    if not subs:
        return "%s%s%s" % (el._family if hasattr(el, "_family") else "E", el.embedded_superdegree, list(el.reference_value_shape) if el.reference_value_shape else "")
    if is_sym(el):
        pb = el.pullback
        return "Sym%s[%s]" % ("".join(str(pb._symmetry[i]) for i in itertools.product(*[range(n) for n in pb._block_shape])), ",".join(describe(s) for s in subs))
    return "Mixed[%s]" % ",".join(describe(s) for s in subs)


def pullback_comp_degs(f, mesh, rng):
    """the same map, read off the implementation's own pullback: component c of apply_function_pullbacks(f) depends on
    reference component k  <=>  its value changes with r_k (generic J, K, detJ)"""
    import ufl
    from ufl.algorithms.apply_function_pullbacks import apply_function_pullbacks
    from ufl.algorithms import replace
    from ufl.classes import ReferenceValue, Jacobian, JacobianDeterminant, JacobianInverse
    from ufl import pullback as pb
    from ufl.sobolevspace import H1
    from utils import FiniteElement
    el = f.ufl_element()
    cell = mesh.ufl_cell()
    tdim, gdim = _dim(cell.topological_dimension), _dim(mesh.geometric_dimension)
    out = apply_function_pullbacks(f)

    def co(sh):
        return ufl.Coefficient(ufl.FunctionSpace(mesh, FiniteElement("Lagrange", cell, 1, tuple(sh), pb.identity_pullback, H1)))
    R, Jc, Kc, Dc = co(el.reference_value_shape), co((gdim, tdim)), co((tdim, gdim)), co(())
    e2 = replace(out, {ReferenceValue(f): R, Jacobian(mesh): Jc, JacobianInverse(mesh): Kc, JacobianDeterminant(mesh): Dc})

    def rnd(sh):
        return tuple(rnd(sh[1:]) for _ in range(sh[0])) if sh else Fraction(rng.randint(1, 9), rng.choice([1, 2, 3]))
    Jv, Kv, Dv = rnd((gdim, tdim)), rnd((tdim, gdim)), Fraction(rng.choice([2, 3, 5]), 1)
    rsh = tuple(int(i) for i in el.reference_value_shape)
    rd = ref_degs(el)
    x = (Fraction(0),) * gdim
    res = []
    for c in comps(out.ufl_shape):
        best = None
        for k, rc in enumerate(comps(rsh)):
            def unit(sh, pre=()):
                return tuple(unit(sh[1:], pre + (i,)) for i in range(sh[0])) if sh else Fraction(1 if pre == rc else 0)
            v = e2(x, {R: unit(rsh), Jc: Jv, Kc: Kv, Dc: Dv}, c)
            if v != 0:
                d = rd[k]
                best = d if best is None or (d is not None and d > best) else best
        res.append(best)
    return res


# --------------------------------------------------------------------------------------------------------------
# context serialisation: what the estimator reads from the terminals
def terminals_of(exprs):
    from ufl.corealg.traversal import traverse_unique_terminals
    seen, out = set(), []
    for e in exprs:
        for t in traverse_unique_terminals(e):
            if id(t) not in seen:
                seen.add(id(t))
                out.append(t)
    return out


LITERALS = ("IntValue", "FloatValue", "ComplexValue", "Zero", "MultiIndex", "RealValue", "ScalarValue")


def ctx_ser(exprs, default, variant, replace_map=None):
    from ufl.classes import Coefficient, Argument
    from ufl.checks import is_cellwise_constant
    from ufl.domain import extract_domains, extract_unique_domain
    replace_map = replace_map or {}
    rows, seen = [], set()
    for t in terminals_of(exprs):
        name = t._ufl_class_.__name__
        if name in LITERALS:
            continue
        key = uflio.enc(repr(t))
        if key in seen:
            continue
        seen.add(key)
        el = "-"
        doms = ()
        try:
            doms = extract_domains(t)
        except Exception:  # noqa
            doms = ()
        if isinstance(t, (Coefficient, Argument)):
            e = t.ufl_element()
            if isinstance(t, Coefficient):
                e = replace_map.get(e, e)
            el = elem_ser(e, t.ufl_function_space().ufl_domain())
        cd = 0
        if doms:
            try:
                d = extract_unique_domain(t).ufl_coordinate_element().embedded_superdegree
                cd = int(d) if d is not None else 0
            except Exception:  # noqa
                cd = 0
        try:
            cwc = bool(is_cellwise_constant(t))
        except Exception:  # noqa
            cwc = False
        quad = any(d.ufl_cell().cellname in ("quadrilateral", "hexahedron") for d in doms)
        from ufl.classes import Label
        shape = () if isinstance(t, Label) else t.ufl_shape
        rows.append("(%s %s %s %s %d %d %d)" % (key, name, uflio.nats(shape), el, cd, int(cwc), int(quad)))
    return "(ctx %d %s %s)" % (default, variant, " ".join(rows))


# --------------------------------------------------------------------------------------------------------------
# element family and expression generator
class DegGen(gen.Gen):
    """gen.Gen over a pool of form arguments on random element trees (mixed / nested / symmetric / Piola / no degree)."""

    def __init__(self, rng, cellname="triangle", gdim=2, poly=True, args=False, none_deg=False, **opts):
        import ufl
        from utils import LagrangeElement
        self.ufl, self.rng, self.gdim = ufl, rng, gdim
        self.cell = getattr(ufl, cellname)
        self.tdim = _dim(self.cell.topological_dimension)
        self.mesh = ufl.Mesh(LagrangeElement(self.cell, 1, (gdim,)))
        o = dict(math=not poly, compound=True, derivs=True, cond=not poly, variables=True, division=True, literals=True,
                 restricted=False, powers=True, tensor_cond=False, minmax=not poly)
        o.update(opts)
        self.opts = o
        self.poly = poly
        self.none_deg = none_deg
        self.reuse = 0.7
        self.spaces, self.coeffs, self.args, self.stats = {}, {}, {}, {}
        self.idxpool = [ufl.Index() for _ in range(4)]
        self.idxdim = {i: d for i, d in zip(self.idxpool, [2, 3, 2, 3])}
        self.elements = []
        req = [(), (), (2,), (3,), (gdim,), (2, 2), (3, 3), (gdim, gdim), (2, 3), (3, 2), (2, 2, 2), (2,), (3,), (2, 2)]
        extra = [(4,), (5,), (6,), (gdim + 1,), (gdim + 2,), (7,)]
        rng.shuffle(extra)
        for sh in req + extra[:3]:
            el = self.elem_for_shape(tuple(sh))
            V = ufl.FunctionSpace(self.mesh, el)
            assert tuple(int(i) for i in V.value_shape) == tuple(sh), (sh, V.value_shape, describe(el))
            if args and rng.random() < 0.5:
                t = ufl.Argument(V, rng.randint(0, 1))
            else:
                t = ufl.Coefficient(V)
            self.coeffs.setdefault(tuple(sh), []).append(t)
            self.elements.append((el, t))
        self.consts = {(): [ufl.Constant(self.mesh)], (gdim,): [ufl.VectorConstant(self.mesh)]}
        self.x = ufl.SpatialCoordinate(self.mesh)
        # degree-0 coefficient for constant denominators
        from utils import FiniteElement
        from ufl.sobolevspace import L2
        self.p0 = ufl.Coefficient(ufl.FunctionSpace(self.mesh, FiniteElement("DG", self.cell, 0, (), ufl.identity_pullback, L2)))

    # ---- elements
    def lag(self, sh, lo=None, hi=3, top=False):
        import ufl
        from utils import FiniteElement
        from ufl.sobolevspace import H1, L2
        d = self.rng.randint(0 if lo is None else lo, hi)
        if top and self.none_deg and self.rng.random() < 0.3:
            return FiniteElement("Quadrature", self.cell, None, tuple(sh), ufl.identity_pullback, L2)
        if d >= 2 and self.rng.random() < 0.25:
            # enriched element: the largest complete space it contains is smaller than the degree that bounds it
            sub = self.rng.randint(0, d - 1)
            return FiniteElement("P%d+bubbles" % sub, self.cell, d, tuple(sh), ufl.identity_pullback, H1, subdegree=sub)
        return FiniteElement("Lagrange" if d else "DG", self.cell, d, tuple(sh), ufl.identity_pullback, H1 if d else L2)

    def piola(self, lead=()):
        from utils import FiniteElement
        from ufl import pullback as pb
        from ufl.sobolevspace import HDiv, HCurl
        d = self.rng.randint(1, 3)
        if self.rng.random() < 0.5:
            return FiniteElement("RT", self.cell, d, tuple(lead) + (self.tdim,), pb.contravariant_piola, HDiv, subdegree=d - 1)
        return FiniteElement("N1curl", self.cell, d, tuple(lead) + (self.tdim,), pb.covariant_piola, HCurl, subdegree=d - 1)

    def dpiola(self):
        from utils import FiniteElement
        from ufl import pullback as pb
        from ufl.sobolevspace import HDivDiv, HEin, L2
        d = self.rng.randint(1, 3)
        k = self.rng.choice([("HHJ", pb.double_contravariant_piola, HDivDiv), ("Regge", pb.double_covariant_piola, HEin), ("GLS", pb.covariant_contravariant_piola, L2)])
        return FiniteElement(k[0], self.cell, d, (self.tdim, self.tdim), k[1], k[2])

    def sym(self, block, sub_shape):
        """symmetric element with block shape `block` over sub-elements of physical shape `sub_shape`"""
        from utils import SymmetricElement
        rng = self.rng
        idxs = list(itertools.product(*[range(n) for n in block]))
        nsub = rng.randint(1, min(len(idxs), 4))
        if len(block) == 2 and block[0] == block[1] and rng.random() < 0.6:
            pairs = sorted({tuple(sorted(i)) for i in idxs})
            nsub = rng.randint(2, len(pairs)) if len(pairs) > 1 else 1
            lab = {p: (k if k < nsub else rng.randrange(nsub)) for k, p in enumerate(pairs)}
            m = {i: lab[tuple(sorted(i))] for i in idxs}
        else:
            vals = list(range(nsub)) + [rng.randrange(nsub) for _ in range(len(idxs) - nsub)]
            rng.shuffle(vals)
            m = dict(zip(idxs, vals))
        if tuple(sub_shape) == (self.gdim,) and rng.random() < 0.5:
            subs = [self.piola() for _ in range(nsub)]
            if len({s.pullback.__class__ for s in subs}) != 1:
                subs = [subs[0]] * nsub
        else:
            subs = [self.lag(sub_shape) for _ in range(nsub)]
        items = list(m.items())
        rng.shuffle(items)
        return SymmetricElement(dict(items), subs)

    def part(self, size, depth=1):
        """an element whose flattened physical value has `size` entries"""
        from utils import MixedElement
        rng = self.rng
        c = [("vec", 1.0)] if size > 1 else [("scalar", 1.0)]
        if size == self.gdim:
            c.append(("piola", 1.5))
        if size == self.gdim * self.gdim:
            c.append(("dpiola", 0.7))
        if size == 4:
            c.append(("sym22", 2.5))
        if size == 9:
            c.append(("sym33", 1))
        if size == 8:
            c.append(("sym22v2", 1))
        if size in (2, 3):
            c.append(("symvec", 1))
        if size >= 2 and depth > 0:
            c.append(("mixed", 2.5))
        k = rng.choices([x[0] for x in c], [x[1] for x in c])[0]
        if k == "scalar":
            return self.lag(())
        if k == "vec":
            return self.lag((size,))
        if k == "piola":
            return self.piola()
        if k == "dpiola":
            return self.dpiola()
        if k == "sym22":
            return self.sym((2, 2), ())
        if k == "sym33":
            return self.sym((3, 3), ())
        if k == "sym22v2":
            return self.sym((2, 2), (2,))
        if k == "symvec":
            return self.sym((size,), ())
        return self.mixed(size, depth - 1)

    def mixed(self, size, depth=1):
        from utils import MixedElement
        rng = self.rng
        nparts = rng.randint(2, min(3, size))
        cuts = sorted(rng.sample(range(1, size), nparts - 1))
        sizes = [b - a for a, b in zip([0] + cuts, cuts + [size])]
        return MixedElement([self.part(s, depth) for s in sizes])

    def elem_for_shape(self, shape):
        rng = self.rng
        n = len(shape)
        if n == 0:
            if rng.random() < 0.15:
                from utils import FiniteElement
                from ufl import pullback as pb
                from ufl.sobolevspace import L2
                return FiniteElement("DGl2", self.cell, rng.randint(0, 3), (), pb.l2_piola, L2)
            return self.lag((), top=True)
        if n == 1:
            N = shape[0]
            r = rng.random()
            if N == self.gdim and r < 0.2:
                return self.piola()
            if r < 0.3:
                return self.lag(shape, lo=1, top=True)
            if N in (2, 3) and r < 0.4:
                return self.sym((N,), ())
            if N == 1:
                return self.lag(shape, top=True)
            return self.mixed(N, depth=2)
        if n == 2:
            r = rng.random()
            if shape[0] == shape[1]:
                if shape[0] == self.gdim and r < 0.15:
                    return self.dpiola()
                if r < 0.7:
                    return self.sym(shape, ())
            if r < 0.85:
                if shape[1] == self.gdim and rng.random() < 0.3:
                    return self.piola(lead=(shape[0],))
                return self.sym((shape[0],), (shape[1],))
            return self.lag(shape, lo=1, top=True)
        if rng.random() < 0.6:
            return self.sym(shape[:2], shape[2:])
        return self.lag(shape, lo=1, top=True)

    # ---- gen.Gen hooks
    def nonzero(self, depth):
        """a nonzero *constant* expression (division by constants keeps integrands polynomial)"""
        ufl, rng = self.ufl, self.rng
        if not self.poly and rng.random() < 0.5:
            return gen.Gen.nonzero(self, depth)
        r = rng.random()
        if r < 0.35:
            return ufl.as_ufl(rng.choice([2, 4, 0.5, 3]))
        c = self.consts[()][0]
        if r < 0.6:
            return c * c + 1
        if r < 0.8:
            return self.p0 * self.p0 + 2
        return ufl.CellVolume(self.mesh) + 1

    def terminals(self):
        return gen.Gen.terminals(self) + [self.p0]


# --------------------------------------------------------------------------------------------------------------
# exact expansion of an integrand
class PolyEnv:
    def __init__(self, rng, gdim):
        self.rng, self.n = rng, gdim
        self.fields = {}
        self.monos = {}

    def randpoly(self, d):
        if d not in self.monos:
            self.monos[d] = [k for k in itertools.product(range(d + 1), repeat=self.n) if sum(k) <= d]
        return {k: self.rng.randrange(1, P) for k in self.monos[d]}

    def build(self, el, mesh):
        subs = list(el.sub_elements)
        if not subs:
            d = el.embedded_superdegree
            if d is None:
                raise NonPoly("element without degree")
            return [self.randpoly(int(d)) for _ in range(prod(phys_shape(el, mesh)))]
        parts = [self.build(s, mesh) for s in subs]
        out = []
        if is_sym(el):
            pb = el.pullback
            for idx in itertools.product(*[range(n) for n in pb._block_shape]):
                out += parts[pb._symmetry[idx]]
        else:
            for p in parts:
                out += p
        return out

    def term(self, t, comp):
        from ufl.classes import Coefficient, Argument, Constant, SpatialCoordinate, CellCoordinate, GeometricQuantity
        if isinstance(t, SpatialCoordinate):
            return {tuple(1 if i == comp[0] else 0 for i in range(self.n)): 1}
        key = id(t)
        if key not in self.fields:
            if isinstance(t, (Coefficient, Argument)):
                vals = self.build(t.ufl_element(), t.ufl_function_space().ufl_domain())
            elif isinstance(t, Constant):
                vals = [pconst(self.rng.randrange(1, P), self.n) for _ in range(prod(t.ufl_shape))]
            elif isinstance(t, CellCoordinate):
                vals = [self.randpoly(1) for _ in range(prod(t.ufl_shape))]
            elif isinstance(t, GeometricQuantity) and t.is_cellwise_constant():
                vals = [pconst(self.rng.randrange(1, P), self.n) for _ in range(prod(t.ufl_shape))]
            else:
                raise NonPoly(type(t).__name__)
            self.fields[key] = (t, vals)
        return self.fields[key][1][flat(t.ufl_shape, comp)]


class PolyEval:
    def __init__(self, env):
        self.env = env
        self.n = env.n
        self.memo = {}
        self.keep = []

    def ev(self, e, comp=(), ienv=None):
        ienv = ienv or {}
        fi = e.ufl_free_indices
        key = (id(e), tuple(comp), tuple((i, ienv.get(i)) for i in fi))
        r = self.memo.get(key)
        if r is None:
            r = self._ev(e, tuple(comp), ienv)
            self.memo[key] = r
            self.keep.append(e)
        return r

    def _ev(self, e, comp, ienv):
        import ufl.classes as C
        n = self.n
        if isinstance(e, C.Zero):
            return {}
        if isinstance(e, C.ComplexValue):
            v = complex(e)
            if v.imag != 0:
                raise NonPoly("complex literal")
            return pconst(frac_mod(v.real), n)
        if isinstance(e, C.ScalarValue):
            return pconst(frac_mod(e._value), n)
        if isinstance(e, C.Identity):
            return pconst(1 if comp[0] == comp[1] else 0, n)
        if isinstance(e, C.PermutationSymbol):
            return pconst(int(e[tuple(comp)]) % P, n) if hasattr(e, "__getitem__") else {}
        if e._ufl_is_terminal_:
            if isinstance(e, (C.MultiIndex, C.Label)):
                raise NonPoly("utility terminal")
            return self.env.term(e, comp)
        ops = e.ufl_operands
        if isinstance(e, C.Sum):
            return padd(self.ev(ops[0], comp, ienv), self.ev(ops[1], comp, ienv))
        if isinstance(e, C.Product):
            return pmul(self.ev(ops[0], (), ienv), self.ev(ops[1], (), ienv))
        if isinstance(e, C.Division):
            d = self.ev(ops[1], (), ienv)
            if pdeg(d) != 0 or not d:
                raise NonPoly("division by a non-constant")
            c = next(iter(d.values()))
            return pscale(self.ev(ops[0], (), ienv), pow(c, P - 2, P))
        if isinstance(e, C.Power):
            g = ops[1]
            if not isinstance(g, C.IntValue) or int(g) < 0:
                raise NonPoly("power with exponent %s" % type(g).__name__)
            return ppow(self.ev(ops[0], (), ienv), int(g), n)
        if isinstance(e, C.Indexed):
            A, mi = ops
            cc = tuple(int(i) if isinstance(i, C.FixedIndex) else ienv[i.count()] for i in mi)
            return self.ev(A, cc, ienv)
        if isinstance(e, C.IndexSum):
            A, mi = ops
            j = mi[0].count()
            r = {}
            for v in range(e.dimension()):
                r = padd(r, self.ev(A, comp, {**ienv, j: v}))
            return r
        if isinstance(e, C.ComponentTensor):
            A, mi = ops
            ie = dict(ienv)
            for i, c in zip(mi, comp):
                ie[i.count()] = c
            return self.ev(A, (), ie)
        if isinstance(e, C.ListTensor):
            return self.ev(ops[comp[0]], comp[1:], ienv)
        if isinstance(e, (C.Variable, C.Restricted, C.Conj, C.Real)):
            return self.ev(ops[0], comp, ienv)
        if isinstance(e, C.Imag):
            self.ev(ops[0], comp, ienv)
            return {}
        if isinstance(e, C.Grad):
            k, t = 0, e
            while isinstance(t, C.Grad):
                t, k = t.ufl_operands[0], k + 1
            if not t._ufl_is_terminal_:
                raise NonPoly("grad of a non-terminal")
            r = len(t.ufl_shape)
            p = self._ev(t, comp[:r], ienv) if not isinstance(t, (C.Coefficient, C.Argument, C.Constant, C.GeometricQuantity)) else self.env.term(t, comp[:r])
            for d in comp[r:]:
                p = pderiv(p, d)
            return p
        raise NonPoly(type(e).__name__)

    def degree(self, e):
        """max total degree over all components (free indices must be absent)"""
        best = 0
        for c in comps(e.ufl_shape):
            best = max(best, pdeg(self.ev(e, c, {})))
        return best


def preprocess(e):
    from ufl.algorithms.apply_algebra_lowering import apply_algebra_lowering
    from ufl.algorithms.apply_derivatives import apply_derivatives
    return apply_derivatives(apply_algebra_lowering(e))


def impl_degree(e, default=1, replace_map=None):
    from ufl.algorithms.estimate_degrees import estimate_total_polynomial_degree
    with warnings.catch_warnings():
        warnings.simplefilter("ignore")
        try:
            d = estimate_total_polynomial_degree(e, default, replace_map or {})
        except Exception as ex:  # noqa
            return "(raises)", type(ex).__name__
    if d is None:
        return "(ok None)", None
    if isinstance(d, int) and not isinstance(d, bool):
        return "(ok %d)" % d, d
    return "(unmodelled %r)" % (d,), d


def ufl_jump(e):
    import ufl
    return ufl.jump(e) if not e.ufl_shape else ufl.avg(e)


def nops(s):
    return s.count("(O ")


CELLS = [("interval", 1), ("interval", 2), ("triangle", 2), ("triangle", 3), ("tetrahedron", 3), ("triangle", 2), ("interval", 3)]


class C18(Prop):
    pid = "C18"
    lean_modules = ["UflVerif.Props.C18"]
    min_theorems = 8
    trusted = ["translator harness/translate/degree.py (reads the estimator's dispatch table from a live instance; classifies the `indexed` handler by the attributes its AST mentions - "
               "the classification only selects the model variant and is re-validated by the correspondence)",
               "correspondence harness/props/c18.py + Drivers/C18.lean; serialisation of element trees (degree, reference size, physical size, layout) from utils.FiniteElement / MixedElement / "
               "SymmetricElement, cross-checked per element against apply_function_pullbacks",
               "oracle: own sparse polynomial arithmetic modulo 2^61-1 (a coefficient vanishing by chance can only hide an underestimate, never raise a false alarm)",
               "modelled rather than verified: tuple-valued degrees (tensor-product cells), element classes other than the test-suite's, MeshSequence domains"]
    assumptions = ["a form argument's physical component is a polynomial of total degree <= the embedded_superdegree of the sub-element that owns it (affine cells: constant Jacobian)",
                   "quantities UFL declares cellwise constant have degree 0; x has the coordinate element's degree; reference coordinate degree 1",
                   "the theorems cover the language of the denotational semantics (lowered tensor algebra, gradients of terminals); compound operators on the raw integrand are covered by the oracle"]

    def variant(self):
        from translate import degree
        return degree.indexed_variant()[0]

    def regenerate(self, ctx):
        from translate import degree
        text, self.stats = degree.render()
        p = LEAN / "UflVerif/Gen/DegreeTable.lean"
        return [(p.relative_to(LEAN), write_if_changed(p, text))]

    # ---------------------------------------------------------------- generation
    def gen_case(self, rng, k, poly):
        cellname, gdim = rng.choice(CELLS)
        quad = (not poly) and k % 11 == 0
        if quad:
            cellname, gdim = "quadrilateral", 2
        G = DegGen(rng, cellname, gdim, poly=poly, args=(k % 3 == 0), none_deg=(not poly and k % 5 == 0),
                   compound=(k % 2 == 0), derivs=(k % 3 != 1), restricted=False)
        shape = rng.choice([(), (), (), (), (2,), (gdim,), (2, 2)])
        e = G.expr(shape, (), rng.randint(1, 3))
        r = rng.random()
        if r < 0.06:
            e = e("+")
        elif r < 0.1:
            e = e("-") * G.leaf((), ())("+") if shape == () else e("-")
        elif r < 0.13 and not quad:
            e = ufl_jump(e)
        return G, e

    def directed(self):
        """corner cases the property names: components of mixed and symmetric elements, Piola sub-elements on immersed meshes"""
        import ufl
        from utils import LagrangeElement, FiniteElement, MixedElement, SymmetricElement
        from ufl import pullback as pb
        from ufl.sobolevspace import HDiv, HCurl
        out = []
        tri = ufl.triangle
        m2 = ufl.Mesh(LagrangeElement(tri, 1, (2,)))
        m3 = ufl.Mesh(LagrangeElement(tri, 1, (3,)))
        Pk = lambda k, sh=(): LagrangeElement(tri, k, sh)
        sym22 = lambda subs: SymmetricElement({(0, 0): 0, (0, 1): 1, (1, 0): 1, (1, 1): 2}, subs)
        def add(name, mesh, el, mk):
            f = ufl.Coefficient(ufl.FunctionSpace(mesh, el))
            out.append((name, mesh, f, mk(f)))
        x2 = ufl.SpatialCoordinate(m2)
        add("basic x[0]*x[1]", m2, Pk(2), lambda f: x2[0] * x2[1])
        add("basic f*f", m2, Pk(2), lambda f: f * f)
        add("basic f+x[0]**3", m2, Pk(2), lambda f: f + x2[0] ** 3)
        add("basic f**3", m2, Pk(2), lambda f: f ** 3)
        add("basic f.dx(0)*f", m2, Pk(3), lambda f: f.dx(0) * f)
        add("basic f.dx(0).dx(1)", m2, Pk(3), lambda f: f.dx(0).dx(1) * x2[0])
        add("basic inner(grad f, grad f)", m2, Pk(2), lambda f: ufl.inner(ufl.grad(f), ufl.grad(f)))
        add("basic dot(g,g)/2", m2, Pk(2, (2,)), lambda f: ufl.dot(f, f) / 2)
        add("basic as_vector([f,x0])[i]*g[i]", m2, Pk(2, (2,)), lambda f: ufl.dot(ufl.as_vector([f[0] * f[1], x2[0]]), f))
        add("basic div(g)*g[0]", m2, Pk(2, (2,)), lambda f: ufl.div(f) * f[0])
        add("basic f('+')*f('-')", m2, Pk(2), lambda f: f("+") * f("-"))
        add("basic variable(f)**2", m2, Pk(2), lambda f: ufl.variable(f) ** 2)
        add("Mixed[Sym22(P3,P3,P3),P1][3]", m2, MixedElement([sym22([Pk(3), Pk(3), Pk(3)]), Pk(1)]), lambda f: f[3])
        add("Sym22(P1,P3,P1)[1,0]", m2, sym22([Pk(1), Pk(3), Pk(1)]), lambda f: f[1, 0])
        add("Mixed[RT3,P1]@triangle3D[2]", m3, MixedElement([FiniteElement("RT", tri, 3, (2,), pb.contravariant_piola, HDiv), Pk(1)]), lambda f: f[2])
        add("Mixed[Sym22(P2,P2,P2),P0][3]^2*x[0]", m2, MixedElement([sym22([Pk(2), Pk(2), Pk(2)]), FiniteElement("DG", tri, 0, (), pb.identity_pullback, ufl.L2)]),
            lambda f: f[3] * f[3] * ufl.SpatialCoordinate(m2)[0])
        add("Mixed[P1,P3][0]*[1]", m2, MixedElement([Pk(1), Pk(3)]), lambda f: f[0] * f[1])
        add("Mixed[P1,P3][i]*[i]", m2, MixedElement([Pk(1), Pk(3)]), lambda f: ufl.dot(f, f))
        add("Mixed[N1curl2,P3]@triangle3D[3]", m3, MixedElement([FiniteElement("N1curl", tri, 2, (2,), pb.covariant_piola, HCurl), Pk(3)]), lambda f: f[3])
        add("Mixed[P2v2,P1].dx", m2, MixedElement([Pk(2, (2,)), Pk(1)]), lambda f: f[2].dx(0) * f[0].dx(1))
        add("Mixed[Mixed[P1,P3],P2][1]^2", m2, MixedElement([MixedElement([Pk(1), Pk(3)]), Pk(2)]), lambda f: f[1] ** 2)
        add("Sym22(P2,P1,P3) trace", m2, sym22([Pk(2), Pk(1), Pk(3)]), lambda f: f[0, 0] + f[1, 1])
        add("Sym22v(P1v,P3v,P2v)[1,0,1]", m2, sym22([Pk(1, (2,)), Pk(3, (2,)), Pk(2, (2,))]), lambda f: f[1, 0, 1])
        return out

    def handler_cases(self):
        """one expression (at least) per handler of the estimator, including the None / raising paths"""
        import ufl
        from ufl import classes as C
        from utils import LagrangeElement, FiniteElement, MixedElement
        from ufl.sobolevspace import L2
        tri = ufl.triangle
        mesh = ufl.Mesh(LagrangeElement(tri, 1, (2,)))
        qmesh = ufl.Mesh(LagrangeElement(ufl.quadrilateral, 1, (2,)))
        cmesh = ufl.Mesh(LagrangeElement(tri, 2, (2,)))       # non-affine: coordinate degree 2
        Q = FiniteElement("Quadrature", tri, None, (), ufl.identity_pullback, L2)
        vq = ufl.TestFunction(ufl.FunctionSpace(mesh, Q))
        fq = ufl.Coefficient(ufl.FunctionSpace(mesh, Q))
        f = ufl.Coefficient(ufl.FunctionSpace(mesh, LagrangeElement(tri, 2)))
        h = ufl.Coefficient(ufl.FunctionSpace(mesh, LagrangeElement(tri, 3)))
        g = ufl.Coefficient(ufl.FunctionSpace(mesh, LagrangeElement(tri, 2, (2,))))
        g3 = ufl.Coefficient(ufl.FunctionSpace(mesh, LagrangeElement(tri, 1, (3,))))
        T = ufl.Coefficient(ufl.FunctionSpace(mesh, LagrangeElement(tri, 2, (2, 2))))
        fc = ufl.Coefficient(ufl.FunctionSpace(cmesh, LagrangeElement(tri, 2)))
        fQ = ufl.Coefficient(ufl.FunctionSpace(qmesh, LagrangeElement(ufl.quadrilateral, 2)))
        mx = ufl.Coefficient(ufl.FunctionSpace(mesh, MixedElement([LagrangeElement(tri, 1), LagrangeElement(tri, 3)])))
        v = ufl.TestFunction(ufl.FunctionSpace(mesh, MixedElement([LagrangeElement(tri, 1), LagrangeElement(tri, 3)])))
        x, xc, xq = ufl.SpatialCoordinate(mesh), ufl.SpatialCoordinate(cmesh), ufl.SpatialCoordinate(qmesh)
        c0, cv = ufl.Constant(mesh), ufl.VectorConstant(mesh)
        i, j = ufl.indices(2)
        mk = [
            lambda: vq, lambda: ufl.grad(vq), lambda: ufl.variable(vq), lambda: vq("+"), lambda: abs(vq), lambda: ufl.sin(vq), lambda: vq + 1,
            lambda: vq * f, lambda: vq ** 2, lambda: vq ** f, lambda: ufl.atan2(vq, f), lambda: ufl.atan2(f, vq), lambda: ufl.atan2(vq, vq),
            lambda: ufl.conditional(ufl.lt(f, 1), vq, f), lambda: ufl.bessel_J(1, vq), lambda: ufl.conj(vq), lambda: ufl.real(vq), lambda: ufl.imag(vq),
            lambda: ufl.as_vector([vq, f]), lambda: ufl.as_vector([vq, vq])[0], lambda: ufl.as_tensor(ufl.grad(vq)[i], (i,)), lambda: ufl.grad(vq)[i] * g[i],
            lambda: ufl.cell_avg(vq), lambda: ufl.max_value(vq, f), lambda: fq, lambda: fq ** 2, lambda: ufl.grad(fq), lambda: ufl.sin(fq),
            lambda: f ** 2, lambda: f ** 0, lambda: f ** -1, lambda: f ** 2.0, lambda: f ** f, lambda: 2 ** f, lambda: f ** 0.5, lambda: c0 ** 2, lambda: c0 ** f,
            lambda: ufl.atan2(2, 3), lambda: ufl.atan2(f, 2), lambda: ufl.atan2(c0, f), lambda: ufl.atan2(c0, c0), lambda: ufl.sin(c0), lambda: ufl.sin(f), lambda: ufl.exp(h) * ufl.ln(f),
            lambda: ufl.bessel_J(1, f), lambda: ufl.bessel_Y(2, c0), lambda: ufl.bessel_I(0, h), lambda: ufl.bessel_K(1, x[0]), lambda: ufl.erf(f),
            lambda: ufl.cell_avg(f), lambda: ufl.facet_avg(f * h), lambda: f / h, lambda: f / c0, lambda: abs(f), lambda: abs(c0),
            lambda: ufl.conditional(ufl.And(ufl.lt(f, h), ufl.Not(ufl.gt(f, 1))), f, h), lambda: ufl.conditional(ufl.eq(f, 1), 1, 2), lambda: ufl.max_value(f, x[0]), lambda: ufl.min_value(c0, 2),
            lambda: xc[0] * xc[1], lambda: ufl.Jacobian(cmesh)[0, 0], lambda: ufl.Jacobian(mesh)[0, 0] * f, lambda: ufl.FacetNormal(mesh)[0] * f, lambda: ufl.FacetNormal(cmesh)[0],
            lambda: ufl.CellCoordinate(mesh)[0] * f, lambda: ufl.CellVolume(mesh) * f, lambda: ufl.CellVolume(cmesh), lambda: ufl.Circumradius(mesh), lambda: ufl.FacetArea(mesh),
            lambda: ufl.JacobianDeterminant(cmesh) * fc, lambda: ufl.JacobianInverse(mesh)[0, 1], lambda: ufl.CellDiameter(mesh), lambda: ufl.CellNormal(ufl.Mesh(LagrangeElement(tri, 1, (3,))))[0],
            lambda: ufl.grad(fQ), lambda: ufl.grad(fQ)[0] * xq[0], lambda: ufl.div(ufl.grad(fQ)), lambda: ufl.grad(fc), lambda: ufl.grad(ufl.grad(f)), lambda: ufl.grad(ufl.grad(ufl.grad(f))),
            lambda: ufl.div(g), lambda: ufl.curl(g), lambda: ufl.curl(g3), lambda: ufl.nabla_grad(g), lambda: ufl.nabla_div(g), lambda: ufl.grad(f * h), lambda: ufl.div(f * g), lambda: ufl.rot(g),
            lambda: ufl.tr(T), lambda: ufl.det(T), lambda: ufl.sym(T), lambda: ufl.skew(T), lambda: ufl.dev(T), lambda: ufl.inv(T), lambda: ufl.cofac(T), lambda: ufl.perp(g), lambda: T.T,
            lambda: ufl.inner(T, T), lambda: ufl.outer(g, g), lambda: ufl.dot(T, g), lambda: ufl.cross(g3, g3), lambda: ufl.inner(g, g) * ufl.dot(g, g), lambda: ufl.outer(g, g3)[1, 2],
            lambda: ufl.diff(ufl.variable(f) ** 2, ufl.variable(f)), lambda: C.VariableDerivative(f * f, ufl.variable(h)),
            lambda: C.CoefficientDerivative(f * f, C.ExprList(f), C.ExprList(h), C.ExprMapping()),
            lambda: C.CoordinateDerivative(f * f, C.ExprList(x), C.ExprList(g), C.ExprMapping()),
            lambda: C.CoordinateDerivative(f * f, C.ExprList(x), C.ExprList(g * h), C.ExprMapping(f, h)),
            lambda: C.ExprList(f, x[0], h * h), lambda: C.ExprMapping(f, h), lambda: C.ExprList(),
            lambda: C.ReferenceValue(f), lambda: C.ReferenceGrad(C.ReferenceValue(f)), lambda: C.ReferenceDiv(C.ReferenceValue(g)), lambda: C.ReferenceCurl(C.ReferenceValue(g3)),
            lambda: C.ReferenceGrad(C.ReferenceValue(fQ)),
            lambda: ufl.variable(f) ** 2, lambda: ufl.variable(ufl.variable(f) * h), lambda: 0 * f, lambda: ufl.zero(2, 2), lambda: ufl.Identity(2)[0, 0] * f, lambda: ufl.Identity(3),
            lambda: ufl.PermutationSymbol(2)[0, 1] * h, lambda: c0, lambda: cv, lambda: cv[0] * f, lambda: ufl.as_ufl(3), lambda: ufl.as_ufl(2.5), lambda: ufl.as_ufl(1 + 2j) * f,
            lambda: ufl.conj(f), lambda: ufl.real(f * h), lambda: ufl.imag(f), lambda: f("+") * h("-"), lambda: ufl.jump(f), lambda: ufl.avg(g),
            lambda: mx[0], lambda: mx[1], lambda: mx[i] * mx[i], lambda: ufl.grad(mx)[1, 0], lambda: ufl.grad(mx)[0, 0], lambda: mx[0].dx(0), lambda: v[0], lambda: v[1] * mx[0], lambda: ufl.variable(mx)[0],
            lambda: mx("+")[0], lambda: ufl.as_vector([mx[0], mx[1]])[0], lambda: ufl.as_tensor(mx[i], (i,))[0], lambda: (2 * mx)[0], lambda: ufl.dot(mx, cv), lambda: mx[0] ** 2 + mx[1],
            lambda: __import__("ufl.algorithms.apply_geometry_lowering", fromlist=["x"]).apply_geometry_lowering(ufl.JacobianDeterminant(cmesh)),
            lambda: __import__("ufl.algorithms.apply_geometry_lowering", fromlist=["x"]).apply_geometry_lowering(ufl.JacobianInverse(cmesh))[0, 0] * fc,
            lambda: __import__("ufl.algorithms.apply_geometry_lowering", fromlist=["x"]).apply_geometry_lowering(ufl.FacetNormal(cmesh))[0],
            lambda: __import__("ufl.algorithms.apply_geometry_lowering", fromlist=["x"]).apply_geometry_lowering(ufl.CellVolume(mesh)) * f,
            lambda: __import__("ufl.algorithms.apply_geometry_lowering", fromlist=["x"]).apply_geometry_lowering(ufl.SpatialCoordinate(cmesh))[0],
            lambda: g[i] * g[i], lambda: T[i, j] * T[j, i], lambda: ufl.as_tensor(T[i, j] * g[j], (i,)), lambda: ufl.as_matrix([[f, h], [x[0], 1]]), lambda: T[0, :], lambda: T[i, i],
        ]
        out = []
        for n, m in enumerate(mk):
            try:
                with warnings.catch_warnings():
                    warnings.simplefilter("ignore")
                    e = m()
                if not isinstance(e, ufl.core.expr.Expr):
                    e = ufl.as_ufl(e)
            except Exception:  # noqa
                continue
            out.append(("handler-case-%d" % n, e))
        return out

    # ---------------------------------------------------------------- correspondence
    def correspondence(self, ctx, ev):
        import ufl
        from ufl.algorithms.apply_function_pullbacks import apply_function_pullbacks
        from ufl.algorithms.compute_form_data import attach_estimated_degrees
        rng = random.Random(ctx.seed * 9176 + 18)
        variant = self.variant()
        n = 700 if ctx.quick else 9000
        reqs, impls, descs = [], [], []
        self.keep = []
        memo = {}
        hist, stages = {}, {"raw": 0, "preprocessed": 0, "pulled_back": 0, "form_total": 0, "attach": 0, "directed": 0}
        distinct = set()
        elem_seen, elem_reqs, elem_exp = set(), [], []

        def add(e, default, rmap, stage, desc):
            s = uflio.ser(e, memo)
            rq = "(degree %s %s)" % (ctx_ser([e], default, variant, rmap), s)
            reqs.append(rq); impls.append(impl_degree(e, default, rmap)[0]); descs.append((stage, desc))
            stages[stage] += 1
            if nops(s) >= 3 and impls[-1] != "(raises)":
                distinct.add(s)

        for name, mesh, f, e in self.directed():
            self.keep.append((f, e))
            add(e, 1, None, "directed", name)
        hc = self.handler_cases()
        self.keep.append(hc)
        for name, e in hc:
            add(e, 1, None, "directed", name + ": " + str(e)[:80])
            add(e, 3, None, "directed", name + ": " + str(e)[:80])
        stages["handler_cases_built"] = len(hc)
        for k in range(n):
            poly = k % 2 == 0
            G, e = self.gen_case(rng, k, poly)
            self.keep.append((G, e))
            for key, val in G.stats.items():
                hist[key] = hist.get(key, 0) + val
            default = rng.choice([1, 1, 0, 2, 3])
            rmap = None
            if k % 6 == 0:   # element_replace_map: some coefficient elements are replaced by others of the same value shape
                rmap = {}
                for el, t in G.elements:
                    if isinstance(t, ufl.Coefficient) and rng.random() < 0.5:
                        sh = tuple(int(i) for i in t.ufl_shape)
                        rmap[el] = G.elem_for_shape(sh)
            desc = str(e)[:160]
            add(e, default, rmap, "raw", desc)
            # component maps of the elements used, against the model's compDeg and the implementation's pullback
            for el, t in G.elements:
                r = repr(el)
                if r in elem_seen or len(elem_seen) >= (150 if ctx.quick else 1500):
                    continue
                if any(d is None for d in comp_degs(el, G.mesh)) or G.cell.cellname == "quadrilateral":
                    continue
                elem_seen.add(r)
                es = elem_ser(el, G.mesh)
                cd = comp_degs(el, G.mesh)
                try:
                    pd = pullback_comp_degs(t, G.mesh, rng) if isinstance(t, ufl.Coefficient) else cd
                except Exception as ex:  # noqa
                    pd = "pullback raised %s" % type(ex).__name__
                elem_reqs.append("(elemok %s)" % es); elem_exp.append(("(ok 1)", describe(el), "elemOK"))
                for c, d in enumerate(cd):
                    elem_reqs.append("(compdeg %s %d)" % (es, c)); elem_exp.append(("(ok %d)" % d, describe(el), "component %d" % c))
                if pd != cd:
                    elem_exp.append(("pullback", describe(el), "harness component map %s, apply_function_pullbacks gives %s" % (cd, pd)))
                    elem_reqs.append("(elemok %s)" % es)
            try:
                with warnings.catch_warnings():
                    warnings.simplefilter("ignore")
                    low = preprocess(e)
            except Exception:  # noqa
                continue
            self.keep.append(low)
            add(low, default, rmap, "preprocessed", desc)
            if k % 4 == 0:
                try:
                    pb_ = apply_function_pullbacks(low)
                    self.keep.append(pb_)
                    add(pb_, default, None, "pulled_back", desc)
                except Exception:  # noqa
                    pass
            if k % 5 == 0 and e.ufl_shape == ():
                # forms: estimate_total_polynomial_degree(Form) and attach_estimated_degrees
                try:
                    e2 = G.expr((), (), 2)
                    # every other form carries a stale estimate in its metadata, as a form derived (replace / action /
                    # derivative) from an already processed one does: attach_estimated_degrees must estimate again
                    stale = {"estimated_polynomial_degree": rng.randrange(0, 2)} if (k // 5) % 2 else {}
                    stages["attach_with_stale_metadata"] = stages.get("attach_with_stale_metadata", 0) + (1 if stale else 0)
                    form = e * ufl.dx(G.mesh, metadata=stale) + e2 * ufl.ds(G.mesh, metadata=stale) + (e2 * e2) * ufl.dx(G.mesh, degree=3)
                    its = [it.integrand() for it in form.integrals()]
                    self.keep.append(form)
                    cs = ctx_ser(its, 1, variant, None)
                    reqs.append("(total %s %s)" % (cs, " ".join(uflio.ser(i, memo) for i in its)))
                    impls.append(impl_degree(form, 1, None)[0]); descs.append(("form_total", desc)); stages["form_total"] += 1
                    with warnings.catch_warnings():
                        warnings.simplefilter("ignore")
                        try:
                            att = attach_estimated_degrees(form)
                            ds_ = [it.metadata().get("estimated_polynomial_degree") for it in att.integrals()]
                            ia = "(ok %s)" % " ".join("None" if d is None else str(d) for d in ds_)
                            its2 = [it.integrand() for it in att.integrals()]
                        except Exception:  # noqa
                            ia, its2 = "(raises)", its
                    reqs.append("(attach %s %s)" % (ctx_ser(its2, 1, variant, None), " ".join(uflio.ser(i, memo) for i in its2)))
                    impls.append(ia); descs.append(("attach", desc)); stages["attach"] += 1
                except Exception:  # noqa
                    pass
        replies = leandrv.run_driver("C18", reqs)
        fails, results = [], {}
        for rq, im, rp, (stage, desc) in zip(reqs, impls, replies, descs):
            kind = "raises" if im.startswith("(raises") else ("int" if im[4:-1].isdigit() else ("None" if im == "(ok None)" else "list"))
            results[kind] = results.get(kind, 0) + 1
            if im != rp and len(fails) < 10:
                fails.append(Failure("correspondence", "estimate[%s]" % stage, "impl %s | model %s | %s" % (im, rp, desc), case=rq[:4000]))
        erep = leandrv.run_driver("C18", elem_reqs)
        nel = 0
        for (exp, d, what), rp in zip(elem_exp, erep):
            nel += 1
            if exp == "pullback":
                if len(fails) < 12:
                    fails.append(Failure("correspondence", "component-map", "%s: %s" % (d, what)))
            elif exp != rp and len(fails) < 12:
                fails.append(Failure("correspondence", "compDeg", "%s %s: harness %s | model %s" % (d, what, exp, rp)))
        ev.cov["evaluations"] = len(reqs)
        ev.cov["distinct_nontrivial"] = len(distinct)
        ev.cov["traces_validated_against_impl"] = len(reqs)
        ev.cov["stages"] = stages
        ev.cov["impl_results"] = results
        ev.cov["elements_checked"] = len(elem_seen)
        ev.cov["component_map_checks"] = nel
        ev.cov["indexed_variant_detected"] = variant
        ev.cov["applicable_theorem"] = ("C18_bound_partial (side condition layoutSafe) + C18_bound_counterexample: the snapshot's `indexed` handler is live"
                                        if variant == "refSize" else "C18_bound_fixed / C18_bound_live_full: full statement, no side condition")
        ev.cov["generator_histogram"] = dict(sorted(hist.items(), key=lambda kv: -kv[1])[:25])
        ev.cov["rule"] = ("correspondence: gen.Gen productions (index notation, tensor algebra, derivatives, powers, division, variables; every other case also math functions, "
                          "conditionals, min/max, abs) over a per-case pool of form arguments on random element trees (Lagrange/DG tensors, Piola and double Piola leaves, mixed nested to depth 2, "
                          "symmetric with random maps over scalar/vector/Piola sub-elements, elements without degree, quadrilaterals) on interval/triangle/tetrahedron incl. immersed meshes; "
                          "each expression raw, after algebra lowering + derivative expansion, and (every 4th) pulled back; random default_degree and element_replace_map; forms through "
                          "estimate_total_polynomial_degree(Form) and attach_estimated_degrees; non-trivial = distinct expression with >= 3 operator nodes whose estimate does not raise")
        ev.cov["samples"] = [dict(stage=s, expr=d, impl=i) for (s, d), i in list(zip(descs, impls))[:4]]
        return fails

    # ---------------------------------------------------------------- oracle
    def check_expr(self, G_mesh, gdim, e, rng, variant, want_cfd, memo, v_arg=None):
        """returns (status, info):  status in {'nonpoly','toobig','ok','under'}"""
        import ufl
        try:
            with warnings.catch_warnings():
                warnings.simplefilter("ignore")
                low = preprocess(e)
        except Exception as ex:  # noqa
            return "nonpoly", "preprocessing raised %s" % type(ex).__name__
        env = PolyEnv(rng, gdim)
        pe = PolyEval(env)
        try:
            true = pe.degree(low)
        except NonPoly as ex:
            return "nonpoly", str(ex)
        except TooBig:
            return "toobig", ""
        ests = {}
        r, d = impl_degree(e)
        if isinstance(d, int) and r.startswith("(ok"):
            ests["raw"] = d
        r, d = impl_degree(low)
        if isinstance(d, int) and r.startswith("(ok"):
            ests["preprocessed"] = d
        elif r == "(raises)":
            ests["preprocessed"] = "raises:" + str(d)
        if want_cfd and e.ufl_shape == ():
            from ufl.algorithms import compute_form_data
            from ufl.classes import CellVolume, FacetArea
            try:
                with warnings.catch_warnings():
                    warnings.simplefilter("ignore")
                    integrand = e if v_arg is None else e * v_arg
                    form = integrand * ufl.dx(G_mesh)
                    fd = compute_form_data(form, do_apply_function_pullbacks=True, do_apply_integral_scaling=True, do_apply_geometry_lowering=True,
                                           preserve_geometry_types=(CellVolume, FacetArea), do_apply_restrictions=True, do_estimate_degrees=True, complex_mode=False)
                    ds_ = [it.metadata()["estimated_polynomial_degree"] for itd in fd.integral_data for it in itd.integrals]
                if len(ds_) == 1 and isinstance(ds_[0], int):
                    if v_arg is None:
                        ests["compute_form_data"] = ds_[0]
                    else:
                        low_full = preprocess(integrand)
                        tv = PolyEval(env).degree(low_full)
                        if ds_[0] < tv:
                            return "under", dict(true=tv, est=ds_[0], via="compute_form_data (integrand times a test function)", lowered=low_full, estimated_on=low_full)
            except (NonPoly, TooBig):
                pass
            except Exception as ex:  # noqa
                ests["compute_form_data"] = "raises:" + type(ex).__name__
        for via, d in ests.items():
            if isinstance(d, int) and d < true:
                return "under", dict(true=true, est=d, via=via, lowered=low, estimated_on=(e if via == "raw" else low))
        return "ok", dict(true=true, ests=ests, lowered=low)

    def oracle(self, ctx, ev):
        import ufl
        variant = self.variant()
        out, seen = [], set()
        memo = {}
        self.okeep = []
        # 1. directed corner cases
        rng = random.Random(ctx.seed * 4243 + 1801)
        dres, dreq = [], []
        known_class = []
        for name, mesh, f, e in self.directed():
            st, info = self.check_expr(mesh, _dim(mesh.geometric_dimension), e, rng, variant, True, memo)
            low = info.get("estimated_on", info.get("lowered")) if isinstance(info, dict) else None
            self.okeep.append((f, e, low))
            dres.append((name, st, info))
            dreq.append("(frag %s %s)" % (ctx_ser([low if low is not None else e], 1, variant), uflio.ser(low if low is not None else e, memo)))
        dflags = leandrv.run_driver("C18", dreq)
        for (name, st, info), rp in zip(dres, dflags):
            all_safe = rp.startswith("(ok") and rp.strip("()").split()[4] == "1"
            if st == "under":
                key = "C18:underestimate:" + name
                if variant == "refSize" and not all_safe:
                    why = ("a fixed component of a form argument whose element's sub-elements are laid out differently in reference and physical space "
                           "(the `indexed` handler walks reference sizes; Lean: C18_bound_counterexample)")
                else:
                    why = "directed case"
                w = Witness("estimated degree %d < true degree %d for %s (via %s): %s" % (info["est"], info["true"], name, info["via"], why), key,
                            dict(kind="directed", name=name, est=info["est"], true=info["true"], via=info["via"]))
                (known_class if (variant == "refSize" and not all_safe) else out).append(w)
        ev.cov["directed"] = [dict(name=n, status=s_, info={k: v for k, v in (i.items() if isinstance(i, dict) else []) if k not in ("lowered", "estimated_on")}) for n, s_, i in dres]
        # 2. random polynomial integrands
        rng = random.Random(ctx.seed * 7919 + 1802)
        n = getattr(self, "oracle_n", None) or (700 if ctx.quick else 10000)
        counts = {"ok": 0, "nonpoly": 0, "toobig": 0, "under": 0, "skipped_known_unsafe": 0, "in_theorem_fragment": 0, "exact": 0}
        slack = {}
        reqs, pend = [], []
        for k in range(n):
            cellname, gdim = rng.choice(CELLS)
            G = DegGen(rng, cellname, gdim, poly=True, args=False, compound=(k % 2 == 0), derivs=(k % 3 != 1))
            e = G.expr(rng.choice([(), (), (), (2,), (2, 2)]), (), rng.randint(1, 3))
            v_arg = None
            if k % 4 == 1:
                el, _t = rng.choice(G.elements)
                v = ufl.TestFunction(ufl.FunctionSpace(G.mesh, el))
                cs = comps(v.ufl_shape)
                v_arg = v[rng.choice(cs)] if cs and v.ufl_shape else v
                if rng.random() < 0.4:
                    v_arg = v_arg.dx(rng.randrange(gdim))
            self.okeep.append((G, e, v_arg))
            st, info = self.check_expr(G.mesh, gdim, e, rng, variant, k % 2 == 0 or v_arg is not None, memo, v_arg)
            if k % 5 == 3 and st == "ok" and e.ufl_shape == ():
                # a form with two integrals: estimate_total_polynomial_degree(form) must bound both integrands
                e2 = G.expr((), (), 2)
                st2, info2 = self.check_expr(G.mesh, gdim, e2, rng, variant, False, memo)
                if st2 == "ok":
                    form = e * ufl.dx(G.mesh) + e2 * ufl.ds(G.mesh)
                    self.okeep.append((e2, form))
                    r_, d_ = impl_degree(form)
                    counts["forms"] = counts.get("forms", 0) + 1
                    tmax = max(info["true"], info2["true"])
                    if isinstance(d_, int) and r_.startswith("(ok") and d_ < tmax:
                        st, info = "under", dict(true=tmax, est=d_, via="estimate_total_polynomial_degree(form with two integrals)", lowered=info["lowered"] if info["true"] >= info2["true"] else info2["lowered"], estimated_on=(e if info["true"] >= info2["true"] else e2))
            if st in ("nonpoly", "toobig"):
                counts[st] += 1
                continue
            low = info["lowered"]
            self.okeep.append(low)
            reqs.append("(frag %s %s)" % (ctx_ser([low], 1, variant), uflio.ser(low, memo)))
            on = info.get("estimated_on", low)
            self.okeep.append(on)
            reqs.append("(frag %s %s)" % (ctx_ser([on], 1, variant), uflio.ser(on, memo)))
            pend.append((k, st, info, str(e)[:200], [describe(el) for el, _ in G.elements][:6], cellname, gdim))
        replies = leandrv.run_driver("C18", reqs)
        samples = []
        rand_w = []
        skipped = []
        for (k, st, info, desc, els, cellname, gdim), rp, rp_on in zip(pend, replies[0::2], replies[1::2]):
            flags = rp.strip("()").split()[1:] if rp.startswith("(ok") else ["0", "0", "0", "0"]
            wf, frag, safe, all_safe = [x == "1" for x in flags]
            # the side condition is read on the expression the failing estimate was computed on
            all_safe = rp_on.startswith("(ok") and rp_on.strip("()").split()[4] == "1"
            if frag and wf:
                counts["in_theorem_fragment"] += 1
            if st == "under":
                if variant == "refSize" and not all_safe:
                    skipped.append((k, desc[:80], info["est"], info["true"], info["via"]))
                    counts["skipped_known_unsafe"] += 1     # inside the class the Lean counterexample / partial theorem delimit
                    continue
                counts["under"] += 1
                key = "C18:underestimate:random:%s" % desc[:120]
                if key not in seen:
                    seen.add(key)
                    rand_w.append(Witness("estimated degree %d < true degree %d (via %s) for %s on %s in %dD" % (info["est"], info["true"], info["via"], desc, cellname, gdim), key,
                                       dict(kind="random", seed=ctx.seed, tier=ctx.tier, k=k, est=info["est"], true=info["true"], via=info["via"], expr=desc, elements=els)))
                continue
            counts["ok"] += 1
            for via, d in info["ests"].items():
                if isinstance(d, int):
                    s = d - info["true"]
                    slack[via] = slack.get(via, 0) + (1 if s == 0 else 0)
            if len(samples) < 4:
                samples.append(dict(expr=desc, true=info["true"], ests=info["ests"]))
        rand_w.sort(key=lambda w: len(w.data.get("expr", "")))      # smallest failing integrands first
        out += rand_w[:8]
        out += known_class      # witnesses of the class delimited by the Lean counterexample come last
        ev.cov["oracle_cases"] = n
        ev.cov["oracle_skipped_known_unsafe"] = skipped[:20]
        ev.cov["oracle_counts"] = counts
        ev.cov["oracle_exact_estimates"] = slack
        ev.cov["oracle_samples"] = samples
        ev.cov["oracle_rule"] = ("oracle: polynomial integrands (no math functions / conditionals; division only by constant expressions; IntValue powers) over random element trees; "
                                 "fields are random polynomials of exactly the owning sub-element's degree (shared between symmetric partners), exact expansion of the lowered integrand; "
                                 "true degree <= estimate(raw), estimate(preprocessed), degree attached by compute_form_data (also with a test-function factor)")
        return out

    def search(self, ctx, fails):
        sub = common.Ctx(pid=ctx.pid, tier="quick", seed=ctx.seed + 1000)
        self.oracle_n = 2500
        try:
            ws = self.oracle(sub, common.Evidence(sub))
        finally:
            self.oracle_n = None
        known = {k["key"] for k in common.load_known().get("findings", []) if k.get("property") == "C18"}
        ws = [w for w in ws if w.key not in known]
        return ws[0] if ws else None

    def replay(self, ctx, data):
        d = data.get("data", {})
        variant = self.variant()
        if d.get("kind") == "directed":
            rng = random.Random(1)
            for name, mesh, f, e in self.directed():
                if name == d.get("name"):
                    st, info = self.check_expr(mesh, _dim(mesh.geometric_dimension), e, rng, variant, True, {})
                    if st == "under":
                        return Witness("estimated degree %d < true degree %d for %s (via %s)" % (info["est"], info["true"], name, info["via"]), data.get("key", "C18"), d)
            return None
        sub = common.Ctx(pid=ctx.pid, tier=d.get("tier", "quick"), seed=int(d.get("seed", 0)))
        for w in self.oracle(sub, common.Evidence(sub)):
            if w.key == data.get("key"):
                return w
        return None


warnings.filterwarnings("ignore", category=UserWarning, module=r"ufl\..*")

PROP = C18()
