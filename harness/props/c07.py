"""C07 Geometry lowering computes the geometric quantities of the actual cell.
Tie (translator): harness/translate/geometry.py runs the real apply_geometry_lowering on every geometric quantity on
affine interval / triangle / tetrahedron meshes (incl. immersed) and writes the returned trees to Gen/Geometry_*.lean;
Props/C07/*.lean evaluates them on the cell given by arbitrary real vertices (Env.lean: what each remaining symbol means
on that cell) and proves they are the quantity computed from the vertices.
Oracle / failing-input search: the implementation's lowered expressions are evaluated numerically on random cells (all
facets, both orientations) and compared with values computed directly from the vertices by independent code."""
import itertools, math, random
import common
from common import Prop, Witness, Failure, LEAN, write_if_changed


# ---------------- direct geometry from vertices (floats)
def sub(a, b): return [x - y for x, y in zip(a, b)]
def dot(a, b): return sum(x * y for x, y in zip(a, b))
def norm(a): return math.sqrt(dot(a, a))
def scal(s, a): return [s * x for x in a]
def add(a, b): return [x + y for x, y in zip(a, b)]


def solve(A, b):
    n = len(A)
    M = [list(map(float, A[i])) + [float(b[i])] for i in range(n)]
    for c in range(n):
        p = max(range(c, n), key=lambda r: abs(M[r][c]))
        M[c], M[p] = M[p], M[c]
        for r in range(n):
            if r != c:
                f = M[r][c] / M[c][c]
                M[r] = [x - f * y for x, y in zip(M[r], M[c])]
    return [M[i][n] / M[i][i] for i in range(n)]


def gram_det(vecs):
    n = len(vecs)
    G = [[dot(vecs[i], vecs[j]) for j in range(n)] for i in range(n)]
    if n == 0:
        return 1.0
    if n == 1:
        return G[0][0]
    if n == 2:
        return G[0][0] * G[1][1] - G[0][1] * G[1][0]
    return (G[0][0] * (G[1][1] * G[2][2] - G[1][2] * G[2][1]) - G[0][1] * (G[1][0] * G[2][2] - G[1][2] * G[2][0])
            + G[0][2] * (G[1][0] * G[2][1] - G[1][1] * G[2][0]))


FACETS = {1: [(0,), (1,)], 2: [(1, 2), (0, 2), (0, 1)], 3: [(1, 2, 3), (0, 2, 3), (0, 1, 3), (0, 1, 2)]}
EDGES = {1: [(0, 1)], 2: [(1, 2), (0, 2), (0, 1)], 3: [(2, 3), (1, 3), (1, 2), (0, 3), (0, 2), (0, 1)]}
REFV = {1: [[0.0], [1.0]], 2: [[0.0, 0.0], [1.0, 0.0], [0.0, 1.0]], 3: [[0.0, 0.0, 0.0], [1.0, 0.0, 0.0], [0.0, 1.0, 0.0], [0.0, 0.0, 1.0]]}
REFN = {1: [[-1.0], [1.0]], 2: [[1 / math.sqrt(2)] * 2, [-1.0, 0.0], [0.0, -1.0]],
        3: [[1 / math.sqrt(3)] * 3, [-1.0, 0.0, 0.0], [0.0, -1.0, 0.0], [0.0, 0.0, -1.0]]}
FACT = {0: 1, 1: 1, 2: 2, 3: 6}


def direct(V, tdim, gdim, facet, x):
    """quantities of the simplex with vertices V computed from the vertices"""
    cols = [sub(V[j + 1], V[0]) for j in range(tdim)]
    out = {}
    out["CellVolume"] = math.sqrt(abs(gram_det(cols))) / FACT[tdim]
    # circumcentre in the affine hull
    G = [[dot(cols[i], cols[j]) for j in range(tdim)] for i in range(tdim)]
    lam = solve(G, [dot(c, c) / 2 for c in cols])
    cc = [sum(lam[j] * cols[j][k] for j in range(tdim)) for k in range(gdim)]
    out["Circumradius"] = norm(cc)
    el = [norm(sub(V[b], V[a])) for a, b in EDGES[tdim]]
    out["MinCellEdgeLength"], out["MaxCellEdgeLength"], out["CellDiameter"] = min(el), max(el), max(el)
    fv = [V[i] for i in FACETS[tdim][facet]]
    ft = [sub(p, fv[0]) for p in fv[1:]]
    out["FacetArea"] = math.sqrt(abs(gram_det(ft))) / FACT[tdim - 1] if tdim > 1 else 1.0
    if tdim == 3:
        fe = [norm(sub(fv[2], fv[1])), norm(sub(fv[2], fv[0])), norm(sub(fv[1], fv[0]))]
        out["MinFacetEdgeLength"], out["MaxFacetEdgeLength"] = min(fe), max(fe)
    # outward unit normal of the facet inside the cell's tangent space: from the opposite vertex towards the facet, tangents removed
    opp = V[facet] if tdim > 1 else V[1 - facet]
    w = sub(fv[0], opp)
    basis = []
    for t in ft:
        for b in basis:
            t = sub(t, scal(dot(t, b), b))
        basis.append(scal(1 / norm(t), t))
    for b in basis:
        w = sub(w, scal(dot(w, b), b))
    out["FacetNormal"] = scal(1 / norm(w), w)
    # reference coordinate of x: least squares
    out["CellCoordinate"] = solve(G, [dot(c, sub(x, V[0])) for c in cols])
    return out, cols


class C07(Prop):
    pid = "C07"
    lean_modules = ["UflVerif.Props.C07"]
    min_theorems = 45
    trusted = ["translator harness/translate/geometry.py + leanexpr.py (embeds the trees apply_geometry_lowering returns)",
               "Props/C07/Env.lean: the meaning of the symbols a form compiler supplies (J = vertex differences, CellOrigin = v0, ReferenceCellVolume = 1/tdim!, "
               "CellEdgeVectors in UFC edge numbering, CellOrientation = +-1); CellFacetJacobian, ReferenceNormal, FacetEdgeVectors stay free data and the theorems state what they need of them",
               "modelled rather than verified: non-affine and non-simplex cells, FacetJacobianInverse / Ridge* quantities (covered by the single-pass consistency theorem and C06's pseudo-inverse theorems only)"]
    assumptions = ["cells are non-degenerate (det J != 0, resp. Gram determinant != 0) and, on manifolds, CellOrientation is +-1",
                   "real arithmetic: abs, sqrt, Re, conj, < as on the reals (Mathlib)"]

    def regenerate(self, ctx):
        from translate import geometry
        files, insts = geometry.render()
        self.insts = insts
        out = []
        for k, v in files.items():
            p = LEAN / "UflVerif" / "Gen" / (k + ".lean")
            out.append((p, write_if_changed(p, v)))
        return out

    def correspondence(self, ctx, ev):
        fails = []
        n = 0
        for r in getattr(self, "insts", []):
            n += 1
            if "error" in r:
                fails.append(Failure("translator", "family:%s/%s%d" % (r["q"], r["cell"], r["gdim"]), "apply_geometry_lowering fails on a quantity of the family: " + r["error"]))
        ev.cov["instances_regenerated"] = n
        return fails

    # ---------------- numeric oracle on the implementation
    def oracle_case(self, rng, k):
        import warnings
        import ufl
        import ufl.classes as C
        from ufl.algorithms.apply_geometry_lowering import apply_geometry_lowering
        from ufl.algorithms import replace
        from ufl import pullback as pb
        from ufl.sobolevspace import H1
        from utils import LagrangeElement, FiniteElement
        cellname, tdim, gdim = rng.choice([("interval", 1, 1), ("interval", 1, 2), ("interval", 1, 3), ("triangle", 2, 2), ("triangle", 2, 3), ("tetrahedron", 3, 3)])
        cell = getattr(ufl, cellname)
        mesh = ufl.Mesh(LagrangeElement(cell, 1, (gdim,)))
        while True:
            V = [[rng.randint(-6, 6) / rng.choice([1, 2]) for _ in range(gdim)] for _ in range(tdim + 1)]
            cols = [sub(V[j + 1], V[0]) for j in range(tdim)]
            if abs(gram_det(cols)) > 0.05:
                break
        facet = rng.randrange(tdim + 1)
        x = [rng.randint(-3, 3) / 2 for _ in range(gdim)]
        want, cols = direct(V, tdim, gdim, facet, x)
        co = rng.choice([-1.0, 1.0])
        quantities = ["CellVolume", "Circumradius", "MinCellEdgeLength", "MaxCellEdgeLength", "CellDiameter", "FacetArea", "FacetNormal", "CellCoordinate"]
        if tdim == 3:
            quantities += ["MinFacetEdgeLength", "MaxFacetEdgeLength"]
        # several quantities in one pass (shared memoisation), in random order
        rng.shuffle(quantities)
        src = {q: getattr(C, q)(mesh) for q in quantities}
        scal_q = [q for q in quantities if src[q].ufl_shape == ()]
        vec_q = [q for q in quantities if src[q].ufl_shape != ()]
        total = ufl.as_vector([src[q] for q in scal_q] + [src[q][i] for q in vec_q for i in range(src[q].ufl_shape[0])])
        with warnings.catch_warnings():
            warnings.simplefilter("ignore")
            low = apply_geometry_lowering(total)
        # stand-ins for the symbols that remain
        def co_(sh):
            return ufl.Coefficient(ufl.FunctionSpace(mesh, FiniteElement("Lagrange", cell, 1, tuple(sh), pb.identity_pullback, H1)))
        xs = ufl.SpatialCoordinate(mesh)
        Jv = [[cols[j][i] for j in range(tdim)] for i in range(gdim)]
        fverts = FACETS[tdim][facet]
        RV = REFV[tdim]
        rfj = [[RV[fverts[j + 1]][i] - RV[fverts[0]][i] for j in range(tdim - 1)] for i in range(tdim)] if tdim > 1 else None
        fvp = [V[i] for i in fverts]
        stand = {}
        def put(node, val, sh):
            c = co_(sh)
            stand[node] = (c, val)
        put(C.ReferenceGrad(xs), Jv, (gdim, tdim))
        put(C.CellOrigin(mesh), V[0], (gdim,))
        put(xs, x, (gdim,))
        put(C.CellOrientation(mesh), co, ())
        put(C.ReferenceCellVolume(mesh), 1.0 / FACT[tdim], ())
        put(C.ReferenceFacetVolume(mesh), 1.0 / FACT[tdim - 1], ())
        put(C.ReferenceNormal(mesh), REFN[tdim][facet], (tdim,))
        if tdim > 1:
            put(C.CellEdgeVectors(mesh), [sub(V[b], V[a]) for a, b in EDGES[tdim]], (len(EDGES[tdim]), gdim))
            put(C.CellFacetJacobian(mesh), rfj, (tdim, tdim - 1))
        if tdim == 3:
            put(C.FacetEdgeVectors(mesh), [sub(fvp[2], fvp[1]), sub(fvp[2], fvp[0]), sub(fvp[1], fvp[0])], (3, gdim))
        e2 = replace(low, {k_: v[0] for k_, v in stand.items()})
        tup = lambda v: tuple(tup(w) for w in v) if isinstance(v, list) else v
        m = {v[0]: tup(v[1]) for v in stand.values()}
        got = [float(e2((0.0,) * gdim, m, (i,))) for i in range(e2.ufl_shape[0])]
        exp = [want[q] for q in scal_q] + [want[q][i] for q in vec_q for i in range(src[q].ufl_shape[0])]
        names = list(scal_q) + ["%s[%d]" % (q, i) for q in vec_q for i in range(src[q].ufl_shape[0])]
        desc = "%s in %dD, vertices %s, facet %d" % (cellname, gdim, V, facet)
        problems = []
        for nme, g, w in zip(names, got, exp):
            if abs(g - w) > 1e-7 * max(1.0, abs(w)):
                problems.append("%s lowered to an expression with value %.10g, the cell has %.10g" % (nme, g, w))
        # two meshes of one cell type in ONE lowering call (anything the applier caches must be per mesh, not per cell type)
        if tdim > 1:
            gdim2 = gdim if rng.random() < 0.6 else (3 if tdim == 2 else gdim)
            mesh2 = ufl.Mesh(LagrangeElement(cell, 1, (gdim2,)))
            while True:
                V2 = [[rng.randint(-6, 6) / rng.choice([1, 2]) for _ in range(gdim2)] for _ in range(tdim + 1)]
                if abs(gram_det([sub(V2[j + 1], V2[0]) for j in range(tdim)])) > 0.05:
                    break
            qs = [("MinCellEdgeLength", mesh, V), ("MaxCellEdgeLength", mesh2, V2), ("CellDiameter", mesh2, V2), ("MinCellEdgeLength", mesh2, V2), ("CellDiameter", mesh, V), ("MaxCellEdgeLength", mesh, V)]
            rng.shuffle(qs)
            with warnings.catch_warnings():
                warnings.simplefilter("ignore")
                low2 = apply_geometry_lowering(ufl.as_vector([getattr(C, q)(mm) for q, mm, _ in qs]))
            ev1 = ufl.Coefficient(ufl.FunctionSpace(mesh, FiniteElement("Lagrange", cell, 1, (len(EDGES[tdim]), gdim), pb.identity_pullback, H1)))
            ev2 = ufl.Coefficient(ufl.FunctionSpace(mesh2, FiniteElement("Lagrange", cell, 1, (len(EDGES[tdim]), gdim2), pb.identity_pullback, H1)))
            e3 = replace(low2, {C.CellEdgeVectors(mesh): ev1, C.CellEdgeVectors(mesh2): ev2})
            m3 = {ev1: tup([sub(V[b], V[a]) for a, b in EDGES[tdim]]), ev2: tup([sub(V2[b], V2[a]) for a, b in EDGES[tdim]])}
            def lens(VV):
                return [norm(sub(VV[b], VV[a])) for a, b in EDGES[tdim]]
            for i, (q, mm, VV) in enumerate(qs):
                try:
                    g3 = float(e3((0.0,) * gdim, m3, (i,)))
                except Exception as ex:  # noqa
                    problems.append("two meshes in one lowering call: %s cannot be evaluated (%s)" % (q, type(ex).__name__))
                    break
                w3 = min(lens(VV)) if q.startswith("Min") else max(lens(VV))
                if abs(g3 - w3) > 1e-7 * max(1.0, abs(w3)):
                    problems.append("two meshes of one cell type in one lowering call: %s of the %s mesh lowered to an expression with value %.10g, the cell has %.10g" % (q, "first" if mm is mesh else "second", g3, w3))
                    break
        # cell normal (manifolds of codimension one)
        if tdim == gdim - 1:
            with warnings.catch_warnings():
                warnings.simplefilter("ignore")
                cn = replace(apply_geometry_lowering(C.CellNormal(mesh)), {k_: v[0] for k_, v in stand.items()})
            nv = [float(cn((0.0,) * gdim, m, (i,))) for i in range(gdim)]
            if abs(norm(nv) - 1) > 1e-9 or any(abs(dot(nv, c)) > 1e-9 for c in cols):
                problems.append("CellNormal %s is not a unit normal of the cell" % nv)
            else:
                if tdim == 2:
                    a, b = cols
                    cr = [a[1] * b[2] - a[2] * b[1], a[2] * b[0] - a[0] * b[2], a[0] * b[1] - a[1] * b[0]]
                else:
                    cr = [-cols[0][1], cols[0][0]]
                if dot(nv, cr) * co <= 0:
                    problems.append("CellNormal %s has the wrong orientation (co = %s)" % (nv, co))
        return cellname, gdim, desc, problems

    def oracle(self, ctx, ev):
        rng = random.Random(ctx.seed * 1237 + 7)
        n = 150 if ctx.quick else 3000
        out, seen, hist = [], set(), {}
        samples = []
        for k in range(n):
            try:
                cellname, gdim, desc, problems = self.oracle_case(rng, k)
            except Exception as ex:  # noqa
                cellname, gdim, desc, problems = "?", 0, "case %d" % k, ["lowering or evaluation raised %s: %s" % (type(ex).__name__, str(ex)[:150])]
            hist["%s%d" % (cellname, gdim)] = hist.get("%s%d" % (cellname, gdim), 0) + 1
            if len(samples) < 3:
                samples.append(desc)
            if problems:
                key = "C07:%s%d:%s" % (cellname, gdim, problems[0].split(" ")[0])
                if key not in seen and len(out) < 5:
                    seen.add(key)
                    out.append(Witness("%s: %s" % (desc, problems[0]), key, dict(kind="value", seed=ctx.seed, k=k, cell=desc, problems=problems[:4])))
        ev.cov["evaluations"] = n
        ev.cov["distinct_nontrivial"] = n
        ev.cov["cells"] = hist
        ev.cov["rule"] = ("oracle: random non-degenerate affine cells (rational vertices) of 6 (cell, gdim) kinds, random facet, random orientation; 8-10 quantities lowered in one pass in random order and "
                          "evaluated numerically; every case is a distinct random cell; the proof covers every real cell")
        ev.cov["samples"] = samples
        return out

    def replay(self, ctx, data):
        d = data.get("data", {})
        rng = random.Random(int(d.get("seed", 0)) * 1237 + 7)
        problems, desc = [], ""
        for k in range(int(d.get("k", 0)) + 1):
            try:
                _, _, desc, problems = self.oracle_case(rng, k)
            except Exception as ex:  # noqa
                problems = ["raised %s" % type(ex).__name__]
        if problems:
            return Witness("%s: %s" % (desc, problems[0]), data.get("key", "C07"), d)
        return None


PROP = C07()
