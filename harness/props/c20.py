"""C20 Type dispatch stays valid when new expression types are registered later.
Tie: correspondence on random operation histories (register type / instantiate algorithm class / apply), each history run
in a forked child of a process that has only imported ufl, against the Lean state-machine model (Drivers/C20.lean)."""
import os, random, json, sys
import common
from common import Prop, Witness, Failure, LEAN, run_cmd

# algorithm classes of the harness: name -> (kind, parent, handler names defined in the class body)
ALGS = {
    "MF1": ("MF", None, ["expr", "terminal"]),
    "MF2": ("MF", "MF1", ["sum", "operator", "new0"]),
    "MF3": ("MF", None, []),
    "MF4": ("MF", "MF2", ["math_function", "new1", "form_argument"]),
    "TR1": ("TR", None, ["expr", "terminal"]),
    "TR2": ("TR", "TR1", ["operator", "new1", "sum"]),
    "TR3": ("TR", None, ["terminal"]),
    "TR4": ("TR", "TR2", ["new2", "coefficient"]),
}
BASES = {"op": "Operator", "term": "Terminal", "math": "Sin", "cond": "Condition"}
OLD = ["sum", "coefficient", "sin", "int_value", "indexed"]


def gen_history(rng, n):
    h, nreg = [], 0
    for _ in range(n):
        r = rng.random()
        if r < 0.3 and nreg < 3:
            h.append(["reg", nreg, rng.choice(list(BASES))]); nreg += 1
        elif r < 0.5:
            h.append(["inst", rng.choice(list(ALGS))])
        elif r < 0.56:
            h.append(["mapfn", rng.choice(["old"] + ["new%d" % k for k in range(nreg)])])
        elif r < 0.64:
            h.append(["real", rng.choice(["lower", "renumber", "degree", "strip"]), rng.choice(["old"] + ["new%d" % k for k in range(nreg)])])
        else:
            t = rng.choice(OLD + ["new%d" % k for k in range(nreg)] * 2)
            h.append(["apply", rng.choice(list(ALGS)), t])
    return h


def run_history_child(h):
    """Executed in a forked child: returns list of outcome strings (one per op)."""
    import warnings
    warnings.simplefilter("ignore")
    import ufl
    from ufl.core.ufl_type import ufl_type
    from ufl.core.operator import Operator
    from ufl.core.terminal import Terminal
    from ufl.corealg.multifunction import MultiFunction
    from ufl.algorithms.transformer import Transformer
    from ufl.classes import Sin, Condition
    from utils import LagrangeElement, FiniteElement  # noqa
    from ufl import triangle, Mesh, FunctionSpace, Coefficient
    mesh = Mesh(LagrangeElement(triangle, 1, (2,)))
    f = Coefficient(FunctionSpace(mesh, LagrangeElement(triangle, 1)))
    g = Coefficient(FunctionSpace(mesh, LagrangeElement(triangle, 1, (2,))))
    # algorithm classes: handlers return their own name
    def mk(name):
        kind, parent, hs = ALGS[name]
        base = classes[parent] if parent else (MultiFunction if kind == "MF" else Transformer)
        ns = {}
        for hn in hs:
            if kind == "MF":
                ns[hn] = (lambda hn: lambda self, o, *ops: hn)(hn)
            else:
                ns[hn] = (lambda hn: lambda self, o: hn)(hn)
        return type(name, (base,), ns)
    classes = {}
    for name in ALGS:
        classes[name] = mk(name)
    new = {}
    def register(k, base):
        nm = "New%d" % k
        if base == "op":
            def init(self, a):
                Operator.__init__(self, (a,))
            C = type(nm, (Operator,), {"__slots__": (), "__init__": init})
            C = ufl_type(num_ops=1, inherit_shape_from_operand=0, inherit_indices_from_operand=0)(C)
            mkobj = lambda: C(f)
        elif base == "term":
            ns = {"__slots__": (), "ufl_shape": (), "ufl_free_indices": (), "ufl_index_dimensions": (),
                  "ufl_domains": lambda self: (), "_ufl_signature_data_": lambda self, r: (nm,),
                  "__str__": lambda self: nm, "__repr__": lambda self: nm + "()",
                  "__eq__": lambda self, other: type(other) is type(self), "__hash__": Terminal.__hash__,
                  "_ufl_compute_hash_": lambda self: 17 + k}
            C = ufl_type(is_terminal=True)(type(nm, (Terminal,), ns))
            mkobj = lambda: C()
        elif base == "math":
            C = ufl_type()(type(nm, (Sin,), {"__slots__": ()}))
            mkobj = lambda: C(f)
        else:
            def init(self, a, b):
                Condition.__init__(self, (a, b))
            C = ufl_type(num_ops=2)(type(nm, (Condition,), {"__slots__": (), "__init__": init}))
            mkobj = lambda: C(f, f)
        assert C._ufl_handler_name_ == "new%d" % k, C._ufl_handler_name_
        new["new%d" % k] = mkobj
    olds = {"sum": lambda: f + 1, "coefficient": lambda: f, "sin": lambda: ufl.sin(f), "int_value": lambda: ufl.as_ufl(3),
            "indexed": lambda: g[0]}
    out = []
    for op in h:
        try:
            if op[0] == "reg":
                register(op[1], op[2]); out.append("ok")
            elif op[0] == "inst":
                classes[op[1]](); out.append("ok")
            elif op[0] == "apply":
                o = (olds.get(op[2]) or new[op[2]])()
                a = classes[op[1]]()
                r = a(o, *[None] * len(o.ufl_operands)) if ALGS[op[1]][0] == "MF" else a.visit(o)
                out.append("handler:" + str(r))
            elif op[0] == "mapfn":
                from ufl.corealg.map_dag import map_expr_dag
                o = f * f if op[1] == "old" else new[op[1]]()
                map_expr_dag(lambda e, *ops: e, o)
                out.append("ok")
            elif op[0] == "real":
                o = f * f if op[2] == "old" else (new[op[2]]() * f if not isinstance(new[op[2]](), Condition) else ufl.conditional(new[op[2]](), f, f))
                from ufl.algorithms.apply_algebra_lowering import apply_algebra_lowering
                from ufl.algorithms.renumbering import renumber_indices
                from ufl.algorithms.estimate_degrees import estimate_total_polynomial_degree
                from ufl.algorithms.transformer import strip_variables
                fn = {"lower": apply_algebra_lowering, "renumber": renumber_indices, "strip": strip_variables,
                      "degree": lambda e: estimate_total_polynomial_degree(e) and e}[op[1]]
                r = fn(o)
                out.append("ok")
        except ValueError as e:
            # the default handler bound to the name `ufl_type` is `undefined`, which raises this ValueError
            out.append("handler:ufl_type" if "No handler defined" in str(e) else "error:ValueError")
        except Exception as e:  # noqa
            out.append("error:" + type(e).__name__)
    return out


def run_histories(hs):
    """Fork one child per history from this process (which must not have registered anything)."""
    import ufl  # noqa: make sure the parent has imported the library once
    import ufl.algorithms  # noqa
    res = []
    for h in hs:
        r, w = os.pipe()
        pid = os.fork()
        if pid == 0:
            os.close(r)
            try:
                out = run_history_child(h)
            except BaseException as e:  # noqa
                out = ["crash:" + type(e).__name__ + ":" + str(e)[:200]]
            os.write(w, json.dumps(out).encode())
            os._exit(0)
        os.close(w)
        data = b""
        while True:
            chunk = os.read(r, 65536)
            if not chunk:
                break
            data += chunk
        os.close(r)
        os.waitpid(pid, 0)
        res.append(json.loads(data.decode() or '["crash:nodata"]'))
    return res


def fmt_history(h):
    return " ; ".join(" ".join(map(str, op)) for op in h)


def header():
    """alg/type declarations for the Lean driver, computed from the live classes."""
    import ufl.classes as C
    from ufl.corealg.multifunction import MultiFunction
    from ufl.algorithms.transformer import Transformer
    def mro_names(cls):
        return [c._ufl_handler_name_ for c in cls.mro() if "_ufl_handler_name_" in vars(c) or c.__name__ == "UFLType"] 
    def mro(cls):
        out = []
        for c in cls.mro():
            hn = vars(c).get("_ufl_handler_name_")
            if hn:
                out.append(hn)
        return out + ["ufl_type"] if "ufl_type" not in out else out
    lines = []
    cand = sorted(C.Expr._ufl_all_handler_names_ | {"new0", "new1", "new2", "ufl_type"})
    base_defaults = {"MF": [n for n in cand if hasattr(MultiFunction, n)], "TR": [n for n in cand if hasattr(Transformer, n)]}
    for name, (kind, parent, hs) in ALGS.items():
        d, p = list(hs), parent
        while p:
            d += ALGS[p][2]; p = ALGS[p][1]
        d += base_defaults[kind]
        lines.append("alg %s %s" % (name, " ".join(sorted(set(d)))))
    old_cls = {"sum": C.Sum, "coefficient": C.Coefficient, "sin": C.Sin, "int_value": C.IntValue, "indexed": C.Indexed}
    for t in OLD:
        lines.append("type %s %s" % (t, " ".join(mro(old_cls[t]))))
    base_mro = {b: mro(getattr(C, cn)) for b, cn in BASES.items()}
    return lines, base_mro


def to_lines(h, base_mro):
    out = ["begin"]
    for op in h:
        if op[0] == "reg":
            out.append("reg new%d new%d %s" % (op[1], op[1], " ".join(base_mro[op[2]])))
        else:
            out.append(" ".join(map(str, op)))
    return out


class C20(Prop):
    pid = "C20"
    lean_modules = ["UflVerif.Props.C20"]
    min_theorems = 4
    trusted = ["correspondence harness harness/props/c20.py: histories run in forked children of a process that has only imported ufl; "
               "the harness's own MultiFunction/Transformer subclasses return the name of the handler that ran",
               "modelled rather than verified: Python attribute lookup (hasattr/getattr) is modelled as membership of the handler name in the class's visible-name set, "
               "computed from the live classes for the correspondence"]
    assumptions = ["algorithm *instances* are created after the types they are applied to (instances are per-application in ufl); an instance created before a registration keeps its own table",
                   "every algorithm class inherits the default `ufl_type` handler and every type's MRO ends in the UFL base type (WFAlg / WFMro); both are what the two base classes guarantee"]

    def correspondence(self, ctx, ev):
        rng = random.Random(ctx.seed * 7919 + 20)
        n = 150 if ctx.quick else 1500
        corpus = [[["inst", "MF1"], ["reg", 0, "op"], ["apply", "MF1", "new0"]],
                  [["reg", 0, "op"], ["apply", "TR1", "new0"]],
                  [["inst", "MF2"], ["reg", 0, "math"], ["apply", "MF2", "new0"], ["apply", "MF1", "new0"]],
                  [["inst", "TR4"], ["inst", "TR2"], ["reg", 0, "cond"], ["reg", 1, "op"], ["reg", 2, "term"], ["apply", "TR4", "new2"], ["apply", "TR2", "new1"]],
                  [["inst", "MF4"], ["reg", 0, "term"], ["reg", 1, "math"], ["apply", "MF4", "new1"], ["real", "lower", "new1"], ["real", "strip", "new1"]]]
        hs = corpus + [gen_history(rng, rng.randint(3, 10)) for _ in range(n)]
        hdr, base_mro = header()
        impl = run_histories(hs)
        text = "\n".join(hdr + [l for h in hs for l in to_lines(h, base_mro)]) + "\n"
        rc, out = run_cmd(["lake", "env", "lean", "--run", "Drivers/C20.lean"], cwd=LEAN, input=text, timeout=1800)
        model = [l for l in out.splitlines() if l.strip()]
        fails, k = [], 0
        self.bad = []
        distinct = set()
        kinds = {}
        if rc != 0 or len(model) != sum(len(h) for h in hs):
            return [Failure("correspondence", "C20 driver", "exit %d, %d lines for %d ops: %s" % (rc, len(model), sum(len(h) for h in hs), out[-400:]))]
        for h, io in zip(hs, impl):
            mo = model[k:k + len(h)]; k += len(h)
            distinct.add(fmt_history(h))
            for op, a, b in zip(h, io, mo):
                kinds[op[0]] = kinds.get(op[0], 0) + 1
                if op[0] in ("apply", "real", "inst", "mapfn") and (a.startswith("error:") or a.startswith("crash")):
                    self.bad.append(("after history [%s]: %s -> %s" % (fmt_history(h[:h.index(op)]), " ".join(map(str, op)), a), dict(history=h, op=op, outcome=a)))
            if io != mo and len(fails) < 10:
                fails.append(Failure("correspondence", "dispatch-history", "history: %s | impl: %s | model: %s" % (fmt_history(h), io, mo), case=h))
        nontrivial = len([1 for h in set(distinct) if "reg" in h and "apply" in h])
        ev.cov["evaluations"] = sum(len(h) for h in hs)
        ev.cov["distinct_nontrivial"] = nontrivial
        ev.cov["traces_validated_against_impl"] = len(hs)
        ev.cov["rule"] = ("random histories (3..10 ops) over: register one of 4 kinds of new Expr subclass (<=3 per history), instantiate one of 8 harness algorithm "
                          "classes (4 MultiFunction, 4 Transformer, with inheritance and handlers named after not-yet-registered types), apply to old/new types, run 4 real "
                          "passes on expressions containing new types; each history in a fresh forked process; non-trivial = distinct history with >=1 registration and >=1 application")
        ev.cov["op_histogram"] = kinds
        ev.cov["samples"] = [fmt_history(h) + "  =>  " + " ".join(o) for h, o in list(zip(hs, impl))[:4]]
        return fails

    def oracle(self, ctx, ev):
        seen, out = set(), []
        for w, d in getattr(self, "bad", []):
            key = "C20:%s:%s" % (d["op"][1], d["outcome"])
            if key not in seen:
                seen.add(key)
                out.append(Witness(what=w, key=key, data=d))
        return out[:5]

    def replay(self, ctx, data):
        h = data["data"]["history"]
        out = run_histories([h])[0]
        for op, o in zip(h, out):
            if op[0] in ("apply", "real", "inst", "mapfn") and o.startswith(("error:", "crash")):
                return Witness("history [%s] -> %s" % (fmt_history(h), out), data.get("key", "C20"), dict(history=h, outcome=out))
        return None


PROP = C20()
