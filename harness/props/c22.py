"""C22 Block extraction partitions mixed forms.

Tie (correspondence): the Lean model of `FormSplitter` (handlers argument / indexed / restricted / reuse_if_untouched
with the real constructor layer) and of the loops of `extract_blocks` (Model/FormSplit.lean, Drivers/C22.lean) is compared
tree-for-tree with /repo on generated linear and bilinear forms on `MixedElement` spaces and `MixedFunctionSpace`s
(2-4 sub-spaces: scalar, vector, tensor, symmetric, Piola-mapped, piecewise constant, nested mixed), for every block index,
both values of `replace_argument`, the all-blocks / row / single-block call modes.

Oracle (the property read literally on the implementation's output, values through the denotational `eval`, exact rationals,
side-aware valuation): (1) every block (i, j) has the value of the form at the zero-padded i-th test / j-th trial
sub-function; (2) the blocks returned by the all-blocks call sum to the form (per integral key); (3) a block mentions no
other sub-function (syntactically, and its value does not move when every other sub-function is re-drawn);
(4) the call modes agree with each other; (5) nothing raises and block integrands are scalar."""
import itertools
import json
import random
from fractions import Fraction

import common
from common import Prop, Witness, Failure
import uflio, leandrv
from props.c05 import canon, _V
from props.c24 import parse_reply
from props.c22gen import Case

leandrv.EXES["C22"] = "c22drv"

SIDES = ["", "+|", "-|"]


def _known_local():
    return {}


def opt(x):
    return "-" if x is None else str(int(x))


def ikey(itg):
    return uflio.enc(repr((itg.integral_type(), itg.subdomain_id(), repr(itg.ufl_domain()), sorted(itg.metadata().items()),
                           repr(itg.subdomain_data()))))


def ser_form(F, memo):
    return "(" + " ".join("(%s %s)" % (ikey(itg), uflio.ser(itg.integrand(), memo)) for itg in F.integrals()) + ")"


def ser_blocks(b, memo):
    from ufl.classes import Form
    if b is None:
        return "N"
    if isinstance(b, Form):
        return "(F" + "".join(" (%s %s)" % (ikey(itg), uflio.ser(itg.integrand(), memo)) for itg in b.integrals()) + ")"
    return "(T" + "".join(" " + ser_blocks(x, memo) for x in b) + ")"


def flat_blocks(b, path=()):
    from ufl.classes import Form
    if b is None:
        return
    if isinstance(b, Form):
        yield path, b
        return
    for k, x in enumerate(b):
        yield from flat_blocks(x, path + (k,))


def ndindex(shape):
    return list(itertools.product(*[range(n) for n in shape]))


class Info:
    """what the splitter reads from the function spaces of the form's arguments"""

    def __init__(self, F, keep):
        import ufl
        from ufl.algorithms.analysis import extract_type
        from ufl.classes import Terminal, Argument, MultiIndex
        self.subs = {}        # mixed-element argument -> [sub-argument]
        self.offs = {}        # mixed-element argument -> [(offset, shape)]
        cc = []
        terms = sorted(extract_type(F, Terminal), key=lambda t: repr(t))
        for t in terms:
            if isinstance(t, MultiIndex):
                continue
            try:
                if t.is_cellwise_constant():
                    cc.append(uflio.enc(repr(t)))
            except Exception:  # noqa
                pass
            if isinstance(t, Argument) and t.part() is None:
                els = t.ufl_element().sub_elements
                if len(els) > 0:
                    dom = t.ufl_function_space().ufl_domain()
                    sas, offs, off = [], [], 0
                    for e in els:
                        sa = Argument(ufl.FunctionSpace(dom, e), t.number(), part=t.part())
                        sas.append(sa)
                        sh = tuple(sa.ufl_shape)
                        offs.append((off, sh))
                        n = 1
                        for d in sh:
                            n *= d
                        off += n
                    self.subs[t] = sas
                    self.offs[t] = offs
                    keep.append(sas)
        self.args = [t for t in terms if isinstance(t, Argument)]
        self.wire_subs = "(" + " ".join("(%s %s)" % (uflio.enc(repr(a)), " ".join("(%s %s)" % (uflio.enc(repr(s)), uflio.nats(s.ufl_shape)) for s in sas))
                                        for a, sas in self.subs.items()) + ")"
        self.wire_cc = "(" + " ".join(cc) + ")"


class Values:
    """exact random values (per side) for every terminal of a form and for the sub-arguments"""

    def __init__(self, rng, F, gdim):
        from ufl.algorithms.analysis import extract_type
        from ufl.classes import Terminal, MultiIndex, Label, Argument
        self.rng, self.gdim = rng, gdim
        self.val = {}     # (terminal, side) -> {comp: (value, [jet per direction])}
        self._scope = {}
        self.terms = [t for t in sorted(extract_type(F, Terminal), key=lambda t: repr(t)) if not isinstance(t, (MultiIndex, Label))]
        for t in self.terms:
            try:
                shape = tuple(t.ufl_shape)
            except Exception:  # noqa
                continue
            for s in SIDES:
                self.val[(t, s)] = self.draw(shape)

    def q(self):
        return Fraction(self.rng.randint(-5, 5), self.rng.choice([1, 1, 2, 4]))

    def draw(self, shape):
        return {c: (self.q(), [self.q() for _ in range(self.gdim)]) for c in ndindex(shape)}

    @staticmethod
    def entries(t, side, table, jets=True):
        k = uflio.enc(side + repr(t))
        out = []
        for c, (v, js) in table.items():
            out.append("(V %s %s %d %d)" % (k, uflio.nats(c), v.numerator, v.denominator))
            if jets:
                for d, j in enumerate(js):
                    out.append("(J %s %s (%d) %d %d)" % (k, uflio.nats(c), d, j.numerator, j.denominator))
        return out

    def wire(self, e, override=None, extra=()):
        """valuation restricted to the terminals (and sides) that occur in the lowered integrand `e`;
        override: {(terminal, side): table}; extra: [(terminal, side, table)] for the sub-arguments"""
        from ufl.algorithms.analysis import extract_type
        from ufl.classes import Terminal, Argument, Restricted
        info = self._scope.get(id(e))
        if info is None:
            ts = set(extract_type(e, Terminal))
            sides = ["+|", "-|"] if extract_type(e, Restricted) else [""]
            info = self._scope[id(e)] = (e, ts, sides)
        _, ts, sides = info
        out = []
        for (t, s), tab in self.val.items():
            if t not in ts or s not in sides:
                continue
            tab = (override or {}).get((t, s), tab)
            out += self.entries(t, s, tab, jets=isinstance(t, Argument))
        for (t, s, tab) in extra:
            if t in ts and s in sides:
                out += self.entries(t, s, tab)
        return "(" + " ".join(out) + ")"


def probe_variants():
    """which variant of the anchored code is installed: (fxB, fx) = (fix_C22_1 applied?, fix_C22_2 applied?).
    The Lean model has both variants (Model/FormSplit.lean); the correspondence runs against the one detected here, the
    theorems exist for both (counterexample + partial for the code as it stands, full statement for the repaired code)."""
    import ufl
    from utils import LagrangeElement, MixedElement
    from ufl.algorithms.formsplitter import FormSplitter, extract_blocks
    from ufl.classes import MultiIndex, FixedIndex, Form
    cell = ufl.triangle
    mesh = ufl.Mesh(LagrangeElement(cell, 1, (2,)))
    W = ufl.FunctionSpace(mesh, MixedElement([LagrangeElement(cell, 1, (2,)), LagrangeElement(cell, 1)]))
    v = ufl.TestFunction(W)
    b = extract_blocks(v[0] * ufl.dx + v[2] * ufl.dx)
    fxB = all(x is None or isinstance(x, Form) for x in b)
    child = ufl.as_matrix([[v[0], v[1]], [v[2], v[0]]])
    try:
        r = FormSplitter().indexed(None, child, MultiIndex((FixedIndex(0), FixedIndex(1))))
        fx = r.ufl_shape == ()
    except Exception:  # noqa
        fx = False
    return fxB, fx


def shortcut_hazard(F, info, nblk, repl):
    """does the form contain an all-fixed Indexed node with >= 2 indices whose operand the splitter turns into a list tensor
    (the input class of the recorded defect D3)?"""
    from ufl.algorithms.formsplitter import FormSplitter
    from ufl.corealg.map_dag import map_expr_dag
    from ufl.corealg.traversal import unique_pre_traversal
    from ufl.classes import Indexed, FixedIndex, ListTensor
    for itg in F.integrals():
        for o in unique_pre_traversal(itg.integrand()):
            if isinstance(o, Indexed):
                ii = o.ufl_operands[1].indices()
                if len(ii) >= 2 and all(isinstance(i, FixedIndex) for i in ii):
                    for i in range(nblk[0] + 1):
                        for j in (list(range(nblk[1] + 1)) if len(nblk) > 1 else [None]):
                            fs = FormSplitter(replace_argument=repl)
                            fs.idx = [i, j]
                            try:
                                c = map_expr_dag(fs, o.ufl_operands[0])
                            except Exception:  # noqa
                                return True
                            if isinstance(c, ListTensor):
                                return True
    return False


def share_form(F):
    """the same form with structurally equal sub-expressions of an integrand represented by ONE object (what
    `map_expr_dag(.., compress=True)` produces).  `reuse_if_untouched` and the collapsing rules of `ListTensor.__new__`
    compare operands by object identity; the tree model compares structurally, so the tree-exact correspondence is run on
    maximally shared inputs (the value oracle runs on the forms as generated)."""
    from ufl.algorithms.map_integrands import map_integrand_dags
    from ufl.corealg.multifunction import MultiFunction

    class Ident(MultiFunction):
        expr = MultiFunction.reuse_if_untouched

    G = map_integrand_dags(Ident(), F)
    return map_integrand_dags(Ident(), G)


def lower(e):
    from ufl.algorithms.apply_algebra_lowering import apply_algebra_lowering
    from ufl.algorithms.apply_derivatives import apply_derivatives
    return apply_derivatives(apply_algebra_lowering(e))


def same_form(a, b):
    """equal forms up to the numbering of bound index objects (two calls of the splitter create their fresh indices independently)"""
    if a.equals(b):
        return True
    try:
        return a.signature() == b.signature()
    except Exception:  # noqa
        return False


class C22(Prop):
    pid = "C22"
    lean_modules = ["UflVerif.Props.C22"]
    min_theorems = 30
    trusted = ["correspondence harness/props/c22.py + c22gen.py + Drivers/C22.lean (`split`, `blocks`, side-aware `eval`)",
               "modelled rather than verified: map_expr_dag memoisation and object identity in reuse_if_untouched (structural equality), the order of `Form.arguments()` among arguments "
               "with the same number, `Form.__init__`'s canonical sorting of integrals (the model keeps the order; compared on every case), integrals identified by an opaque key "
               "(type, domain, subdomain id, metadata, subdomain data); the theorems speak about the splitter over the plain constructor layer, that the real constructors "
               "(compared tree-for-tree here) preserve values is C05/C06; the value oracle lowers compound algebra and derivatives with UFL's own passes before evaluating"]
    assumptions = ["forms whose integrands are linear in each argument (the theorem's hypothesis `LinIn`, decidable); the value of a form is read per integral key as the sum of the "
                   "integrand values at an arbitrary point valuation with arbitrary weights (this is what every quadrature computes)",
                   "a mixed argument is identified with the concatenation of its sub-arguments (zero padded), exactly as the splitter's `as_vector` does"]

    # ------------------------------------------------------------------ generation
    DIRECTED = ["plain_trial", "rect", "shortcut_rank2", "shortcut_cond", "same_subs", "single_sub", "zero_block", "restricted_zero", "grad_const", "row_call",
                "jacobian", "stokes", "first_row"]

    def gen_case(self, rng, k):
        """returns (Case, form, tag) or None"""
        import ufl
        tag = "random"
        if k % 3 == 0:
            tag = self.DIRECTED[(k // 3) % len(self.DIRECTED)]
        try:
            if tag == "random":
                C = Case(rng, k)
                return C, C.form(), tag
            return self.directed(rng, k, tag)
        except Exception:  # noqa    (a UFL constructor refused a generated expression)
            self.gen_failed = getattr(self, "gen_failed", 0) + 1
            return None

    def directed(self, rng, k, tag):
        import ufl
        if tag == "rect":
            C = Case(rng, k, kind="ME", arity=2, directed="rect")
            return C, C.form(), tag
        if tag == "plain_trial":      # mixed test space, trial function on a plain (non mixed) space
            C = Case(rng, k, kind="ME", arity=2)
            V = ufl.FunctionSpace(C.mesh, C.pool[rng.choice(["P1", "P2v", "RT"])])
            u = ufl.Argument(V, 1)
            C.args[1] = [u]
            C.parts[1] = [(u, tuple(u.ufl_shape))]
            C.raw[1] = None
            C.sub_names[1] = ["<plain>"]
            return C, C.form(), tag
        if tag == "same_subs":        # the same sub-element several times: the sub-arguments of different blocks are equal objects
            C = Case(rng, k, kind=rng.choice(["ME", "MFS"]), n_sub=rng.choice([2, 3]))
            nm = rng.choice(["P1", "P1v"])
            C.sub_names = [[nm] * len(C.sub_names[0]) for _ in C.sub_names]
            C._spaces()
            return C, C.form(), tag
        if tag == "single_sub":       # a mixed element with one sub-element: as_vector([a[0], a[1]]) collapses to a
            C = Case(rng, k, kind="ME", n_sub=1)
            C.sub_names = [[rng.choice(["P1v", "P1", "RT"])] for _ in C.sub_names]
            C._spaces()
            return C, C.form(), tag
        if tag == "first_row":        # only the first block row of a MixedFunctionSpace system: the highest trial part exceeds every test part
            C = Case(rng, k, kind="MFS", arity=2, n_sub=rng.choice([2, 3, 3]))
            p, sh = C.parts[0][0]
            f = C.coef((), 0)
            tst = ufl.inner(p, C.coef(sh, 0)) if sh else p * f
            e = None
            for q, shq in C.parts[1]:
                t = tst * (ufl.inner(C.coef(shq, 0), q) if shq else q)
                e = t if e is None else e + t
            return C, e * ufl.dx + (e * f) * ufl.ds, tag
        if tag == "row_call":
            C = Case(rng, k, arity=2)
            return C, C.form(), tag
        if tag in ("jacobian", "stokes"):
            return self.pde_form(rng, k, tag)
        if tag == "grad_const":
            C = Case(rng, k, kind="ME", n_sub=2)
            C.sub_names = [["DG0", rng.choice(["P1v", "P2"])] for _ in C.sub_names]
            C._spaces()
        else:
            C = Case(rng, k, kind=("MFS" if tag == "restricted_zero" and rng.random() < 0.5 else "ME") if tag != "zero_block" else rng.choice(["ME", "MFS"]))
        f, g = C.coef((), 0), C.coef((), 0)
        num = 0
        def P(n):
            return C.parts[n]
        if tag in ("shortcut_rank2", "shortcut_cond"):
            # an all-fixed Indexed node whose operand turns into a rank-2 list tensor in some block
            x = [C.lin(0, 0) for _ in range(6)]
            if tag == "shortcut_rank2":
                T1 = ufl.as_matrix([[x[0], x[1]], [x[2], x[0]]])
                T2 = ufl.as_matrix([[x[3], 0], [0, x[3]]])
                i, j = ufl.indices(2)
                B = ufl.as_tensor((T1 + T2)[i, j], (i, j))
            else:
                M1 = ufl.as_matrix([[x[0], x[4]], [x[5], x[1]]])
                M2 = ufl.as_matrix([[x[2], x[4]], [x[5], x[1]]])
                B = ufl.conditional(ufl.lt(f, g), M1, M2)
            idx = (rng.randrange(2), rng.randrange(2))
            if rng.random() < 0.5:
                w = C.coef((2,), 0)
                e = ufl.dot(ufl.as_vector([B[idx], B[idx[::-1]]]), w)
            else:
                e = B[idx] * f
            if C.arity == 2:
                e = e * C.lin(1, 0)
            return C, e * ufl.dx, tag
        if tag == "zero_block":       # a form in which only some blocks are present
            i0 = rng.randrange(len(P(0)))
            p, sh = P(0)[i0]
            e = ufl.inner(p, C.coef(sh, 0)) if sh else p * f
            if C.arity == 2:
                j0 = rng.randrange(len(P(1)))
                q, shq = P(1)[j0]
                e = e * (ufl.inner(C.coef(shq, 0), q) if shq else q)
            return C, e * ufl.dx + (e * g) * ufl.ds, tag
        if tag == "restricted_zero":  # restrictions of list tensors / of zeros
            p, sh = P(0)[0]
            q, shq = P(0)[-1]
            a = (p[tuple(0 for _ in sh)] if sh else p)
            b = (q[tuple(0 for _ in shq)] if shq else q)
            e = (a("+") * f("-") + ufl.jump(b) * g("+") + ufl.avg(a) * ufl.avg(g))
            if C.arity == 2:
                e = e * C.lin(1, 0, "+")
            return C, e * ufl.dS, tag
        if tag == "grad_const":       # derivatives of piecewise constant sub-functions, of constants times arguments
            p0, _ = C.parts[0][0]
            c = ufl.Constant(C.mesh)
            a, offs = C.raw[0]
            e = ufl.grad(p0)[0] * f + ufl.inner(ufl.grad(a), ufl.grad(C.coef((a.ufl_shape[0],), 0) if (a.ufl_shape[0],) in C.G.coeffs else a)) * 0 + ufl.div(ufl.as_vector([c * p0] * C.gdim)) + ufl.grad(c * a)[0, 1]
            if C.arity == 2:
                e = e * C.lin(1, 1)
            return C, e * ufl.dx, tag
        return None

    def pde_form(self, rng, k, tag):
        """forms as users write them: a Stokes / Navier-Stokes-like system, and the Jacobian that expand_derivatives makes
        of a nonlinear residual on the mixed space"""
        import ufl
        from utils import LagrangeElement, MixedElement
        from ufl.algorithms import expand_derivatives
        C = Case(rng, k, kind=rng.choice(["ME", "MFS"]), arity=2 if tag == "jacobian" or rng.random() < 0.7 else 1, n_sub=2)
        g = C.gdim
        C.sub_names = [["P2v", "P1"] for _ in C.sub_names]
        C._spaces()
        (v, _), (q, _) = C.parts[0]
        f = C.coef((g,), 0)
        nu = C.coef((), 0)
        if tag == "stokes":
            if C.arity == 1:
                F = ufl.inner(f, v) * ufl.dx + q * nu * ufl.dx + ufl.dot(f, ufl.FacetNormal(C.mesh)) * q * ufl.ds
                return C, F, tag
            (u, _), (p, _) = C.parts[1]
            a = (nu * ufl.inner(ufl.grad(u), ufl.grad(v)) - ufl.div(v) * p + q * ufl.div(u)) * ufl.dx
            a = a + ufl.inner(ufl.dot(ufl.grad(u), f), v) * ufl.dx(1) + ufl.inner(ufl.jump(u), ufl.jump(v)) * ufl.dS
            return C, a, tag
        # nonlinear residual in a coefficient of the mixed space, differentiated
        if C.kind == "ME":
            w = ufl.Coefficient(C.spaces[0])
            uu, pp = ufl.split(w)
            R = (ufl.inner(ufl.dot(ufl.grad(uu), uu), v) + nu * ufl.inner(ufl.grad(uu), ufl.grad(v)) - pp * ufl.div(v) + q * ufl.div(uu) + pp ** 2 * q) * ufl.dx
            du = C.args[1][0]
            J = expand_derivatives(ufl.derivative(R, w, du))
        else:
            V, Q = [a.ufl_function_space() for a in C.args[0]]
            uu, pp = ufl.Coefficient(V), ufl.Coefficient(Q)
            R = (ufl.inner(ufl.dot(ufl.grad(uu), uu), v) + nu * ufl.inner(ufl.grad(uu), ufl.grad(v)) - pp * ufl.div(v) + q * ufl.div(uu) + pp ** 2 * q) * ufl.dx
            du, dp = C.args[1]
            J = expand_derivatives(ufl.derivative(R, uu, du) + ufl.derivative(R, pp, dp))
        return C, J, tag

    # ------------------------------------------------------------------ correspondence + data for the oracle
    def correspondence(self, ctx, ev):
        import ufl
        from ufl.algorithms.formsplitter import FormSplitter, extract_blocks
        from ufl.corealg.map_dag import map_expr_dag
        from ufl.classes import Form
        rng = random.Random(ctx.seed * 9337 + 22)
        n = 50 if ctx.quick else 1000
        self.fxB, self.fx = probe_variants()
        ev.cov["implementation_variant"] = dict(fix_C22_1_extract_blocks_applied=self.fxB, fix_C22_2_indexed_applied=self.fx)
        memo, keep = {}, []
        self.keep = keep
        reqs, meta = [], []
        self.cases = []
        hist, taghist, rejected = {}, {}, 0
        for k in range(n):
            g = self.gen_case(rng, k)
            if g is None or g[1] is None or g[1].empty():
                continue
            C, F, tag = g
            try:
                Fs = share_form(F)
            except Exception:  # noqa
                continue
            if Fs.empty():
                continue
            keep.append((C, F, Fs))
            info = Info(F, keep)
            hist[tag] = hist.get(tag, 0) + 1
            for t in C.tags:
                taghist[t] = taghist.get(t, 0) + 1
            rejected += getattr(C, "rejected", 0)
            nblk = [max(len(p), 1) for p in C.parts]
            case = dict(C=C, F=F, tag=tag, info=info, k=k, blocks={}, calls={}, nblk=nblk)
            self.cases.append(case)
            fser = ser_form(Fs, memo)
            # --- single integrands, every block index (and one out of range / None)
            rows = list(range(nblk[0])) + [nblk[0]]
            cols = (list(range(nblk[1])) + [None]) if C.arity == 2 else [None]
            pairs = [(i, j) for i in rows for j in cols]
            if len(pairs) > 9:
                pairs = rng.sample(pairs, 9)
            for repl in ([True, False] if C.kind == "ME" and k % 2 == 0 else [C.replace_argument]):
                for (i, j) in pairs:
                    for itg in Fs.integrals()[:3]:
                        fs = FormSplitter(replace_argument=repl)
                        fs.idx = [i, j]
                        try:
                            r = map_expr_dag(fs, itg.integrand())
                            impl = "(ok %s)" % uflio.ser(r, memo)
                        except Exception as ex:  # noqa
                            r, impl = None, "(raises %s)" % type(ex).__name__
                        keep.append(r)
                        reqs.append("(split %d %d %s %s %s %s %s)" % (self.fx, repl, opt(i), opt(j), info.wire_subs, info.wire_cc, uflio.ser(itg.integrand(), memo)))
                        meta.append(("split", k, tag, (repl, i, j), itg.integrand(), r, impl))
            # --- extract_blocks in its call modes
            modes = [(None, None)]
            modes += [(rng.randrange(nblk[0]), None)]
            if C.arity == 2:
                modes += [(rng.randrange(nblk[0]), rng.randrange(nblk[1])), (nblk[0] - 1, nblk[1] - 1), (nblk[0] + 1, 0)]
            else:
                modes += [(nblk[0] - 1, None), (nblk[0] + 1, None)]
            if k % 7 == 0:
                modes += [(None, 0)]
            for (i, j) in modes:
                def call(form):
                    # the public entry point (ufl/formoperators.py); its defaults are used where they apply
                    if C.replace_argument:
                        return ufl.extract_blocks(form) if (i, j) == (None, None) else (ufl.extract_blocks(form, i) if j is None else ufl.extract_blocks(form, i, j))
                    return ufl.extract_blocks(form, i, j, replace_argument=False) if k % 2 else ufl.extract_blocks(form, i, j, False)
                try:
                    b = call(Fs)
                    impl = "(ok %s)" % ser_blocks(b, memo)
                except Exception as ex:  # noqa
                    b, impl = None, "(raises %s)" % type(ex).__name__
                keep.append(b)
                try:        # the oracle looks at the form as generated (sub-expressions not shared)
                    b0 = call(F)
                    case["calls"][(i, j)] = (b0, "(ok)")
                except Exception as ex:  # noqa
                    case["calls"][(i, j)] = (None, "(raises %s)" % type(ex).__name__)
                keep.append(case["calls"][(i, j)][0])
                reqs.append("(blocks %d %d %d %s %s - %s %s %s)" % (self.fxB, self.fx, C.replace_argument, opt(i), opt(j), info.wire_subs, info.wire_cc, fser))
                meta.append(("blocks", k, tag, (i, j), Fs, b, impl))
            if k % 3 == 0:        # the arity given explicitly (ufl.algorithms.formsplitter.extract_blocks only)
                for ar in ([C.arity, 0] if k % 2 else [3 - C.arity, 3]):
                    i, j = (rng.choice([None, 0]), None)
                    try:
                        b = extract_blocks(Fs, i, j, arity=ar, replace_argument=C.replace_argument)
                        impl = "(ok %s)" % ser_blocks(b, memo)
                    except Exception as ex:  # noqa
                        b, impl = None, "(raises %s)" % type(ex).__name__
                    keep.append(b)
                    reqs.append("(blocks %d %d %d %s %s %d %s %s %s)" % (self.fxB, self.fx, C.replace_argument, opt(i), opt(j), ar, info.wire_subs, info.wire_cc, fser))
                    meta.append(("blocks", k, tag, (i, j, "arity=%d" % ar), Fs, b, impl))
        replies = leandrv.run_driver("C22", reqs)
        fails, unsupported, distinct, changed = [], 0, set(), 0
        for (what, k, tag, arg, x, r, impl), rq, rep in zip(meta, reqs, replies):
            if rep == "(unsupported)":
                unsupported += 1
                continue
            a = "(raises)" if impl.startswith("(raises") else impl
            if what == "split" and r is not None and not (r == x):
                changed += 1
                if rq.count("(O ") >= 3:
                    distinct.add(rq)
            if canon(a) != canon(rep) and len(fails) < 10:
                fails.append(Failure("correspondence", what, "case %d [%s] %s %s: %s | impl: %s | model: %s" % (
                    k, tag, what, arg, str(x)[:200], (str(r)[:250] if r is not None else impl), rep[:300]), case=rq[:3000]))
        ev.cov["evaluations"] = len(reqs)
        ev.cov["distinct_nontrivial"] = len(distinct)
        ev.cov["splitter_changed_the_integrand"] = changed
        ev.cov["unsupported_skipped"] = unsupported
        ev.cov["traces_validated_against_impl"] = len(reqs) - unsupported
        ev.cov["case_kinds"] = hist
        ev.cov["forms"] = len(self.cases)
        ev.cov["generator_productions"] = dict(sorted(taghist.items()))
        ev.cov["generator_rejected_by_ufl"] = rejected + getattr(self, "gen_failed", 0)
        ev.cov["space_kinds"] = {kk: sum(1 for c in self.cases if c["C"].kind == kk) for kk in ("ME", "MFS")}
        ev.cov["arity"] = {str(a): sum(1 for c in self.cases if c["C"].arity == a) for a in (1, 2)}
        ev.cov["rule"] = ("linear and bilinear forms (1-3 integrals over dx/ds/dS with subdomain ids and metadata) on MixedElement spaces and MixedFunctionSpaces with 1-4 sub-spaces "
                          "(scalar/vector/tensor/symmetric/Piola/DG0/nested; trial space sometimes with a different number of sub-spaces or not mixed), integrands built from one linear leaf per "
                          "argument (components, split functions, grad/div/dx, restrictions) under sums, scalings, conditionals, variables, list tensors, component tensors, inner/dot/outer/"
                          "transpose/sym/tr; 10 directed kinds; each integrand through FormSplitter for every block index (+ out of range, None) and both replace_argument values, each form "
                          "through extract_blocks in all-blocks / row / single-block / out-of-range modes; non-trivial = distinct split request with >= 3 operator nodes whose output differs from its input")
        ev.cov["samples"] = [dict(kind=c["C"].kind, arity=c["C"].arity, subs=c["C"].sub_names, form=str(c["F"])[:160]) for c in self.cases[:3]]
        return fails

    # ------------------------------------------------------------------ oracle
    def embed_override(self, V, case, path, info):
        """valuation for `F` in which the argument with number `num` is the zero-padded sub-function path[num]"""
        C = case["C"]
        ov = {}
        for a in info.args:
            num = a.number()
            if num >= len(path) or path[num] is None:
                continue
            sel = path[num]
            for s in SIDES:
                tab = V.val.get((a, s))
                if tab is None:
                    continue
                zero = (Fraction(0), [Fraction(0)] * V.gdim)
                if a.part() is not None:
                    ov[(a, s)] = tab if a.part() == sel else {c: zero for c in tab}
                elif a in info.offs:
                    new = {}
                    for c in tab:
                        new[c] = zero
                    if sel < len(info.offs[a]):
                        off, sh = info.offs[a][sel]
                        size = len(ndindex(sh))
                        for q in range(size):
                            new[(off + q,)] = tab[(off + q,)]
                    ov[(a, s)] = new
        return ov

    def block_extra(self, V, case, path, info, scramble=False):
        """entries for the sub-arguments of block `path` (slices of the mixed argument's values)"""
        extra = []
        for a, sas in info.subs.items():
            num = a.number()
            if num >= len(path) or path[num] is None or path[num] >= len(sas):
                continue
            sa = sas[path[num]]
            off, sh = info.offs[a][path[num]]
            for s in SIDES:
                tab = V.val[(a, s)]
                sub = {c: tab[(off + q,)] for q, c in enumerate(ndindex(sh))}
                extra.append((sa, s, sub))
        return extra

    def scramble_override(self, V, case, path, info):
        """re-draw every sub-function that block `path` must not depend on"""
        C = case["C"]
        ov = {}
        for a in info.args:
            num = a.number()
            sel = path[num] if num < len(path) else None
            for s in SIDES:
                tab = V.val.get((a, s))
                if tab is None:
                    continue
                if a.part() is not None:
                    if a.part() != sel:
                        ov[(a, s)] = V.draw(tuple(a.ufl_shape))
                elif a in info.offs:
                    new = V.draw(tuple(a.ufl_shape))
                    if not C.replace_argument and sel is not None and sel < len(info.offs[a]):
                        off, sh = info.offs[a][sel]
                        for q in range(len(ndindex(sh))):
                            new[(off + q,)] = tab[(off + q,)]
                    ov[(a, s)] = new      # with replace_argument the block must not mention the mixed argument at all
        return ov

    def support_syntactic(self, case, path, f, info):
        """None or a description of an argument occurrence the block must not contain"""
        from ufl.algorithms.analysis import extract_type
        from ufl.classes import Argument, Indexed, FixedIndex
        from ufl.corealg.traversal import unique_pre_traversal
        C = case["C"]
        allowed = set()
        for a in info.args:
            num = a.number()
            sel = path[num] if num < len(path) else None
            if a.part() is not None:
                if a.part() == sel:
                    allowed.add(a)
            elif a in info.subs:
                if C.replace_argument:
                    if sel is not None and sel < len(info.subs[a]):
                        allowed.add(info.subs[a][sel])
                else:
                    allowed.add(a)
            else:
                allowed.add(a)
        for itg in f.integrals():
            for t in extract_type(itg.integrand(), Argument):
                if t not in allowed:
                    return "argument %s occurs in block %s" % (str(t), list(path))
            if not C.replace_argument:
                for o in unique_pre_traversal(itg.integrand()):
                    for a in info.offs:
                        if len(info.offs[a]) == 1:
                            continue      # one sub-element: as_vector([a[0], .., a[n-1]]) collapses to a itself
                        if isinstance(o, Indexed) and o.ufl_operands[0] == a:
                            ii = o.ufl_operands[1].indices()
                            sel = path[a.number()] if a.number() < len(path) else None
                            if sel is None or sel >= len(info.offs[a]):
                                return "component of %s in a block that selects none" % str(a)
                            off, sh = info.offs[a][sel]
                            if not (isinstance(ii[0], FixedIndex) and off <= int(ii[0]) < off + len(ndindex(sh))):
                                return "component %s of %s outside sub-function %d" % (ii[0], str(a), sel)
                        elif any(x == a for x in o.ufl_operands) and not isinstance(o, Indexed):
                            return "mixed argument %s occurs unindexed in block %s" % (str(a), list(path))
        return None

    def oracle(self, ctx, ev):
        import ufl
        from ufl.classes import Form
        rng = random.Random(ctx.seed * 6007 + 2222)
        memo, keep = {}, self.keep
        reqs = []
        plan = []      # (case, kind, payload)
        bad = []       # (what, dict(kind=.., ...))
        nblocks = 0

        lowered = {}
        hyp_meta = []

        def add(e, env):
            reqs.append("(eval %s () %s ())" % (uflio.ser(e, memo), env))
            return len(reqs) - 1

        def form_reqs(f, V, override=None, extra=()):
            """[(ikey, request index)]; None if an integrand is not scalar / cannot be lowered"""
            out = []
            for itg in f.integrals():
                e = itg.integrand()
                if e.ufl_shape != () or e.ufl_free_indices:
                    return None
                le = lowered.get(id(e))
                if le is None:
                    le = lowered[id(e)] = lower(e)
                    keep.append((e, le))
                out.append((ikey(itg), add(le, V.wire(le, override, extra))))
            return out

        for case in getattr(self, "cases", []):
            C, F, info, tag, k = case["C"], case["F"], case["info"], case["tag"], case["k"]
            desc = dict(case=tag, kind=C.kind, arity=C.arity, subs=C.sub_names, replace_argument=C.replace_argument, seed=ctx.seed, k=k, form=str(F)[:400])
            V = Values(rng, F, C.gdim)
            b, impl = case["calls"][(None, None)]
            hazard = None
            if b is None and impl.startswith("(raises"):
                hazard = shortcut_hazard(F, info, case["nblk"], C.replace_argument)
                bad.append(("extract_blocks raises %s on a well-formed %s form" % (impl[8:-1], "linear" if C.arity == 1 else "bilinear"),
                            dict(desc, kind="D3-indexed-shortcut-on-rank2-list-tensor" if hazard else "raise:allblocks")))
                continue
            try:
                whole = form_reqs(F, V)
            except Exception:  # noqa   (UFL's lowering refused the generated form: not an input for the value oracle)
                continue
            if whole is None:
                continue
            # do the hypotheses of the Lean theorems hold of the (lowered) integrands of this form?
            for itg in F.integrals():
                le = lowered.get(id(itg.integrand()))
                if le is not None:
                    hyp_meta.append((C.kind, len(reqs)))
                    reqs.append("(hyp %d %d 0 %s %s %s %s)" % (self.fx, C.replace_argument, "0" if C.arity == 2 else "-", info.wire_subs, info.wire_cc, uflio.ser(le, memo)))
            entries = []
            if isinstance(b, Form):
                entries = [((), b)]
            else:
                entries = list(flat_blocks(b))
            blocks = []
            okcase = True
            for path, f in entries:
                nblocks += 1
                if any(itg.integrand().ufl_shape != () for itg in f.integrals()):
                    if hazard is None:
                        hazard = shortcut_hazard(F, info, case["nblk"], C.replace_argument)
                    bad.append(("block %s has a tensor-valued integrand of shape %s" % (list(path), [tuple(i.integrand().ufl_shape) for i in f.integrals()]),
                                dict(desc, kind="D3-indexed-shortcut-on-rank2-list-tensor" if hazard else "nonscalar-block")))
                    okcase = False
                    continue
                msg = self.support_syntactic(case, path, f, info) if path else None
                if msg:
                    bad.append((msg, dict(desc, kind="support-syntactic")))
                try:
                    extra = self.block_extra(V, case, path, info)
                    r_blk = form_reqs(f, V, extra=extra)
                    r_emb = form_reqs(F, V, override=self.embed_override(V, case, path, info)) if path else whole
                    r_scr = form_reqs(f, V, override=self.scramble_override(V, case, path, info), extra=extra) if path else None
                except Exception:  # noqa
                    okcase = False
                    continue
                blocks.append((path, r_blk, r_emb, r_scr))
            plan.append((case, desc, whole, blocks, okcase, b))
        raw = leandrv.run_driver("C22", reqs)
        hyp_idx = {i for _, i in hyp_meta}
        vals = [("hyp", x) if i in hyp_idx else parse_reply(x) for i, x in enumerate(raw)]
        hyp = {}
        for kind, i in hyp_meta:
            flags = raw[i][4:-1].split() if raw[i].startswith("(ok ") else None
            h = hyp.setdefault(kind, dict(integrands=0, well_formed=0, admissible_plain_semantics=0, admissible_componentwise_gradient=0,
                                          linear_in_each_argument=0, all_hypotheses_block_value_and_sum=0, all_hypotheses_grad_theorems=0))
            h["integrands"] += 1
            if flags and len(flags) == 6:
                wf, sc, adm, l0, l1, admg = [f == "1" for f in flags]
                h["well_formed"] += wf and sc
                h["admissible_plain_semantics"] += adm
                h["admissible_componentwise_gradient"] += admg
                h["linear_in_each_argument"] += l0 and l1
                h["all_hypotheses_block_value_and_sum"] += wf and sc and adm and l0 and l1
                h["all_hypotheses_grad_theorems"] += wf and sc and admg and l0 and l1
        ev.cov["theorem_hypotheses_on_lowered_integrands"] = hyp

        def total(rs):
            t = {}
            for key, i in rs:
                v = vals[i]
                if v[0] != "ok":
                    return None
                t[key] = t.get(key, Fraction(0)) + v[1]
            return t

        def same(a, b):
            keys = set(a) | set(b)
            return all(_V(a.get(x, Fraction(0))) == _V(b.get(x, Fraction(0))) for x in keys)

        nval = nsum = nsupp = 0
        for case, desc, whole, blocks, okcase, b in plan:
            C = case["C"]
            tw = total(whole)
            if tw is None:
                continue
            acc, all_ok = {}, okcase
            shape_ok = True
            for path, r_blk, r_emb, r_scr in blocks:
                if r_blk is None or r_emb is None:
                    all_ok = False
                    continue
                tb, te = total(r_blk), total(r_emb)
                if tb is None or te is None:
                    all_ok = False
                    continue
                nval += 1
                for x, v in tb.items():
                    acc[x] = acc.get(x, Fraction(0)) + v
                if not same(tb, te):
                    shape_ok = False
                    bad.append(("block %s does not have the value of the form at the zero-padded sub-functions: %s vs %s" % (
                        list(path), {x[-12:]: str(v) for x, v in tb.items()}, {x[-12:]: str(v) for x, v in te.items()}), dict(desc, kind="block-value")))
                if r_scr is not None:
                    ts = total(r_scr)
                    if ts is not None:
                        nsupp += 1
                        if not same(tb, ts):
                            bad.append(("the value of block %s changes when the other sub-functions are re-drawn" % list(path), dict(desc, kind="support-value")))
            if not all_ok:
                continue
            nsum += 1
            if not same(acc, tw):
                bad.append(("the blocks returned by extract_blocks(form) sum to %s, the form to %s" % (
                    {x[-12:]: str(v) for x, v in acc.items()}, {x[-12:]: str(v) for x, v in tw.items()}), dict(desc, kind=self.classify_sum(case, b, shape_ok))))
            # call modes agree
            self.check_modes(case, desc, b, bad)
        ev.cov["oracle_forms_summed"] = nsum
        ev.cov["oracle_block_value_checks"] = nval
        ev.cov["oracle_support_value_checks"] = nsupp
        ev.cov["oracle_blocks"] = nblocks
        ev.cov["observation_row_call_returns_empty_form_on_mixed_element"] = getattr(self, "row_call_empty", 0)
        # ---- witnesses
        known = _known_local()
        out, seen, reproduced = [], set(), []
        for w, d in bad:
            key = "C22:" + d["kind"]
            if key in seen:
                continue
            seen.add(key)
            wit = Witness(what=w + " :: " + d.get("form", "")[:160].replace("\n", " "), key=key, data=d)
            merged = {x["key"] for x in common.load_known().get("findings", []) if x.get("property") == self.pid}
            if key in known and key not in merged:
                print("KNOWN-FINDING: property=C22 %s" % known[key].get("what", w))
                reproduced.append(key)
                continue
            out.append(wit)
        ev.cov["known_findings_reproduced_local"] = reproduced
        return out[:6]

    def classify_sum(self, case, b, blocks_have_the_right_value):
        """a sum mismatch is attributed to a recorded defect only if it is exactly what that defect predicts"""
        C = case["C"]
        if C.kind == "ME" and blocks_have_the_right_value and isinstance(b, tuple):
            n = len(b)
            if C.arity == 1 and all(isinstance(r, tuple) and len(r) == n for r in b) and all(
                    (r[0] is None and all(x is None for x in r)) or all(x is not None and x.equals(r[0]) for x in r) for r in b):
                return "sum:D1-linear-allblocks-duplicated-columns"
            if C.arity == 2:
                m = max(len(C.parts[1]), 1)
                if C.raw[1] is None and all(isinstance(r, tuple) and len(r) == n for r in b):
                    return "sum:D2-trial-space-not-mixed-duplicated-columns"
                if m > n and all(isinstance(r, tuple) and len(r) == n for r in b):
                    return "sum:D2-more-trial-than-test-subspaces-missing-columns"
        return "sum"

    def check_modes(self, case, desc, ball, bad):
        from ufl.classes import Form
        C = case["C"]
        for (i, j), (b, impl) in case["calls"].items():
            if (i, j) == (None, None) or i is None:
                continue
            if C.kind == "ME" and C.arity == 2 and (C.raw[1] is None or len(C.parts[1]) != len(C.parts[0])) and not getattr(self, "fxB", False):
                continue    # rows of the all-blocks result are not the blocks (recorded defect D2)
            n0 = max(len(C.parts[0]), 1)
            n1 = max(len(C.parts[1]), 1) if C.arity == 2 else None
            if i >= n0:
                continue
            if not isinstance(ball, tuple) or i >= len(ball):
                continue
            row = ball[i]
            if j is None:
                if C.arity == 1:
                    want = row[0] if (isinstance(row, tuple) and C.kind == "ME") else row
                    got = b
                    if isinstance(got, Form) and got.empty():
                        got = None
                    if (want is None) != (got is None) or (want is not None and not same_form(want, got)):
                        bad.append(("extract_blocks(L, %d) differs from entry %d of extract_blocks(L)" % (i, i), dict(desc, kind="modes:single-vs-all")))
                else:
                    # the documented result is the i-th row
                    rowl = list(row) if isinstance(row, (tuple, list)) else None
                    if isinstance(b, Form):
                        # (observation, not part of the property: on MixedElement spaces the row call runs the splitter with iy=None
                        #  and returns one empty form instead of the documented i-th row)
                        if rowl is not None and any(x is not None for x in rowl) and b.empty():
                            self.row_call_empty = getattr(self, "row_call_empty", 0) + 1
                    elif rowl is not None and isinstance(b, (tuple, list)):
                        if len(b) != len(rowl) or any((x is None) != (y is None) or (x is not None and not same_form(x, y)) for x, y in zip(b, rowl)):
                            bad.append(("extract_blocks(a, %d) differs from row %d of extract_blocks(a)" % (i, i), dict(desc, kind="modes:row-vs-all")))
            elif n1 is not None and isinstance(row, (tuple, list)) and j < len(row):
                want, got = row[j], b
                if isinstance(got, Form) and got.empty():
                    got = None
                if (want is None) != (got is None) or (want is not None and not same_form(want, got)):
                    bad.append(("extract_blocks(a, %d, %d) differs from entry (%d, %d) of extract_blocks(a)" % (i, j, i, j), dict(desc, kind="modes:single-vs-all")))

    def replay(self, ctx, data):
        d = data.get("data", {})
        c2 = common.Ctx(pid="C22", tier="quick", seed=int(d.get("seed", 0)))
        ev = common.Evidence(c2)
        self.correspondence(c2, ev)
        import os
        os.environ["C22_NO_LOCAL_KNOWN"] = "1"
        for w in self.oracle(c2, ev):
            if w.key == data.get("key"):
                return w
        return None


PROP = C22()
