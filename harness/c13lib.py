"""C13 tie of the state model of `expr_equals` (Model/ExprEq.lean, driver c13drv) with the implementation.

A *pool* is a list of live expressions: a generated expression, an unshared rebuild with the same terminal objects, a
shallow rebuild, a copy with new terminal objects (pickle), near misses (one field of one terminal occurrence changed,
operands re-ordered at one node), a sub-object of the first entry and an unrelated expression; some entries were hashed
before (all `_hash` slots filled), some only below one node, some never.  The pool is serialised in its *current memo
state* (object identities, identities of the operand tuples, which `_hash` slots are filled; terminals as class + named
constructor fields), then a random history of comparisons `pool[i] == pool[j]` is run on the live objects and on the
model; outcomes (and whether the two operand tuples are one object afterwards) must agree step by step.  Afterwards the
matrices of ==, hash-equality and repr-equality over the pool must agree with the model's `eqE / hashE / reprE` on the
structures the pool started with (history independence on the implementation)."""
import hashlib, math, pickle, struct
from fractions import Fraction
import uflio


def digest(s: str) -> int:
    return int.from_bytes(hashlib.sha1(s.encode()).digest()[:7], "big")


def _K(fields):
    return "(K %s)" % " ".join("(S %s) %s" % (n, " ".join("(N %d)" % int(v) for v in vs)) for n, vs in fields)


def _T(cls, fields):
    return "(T %s k () 0 -1 %s)" % (cls, _K(fields))


def _bits(x: float) -> int:
    return struct.unpack(">q", struct.pack(">d", x))[0]


def term_wire(o) -> str:
    """a terminal as class + named constructor fields (the field names of the observation table where it has rows; everything
    else the object's repr shows travels as digests under names the table has no row for: seen by every observer)"""
    import ufl
    from ufl.classes import (IntValue, FloatValue, ComplexValue, Zero, MultiIndex, Label, Coefficient, Argument, Constant,
                             GeometricQuantity, Identity, PermutationSymbol)
    name = o._ufl_class_.__name__
    if isinstance(o, IntValue):
        return "(I %d)" % int(o._value)
    if isinstance(o, FloatValue):
        v = float(o._value)
        if math.isnan(v):
            # the model's NaN (`.real 0 0`, not == to itself) only if the live object is not == to itself either;
            # on a tree where NaN literals compare by repr it is an ordinary literal whose payload is its repr
            return "(R 0 0)" if not bool(o == o) else _T(name, [("value", [digest(repr(o))])])
        if math.isinf(v):
            return _T(name, [("value", [_bits(v)])])
        return "(R %d %d)" % uflio.frac(v)
    if isinstance(o, ComplexValue):
        v = complex(o._value)
        if any(math.isnan(t) or math.isinf(t) for t in (v.real, v.imag)):
            f = [("re", [_bits(v.real)]), ("im", [_bits(v.imag)])]
            if (math.isnan(v.real) or math.isnan(v.imag)) and not bool(o == o):
                f.append(("nan", [1]))
            return _T(name, f)
        return "(C %d %d %d %d)" % (uflio.frac(v.real) + uflio.frac(v.imag))
    if isinstance(o, (Zero, MultiIndex)):
        return uflio._ser(o, {})
    if isinstance(o, Label):
        return _T(name, [("count", [o.count()])])
    if isinstance(o, (Identity, PermutationSymbol)):
        return _T(name, [("dim", [o._dim])])

    def mesh_fields(m):
        try:
            deg = m.ufl_coordinate_element().embedded_superdegree
        except Exception:
            deg = -1
        return [("degree", [deg]), ("mesh", [m.ufl_id()]), ("meshrepr", [digest(repr(m))])]

    def space_fields(V):
        el = V.ufl_element()
        m = V.ufl_domain()
        return [("degree", [el.embedded_superdegree if el.embedded_superdegree is not None else -1]),
                ("shape", list(el.reference_value_shape)), ("mesh", [m.ufl_id()]), ("space", [digest(repr(V))])]
    if isinstance(o, Coefficient):
        return _T(name, space_fields(o.ufl_function_space()) + [("count", [o.count()])])
    if isinstance(o, Argument):
        return _T(name, space_fields(o.ufl_function_space()) + [("number", [o.number()]), ("part", [-1 if o.part() is None else o.part()])])
    if isinstance(o, Constant):
        m = o.ufl_domain()
        return _T(name, [("mesh", [m.ufl_id()]), ("meshrepr", [digest(repr(m))]), ("shape", list(o.ufl_shape)), ("count", [o.count()])])
    if isinstance(o, GeometricQuantity):
        return _T(name, mesh_fields(o._domain))
    return _T(name, [("repr", [digest(repr(o))])])


def op_aux(o) -> str:
    name = o._ufl_class_.__name__
    if name in uflio.GRADLIKE:
        return uflio.nats(o.ufl_shape[-1:])
    if name in uflio.SHAPE_AUX or name not in uflio.KNOWN_OPS:
        try:
            return uflio.nats(o.ufl_shape)
        except Exception:
            return "()"
    return "()"


class Tags:
    """small integers for object identities; holds the objects so that ids are not re-used"""
    def __init__(self):
        self.m, self.keep = {}, []

    def of(self, o):
        k = id(o)
        if k not in self.m:
            self.m[k] = len(self.m) + 1
            self.keep.append(o)
        return self.m[k]


def wire(o, tags: Tags) -> str:
    """the object in its current memo state (reads `_hash`, `ufl_operands`, identities; requests no hash)"""
    memo = 0 if o._hash is None else 1
    if o._ufl_is_terminal_:
        return "(l %d %d %s)" % (tags.of(o), memo, term_wire(o))
    return "(n %d %d %d %s %s%s)" % (tags.of(o), tags.of(o.ufl_operands), memo, o._ufl_class_.__name__, op_aux(o),
                                     "".join(" " + wire(c, tags) for c in o.ufl_operands))


def has_nan(o) -> bool:
    """contains a literal that is not == to itself"""
    from ufl.classes import FloatValue, ComplexValue
    if o._ufl_is_terminal_:
        if isinstance(o, (FloatValue, ComplexValue)):
            return not bool(o == o)
        return False
    return any(has_nan(c) for c in o.ufl_operands)


# ---- pools -------------------------------------------------------------------------------------------------------------

def is_value(c) -> bool:
    """an expression with a shape (not a MultiIndex / Label operand)"""
    try:
        c.ufl_shape
        return True
    except Exception:
        return False


def terminals_of(e, out=None):
    if out is None:
        out = []
    if e._ufl_is_terminal_:
        out.append(e)
    else:
        for c in e.ufl_operands:
            terminals_of(c, out)
    return out


def rebuild(e, subst=None, counter=None):
    """unshared rebuild through the constructors; `subst = (k, new)` replaces the k-th terminal occurrence (pre-order)"""
    if counter is None:
        counter = [0]
    if e._ufl_is_terminal_:
        k = counter[0]
        counter[0] += 1
        if subst is not None and subst[0] == k:
            return subst[1]
        return e
    return e._ufl_expr_reconstruct_(*[rebuild(c, subst, counter) for c in e.ufl_operands])


def near_terms(t, rng):
    """terminals of the same shape that differ from `t` in one constructor field"""
    import ufl
    from ufl.classes import (IntValue, FloatValue, ComplexValue, Coefficient, Argument, Constant, GeometricQuantity)
    from utils import FiniteElement
    out = []

    def mesh2(m, did=1, ddeg=0):
        ce = m.ufl_coordinate_element()
        ce2 = FiniteElement("Lagrange", ce.cell, ce.embedded_superdegree + ddeg, ce.reference_value_shape, ufl.identity_pullback, ufl.H1)
        return ufl.Mesh(ce2, ufl_id=m.ufl_id() + did)

    def space2(V, ddeg=0, did=0):
        el = V.ufl_element()
        deg = el.embedded_superdegree or 1
        el2 = FiniteElement("Lagrange", el.cell, deg + ddeg, el.reference_value_shape, ufl.identity_pullback, ufl.H1)
        m = V.ufl_domain()
        return ufl.FunctionSpace(mesh2(m, did) if did else m, el2)
    try:
        if isinstance(t, Coefficient):
            V = t.ufl_function_space()
            out += [("count", Coefficient(V, count=t.count() + 1000)), ("degree", Coefficient(space2(V, 1), count=t.count())),
                    ("mesh", Coefficient(space2(V, 0, 1), count=t.count())), ("copy", Coefficient(V, count=t.count()))]
        elif isinstance(t, Argument):
            V = t.ufl_function_space()
            out += [("number", Argument(V, t.number() + 1, t.part())), ("part", Argument(V, t.number(), 0 if t.part() is None else t.part() + 1)),
                    ("degree", Argument(space2(V, 1), t.number(), t.part())), ("copy", Argument(V, t.number(), t.part()))]
        elif isinstance(t, Constant):
            m = t.ufl_domain()
            out += [("count", Constant(m, t.ufl_shape, count=t.count() + 1000)), ("mesh", Constant(mesh2(m), t.ufl_shape, count=t.count())),
                    ("copy", Constant(m, t.ufl_shape, count=t.count()))]
        elif isinstance(t, GeometricQuantity):
            out += [("mesh", type(t)(mesh2(t._domain))), ("degree", type(t)(mesh2(t._domain, 0, 1))), ("copy", type(t)(t._domain))]
        elif isinstance(t, IntValue):
            out += [("value", IntValue(int(t._value) + 1)), ("type", FloatValue(float(t._value))), ("copy", IntValue(int(t._value)))]
        elif isinstance(t, FloatValue):
            out += [("value", FloatValue(float(t._value) * 2 + 1)), ("nan", FloatValue(float("nan"))), ("inf", FloatValue(float("inf"))),
                    ("copy", FloatValue(float(t._value)))]
        elif isinstance(t, ComplexValue):
            out += [("im", ComplexValue(complex(t._value.real, t._value.imag + 1))), ("copy", ComplexValue(complex(t._value)))]
    except Exception:
        pass
    return out


def swap_operands(e, rng):
    """rebuild with the operands of one (random) operator node in reverse order; None if no node accepts it"""
    nodes = []

    def walk(x):
        if not x._ufl_is_terminal_:
            if len(x.ufl_operands) >= 2:
                nodes.append(x)
            for c in x.ufl_operands:
                walk(c)
    walk(e)
    rng.shuffle(nodes)
    for target in nodes[:3]:
        def go(x):
            if x._ufl_is_terminal_:
                return x
            ops = [go(c) for c in x.ufl_operands]
            if x is target:
                ops = list(reversed(ops))
            return x._ufl_expr_reconstruct_(*ops)
        try:
            r = go(e)
            if is_value(r) and r.ufl_shape == e.ufl_shape:
                return r
        except Exception:
            continue
    return None


def make_pool(G, rng, sh, depth, nan=False):
    """list of (label, expression)"""
    import ufl
    base = G.expr(sh, (), depth)
    pool = [("base", base)]

    def add(label, f):
        try:
            r = f()
        except Exception:
            return
        if r is not None and hasattr(r, "_ufl_is_terminal_"):
            pool.append((label, r))
    add("rebuild", lambda: rebuild(base))
    if not base._ufl_is_terminal_:
        add("shallow", lambda: type(base)(*base.ufl_operands))
        kids = [c for c in base.ufl_operands if is_value(c)]
        if kids:
            add("subobject", lambda: rng.choice(kids))
    add("pickle", lambda: pickle.loads(pickle.dumps(base)))
    terms = terminals_of(base)
    for _ in range(2):
        if not terms:
            break
        k = rng.randrange(len(terms))
        alts = near_terms(terms[k], rng)
        if nan:     # a NaN literal in place of a scalar terminal occurrence
            sc = [i for i, t in enumerate(terms) if is_value(t) and t.ufl_shape == () and not t.ufl_free_indices]
            if sc:
                k = rng.choice(sc)
                alts = [("nan", ufl.classes.FloatValue(float("nan")))]
        if alts:
            lab, new = rng.choice(alts)
            add("near:" + type(terms[k]).__name__ + "." + lab, lambda: rebuild(base, (k, new)))
            if lab == "nan":      # a second expression sharing the NaN object, and one with another NaN object
                add("near:shared-nan", lambda: rebuild(base, (k, new)))
                add("near:other-nan", lambda: rebuild(base, (k, ufl.classes.FloatValue(float("nan")))))
    add("swap", lambda: swap_operands(base, rng))
    add("other", lambda: G.expr(sh, (), max(1, depth - 1)))
    return pool


def prehash(pool, rng):
    """put the pool into a mixed memo state"""
    states = []
    for lab, e in pool:
        c = rng.random()
        if c < 0.35:
            hash(e)
            states.append("hashed")
        elif c < 0.6 and not e._ufl_is_terminal_ and e.ufl_operands:
            try:
                hash(rng.choice(e.ufl_operands))
                states.append("part")
            except TypeError:
                states.append("fresh")
        else:
            states.append("fresh")
    return states
