"""C04 (directed oracle, used by props/c04.py in addition to its own): diff() with respect to variables computes partial derivatives.
Tie (translator): Gen/DerivRules.lean family `variableFam` = the trees the real expand_derivatives returns for diff(op(v, v*v), v) for
every scalar operator; Props/C02/Rules.lean proves C04_rule_instances (each is the directional rule with f = v, g = v^2, f' = 1,
g' = 2v) and the C02_rule_* theorems (Mathlib HasDerivAt) that each rule is the true derivative of its operator.
Oracle / failing-input search on the implementation: for generated f over a scalar / vector / tensor variable v = variable(base)
(v used several times, nested variables w = variable(h(v)), repeated diff, two variables of equal shape in one expression) the
expansion of diff(f, v) is evaluated and compared with finite differences of f with respect to the value of v; the shape must be
f.shape + v.shape."""
import itertools, math, random, warnings
import common
from common import Prop, Witness, Failure, LEAN, write_if_changed
import gen
import derivcommon as dc


class C04Directed(Prop):
    pid = "C04"
    lean_modules = ["UflVerif.Props.C02.Rules"]
    theorem_prefix = "C0"
    min_theorems = 30
    trusted = ["translator harness/translate/derivrules.py (embeds the trees the real expand_derivatives returns for each operator)",
               "oracle harness/props/c04.py + harness/derivcommon.py: finite differences (two step sizes, kinks skipped) of UFL's own point evaluation",
               "modelled rather than verified: the theorems cover the per-operator rules of the variable ruleset on a scalar variable; composition through nesting, tensor-valued variables "
               "(identity tensors, index plumbing), nested variables and repeated diff are covered by the oracle only"]
    assumptions = ["smoothness at the sample point (stated per rule theorem); 'everything not expressed through v is held fixed' is realised by perturbing only the variable's own value"]

    def regenerate(self, ctx):
        from translate import derivrules
        txt, recs = derivrules.render()
        self.recs = recs
        p = LEAN / "UflVerif" / "Gen" / "DerivRules.lean"
        return [(p, write_if_changed(p, txt))]

    def correspondence(self, ctx, ev):
        fails = []
        for r in getattr(self, "recs", []):
            if "variable_error" in r:
                fails.append(Failure("translator", "rule:variable/%s" % r["name"], "expand_derivatives(diff(op(v, v*v), v)) fails: " + r["variable_error"]))
        ev.cov["rules_regenerated"] = len(getattr(self, "recs", []))
        return fails

    # ---------------- oracle
    def one(self, rng, k):
        """f = body[P := v] for a placeholder coefficient P of v's shape; the derivative w.r.t. the value of v in direction E_c is the
        finite difference of body[P := base + h E_c] (v does not occur otherwise)."""
        import ufl
        from ufl.algorithms import expand_derivatives, replace
        g = rng.choice([2, 3])
        G = gen.Gen(rng, gdim=g, math=(k % 2 == 0), compound=(k % 3 == 0), derivs=False, cond=(k % 5 == 0), variables=False, reuse=0.6, minmax=(k % 7 == 0))
        vshape = rng.choice([(), (), (), (2,), (g,), (2, 2), (2, 3)])
        if vshape not in G.coeffs:
            return None
        P = G.coeffs[vshape][0]                       # placeholder that the body uses
        others = [c for cs in G.coeffs.values() for c in cs if c is not P]
        fshape = rng.choice([(), (), (2,), (2, 2)])
        body = None
        for _ in range(12):
            b = G.expr(fshape, (), rng.randint(1, 3))
            if P in ufl.algorithms.analysis.extract_coefficients(b):
                body = b
                break
        if body is None:
            body = G.expr(fshape, (), 1) * (P if vshape == () else ufl.inner(P, P))
        kind = ["plain", "const_var", "nested", "twice", "two_vars", "directed_rule", "plain"][k % 7]
        base = rng.choice(others) if False else None
        # the variable wraps an expression over OTHER coefficients (its value is what is perturbed)
        Bc = ufl.Coefficient(P.ufl_function_space())
        base = Bc if rng.random() < 0.6 else (2 * Bc + (ufl.Coefficient(P.ufl_function_space())))
        if kind == "const_var":
            # a variable whose value is constant over the cell (a Constant or a literal): "spatially constant" is not "independent of v"
            vshape, fshape = (), ()
            base = rng.choice([ufl.Constant(G.mesh), ufl.as_ufl(1.5), ufl.Constant(G.mesh) * 2.0])
        v = ufl.variable(base)
        extra = {}
        def mkf(vv):
            if kind == "const_var":
                t = [(vv * vv + 1.25) ** vv, 2.0 ** vv, vv ** vv if False else (1.0 + vv * vv) ** ufl.sin(vv), ufl.exp(vv) * vv ** 3, (vv + 2.0) ** (vv * vv)]
                return t[(k // 7) % len(t)] + ufl.sin(vv)
            if kind == "nested":
                w_ = ufl.variable(ufl.sin(vv) * 0.5 + vv if vshape == () else 0.5 * vv)
                return replace(body, {P: w_}) + (vv if vshape == fshape else 0 * replace(body, {P: vv}))
            if kind == "directed_rule" and vshape == () and fshape == ():
                from translate import derivrules
                names = sorted(n for n in derivrules.operators() if "Restricted" not in n)
                name = names[(k // 7) % len(names)]
                ar, mk = derivrules.operators()[name]
                a = vv * vv + 1.25 if name in ("power", "powerHalf5", "sqrt", "ln", "powerNeg1", "division") else (ufl.sin(vv) * 0.5 if name in ("acos", "asin") else vv)
                return mk(a) if ar == 1 else mk(a, replace(body, {P: vv}))
            return replace(body, {P: vv})
        f = mkf(v)
        D = ufl.diff(f, v)
        desc = "diff(f, v) [%s], f of shape %s, v of shape %s in %dD" % (kind, tuple(f.ufl_shape), vshape, g)
        if kind == "twice":
            D = ufl.diff(D, v)
        if kind == "two_vars":
            v2 = ufl.variable(ufl.Coefficient(P.ufl_function_space()))
            f2 = replace(body, {P: v2})
            D = ufl.diff(f, v) + ufl.diff(f2, v2) * 3        # two variable rulesets in one expansion
            extra["v2"] = (v2, f2)
        with warnings.catch_warnings():
            warnings.simplefilter("ignore")
            X = expand_derivatives(D)
        problems = []
        fsh = tuple(f.ufl_shape)
        want_shape = fsh + tuple(vshape) * (2 if kind == "twice" else 1)
        if tuple(X.ufl_shape) != want_shape:
            problems.append("shape %s, should be f.shape + v.shape = %s" % (tuple(X.ufl_shape), want_shape))
            return ("checked", desc, problems)
        # data
        m = {}
        for t in set(ufl.algorithms.analysis.extract_coefficients(X)) | set(ufl.algorithms.analysis.extract_coefficients(f)) | set(G.terminals()) - {G.x}:
            if isinstance(t, ufl.Constant):
                def nest(sh):
                    return tuple(nest(sh[1:]) for _ in range(sh[0])) if sh else rng.uniform(0.5, 1.5)
                m[t] = nest(tuple(t.ufl_shape))
            elif isinstance(t, ufl.Coefficient):
                m[t] = dc.Field(rng, t.ufl_shape, g)
        for t in ufl.algorithms.analysis.extract_type(X, ufl.classes.Constant):
            if t not in m:
                m[t] = rng.uniform(0.5, 1.5)
        x0 = tuple(rng.uniform(-0.5, 0.5) for _ in range(g))
        for ex_ in [X, f, D, base] + ([extra["v2"][1]] if "v2" in extra else []):
            dc.complete(m, ex_, rng, g)
        got = dc.evaluate(X, x0, m)
        vcs = dc.comps(vshape)

        def unit(c):
            def nest(sh, pre=()):
                return [nest(sh[1:], pre + (i,)) for i in range(sh[0])] if sh else (1.0 if pre == c else 0.0)
            return ufl.as_tensor(nest(vshape)) if vshape else 1.0

        def dfun(expr_of_v, c):
            """h -> value of expr_of_v(base + h E_c), expanded (it may contain earlier derivatives)"""
            def fun(h):
                e = expr_of_v(base + h * unit(c))
                with warnings.catch_warnings():
                    warnings.simplefilter("ignore")
                    return dc.evaluate(expand_derivatives(e), x0, m)
            return fun
        want, smooth = {}, True
        fcs = dc.comps(fsh)
        if kind == "twice":
            for c2 in vcs:
                # finite difference (in direction c2) of the expanded first derivative
                def first(vv):
                    return ufl.diff(mkf(ufl.variable(vv)), None) if False else None
                def fun(h, c2=c2):
                    vv = ufl.variable(base + h * unit(c2))
                    e = ufl.diff(mkf(vv), vv)
                    with warnings.catch_warnings():
                        warnings.simplefilter("ignore")
                        return dc.evaluate(expand_derivatives(e), x0, m)
                d, ok = dc.fd(fun)
                smooth = smooth and ok
                for (cc, val) in zip([fc + c1 for fc in fcs for c1 in vcs], d):
                    want[cc + c2] = val
        else:
            for c in vcs:
                d, ok = dc.fd(dfun(lambda vv: mkf(vv), c))
                smooth = smooth and ok
                d2 = None
                if kind == "two_vars":
                    v2, f2 = extra["v2"]
                    base2 = v2.ufl_operands[0]
                    def fun2(h, c=c):
                        e = replace(body, {P: base2 + h * unit(c)})
                        with warnings.catch_warnings():
                            warnings.simplefilter("ignore")
                            return dc.evaluate(expand_derivatives(e), x0, m)
                    d2, ok2 = dc.fd(fun2)
                    smooth = smooth and ok2
                for i, fc in enumerate(fcs):
                    want[fc + c] = d[i] + (3 * d2[i] if d2 is not None else 0.0)
        if not smooth:
            return ("nonsmooth", desc, [])
        gotd = dict(zip(dc.comps(want_shape), got))
        for c in want:
            if not dc.close([gotd[c]], [want[c]], 5e-5):
                problems.append("component %s evaluates to %.9g, finite differences with respect to the value of v give %.9g" % (list(c), gotd[c], want[c]))
                break
        return ("checked", desc, problems)

    def oracle(self, ctx, ev):
        rng = random.Random(ctx.seed * 4409 + 4)
        n = 90 if ctx.quick else 2500
        out, seen, stats, samples = [], set(), {"checked": 0, "nonsmooth": 0, "skipped": 0}, []
        for k in range(n):
            try:
                r = self.one(rng, k)
            except ZeroDivisionError:
                stats["nonsmooth"] += 1
                continue
            except (OverflowError, ValueError) as ex:
                if "math domain" in str(ex) or isinstance(ex, OverflowError):
                    stats["nonsmooth"] += 1
                    continue
                if "geometric dimension" in str(ex):
                    stats["skipped"] += 1
                    continue
                r = ("raised", "case %d" % k, ["expand_derivatives(diff(..)) / evaluation raised %s: %s" % (type(ex).__name__, str(ex)[:160])])
            except Exception as ex:  # noqa
                r = ("raised", "case %d" % k, ["expand_derivatives(diff(..)) / evaluation raised %s: %s" % (type(ex).__name__, str(ex)[:160])])
            if r is None:
                stats["skipped"] += 1
                continue
            kind, desc, problems = r
            stats[kind] = stats.get(kind, 0) + 1
            if len(samples) < 4:
                samples.append(desc)
            if problems:
                key = "C04:" + desc.split("],")[0] + ":" + problems[0].split(" ")[0]
                if key not in seen and len(out) < 5:
                    seen.add(key)
                    out.append(Witness("%s: %s" % (desc, problems[0]), key, dict(kind="value", seed=ctx.seed, k=k, problems=problems[:3])))
        ev.cov["evaluations"] = n
        ev.cov["distinct_nontrivial"] = stats["checked"]
        ev.cov["oracle_outcomes"] = stats
        ev.cov["rule"] = ("oracle: f = generated body with a placeholder replaced by v = variable(base), v scalar / vector / tensor; kinds: plain, nested variable, repeated diff, two variables of equal "
                          "shape in one expansion, one operator of the rule family applied to v; compared with finite differences with respect to the value of v; distinct_nontrivial = smooth cases compared")
        ev.cov["samples"] = samples
        return out

    def replay(self, ctx, data):
        d = data.get("data", {})
        rng = random.Random(int(d.get("seed", 0)) * 4409 + 4)
        r = None
        for k in range(int(d.get("k", 0)) + 1):
            try:
                r = self.one(rng, k)
            except Exception as ex:  # noqa
                r = ("raised", "case", [str(ex)])
        if r and r[2]:
            return Witness("%s: %s" % (r[1], r[2][0]), data.get("key", "C04"), d)
        return None

