"""Form generator, pass tracer and node-kind classifier for C01 (harness/props/c01.py)."""
import contextlib
import itertools
import random
import warnings

import gen as G_


CELLS = [("interval", 1, 1), ("interval", 1, 2), ("interval", 1, 3), ("triangle", 2, 2), ("triangle", 2, 3), ("tetrahedron", 3, 3)]

# options of compute_form_data that the oracle randomises (name, probability of True)
BOOL_OPTS = [("do_apply_function_pullbacks", 0.6), ("do_apply_integral_scaling", 0.6), ("do_apply_geometry_lowering", 0.6),
             ("do_cancel_jacobian_products", 0.35), ("do_apply_default_restrictions", 0.8), ("do_apply_restrictions", 0.85),
             ("do_estimate_degrees", 0.7), ("do_append_everywhere_integrals", 0.6), ("do_replace_functions", 0.4),
             ("complex_mode", 0.15), ("do_remove_component_tensors", 0.4)]


def random_options(rng, all_on=False, preserve=True):
    import ufl.classes as C
    o = {k: (rng.random() < p) for k, p in BOOL_OPTS}
    if all_on:
        for k in ("do_apply_function_pullbacks", "do_apply_integral_scaling", "do_apply_geometry_lowering"):
            o[k] = True
    r = rng.random()
    if r < 0.7 or not preserve:
        o["preserve_geometry_types"] = ()
    else:
        pool = [C.Jacobian, C.JacobianInverse, C.JacobianDeterminant, C.FacetNormal, C.CellVolume, C.Circumradius, C.FacetArea, C.FacetJacobianDeterminant]
        o["preserve_geometry_types"] = tuple(rng.sample(pool, rng.randint(1, 3)))
    return o


def opts_key(o):
    return ",".join(("%s=%s" % (k, int(v)) if isinstance(v, bool) else "%s=%s" % (k, "+".join(sorted(c.__name__ for c in v)))) for k, v in sorted(o.items()))


# ------------------------------------------------------------------------------------------------ elements
def element_pool(rng, cell, tdim, gdim):
    """[(name, live element)] : Lagrange scalar / vector / tensor, DG, RT-like, N1curl-like, mixed, occasionally the other Piola maps / symmetric"""
    import ufl
    from ufl import pullback as pb
    from ufl.sobolevspace import H1, HDiv, HCurl, L2, HDivDiv, HEin
    from utils import FiniteElement, LagrangeElement, MixedElement, SymmetricElement
    P = lambda d, sh=(): LagrangeElement(cell, d, sh)
    DG = lambda d, sh=(): FiniteElement("DG", cell, d, sh, pb.identity_pullback, L2)
    RT = lambda d: FiniteElement("RT", cell, d, (tdim,), pb.contravariant_piola, HDiv)
    N1 = lambda d: FiniteElement("N1curl", cell, d, (tdim,), pb.covariant_piola, HCurl)
    pool = {
        "P1": P(1), "P2": P(2), "P2v": P(2, (gdim,)), "P1t": P(1, (gdim, gdim)), "DG1": DG(1), "DG0v": DG(0, (gdim,)),
        "RT1": RT(1), "N1curl1": N1(1), "RT2": RT(2),
        "TH": MixedElement([P(2, (gdim,)), P(1)]),
        "RTxDG": MixedElement([RT(1), DG(0)]),
        "N1xP1": MixedElement([N1(1), P(1)]),
    }
    extra = {
        "L2piola": FiniteElement("DGl2", cell, 1, (), pb.l2_piola, L2),
        "HHJ": FiniteElement("HHJ", cell, 1, (tdim, tdim), pb.double_contravariant_piola, HDivDiv),
        "Regge": FiniteElement("Regge", cell, 1, (tdim, tdim), pb.double_covariant_piola, HEin),
        "GLS": FiniteElement("GLS", cell, 1, (tdim, tdim), pb.covariant_contravariant_piola, L2),
        "RTrows": FiniteElement("RT", cell, 1, (2, tdim), pb.contravariant_piola, HDiv),
        "Sym": SymmetricElement({(0, 0): 0, (0, 1): 1, (1, 0): 1, (1, 1): 2}, [P(1), P(1), P(1)]),
        "RTxN1xDG": MixedElement([RT(1), N1(1), DG(1)]),
    }
    names = list(pool)
    chosen = ["P1", "P2v"] + rng.sample(names, 4) + rng.sample(list(extra), 2)
    out = []
    for n in dict.fromkeys(chosen):
        out.append((n, pool.get(n) or extra[n]))
    return out


class Case:
    """one generated form with everything needed to evaluate it"""
    pass


class FormGen:
    def __init__(self, rng, k):
        import ufl
        import ufl.classes as C
        from utils import LagrangeElement
        self.rng, self.ufl = rng, ufl
        cellname, tdim, gdim = rng.choice(CELLS)
        self.cellname, self.tdim, self.gdim = cellname, tdim, gdim
        self.cell = getattr(ufl, cellname)
        self.mesh = ufl.Mesh(LagrangeElement(self.cell, 1, (gdim,)))
        self.elems = element_pool(rng, self.cell, tdim, gdim)
        self.coeffs = []
        for n, e in self.elems:
            self.coeffs.append((n, ufl.Coefficient(ufl.FunctionSpace(self.mesh, e))))
        self.stats = {}

    def count(self, k):
        self.stats[k] = self.stats.get(k, 0) + 1

    # -- a Gen (harness/gen.py) re-targeted at this mesh and pool
    def make_gen(self, facet, derivs, geometry, compound, math, cond, minmax=True):
        import ufl
        import ufl.classes as C
        from utils import LagrangeElement
        rng, mesh, gdim, tdim = self.rng, self.mesh, self.gdim, self.tdim
        g = G_.Gen(rng, gdim=max(gdim, 1), math=math, compound=compound, derivs=derivs, cond=cond, variables=True, reuse=0.6,
                   division=True, literals=True, powers=True, minmax=minmax)
        g.mesh, g.gdim = mesh, gdim
        g.x = ufl.SpatialCoordinate(mesh)
        g.coeffs = {}
        # filler coefficients of the shapes gen.py's leaves need (Lagrange), plus the pool by physical shape
        for sh in [(), (2,), (3,), (2, 2), (3, 3), (2, 3), (3, 2), (2, 2, 2)]:
            c = ufl.Coefficient(ufl.FunctionSpace(mesh, LagrangeElement(self.cell, rng.choice([1, 2]), sh)))
            g.coeffs.setdefault(sh, []).append(c)
            self.extra_coeffs.append(c)
        for n, c in self.coeffs:
            g.coeffs.setdefault(tuple(c.ufl_shape), []).append(c)
            if c.ufl_shape and rng.random() < 0.5:       # more weight on the interesting ones
                g.coeffs[tuple(c.ufl_shape)].append(c)
        g.consts = {(): [ufl.Constant(mesh)], (gdim,): [ufl.VectorConstant(mesh)]}
        if geometry:
            scal = [C.CellVolume(mesh), C.Circumradius(mesh), C.JacobianDeterminant(mesh), C.MinCellEdgeLength(mesh), C.MaxCellEdgeLength(mesh), C.CellDiameter(mesh)]
            if facet:
                scal += [C.FacetArea(mesh)]
                if tdim == 3:
                    scal += [C.MinFacetEdgeLength(mesh), C.MaxFacetEdgeLength(mesh)]
            if tdim == 1:
                scal = [q for q in scal if not isinstance(q, (C.Circumradius,))] + [C.Circumradius(mesh)]
            picks = rng.sample(scal, min(len(scal), rng.randint(1, 3)))
            g.consts[()] += picks
            g.coeffs[()] += picks[:2]
            vec = []
            if facet:
                vec.append(C.FacetNormal(mesh))
            if tdim == gdim - 1 and rng.random() < 0.5:
                vec.append(C.CellNormal(mesh))
            if vec:
                g.consts[(gdim,)] += vec
                g.coeffs.setdefault((gdim,), []).extend(vec)
            if rng.random() < 0.4:
                g.coeffs.setdefault((gdim, tdim), []).append(C.Jacobian(mesh))
                g.coeffs.setdefault((tdim, gdim), []).append(C.JacobianInverse(mesh))
            self.geo_used += [type(q).__name__ for q in picks + vec]
        return g

    def argument_factor(self, g, rank):
        """a scalar expression linear in each of `rank` arguments (test, trial), built from pool elements"""
        import ufl
        rng, gdim = self.rng, self.gdim
        out = 1
        args = self.args[:rank]
        for a in args:
            sh = tuple(a.ufl_shape)
            r = rng.random()
            if sh == ():
                if r < 0.45:
                    t = a
                elif r < 0.8:
                    t = ufl.dot(ufl.grad(a), g.leaf((gdim,), ()))
                else:
                    t = a.dx(rng.randrange(gdim))
            elif len(sh) == 1:
                w = g.leaf(sh, ()) if sh in g.coeffs else ufl.as_vector([g.leaf((), ()) for _ in range(sh[0])])
                if r < 0.4:
                    t = ufl.dot(a, w)
                elif r < 0.6 and sh == (gdim,):
                    t = ufl.div(a) * g.leaf((), ())
                elif r < 0.8:
                    t = a[rng.randrange(sh[0])]
                elif sh == (gdim,):
                    t = ufl.inner(ufl.grad(a), ufl.outer(w, g.leaf((gdim,), ())))
                else:
                    t = ufl.dot(a, w)
            else:
                idx = tuple(rng.randrange(d) for d in sh)
                t = a[idx] if r < 0.5 else ufl.inner(a, ufl.as_tensor([[g.leaf((), ()) for _ in range(sh[1])] for _ in range(sh[0])]) if len(sh) == 2 else a)
                if len(sh) != 2 and r >= 0.5:
                    t = a[idx]
            if self.complex_mode and a.number() == 0:
                t = ufl.conj(t)
            out = out * t
        return out, args

    def integrand(self, itype, rank):
        """scalar integrand for an integral of type itype"""
        import ufl
        rng, gdim = self.rng, self.gdim
        facet = itype != "cell"
        derivs = rng.random() < 0.7
        real = not self.complex_mode          # comparisons of complex values are rejected by do_comparison_check
        g = self.make_gen(facet, derivs, geometry=rng.random() < 0.7, compound=rng.random() < 0.8, math=rng.random() < 0.5, cond=real and rng.random() < 0.5, minmax=real)
        depth = rng.choice([1, 2, 2, 3])
        nterms = rng.choice([1, 1, 2])
        argf, args = self.argument_factor(g, rank) if rank else (None, [])
        total = None
        for _ in range(nterms):
            body = g.expr((), (), depth)
            if rng.random() < 0.08:      # nested powers and reciprocals of one scalar (what cancel_jacobian_products' reciprocal pass looks for)
                s_ = g.leaf((), ())
                p_, q_ = rng.choice([(2, 0.5), (2, 1.5), (4, 0.5), (2, 2), (3, 2)])
                tower = (s_ ** p_) ** q_ if rng.random() < 0.7 else (1 / s_ ** p_) ** q_
                body = body * tower * rng.choice([1 / s_, (1 / s_) ** int(p_ * q_) if p_ * q_ == int(p_ * q_) else 1 / s_, s_])
                self.count("power_tower")
            if itype == "interior_facet":
                r = rng.random()
                if r < 0.3:
                    t = body("+")
                elif r < 0.55:
                    t = body("-")
                elif r < 0.7:
                    t = body("+") * g.expr((), (), 1)("-")
                elif r < 0.8:
                    t = ufl.avg(body)
                elif r < 0.9:
                    t = ufl.jump(body)
                else:
                    v = g.expr((gdim,), (), 1)
                    t = body("+") * ufl.jump(v, ufl.FacetNormal(self.mesh))
                r2 = rng.random()
                if r2 < 0.15:        # an unrestricted factor that is continuous across the facet: H1 coefficient, x, constants (default restrictions apply)
                    h1 = [c for n, c in self.coeffs if n in ("P1", "P2")]
                    hx = rng.choice(h1) * g.x[rng.randrange(gdim)] + g.consts[()][0]
                    t = t * hx
                    self.count("unrestricted_continuous_factor")
                elif r2 < 0.19:      # an unrestricted cell-wise quantity: has no single value on the facet (C17's known findings)
                    import ufl.classes as C
                    t = t * rng.choice([C.CellVolume(self.mesh), C.Circumradius(self.mesh)])
                    self.count("unrestricted_cellwise_factor")
                if argf is not None:
                    s = rng.choice(["+", "-"])
                    t = t * argf(s)
            else:
                t = body if argf is None else body * argf
            total = t if total is None else total + t
        for k, v in g.stats.items():
            self.stats[k] = self.stats.get(k, 0) + v
        return total, args

    def form(self, complex_mode=False):
        """a form: 1-3 integrals over cells / exterior facets / interior facets with subdomain ids that make grouping do something"""
        import ufl
        rng = self.rng
        self.extra_coeffs, self.geo_used = [], []
        self.complex_mode = complex_mode
        rank = rng.choice([0, 0, 1, 1, 2])
        self.args = [ufl.Argument(ufl.FunctionSpace(self.mesh, rng.choice(self.elems)[1]), number) for number in range(rank)]
        nint = rng.choice([1, 1, 2, 2, 3])
        measures = {"cell": ufl.dx, "exterior_facet": ufl.ds, "interior_facet": ufl.dS}
        integrals = []
        args_all = []
        form = None
        for _ in range(nint):
            itype = rng.choice(["cell", "cell", "exterior_facet", "interior_facet", "interior_facet"])
            sid = rng.choice([None, None, 1, 2, (1, 2)])
            md = rng.choice([None, None, None, {"quadrature_degree": 2}])
            e, args = self.integrand(itype, rank)
            m = measures[itype](domain=self.mesh) if sid is None else measures[itype](domain=self.mesh, subdomain_id=sid)
            if md:
                m = m(metadata=md)
            term = e * m
            form = term if form is None else form + term
            args_all += args
        return form, rank


# ------------------------------------------------------------------------------------------------ node kinds (stage features)
FEATURES = ["compound", "complexNode", "openDeriv", "coordDeriv", "physArg", "argGrad", "jacSym", "highGeom", "openRestr"]


def features(integrands):
    """node kinds present in a list of integrands (see Model/Pipeline.lean `Feat`)"""
    import ufl.classes as C
    from ufl.corealg.traversal import unique_pre_traversal
    feats = set()
    HIGH = (C.FacetJacobian, C.FacetJacobianInverse, C.FacetJacobianDeterminant, C.CellVolume, C.FacetArea, C.Circumradius, C.MinCellEdgeLength, C.MaxCellEdgeLength,
            C.MinFacetEdgeLength, C.MaxFacetEdgeLength, C.CellDiameter, C.CellNormal, C.FacetNormal, C.RidgeJacobian, C.RidgeJacobianInverse, C.RidgeJacobianDeterminant)
    COMPOUND_D = (C.Div, C.NablaGrad, C.NablaDiv, C.Curl, C.ReferenceDiv, C.ReferenceCurl)
    for e in integrands:
        if isinstance(e, C.FormArgument):
            feats.add("physArg")
        for n in unique_pre_traversal(e):
            if isinstance(n, C.CompoundTensorOperator) or isinstance(n, COMPOUND_D):
                feats.add("compound")
            if isinstance(n, (C.Conj, C.Real, C.Imag)):
                feats.add("complexNode")
            if isinstance(n, C.CoordinateDerivative):
                feats.add("coordDeriv")
            elif isinstance(n, (C.VariableDerivative, C.CoefficientDerivative)):
                feats.add("openDeriv")
            if isinstance(n, (C.Grad, C.ReferenceGrad)):
                b = n
                while isinstance(b, type(n)):
                    b = b.ufl_operands[0]
                if isinstance(b, C.Restricted):
                    b = b.ufl_operands[0]
                if isinstance(n, C.ReferenceGrad) and isinstance(b, C.ReferenceValue):
                    b = b.ufl_operands[0]
                    if isinstance(b, C.Restricted):
                        b = b.ufl_operands[0]
                if not b._ufl_is_terminal_:
                    feats.add("openDeriv")
                elif isinstance(n, C.Grad) and isinstance(b, C.FormArgument):
                    feats.add("argGrad")
            if isinstance(n, (C.Jacobian, C.JacobianInverse, C.JacobianDeterminant)):
                feats.add("jacSym")
            if isinstance(n, HIGH):
                feats.add("highGeom")
            if isinstance(n, C.Restricted):
                b = n.ufl_operands[0]
                while isinstance(b, (C.ReferenceValue, C.Grad, C.ReferenceGrad)):
                    b = b.ufl_operands[0]
                if not b._ufl_is_terminal_:
                    feats.add("openRestr")
            if not n._ufl_is_terminal_ and not isinstance(n, C.ReferenceValue):
                if any(isinstance(o, C.FormArgument) for o in n.ufl_operands):
                    # a restricted argument under reference_value is written reference_value(f)('+'), so f('+') counts as physical
                    feats.add("physArg")
    return feats


# ------------------------------------------------------------------------------------------------ tracer
PASS_NAMES_CFD = ["do_comparison_check", "apply_algebra_lowering", "remove_complex_nodes", "apply_derivatives", "group_form_integrals", "attach_estimated_degrees",
                  "apply_function_pullbacks", "apply_integral_scaling", "apply_geometry_lowering", "remove_component_tensors", "cancel_jacobian_products",
                  "apply_coordinate_derivatives", "build_integral_data"]
PASS_NAMES_FD = ["replace", "apply_restrictions", "check_integrand_arity"]


@contextlib.contextmanager
def traced():
    """wrap the pass functions as `compute_form_data` / `FormData.__init__` see them (module globals; /repo itself is untouched)"""
    import importlib
    M1 = importlib.import_module("ufl.algorithms.compute_form_data")      # `ufl.algorithms.compute_form_data` as an attribute is the function
    M2 = importlib.import_module("ufl.algorithms.formdata")
    import ufl.classes as C
    trace = []
    saved = []
    def wrap(mod, name):
        f = getattr(mod, name)
        def w(*a, **kw):
            rec = dict(name=name, args=a, kwargs=kw, out=None, raised=None)
            trace.append(rec)
            try:
                rec["out"] = f(*a, **kw)
            except BaseException as ex:
                rec["raised"] = ex
                raise
            return rec["out"]
        saved.append((mod, name, f))
        setattr(mod, name, w)
    for n in PASS_NAMES_CFD:
        if hasattr(M1, n):
            wrap(M1, n)
    for n in PASS_NAMES_FD:
        if hasattr(M2, n):
            wrap(M2, n)
    try:
        yield trace
    finally:
        for mod, name, f in saved:
            setattr(mod, name, f)


def pass_id(rec):
    """the model's name (PassId) of a traced call"""
    import ufl.classes as C
    n = rec["name"]
    if n == "apply_geometry_lowering":
        pt = rec["args"][1] if len(rec["args"]) > 1 else rec["kwargs"].get("preserve_types", ())
        keep = {C.Jacobian, C.JacobianInverse, C.JacobianDeterminant} <= set(pt)
        return "geomLower:" + ("keepJ" if keep else "all")
    if n == "apply_restrictions":
        if "default_restrictions" not in rec["kwargs"]:
            return "propagateOnly"
        return "restrictions:" + ("defaults" if rec["kwargs"]["default_restrictions"] is not None else "nodefaults")
    return {"do_comparison_check": "comparisonCheck", "apply_algebra_lowering": "algebraLowering", "remove_complex_nodes": "removeComplex",
            "apply_derivatives": "applyDerivatives", "group_form_integrals": "groupIntegrals", "attach_estimated_degrees": "estimateDegrees",
            "apply_function_pullbacks": "pullbacks", "apply_integral_scaling": "scaling", "remove_component_tensors": "rct",
            "cancel_jacobian_products": "cancelJ", "apply_coordinate_derivatives": "coordDerivs", "build_integral_data": "buildIntegralData",
            "replace": "replaceFunctions", "check_integrand_arity": "checkArity"}[n]


def dedup(seq):
    """collapse the per-integral repetitions of FormData's passes (they run once per integral, in blocks)"""
    out = []
    for s in seq:
        if not out or out[-1] != s:
            out.append(s)
    return out
