"""Translator for C01: the guarded sequence of calls in `compute_form_data` -> Gen/Pipeline.lean.

The source of `ufl.algorithms.compute_form_data.compute_form_data` is parsed with `ast` (from the live module, on every
run).  Statements are walked in execution order; calls of functions defined in the two anchored modules
(`preprocess_form`, `attach_estimated_degrees`, `FormData.__init__` and its private helpers) are inlined with their
parameters bound to the caller's arguments.  Emitted, one row per event, in order:

  call    a call of anything that lives in a `ufl.*` module (pass functions, analysis helpers, constructors), with the
          source text of its arguments, the name the result is bound to, the enclosing function and loop depth
  inline  entry into an inlined function (callee, result target, first argument, name the callee returns)
  assign  assignment of a call-free value to a local name (source text of the value); used to resolve arguments such as
          `lowering_preserve_types` / `default_restrictions`
  raise   a `raise` statement
  unknown a statement form the walker does not understand (makes `C01_rows_known` fail: the tie is broken, not guessed)

Every row carries its guard: the list of enclosing `if` conditions (outermost first) as boolean expressions over
*atoms*.  An atom is the truthiness of a `compute_form_data` parameter (`do_apply_geometry_lowering`), a test
`<param> is None`, or - when a condition is not a boolean combination of parameters - the opaque source text of the
condition prefixed by `?`.  A conditional block that ends in continue / return / raise guards the rest of its block
with the negated condition.  Nothing in this file knows what any pass does; that is Model/Pipeline.lean."""
import ast
import builtins
import inspect
import textwrap
from . import leanfmt as L

ANCHORED = ("ufl.algorithms.compute_form_data", "ufl.algorithms.formdata")


# ---- boolean expressions over atoms: ("atom", s) | ("not", b) | ("and", a, b) | ("or", a, b) | ("lit", bool)
def b_not(b):
    if b[0] == "lit":
        return ("lit", not b[1])
    if b[0] == "not":
        return b[1]
    return ("not", b)


def b_lean(b, idx=None):
    if b[0] == "atom":
        return "(.atom %d)" % idx[b[1]]
    if b[0] == "lit":
        return "(.lit %s)" % L.b(b[1])
    if b[0] == "not":
        return "(.not %s)" % b_lean(b[1], idx)
    return "(.%s %s %s)" % (b[0], b_lean(b[1], idx), b_lean(b[2], idx))


def b_atoms(b, out):
    if b[0] == "atom":
        if b[1] not in out:
            out.append(b[1])
    elif b[0] == "not":
        b_atoms(b[1], out)
    elif b[0] in ("and", "or"):
        b_atoms(b[1], out)
        b_atoms(b[2], out)
    return out


def src(node):
    return " ".join(ast.unparse(node).split())


class Walker:
    def __init__(self):
        import importlib
        self.mods = {m: importlib.import_module(m) for m in ANCHORED}
        self.trees = {m: ast.parse(inspect.getsource(mod)) for m, mod in self.mods.items()}
        self.rows = []
        self.depth = 0

    # -- lookup of function definitions in the anchored modules
    def fundef(self, modname, name, cls=None):
        body = self.trees[modname].body
        if cls is not None:
            for n in body:
                if isinstance(n, ast.ClassDef) and n.name == cls:
                    body = n.body
                    break
            else:
                return None
        for n in body:
            if isinstance(n, ast.FunctionDef) and n.name == name:
                return n
        return None

    def row(self, kind, fn, ctx, guards, loop, target="", args=(), kwargs=()):
        self.rows.append(dict(kind=kind, fn=fn, ctx=ctx, guards=list(guards), loop=loop, target=target, args=list(args), kwargs=list(kwargs)))

    # -- values of names: ("opt", atom) | ("lit", bool) | ("none",) | ("opaque", src)
    def value_of(self, node, env):
        if isinstance(node, ast.Name) and node.id in env:
            return env[node.id]
        if isinstance(node, ast.Constant):
            if isinstance(node.value, bool):
                return ("lit", node.value)
            if node.value is None:
                return ("none",)
        return ("opaque", src(node))

    def bexp(self, node, env):
        if isinstance(node, ast.UnaryOp) and isinstance(node.op, ast.Not):
            return b_not(self.bexp(node.operand, env))
        if isinstance(node, ast.BoolOp):
            parts = [self.bexp(v, env) for v in node.values]
            k = "and" if isinstance(node.op, ast.And) else "or"
            acc = parts[0]
            for p in parts[1:]:
                acc = (k, acc, p)
            return acc
        if isinstance(node, ast.Compare) and len(node.ops) == 1 and isinstance(node.ops[0], (ast.Is, ast.IsNot)) \
                and isinstance(node.comparators[0], ast.Constant) and node.comparators[0].value is None:
            v = self.value_of(node.left, env)
            if v[0] == "opt":
                r = ("atom", v[1] + " is None")
            elif v[0] == "none":
                r = ("lit", True)
            elif v[0] == "lit":
                r = ("lit", False)
            else:
                r = ("atom", "?" + src(node.left) + " is None")
            return r if isinstance(node.ops[0], ast.Is) else b_not(r)
        if isinstance(node, (ast.Name, ast.Constant)):
            v = self.value_of(node, env)
            if v[0] == "opt":
                return ("atom", v[1])
            if v[0] == "lit":
                return ("lit", v[1])
            if v[0] == "none":
                return ("lit", False)
        return ("atom", "?" + src(node))

    # -- calls
    def resolve(self, name, modname):
        mod = self.mods[modname]
        if hasattr(mod, name):
            return getattr(mod, name)
        return getattr(builtins, name, None)

    def calls_in(self, node, ctx, modname, env, guards, loop, target, locals_):
        """record the calls inside an expression, innermost first (evaluation order)"""
        if node is None:
            return
        if isinstance(node, (ast.ListComp, ast.SetComp, ast.GeneratorExp, ast.DictComp)):
            for g in node.generators:
                self.calls_in(g.iter, ctx, modname, env, guards, loop + 1, "", locals_)
                for c in g.ifs:
                    self.calls_in(c, ctx, modname, env, guards, loop + 1, "", locals_)
            for part in ([node.key, node.value] if isinstance(node, ast.DictComp) else [node.elt]):
                self.calls_in(part, ctx, modname, env, guards, loop + 1, "", locals_)
            return
        if isinstance(node, ast.Lambda):
            return
        if not isinstance(node, ast.Call):
            for ch in ast.iter_child_nodes(node):
                self.calls_in(ch, ctx, modname, env, guards, loop, "", locals_)
            return
        for a in node.args:
            self.calls_in(a, ctx, modname, env, guards, loop, "", locals_)
        for k in node.keywords:
            self.calls_in(k.value, ctx, modname, env, guards, loop, "", locals_)
        f = node.func
        args = [src(a) for a in node.args]
        kwargs = [(k.arg or "**", src(k.value)) for k in node.keywords]
        if isinstance(f, ast.Name):
            if f.id in locals_:                      # instance of a ufl class bound to a local name, called
                self.row("call", locals_[f.id] + ".__call__", ctx, guards, loop, target, args, kwargs)
                return
            obj = self.resolve(f.id, modname)
            om = getattr(obj, "__module__", "") or ""
            if obj is None:
                self.row("unknown", "call of unresolved name " + f.id, ctx, guards, loop, target, args, kwargs)
            elif om in ANCHORED and inspect.isfunction(obj):
                self.inline(om, f.id, None, node, ctx, modname, env, guards, loop, target)
            elif om in ANCHORED and inspect.isclass(obj) and self.fundef(om, "__init__", f.id) is not None:
                self.inline(om, "__init__", f.id, node, ctx, modname, env, guards, loop, target)
            elif om.startswith("ufl"):
                self.row("call", f.id, ctx, guards, loop, target, args, kwargs)
            # anything else (builtins, typing) is not UFL code: not recorded
        elif isinstance(f, ast.Attribute):
            self.calls_in(f.value, ctx, modname, env, guards, loop, "", locals_)
            if f.attr == "reconstruct":               # how a rewritten integrand / metadata is stored back
                self.row("call", "." + f.attr, ctx, guards, loop, target, [src(f.value)] + args, kwargs)
        else:
            self.calls_in(f, ctx, modname, env, guards, loop, "", locals_)

    def inline(self, om, name, cls, call, ctx, modname, env, guards, loop, target):
        fd = self.fundef(om, name, cls)
        qual = (cls + "." + name) if cls else name
        if fd is None or self.depth > 6:
            self.row("unknown", "cannot inline " + qual, ctx, guards, loop, target)
            return
        params = [a.arg for a in fd.args.args]
        defaults = dict(zip(params[len(params) - len(fd.args.defaults):], fd.args.defaults))
        if cls:
            params = params[1:]
        new_env = {}
        for i, p in enumerate(params):
            if i < len(call.args):
                new_env[p] = self.value_of(call.args[i], env)
            else:
                kw = [k for k in call.keywords if k.arg == p]
                if kw:
                    new_env[p] = self.value_of(kw[0].value, env)
                elif p in defaults:
                    new_env[p] = self.value_of(defaults[p], {})
                else:
                    new_env[p] = ("opaque", p)
        rets = [n for n in ast.walk(fd) if isinstance(n, ast.Return) and n.value is not None]
        ret = src(rets[-1].value) if len(rets) == 1 and isinstance(rets[-1].value, ast.Name) else ("" if not rets else "<expr>")
        arg0 = src(call.args[0]) if call.args else ""
        self.row("inline", qual, ctx, guards, loop, target, [arg0, params[0] if params else "", ret])
        self.depth += 1
        self.block(fd.body, qual, om, new_env, list(guards), loop, {})
        self.depth -= 1

    # -- statements
    def block(self, stmts, ctx, modname, env, guards, loop, locals_):
        guards = list(guards)
        for st in stmts:
            if isinstance(st, ast.Expr) and isinstance(st.value, ast.Constant):
                continue                                            # docstring
            if isinstance(st, (ast.Assign, ast.AnnAssign)):
                tg = st.targets[0] if isinstance(st, ast.Assign) else st.target
                if st.value is None:
                    continue
                tname = src(tg)
                has_call = any(isinstance(n, ast.Call) for n in ast.walk(st.value))
                self.calls_in(st.value, ctx, modname, env, guards, loop, tname, locals_)
                if isinstance(tg, ast.Name):
                    if tg.id in env:
                        if env[tg.id][0] == "opt":                   # an option is re-bound: its atom no longer describes it
                            self.row("unknown", "option %s is assigned" % tg.id, ctx, guards, loop)
                        env[tg.id] = ("opaque", tg.id)
                    v = st.value
                    direct = False
                    if isinstance(v, ast.Call) and isinstance(v.func, ast.Name):
                        obj = self.resolve(v.func.id, modname)
                        om = getattr(obj, "__module__", "") or ""
                        direct = om.startswith("ufl") or v.func.id in locals_
                        if inspect.isclass(obj) and om.startswith("ufl.algorithms"):
                            locals_[tg.id] = v.func.id
                    if not direct:
                        self.row("assign", tg.id, ctx, guards, loop, tg.id, [src(v)])
            elif isinstance(st, ast.AugAssign):
                self.calls_in(st.value, ctx, modname, env, guards, loop, src(st.target), locals_)
            elif isinstance(st, ast.Expr):
                self.calls_in(st.value, ctx, modname, env, guards, loop, "", locals_)
            elif isinstance(st, ast.Return):
                self.calls_in(st.value, ctx, modname, env, guards, loop, "return", locals_)
            elif isinstance(st, ast.Raise):
                self.row("raise", src(st.exc.func) if isinstance(st.exc, ast.Call) else src(st.exc) if st.exc else "", ctx, guards, loop)
            elif isinstance(st, ast.If):
                self.calls_in(st.test, ctx, modname, env, guards, loop, "", locals_)
                c = self.bexp(st.test, env)
                self.block(st.body, ctx, modname, env, guards + [c], loop, locals_)
                self.block(st.orelse, ctx, modname, env, guards + [b_not(c)], loop, locals_)
                ends = lambda b: bool(b) and isinstance(b[-1], (ast.Continue, ast.Return, ast.Raise, ast.Break))
                if ends(st.body) and not ends(st.orelse):
                    guards = guards + [b_not(c)]
                elif ends(st.orelse) and not ends(st.body):
                    guards = guards + [c]
            elif isinstance(st, ast.For):
                self.calls_in(st.iter, ctx, modname, env, guards, loop, "", locals_)
                self.block(st.body, ctx, modname, env, guards, loop + 1, locals_)
                if st.orelse:
                    self.block(st.orelse, ctx, modname, env, guards, loop, locals_)
            elif isinstance(st, ast.While):
                self.row("unknown", "while loop", ctx, guards, loop)
            elif isinstance(st, ast.Assert):
                self.calls_in(st.test, ctx, modname, env, guards, loop, "", locals_)
            elif isinstance(st, (ast.Pass, ast.Continue, ast.Break, ast.Import, ast.ImportFrom, ast.Global, ast.Nonlocal)):
                pass
            elif isinstance(st, ast.With):
                for it in st.items:
                    self.calls_in(it.context_expr, ctx, modname, env, guards, loop, "", locals_)
                self.block(st.body, ctx, modname, env, guards, loop, locals_)
            else:
                self.row("unknown", "statement " + type(st).__name__, ctx, guards, loop)


def observe():
    w = Walker()
    top = w.fundef(ANCHORED[0], "compute_form_data")
    params = [a.arg for a in top.args.args]
    defaults = dict(zip(params[len(params) - len(top.args.defaults):], [src(d) for d in top.args.defaults]))
    env = {p: ("opt", p) for p in params[1:]}
    w.block(top.body, "compute_form_data", ANCHORED[0], env, [], 0, {})
    options = [(p, defaults.get(p, "")) for p in params[1:]]
    return w.rows, options, params[0]


def render():
    rows, options, form_param = observe()
    # canonical positions: parameter i (after the form) -> i, `<parameter i> is None` -> n + i, conditions on data -> 2n + order of appearance
    used = []
    for r in rows:
        for g in r["guards"]:
            b_atoms(g, used)
    atoms = [p for p, _ in options] + [p + " is None" for p, _ in options] + [a for a in used if a.startswith("?")]
    stray = [a for a in used if a not in atoms]
    atoms += stray
    import ufl.measure as UM
    aidx = {a: i for i, a in enumerate(atoms)}
    # local names that are assigned somewhere, and for every row the ones it mentions as a bare argument (call) / binds (assign)
    local_names = []
    for r in rows:
        if r["kind"] == "assign" and r["fn"] not in local_names:
            local_names.append(r["fn"])
    lidx = {n: i for i, n in enumerate(local_names)}
    for r in rows:
        if r["kind"] == "assign":
            r["vars"] = [lidx[r["fn"]]]
        elif r["kind"] == "call":
            r["vars"] = [lidx[a] for a in list(r["args"]) + [v for _, v in r["kwargs"]] if a in lidx]
        else:
            r["vars"] = []
    out = ["import UflVerif.Model.PipelineSyntax\n",
           L.header("pipeline.py", "AST of ufl.algorithms.compute_form_data.compute_form_data with preprocess_form, attach_estimated_degrees, FormData.__init__ and "
                    "its helpers inlined: every call of UFL code in execution order with the conditions guarding it; the integral type tables of ufl.measure."),
           "namespace UflVerif.Gen.Pipeline\nopen UflVerif.Pipeline\n",
           "/-- parameters of compute_form_data after the form, with the source text of their defaults -/",
           "def options : List (String × String) := [\n  " + ",\n  ".join("(%s, %s)" % (L.s(p), L.s(d)) for p, d in options) + "]\n",
           "def formParam : String := %s\n" % L.s(form_param),
           "/-- ufl.measure: every registered integral type, and the two classes apply_integral_scaling tests membership of -/",
           "def integralTypes : List String := %s\n" % L.lst(sorted(UM.integral_type_to_measure_name), L.s, 10 ** 9),
           "def customIntegralTypes : List String := %s\n" % L.lst(list(UM.custom_integral_types), L.s, 10 ** 9),
           "def pointIntegralTypes : List String := %s\n" % L.lst(list(UM.point_integral_types), L.s, 10 ** 9),
           "/-- the atoms guards are made of, by position: parameter i of compute_form_data (after the form) at i, `<parameter i> is None` at n + i,\n    conditions on data (`?` + source text) from 2n on in order of appearance -/",
           "def atoms : List String := [\n  " + ",\n  ".join(L.s(a) for a in atoms) + "]\n",
           "/-- local names that are assigned in the walked functions; rows refer to them by position (`vars`) -/",
           "def localNames : List String := %s\n" % L.lst(local_names, L.s, 10 ** 9),
           "def rows : List Row := ["]
    body = []
    for r in rows:
        body.append("  { kind := %s, fn := %s, ctx := %s, loop := %d, target := %s,\n    guards := %s,\n    args := %s, kwargs := %s, vars := %s }" % (
            L.s(r["kind"]), L.s(r["fn"]), L.s(r["ctx"]), r["loop"], L.s(r["target"]),
            "[" + ", ".join(b_lean(g, aidx) for g in r["guards"]) + "]", L.lst(r["args"], L.s, 10 ** 9),
            "[" + ", ".join("(%s, %s)" % (L.s(k), L.s(v)) for k, v in r["kwargs"]) + "]", L.lst(r["vars"], str, 10 ** 9)))
    out.append(",\n".join(body) + "]\n")
    out.append("end UflVerif.Gen.Pipeline\n")
    stats = dict(rows=len(rows), calls=len([r for r in rows if r["kind"] == "call"]), inlined=[r["fn"] for r in rows if r["kind"] == "inline"],
                 atoms=atoms, atoms_used=used, unknown=[r["fn"] for r in rows if r["kind"] == "unknown"])
    return "\n".join(out), stats, rows
