"""Translator for C18: what the live `SumDegreeEstimator` does per UFL type -> Gen/DegreeTable.lean.

* `table`: for every concrete `Expr` type, the handler attribute the estimator's own dispatch table selects
  (`MultiFunction.__init__` computed it) and the `__name__` of the function bound under that attribute
  (`sum = _max_degrees` gives ("sum", "_max_degrees")), plus whether the type is a terminal;
* `indexedVariant`: which size the `indexed` handler walks the sub-elements with, read off the handler's AST
  (attribute names it mentions).  It only *selects* the model variant; the correspondence re-validates the choice
  on every generated input;
* `pipeline`: the passes `compute_form_data` / `preprocess_form` call, in source order (AST)."""
import ast
import inspect
import textwrap
from . import leanfmt as L


def handler_rows():
    import ufl.classes  # noqa: F401  (registers every type)
    from ufl.core.expr import Expr
    from ufl.algorithms.estimate_degrees import SumDegreeEstimator
    de = SumDegreeEstimator(1, {})
    from ufl.corealg.multifunction import MultiFunction
    names = MultiFunction._handlers_cache[SumDegreeEstimator][0]
    rows = []
    for c in Expr._ufl_all_classes_:
        if getattr(c, "_ufl_is_abstract_", False):
            continue
        tc = c._ufl_typecode_
        h = de._handlers[tc]
        fn = getattr(h, "__func__", h)
        rows.append((c.__name__, names[tc], fn.__name__, bool(c._ufl_is_terminal_)))
    return rows


def indexed_variant():
    from ufl.algorithms.estimate_degrees import SumDegreeEstimator
    src = textwrap.dedent(inspect.getsource(SumDegreeEstimator.indexed))
    tree = ast.parse(src)
    attrs = {n.attr for n in ast.walk(tree) if isinstance(n, ast.Attribute)}
    names = {n.id for n in ast.walk(tree) if isinstance(n, ast.Name)}
    if "sub_elements" not in attrs:
        return "off", sorted(attrs)
    if "reference_value_size" in attrs or "reference_value_shape" in attrs:
        return "refSize", sorted(attrs)
    if "physical_value_shape" in attrs:
        return "physSize", sorted(attrs | names)
    raise ValueError("cannot classify SumDegreeEstimator.indexed: it walks sub_elements but mentions neither "
                     "reference_value_size nor physical_value_shape (attributes: %s)" % sorted(attrs))


def pipeline():
    """names of the functions called (in source order) by preprocess_form and compute_form_data"""
    import importlib
    m = importlib.import_module("ufl.algorithms.compute_form_data")
    out = []
    for fn in ("preprocess_form", "compute_form_data"):
        src = textwrap.dedent(inspect.getsource(getattr(m, fn)))
        tree = ast.parse(src)
        calls = []
        for n in ast.walk(tree):
            if isinstance(n, ast.Call) and isinstance(n.func, ast.Name):
                calls.append((n.lineno, n.col_offset, n.func.id))
        calls.sort()
        keep = [c[2] for c in calls if c[2].startswith(("apply_", "attach_", "group_", "preprocess_", "remove_", "build_", "check_"))]
        out.append((fn, keep))
    return out


def attach_calls():
    """what attach_estimated_degrees passes to the estimator: (function called, positional arg count, keywords)"""
    import importlib
    m = importlib.import_module("ufl.algorithms.compute_form_data")
    src = textwrap.dedent(inspect.getsource(m.attach_estimated_degrees))
    tree = ast.parse(src)
    res = []
    for n in ast.walk(tree):
        if isinstance(n, ast.Call) and isinstance(n.func, ast.Name) and n.func.id == "estimate_total_polynomial_degree":
            res.append((n.func.id, len(n.args), sorted(k.arg or "**" for k in n.keywords)))
    return res


def defaults():
    from ufl.algorithms.estimate_degrees import estimate_total_polynomial_degree
    sig = inspect.signature(estimate_total_polynomial_degree)
    return int(sig.parameters["default_degree"].default)


def render():
    rows = handler_rows()
    variant, attrs = indexed_variant()
    pipe = pipeline()
    att = attach_calls()
    out = [L.header("degree.py", "the degree estimator's own dispatch table (type -> handler attribute, function bound there, terminal?), "
                                 "the sub-element size its `indexed` handler walks with, and the pass order of compute_form_data."),
           "namespace UflVerif.Gen.DegreeTable\n",
           "/-- (class, handler attribute selected by MultiFunction, __name__ of the function bound there, is terminal) -/",
           "def table : List (String × String × String × Bool) := [\n  " +
           ",\n  ".join("(%s, %s, %s, %s)" % (L.s(a), L.s(b), L.s(c), L.b(d)) for a, b, c, d in rows) + "]\n",
           "/-- \"refSize\": walks with reference_value_size; \"physSize\": with the physical value size; \"off\": no refinement -/",
           "def indexedVariant : String := %s\n" % L.s(variant),
           "def pipeline : List (String × List String) := [\n  " +
           ",\n  ".join("(%s, %s)" % (L.s(f), L.lst(c, L.s, 10**9)) for f, c in pipe) + "]\n",
           "/-- calls of the estimator inside attach_estimated_degrees: (name, #positional args, keyword names) -/",
           "def attachCalls : List (String × Nat × List String) := %s\n" % L.lst(
               ["(%s, %d, %s)" % (L.s(a), b, L.lst(c, L.s)) for a, b, c in att], str, 10**9),
           "def defaultDegree : Nat := %d\n" % defaults(),
           "end UflVerif.Gen.DegreeTable\n"]
    stats = dict(types=len(rows), variant=variant, pipeline={f: len(c) for f, c in pipe})
    return "\n".join(out), stats
