"""Translator for C06: call the real `apply_algebra_lowering` on every compound operator applied to symbolic
operands (coefficients `A`, `B`) of each admissible shape of the instance family, and embed the returned trees
in Gen/Compound*.lean.  Theorems in Props/C06*.lean relate the value of each tree to the operator's definition."""
from . import leanfmt as L
from .leanexpr import LeanExprWriter

SQ = [1, 2, 3, 4]
DIFF_GROUPS = ("div", "nabla_div", "nabla_grad", "curl")

def family():
    """(group, opname, shapeA, shapeB|None, gdim)"""
    F = []
    for n in SQ:
        F.append(("trace", "tr", (n, n), None, 2))
        F.append(("sym", "sym", (n, n), None, 2))
        F.append(("skew", "skew", (n, n), None, 2))
    for n in (2, 3):
        F.append(("dev", "dev", (n, n), None, 2))
    for m, n in [(1, 1), (1, 3), (2, 2), (2, 3), (3, 1), (3, 2), (3, 3), (4, 2), (4, 4)]:
        F.append(("transposed", "transpose", (m, n), None, 2))
    F.append(("perp", "perp", (2,), None, 2))
    F.append(("cross", "cross", (3,), (3,), 3))
    for n in SQ:
        F.append(("dot", "dot", (n,), (n,), 2))
        F.append(("inner", "inner", (n,), (n,), 2))
    for m, n in [(2, 2), (2, 3), (3, 2), (3, 3), (4, 4)]:
        F.append(("dot", "dot", (m, n), (n,), 2))
        F.append(("dot", "dot", (m,), (m, n), 2))
    for m, k, n in [(2, 2, 2), (2, 3, 2), (3, 2, 3), (3, 3, 3), (4, 4, 4), (1, 2, 3)]:
        F.append(("dot", "dot", (m, k), (k, n), 2))
    F.append(("dot", "dot", (2, 2, 3), (3,), 2))
    F.append(("dot", "dot", (2,), (2, 3, 2), 2))
    F.append(("dot", "dot", (2, 3), (3, 2, 2), 2))
    for sh in [(2, 2), (2, 3), (3, 3), (4, 4), (2, 2, 2), (2, 3, 2)]:
        F.append(("inner", "inner", sh, sh, 2))
    for sh in [(2,), (3,), (2, 2), (2, 3)]:
        F.append(("innerswap", "inner", sh, sh, 2))      # inner(B, A): the constructor sorts the operands and conjugates
    for sa, sb in [((2,), (2,)), ((2,), (3,)), ((3,), (3,)), ((4,), (4,)), ((2, 2), (3,)), ((2,), (3, 2)), ((2, 2), (2, 2))]:
        F.append(("outer", "outer", sa, sb, 2))
    for sh in [(1, 1), (2, 2), (3, 3), (4, 4)]:
        F.append(("det", "det", sh, None, 2))
        F.append(("inv", "inv", sh, None, 2))
    for sh in [(2, 1), (3, 1), (3, 2), (4, 2)]:
        F.append(("pdet", "determinant_expr", sh, None, 2))
    for sh in [(2, 1), (3, 1), (3, 2)]:
        F.append(("pinv", "inverse_expr", sh, None, 2))
    for n in (2, 3, 4):
        F.append(("cofac", "cofac", (n, n), None, 2))
    # compound differential operators (gdim = mesh dimension)
    for g in (2, 3):
        F.append(("div", "div", (g,), None, g))
        F.append(("div", "div", (2, g), None, g))
        F.append(("div", "div", (g, g), None, g))
        F.append(("nabla_div", "nabla_div", (g,), None, g))
        F.append(("nabla_div", "nabla_div", (g, 2), None, g))
        F.append(("nabla_grad", "nabla_grad", (g,), None, g))
        F.append(("nabla_grad", "nabla_grad", (2, 3), None, g))
    F.append(("curl", "curl", (), None, 2))
    F.append(("curl", "curl", (2,), None, 2))
    F.append(("curl", "curl", (3,), None, 3))
    return F


def build_instances():
    """returns list of dict(group, shA, shB, gdim, src (UFL expr), out (lowered UFL expr) | error)"""
    import ufl
    from ufl.algorithms.apply_algebra_lowering import apply_algebra_lowering
    from ufl.pullback import identity_pullback
    from ufl.sobolevspace import H1
    from utils import LagrangeElement, FiniteElement
    meshes = {}
    def mesh(g):
        if g not in meshes:
            cell = {1: ufl.interval, 2: ufl.triangle, 3: ufl.tetrahedron}[g]
            meshes[g] = (cell, ufl.Mesh(LagrangeElement(cell, 1, (g,))))
        return meshes[g]
    out = []
    for group, opname, sa, sb, g in family():
        cell, m = mesh(g)
        def co(sh):
            return ufl.Coefficient(ufl.FunctionSpace(m, FiniteElement("Lagrange", cell, 2, tuple(sh), identity_pullback, H1)))
        A = co(sa)
        B = co(sb) if sb is not None else None
        rec = dict(group=group, shA=sa, shB=sb, gdim=g, A=A, B=B)
        try:
            if opname.endswith("_expr"):      # pseudo-determinant / -inverse: reached through geometry lowering only
                import ufl.compound_expressions as ce
                src = None
                rec["out"] = apply_algebra_lowering(getattr(ce, opname)(A))
            else:
                if group == "innerswap":
                    src = ufl.inner(B, A)
                else:
                    src = getattr(ufl, opname)(A) if B is None else getattr(ufl, opname)(A, B)
                rec["out"] = apply_algebra_lowering(src)
                if group in DIFF_GROUPS:
                    # the lowered tree applies Grad to A[i]; its value is defined once derivatives act on terminals only
                    from ufl.algorithms.apply_derivatives import apply_derivatives
                    rec["out"] = apply_derivatives(rec["out"])
            rec["src"] = src
        except Exception as e:   # the code no longer accepts a shape of the family: the obligation will be missing
            rec["error"] = "%s: %s" % (type(e).__name__, e)
        out.append(rec)
    return out


def render():
    """returns {module name: text}, instances"""
    insts = build_instances()
    groups = {}
    for r in insts:
        groups.setdefault(r["group"], []).append(r)
    files = {}
    for gname, rs in groups.items():
        lines = ["import UflVerif.Model.CompoundCase\n",
                 L.header("compound.py", "Trees returned by apply_algebra_lowering(%s(A[, B])) for coefficient operands A, B of each shape of the instance family." % gname),
                 "namespace UflVerif.Gen.Compound\nopen UflVerif Expr\n"]
        entries = []
        for r in rs:
            if "error" in r:
                entries.append("  -- %s %s %s: %s" % (gname, r["shA"], r["shB"], r["error"].replace("\n", " ")[:200]))
                continue
            w = LeanExprWriter(names={id(r["A"]): "A", **({id(r["B"]): "B"} if r["B"] is not None else {})})
            body = w.expr(r["out"])
            shB = L.lst(r["shB"]) if r["shB"] is not None else "[]"
            entries.append("  { shA := %s, shB := %s, gdim := %d, out :=\n    %s }" % (L.lst(r["shA"]), shB, r["gdim"], body))
        lines.append("def %sCases : List Case := [\n%s]\n" % (gname.replace("_", ""), ",\n".join(entries)))
        lines.append("end UflVerif.Gen.Compound\n")
        files["Compound_" + gname.replace("_", "")] = "\n".join(lines)
    return files, insts
