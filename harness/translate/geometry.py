"""Translator for C07: run the real `apply_geometry_lowering` on every geometric quantity on affine simplex meshes
(interval in 1-3D, triangle in 2-3D, tetrahedron) and embed the returned trees in Gen/Geometry_*.lean.
ReferenceGrad(x) (the Jacobian of the coordinate field) is written as the symbol `J`; the remaining geometric terminals
(CellOrientation, ReferenceCellVolume, CellEdgeVectors, CellFacetJacobian, ReferenceNormal, ...) keep their class name as key:
they are the quantities a form compiler tabulates, interpreted in Props/C07 by their documented meaning on the cell."""
from . import leanfmt as L
from .leanexpr import LeanExprWriter

GEOMS = [("interval", 1, 1), ("interval", 1, 2), ("interval", 1, 3), ("triangle", 2, 2), ("triangle", 2, 3), ("tetrahedron", 3, 3)]

QUANTITIES = ["JacobianDeterminant", "JacobianInverse", "FacetJacobian", "FacetJacobianInverse", "FacetJacobianDeterminant",
              "RidgeJacobian", "RidgeJacobianInverse", "RidgeJacobianDeterminant", "CellCoordinate",
              "CellVolume", "FacetArea", "Circumradius", "MinCellEdgeLength", "MaxCellEdgeLength", "CellDiameter",
              "MinFacetEdgeLength", "MaxFacetEdgeLength", "CellNormal", "FacetNormal", "Jacobian", "SpatialCoordinate"]


class GeoWriter(LeanExprWriter):
    def _expr(self, o):
        import ufl.classes as C
        n = o._ufl_class_.__name__
        if n == "ReferenceGrad" and isinstance(o.ufl_operands[0], C.SpatialCoordinate):
            return '(.term { cls := "Jacobian", key := "J", shape := %s })' % L.lst(o.ufl_shape)
        if isinstance(o, C.GeometricQuantity):
            return '(.term { cls := %s, key := %s, shape := %s })' % (L.s(n), L.s(n), L.lst(o.ufl_shape))
        return super()._expr(o)


def applicable(q, tdim, gdim):
    if q in ("MinFacetEdgeLength", "MaxFacetEdgeLength", "RidgeJacobian", "RidgeJacobianInverse", "RidgeJacobianDeterminant"):
        return tdim >= 3
    if q == "CellNormal":
        return tdim == gdim - 1
    if q in ("FacetJacobianInverse", "FacetJacobian", "FacetJacobianDeterminant"):
        return tdim >= 2
    return True


def build_instances():
    import warnings
    import ufl
    import ufl.classes as C
    from ufl.algorithms.apply_geometry_lowering import apply_geometry_lowering
    from utils import LagrangeElement
    out = []
    for cellname, tdim, gdim in GEOMS:
        cell = getattr(ufl, cellname)
        mesh = ufl.Mesh(LagrangeElement(cell, 1, (gdim,)))
        for q in QUANTITIES:
            if not applicable(q, tdim, gdim):
                continue
            rec = dict(q=q, cell=cellname, tdim=tdim, gdim=gdim)
            try:
                with warnings.catch_warnings():
                    warnings.simplefilter("error")
                    src = getattr(C, q)(mesh)
                    rec["src"] = src
                    rec["out"] = apply_geometry_lowering(src)
            except Exception as e:
                rec["error"] = "%s: %s" % (type(e).__name__, str(e)[:200])
            out.append(rec)
        # all scalar quantities lowered in ONE pass (shared memoisation inside the applier)
        scal = [r for r in out if (r["cell"], r["gdim"]) == (cellname, gdim) and "out" in r and r["out"].ufl_shape == () and r["q"] != "SpatialCoordinate"]
        rec = dict(q="Combined", cell=cellname, tdim=tdim, gdim=gdim, parts=[r["q"] for r in scal])
        try:
            with warnings.catch_warnings():
                warnings.simplefilter("error")
                total = None
                for r in scal:
                    total = r["src"] if total is None else total + r["src"]
                rec["src"] = total
                rec["out"] = apply_geometry_lowering(total)
        except Exception as e:
            rec["error"] = "%s: %s" % (type(e).__name__, str(e)[:200])
        out.append(rec)
    return out


def render():
    insts = build_instances()
    files = {}
    for cellname, tdim, gdim in GEOMS:
        tag = "%s%d" % (cellname, gdim)
        lines = ["import UflVerif.Model.Syntax\n",
                 L.header("geometry.py", "apply_geometry_lowering(Q(mesh)) for every geometric quantity Q on an affine %s mesh in %dD." % (cellname, gdim)),
                 "namespace UflVerif.Gen.Geometry.%s\nopen UflVerif Expr\n" % tag]
        names = []
        for r in insts:
            if (r["cell"], r["gdim"]) != (cellname, gdim):
                continue
            nm = r["q"][0].lower() + r["q"][1:]
            if "error" in r:
                lines.append("-- %s: %s\n" % (r["q"], r["error"].replace("\n", " ")))
                continue
            w = GeoWriter()
            lines.append("def %s : Expr :=\n  %s\n" % (nm, w.expr(r["out"])))
            names.append((r["q"], nm))
        lines.append("def all : List (String × Expr) := [%s]\n" % ", ".join("(%s, %s)" % (L.s(q), nm) for q, nm in names))
        for r in insts:
            if (r["cell"], r["gdim"]) == (cellname, gdim) and r["q"] == "Combined":
                lines.append("/-- the quantities summed in `combined`, in order -/\ndef combinedParts : List Expr := [%s]\n" % ", ".join(p[0].lower() + p[1:] for p in r["parts"]))
        lines.append("end UflVerif.Gen.Geometry.%s\n" % tag)
        files["Geometry_" + tag] = "\n".join(lines)
    return files, insts
