"""Translator for C27: every *write site* in /repo/ufl  ->  Gen/Writes.lean.

A write site is a place in the source that can change an object that already exists when the statement runs:
  attribute store / delete        X.a = v, X.a op= v, del X.a, setattr(X, ..), object.__setattr__(X, ..)
  subscript store / delete        X[k] = v, X[k] op= v, del X[k]
  in-place method call            X.append(..), X.update(..), X.pop(..), X.sort(), ...
  augmented assignment to a name  x += v           (in place when x is a list / set / dict)
  rebinding a module global       global g; g = v
For every site the scanner determines the *written object* (the X above), follows it to its root name and classifies the
root by an intra-procedural analysis of the enclosing function (parameter / fresh local / non-fresh local / self / class
object / module global).  From that it assigns a write KIND (see `Model/Writes.lean`, `SiteKind`).  The list of sites is
emitted as data; `Props/C27.lean` decides by `decide` that every site has a kind the model proves harmless (or that is not
a write to a pre-existing expression / form at all), and that the small table of individually reviewed sites is exactly the
set of sites that need it.  A new store to a parameter, to a loop variable, to `self` outside a constructor or memo method,
or to a non-copied metadata dictionary therefore makes a named theorem fail.

This is a static approximation (aliases through containers and calls are not tracked); the dynamic monitor in
props/c27.py covers the executed paths.
"""
from __future__ import annotations

import ast
import os
from pathlib import Path

from . import leanfmt as L

MUTATORS = {"append", "extend", "insert", "pop", "remove", "clear", "update", "setdefault", "add", "discard", "sort",
            "reverse", "popitem", "difference_update", "intersection_update", "symmetric_difference_update",
            "appendleft", "popleft", "extendleft", "push", "fill", "resize", "__setitem__", "__delitem__", "__setattr__",
            "__delattr__", "__iadd__", "__ior__", "move_to_end"}
# calls whose result is a newly created container / object (never an object that existed before the call)
FRESH_CALLS = {"list", "dict", "set", "tuple", "sorted", "defaultdict", "OrderedDict", "frozenset", "deque", "zip", "range",
               "enumerate", "map", "filter", "reversed", "copy", "deepcopy", "chain", "Counter", "str", "int", "float",
               "bool", "complex", "len", "max", "min", "sum", "abs", "repr", "hash", "id", "type", "iter", "StackDict",
               "Stack", "zeros", "empty", "array", "bytearray", "count", "object"}
FRESH_METHODS = {"copy", "items", "keys", "values", "split", "join", "format", "strip", "replace_", "__new__", "fromkeys",
                 "union", "intersection", "difference", "most_common", "full", "zeros", "ones", "empty", "array"}
CONSTRUCTORS = {"__init__", "__new__", "_init", "__post_init__", "__init_subclass__", "__setstate__"}


def _data_classes():
    """names of classes whose instances are expressions / forms / integrals / measures / domains / spaces / cells /
    elements / indices, i.e. objects a user passes INTO an algorithm; read from the live library"""
    import ufl
    import ufl.classes
    import ufl.finiteelement
    import ufl.pullback
    import ufl.sobolevspace
    from ufl.core.expr import Expr
    from ufl.core.multiindex import IndexBase
    from ufl.form import BaseForm
    from ufl.integral import Integral
    from ufl.measure import Measure
    from ufl.domain import AbstractDomain
    from ufl.functionspace import AbstractFunctionSpace
    from ufl.cell import AbstractCell
    from ufl.finiteelement import AbstractFiniteElement
    from ufl.equation import Equation
    from ufl.utils.counted import Counted
    from ufl.core.ufl_type import UFLObject
    bases = (Expr, BaseForm, Integral, Measure, AbstractDomain, AbstractFunctionSpace, AbstractCell, AbstractFiniteElement,
             IndexBase, Equation, Counted, UFLObject, ufl.sobolevspace.SobolevSpace, ufl.pullback.AbstractPullback)
    names = set()

    def walk(c):
        names.add(c.__name__)
        for s in c.__subclasses__():
            if s.__module__.startswith("ufl"):
                walk(s)
    for b in bases:
        walk(b)
    expr_names = set()

    def walk2(c):
        expr_names.add(c.__name__)
        for s in c.__subclasses__():
            walk2(s)
    walk2(Expr)
    walk2(BaseForm)
    return names, expr_names


class FnInfo:
    """binding analysis of one function body (nested functions are separate FnInfo with a parent)"""

    def __init__(self, node, parent, cls, qual, data_names, expr_names):
        self.node, self.parent, self.cls, self.qual = node, parent, cls, qual
        self.data_names, self.expr_names = data_names, expr_names
        self.params, self.globals_, self.nonlocals = [], set(), set()
        self.bind = {}      # name -> list of rhs ast | "param" | "loop" | "other"
        if node is not None:
            a = node.args
            for p in a.posonlyargs + a.args + a.kwonlyargs:
                self.params.append(p.arg)
            if a.vararg:
                self.params.append(a.vararg.arg)
            if a.kwarg:
                self.params.append(a.kwarg.arg)
            for p in self.params:
                self.bind.setdefault(p, []).append("param")
            self._collect(node.body)

    def _bind_target(self, t, rhs):
        if isinstance(t, ast.Name):
            self.bind.setdefault(t.id, []).append(rhs)
        elif isinstance(t, (ast.Tuple, ast.List)):
            if isinstance(rhs, (ast.Tuple, ast.List)) and len(rhs.elts) == len(t.elts) and not any(
                    isinstance(e, ast.Starred) for e in list(t.elts) + list(rhs.elts)):
                for e, r in zip(t.elts, rhs.elts):    # a, b = {}, []
                    self._bind_target(e, r)
                return
            for e in t.elts:
                self._bind_target(e, "other")     # unpacked element: not known to be fresh
        elif isinstance(t, ast.Starred):
            self._bind_target(t.value, "other")

    def _collect(self, stmts):
        for s in stmts:
            self._collect_stmt(s)

    def _collect_stmt(self, s):
        if isinstance(s, (ast.FunctionDef, ast.AsyncFunctionDef, ast.ClassDef)):
            self.bind.setdefault(s.name, []).append("other")
            return
        if isinstance(s, ast.Assign):
            for t in s.targets:
                self._bind_target(t, s.value)
        elif isinstance(s, ast.AnnAssign):
            if s.value is not None:
                self._bind_target(s.target, s.value)
        elif isinstance(s, ast.AugAssign):
            pass    # x op= v keeps x's freshness (in place on a fresh object, or a rebinding to a new object)
        elif isinstance(s, (ast.For, ast.AsyncFor)):
            self._bind_target(s.target, "loop")
        elif isinstance(s, (ast.With, ast.AsyncWith)):
            for it in s.items:
                if it.optional_vars is not None:
                    self._bind_target(it.optional_vars, "other")
        elif isinstance(s, ast.Global):
            self.globals_.update(s.names)
        elif isinstance(s, ast.Nonlocal):
            self.nonlocals.update(s.names)
        elif isinstance(s, (ast.Import, ast.ImportFrom)):
            for a in s.names:
                self.bind.setdefault((a.asname or a.name).split(".")[0], []).append("other")
        elif isinstance(s, ast.Try):
            for h in s.handlers:
                if h.name:
                    self.bind.setdefault(h.name, []).append("other")
        # walrus
        for sub in ast.iter_child_nodes(s):
            if isinstance(sub, ast.expr):
                for n in ast.walk(sub):
                    if isinstance(n, ast.NamedExpr):
                        self._bind_target(n.target, n.value)
        for fld in ("body", "orelse", "finalbody"):
            for sub in getattr(s, fld, []) or []:
                if isinstance(sub, ast.stmt):
                    self._collect_stmt(sub)
        for h in getattr(s, "handlers", []) or []:
            self._collect(h.body)
        if isinstance(s, ast.Match):
            for c in s.cases:
                self._collect(c.body)

    # ---- freshness
    def fresh_rhs(self, rhs, depth=0):
        if rhs in ("param", "loop", "other") or depth > 6:
            return False
        if isinstance(rhs, (ast.List, ast.Dict, ast.Set, ast.Tuple, ast.ListComp, ast.DictComp, ast.SetComp,
                            ast.GeneratorExp, ast.Constant, ast.JoinedStr, ast.BinOp, ast.UnaryOp, ast.Compare,
                            ast.BoolOp, ast.Lambda)):
            # displays, comprehensions, arithmetic: always a new object (BoolOp `a or {}` may return `a`)
            if isinstance(rhs, ast.BoolOp):
                return all(self.fresh_rhs(v, depth + 1) for v in rhs.values)
            return True
        if isinstance(rhs, ast.IfExp):
            return self.fresh_rhs(rhs.body, depth + 1) and self.fresh_rhs(rhs.orelse, depth + 1)
        if isinstance(rhs, list):      # alternatives from the branches of an `if`
            return all(self.fresh_rhs(r, depth + 1) for r in rhs)
        if isinstance(rhs, ast.Subscript) and isinstance(rhs.slice, ast.Slice) and rhs.slice.lower is None \
                and rhs.slice.upper is None and rhs.slice.step is None:
            return True                # x[:] copies a list
        if isinstance(rhs, ast.Name):
            return self.name_kind(rhs.id) == "fresh"
        if isinstance(rhs, ast.Call):
            f = rhs.func
            if isinstance(f, ast.Name):
                if f.id in FRESH_CALLS:
                    return True
                # constructor of a non-expression class: new object.  Expression constructors may return an existing
                # (interned or simplified) node, so their result is not treated as fresh.
                if f.id[:1].isupper() and f.id not in self.expr_names:
                    return True
                return False
            if isinstance(f, ast.Attribute):
                if f.attr in FRESH_METHODS or f.attr in FRESH_CALLS:
                    return True
                return False
        return False

    def name_kind(self, name, depth=0):
        """'self' | 'cls' | 'param' | 'fresh' | 'local' (bound here, not known fresh) | 'global' | 'free:<kind>'"""
        if name in self.globals_:
            return "global"
        if name in self.bind and name not in self.nonlocals:
            bs = self.bind[name]
            if "param" in bs:
                if self.params and name == self.params[0] and self.cls is not None and self.parent_is_class:
                    return "cls" if (name == "cls" or self.is_classmethod) else "self"
                return "param"
            if all(self.fresh_rhs(b) for b in bs):
                return "fresh"
            return "local"
        if self.parent is not None and self.parent.node is not None:
            k = self.parent.name_kind(name, depth + 1)
            return k
        return "global"

    parent_is_class = False
    is_classmethod = False


class Scanner(ast.NodeVisitor):
    def __init__(self, rel, data_names, expr_names):
        self.rel = rel
        self.data_names, self.expr_names = data_names, expr_names
        self.sites = []
        self.cls_stack = []
        self.fn_stack = [FnInfo(None, None, None, "<module>", data_names, expr_names)]
        self.qual = []
        self.guards = []     # stack of `X.f is None` guards: (root text, field)
        self.blocks = []     # enclosing statement lists inside the current function: [stmts, index, owner stmt]

    # -- scopes
    def visit_ClassDef(self, node):
        self.cls_stack.append(node.name)
        self.qual.append(node.name)
        prev = self.fn_stack
        # a class body is executed at import time: module-like scope
        self.fn_stack = prev + [FnInfo(None, None, node.name, ".".join(self.qual), self.data_names, self.expr_names)]
        self.fn_stack[-1].in_class_body = True
        for s in node.body:
            self.visit(s)
        self.fn_stack = prev
        self.qual.pop()
        self.cls_stack.pop()

    def visit_FunctionDef(self, node):
        parent = self.fn_stack[-1]
        cls = self.cls_stack[-1] if self.cls_stack else None
        self.qual.append(node.name)
        fi = FnInfo(node, parent, cls, ".".join(self.qual), self.data_names, self.expr_names)
        fi.parent_is_class = getattr(parent, "in_class_body", False)
        decos = [ast.unparse(d) for d in node.decorator_list]
        fi.is_classmethod = "classmethod" in decos
        fi.is_static = "staticmethod" in decos
        if fi.is_static:
            fi.parent_is_class = False
        self.fn_stack.append(fi)
        g, b = self.guards, self.blocks
        self.guards, self.blocks = [], []
        for d in node.decorator_list:
            self.visit(d)
        self.block(node.body, node)
        self.guards, self.blocks = g, b
        self.fn_stack.pop()
        self.qual.pop()

    visit_AsyncFunctionDef = visit_FunctionDef

    def visit_Lambda(self, node):
        self.generic_visit(node)

    def block(self, stmts, owner):
        self.blocks.append([stmts, 0, owner])
        for i, st in enumerate(stmts):
            self.blocks[-1][1] = i
            self.visit(st)
        self.blocks.pop()

    def visit_If(self, node):
        gs = self._none_guards(node.test)
        self.visit(node.test)
        self.guards.append(gs)
        self.block(node.body, node)
        self.guards.pop()
        self.block(node.orelse, node)

    def _compound(self, node):
        for fld, val in ast.iter_fields(node):
            if fld in ("body", "orelse", "finalbody") and isinstance(val, list):
                self.block(val, node)
            elif fld == "handlers":
                for h in val:
                    self.block(h.body, h)
            elif fld == "cases":
                for c in val:
                    self.block(c.body, node)
            elif isinstance(val, ast.AST):
                self.visit(val)
            elif isinstance(val, list):
                for v in val:
                    if isinstance(v, ast.AST):
                        self.visit(v)

    visit_While = visit_With = visit_AsyncWith = visit_Try = visit_Match = _compound

    # ---- flow-sensitive reaching definition of a local name at the current statement
    @staticmethod
    def _binds(st, name):
        """None | ('assign', rhs) if st is a plain `name = rhs` | 'nested' if st binds name somewhere else"""
        if isinstance(st, ast.Assign) and len(st.targets) == 1 and isinstance(st.targets[0], ast.Name) and st.targets[0].id == name:
            return ("assign", st.value)
        if isinstance(st, ast.AnnAssign) and isinstance(st.target, ast.Name) and st.target.id == name and st.value is not None:
            return ("assign", st.value)
        if isinstance(st, ast.If) and st.orelse:
            # both branches end by assigning the name: the alternatives dominate what follows the `if`
            alts = []
            for branch in (st.body, st.orelse):
                last = None
                for sub in reversed(branch):
                    b = Scanner._binds(sub, name)
                    if b is not None:
                        last = b
                        break
                if last is None or last == "nested":
                    alts = None
                    break
                alts.append(last[1])
            if alts is not None:
                return ("assign", [a for x in alts for a in (x if isinstance(x, list) else [x])])
        for n in ast.walk(st):
            if isinstance(n, ast.Name) and n.id == name and isinstance(n.ctx, (ast.Store, ast.Del)):
                if isinstance(st, ast.AugAssign) and st.target is n:
                    continue     # x op= v keeps freshness
                return "nested"
            if isinstance(n, (ast.FunctionDef, ast.ClassDef)) and n.name == name:
                return "nested"
            if isinstance(n, ast.ExceptHandler) and n.name == name:
                return "nested"
        return None

    def reaching(self, name):
        """the single assignment `name = rhs` that dominates the current statement, or None (unknown: use all bindings)"""
        for stmts, idx, owner in reversed(self.blocks):
            for j in range(idx - 1, -1, -1):
                b = self._binds(stmts[j], name)
                if b == "nested":
                    return None
                if b is not None:
                    return b[1]
            if isinstance(owner, (ast.For, ast.AsyncFor, ast.While)) and stmts is owner.body:
                # back edge: a binding later in the loop body reaches the current statement too
                if any(self._binds(st, name) is not None for st in stmts[idx:]):
                    return None
                if isinstance(owner, (ast.For, ast.AsyncFor)):
                    for n in ast.walk(owner.target):
                        if isinstance(n, ast.Name) and n.id == name:
                            return None
            if isinstance(owner, (ast.With, ast.AsyncWith)):
                for it in owner.items:
                    if it.optional_vars is not None and any(isinstance(n, ast.Name) and n.id == name for n in ast.walk(it.optional_vars)):
                        return None
            if isinstance(owner, ast.ExceptHandler) and owner.name == name:
                return None
        return None

    @staticmethod
    def _none_guards(test):
        out = []
        for n in ast.walk(test):
            if (isinstance(n, ast.Compare) and len(n.ops) == 1 and isinstance(n.ops[0], ast.Is)
                    and isinstance(n.comparators[0], ast.Constant) and n.comparators[0].value is None
                    and isinstance(n.left, ast.Attribute)):
                out.append((ast.unparse(n.left.value), n.left.attr))
        return out

    # -- sites
    def root_of(self, w):
        """follow the written object expression to its root; returns (root ast, path description)"""
        path = []
        while True:
            if isinstance(w, ast.Attribute):
                path.append("." + w.attr)
                w = w.value
            elif isinstance(w, ast.Subscript):
                path.append("[]")
                w = w.value
            elif isinstance(w, ast.Call) and isinstance(w.func, ast.Attribute) and w.func.attr in ("setdefault", "get", "__getitem__"):
                path.append("[]")
                w = w.func.value
            elif isinstance(w, ast.Starred):
                w = w.value
            else:
                break
        return w, "".join(reversed(path))

    def add(self, node, written, op, field):
        fi = self.fn_stack[-1]
        value = ast.unparse(node.value) if isinstance(node, (ast.Assign, ast.AugAssign, ast.AnnAssign)) and node.value is not None else ""
        root, path = self.root_of(written)
        if isinstance(root, ast.Name):
            rk = fi.name_kind(root.id) if fi.node is not None else "module"
            rname = root.id
            if fi.node is not None and rk in ("param", "local", "fresh") and root.id in fi.bind:
                r = self.reaching(root.id)
                if r is not None:
                    rk = "fresh" if fi.fresh_rhs(r) else ("local" if rk == "fresh" else rk)
            if rk == "param":
                a = fi.node.args
                if a.kwarg is not None and a.kwarg.arg == root.id:
                    rk = "fresh"          # the ** dictionary is created by the call
                elif root.id == "self" and fi.cls is not None:
                    rk = "self"           # wrapper(self, ..) defined inside a method of a class
                elif root.id in ("cls", "klass"):
                    rk = "cls"
        elif isinstance(root, ast.Call):
            rk = "fresh" if fi.fresh_rhs(root) else "call"
            rname = ast.unparse(root.func)
        else:
            rk, rname = "expr", type(root).__name__
        guarded = False
        if op in ("attr", "attr-aug") and isinstance(written, ast.AST):
            wt = ast.unparse(written)
            guarded = any((wt, field) in g for g in self.guards)
        self.sites.append(dict(file=self.rel, func=fi.qual if fi.node is not None or fi.cls else "<module>",
                               fname=(fi.node.name if fi.node is not None else ("<classbody>" if fi.cls else "<module>")),
                               cls=fi.cls or "", line=node.lineno, written=ast.unparse(written), op=op, field=field or "",
                               root=rname, rootkind=rk, path=path, guarded=guarded, value=value,
                               in_function=fi.node is not None))

    def target(self, t, node, aug=False, delete=False):
        if isinstance(t, (ast.Tuple, ast.List)):
            for e in t.elts:
                self.target(e, node, aug, delete)
        elif isinstance(t, ast.Starred):
            self.target(t.value, node, aug, delete)
        elif isinstance(t, ast.Attribute):
            self.add(node, t.value, "attr-del" if delete else ("attr-aug" if aug else "attr"), t.attr)
        elif isinstance(t, ast.Subscript):
            self.add(node, t.value, "sub-del" if delete else ("sub-aug" if aug else "sub"), None)
        elif isinstance(t, ast.Name):
            fi = self.fn_stack[-1]
            if fi.node is not None and (t.id in fi.globals_ or t.id in fi.nonlocals):
                self.add(node, t, "global-rebind" if t.id in fi.globals_ else "nonlocal-rebind", t.id)
            elif aug and fi.node is not None:
                self.add(node, t, "name-aug", t.id)

    def visit_Assign(self, node):
        for t in node.targets:
            self.target(t, node)
        self.generic_visit(node)

    def visit_AugAssign(self, node):
        self.target(node.target, node, aug=True)
        self.generic_visit(node)

    def visit_AnnAssign(self, node):
        if node.value is not None:
            self.target(node.target, node)
        self.generic_visit(node)

    def visit_Delete(self, node):
        for t in node.targets:
            self.target(t, node, delete=True)

    def visit_For(self, node):
        # `for X.a in ..` / `for X[k] in ..` are stores too
        if not isinstance(node.target, ast.Name):
            self.target(node.target, node)
        self._compound(node)

    visit_AsyncFor = visit_For

    def visit_Call(self, node):
        f = node.func
        if isinstance(f, ast.Attribute) and f.attr in MUTATORS:
            if f.attr in ("__setattr__", "__delattr__") and node.args:
                # object.__setattr__(X, name, v) / super().__setattr__(name, v)
                tgt = node.args[0] if isinstance(f.value, ast.Name) and f.value.id in ("object", "type") else f.value
                self.add(node, tgt, "setattr", None)
            else:
                self.add(node, f.value, "call:" + f.attr, None)
        elif isinstance(f, ast.Name) and f.id in ("setattr", "delattr") and node.args:
            fld = node.args[1].value if len(node.args) > 1 and isinstance(node.args[1], ast.Constant) else None
            self.add(node, node.args[0], "setattr", fld)
        self.generic_visit(node)


# ---------------------------------------------------------------------------------------------------------------
# classification

ALG_DIRS = ("algorithms/", "corealg/", "formatting/", "utils/")
# methods that fill memo fields (the accessor guards `if self.F is None` live at their call sites, possibly in a base class)
# — discovered, not listed: see memo_helpers()


def memo_helpers(trees):
    """method name -> True iff EVERY call `<recv>.<name>(..)` in the package sits under `if <recv>.<F> is None`
    (F any field) or inside a constructor.  Also returns the fields each helper writes."""
    calls = {}

    class V(ast.NodeVisitor):
        def __init__(self):
            self.guards, self.fn = [], []

        def visit_FunctionDef(self, n):
            self.fn.append(n.name)
            g, self.guards = self.guards, []
            self.generic_visit(n)
            self.guards = g
            self.fn.pop()

        visit_AsyncFunctionDef = visit_FunctionDef

        def visit_If(self, n):
            gs = Scanner._none_guards(n.test)
            self.visit(n.test)
            self.guards.append(gs)
            for s in n.body:
                self.visit(s)
            self.guards.pop()
            for s in n.orelse:
                self.visit(s)

        def visit_Call(self, n):
            f = n.func
            if isinstance(f, ast.Attribute) and (f.attr.startswith("_analyze_") or f.attr.startswith("_compute_")
                                                 or f.attr.startswith("_sum_")):
                recv = ast.unparse(f.value)
                ok = any(r == recv for g in self.guards for (r, _) in g) or (self.fn and self.fn[-1] in CONSTRUCTORS)
                calls.setdefault(f.attr, []).append(bool(ok))
            self.generic_visit(n)
    for t in trees.values():
        V().visit(t)
    return {k: all(v) for k, v in calls.items()}


REVIEWED = {
    # (file, function, written object, op/field)  ->  reason.  Kept small on purpose: each entry is a site whose target the
    # static rules cannot prove fresh; the reason says why it is not a pre-existing expression / form / integral / measure.
}


def classify(s, helpers_guarded, data_names):
    """-> (kind, arg) with kind one of the constructors of Model/Writes.lean `SiteKind`"""
    f, fn, rk, op, fld, cls = s["file"], s["fname"], s["rootkind"], s["op"], s["field"], s["cls"]
    path = s["path"]
    in_alg_dir = f.startswith(ALG_DIRS)
    if not s["in_function"]:
        return "importTime", ""
    if op in ("global-rebind", "nonlocal-rebind"):
        if op == "nonlocal-rebind":
            return "localFresh", ""          # closure variable of an enclosing call frame
        return "globalRebind", fld
    if op == "name-aug":
        # x op= v on a bare name: in place only for mutable containers
        if rk in ("fresh",):
            return "localFresh", ""
        if rk in ("self", "cls"):
            return "nameAugNonFresh", s["root"]
        return "nameAug", rk
    if rk == "fresh":
        # a chain through attributes of a fresh object may reach a shared object only via `.attr` of an element:
        #   fresh[k].attr = v   writes the element, not the container
        if ("[]" in path and "." in path.split("[]", 1)[1]):
            return "elemOfFresh", s["written"]
        return "localFresh", ""
    if rk == "self":
        is_data = cls in data_names and not in_alg_dir
        if fn in CONSTRUCTORS:
            return "initSelf", cls
        if not is_data:
            return "algState", cls
        if op in ("attr", "attr-aug") and path == "":
            # self.F = v outside a constructor, on a data object: only as a guarded memo fill
            g = s["guarded"] or helpers_guarded.get(fn, False)
            return ("guardedSelf" if g else "unguardedSelf"), cls + "." + fld
        return "dataSelfStore", cls + "." + (fld or path)
    if rk == "cls":
        return "classObject", cls
    if rk in ("param", "local", "call", "expr"):
        if op == "attr" and fld == "_hash" and s["guarded"]:
            return "memoHash", ""            # compute_expr_hash: expr._hash under `if expr._hash is None`
        if op == "attr" and fld == "ufl_operands" and s["func"] == "expr_equals" and s["value"] == "other.ufl_operands":
            return "operandShare", ""
        return "nonFresh", rk
    if rk in ("global", "module"):
        return "moduleGlobal", s["root"]
    return "unclassified", rk


def scan(repo: Path):
    data_names, expr_names = _data_classes()
    root = repo / "ufl"
    sites, trees = [], {}
    for dp, dn, fns in sorted(os.walk(root)):
        dn.sort()
        for fnm in sorted(fns):
            if not fnm.endswith(".py"):
                continue
            p = Path(dp) / fnm
            rel = str(p.relative_to(root))
            tree = ast.parse(p.read_text())
            trees[rel] = tree
            sc = Scanner(rel, data_names, expr_names)
            sc.visit(tree)
            sites += sc.sites
    helpers = memo_helpers(trees)
    for s in sites:
        s["kind"], s["arg"] = classify(s, helpers, data_names)
    scan.new_inits = new_init_table(trees)
    return sites, helpers


def summarise(sites):
    """collapse sites to distinct rows (file, func, written, op, field, kind, arg) with a count; line numbers are dropped so
    that unrelated edits do not change the generated file"""
    rows = {}
    for s in sites:
        k = (s["file"], s["func"], s["written"], s["op"], s["field"], s["kind"], s["arg"])
        rows[k] = rows.get(k, 0) + 1
    return sorted(rows.items())


def new_init_table(trees):
    """classes that define __new__ with a `return` of something that is not the object just allocated, together with the
    status of the __init__ that Python runs on the returned object when it is an instance of the class:
      guarded  = starts with `if self._initialised: return` / `if hasattr(self, "ufl_operands"): return` (or similar)
      trivial  = body is only a docstring / pass
      hashResetOnly = body is `Operator.__init__(self)`: empties the `_hash` slot and nothing else (write kind memoReset)
      unguarded
    rows: (file, class, number of such returns, status)"""
    classes = {}        # name -> (file, ClassDef)
    for rel, tree in trees.items():
        for n in ast.walk(tree):
            if isinstance(n, ast.ClassDef):
                classes.setdefault(n.name, (rel, n))

    def method(cd, name):
        for b in cd.body:
            if isinstance(b, ast.FunctionDef) and b.name == name:
                return b
        return None

    def find_init(name, depth=0):
        if name not in classes or depth > 12:
            return None
        cd = classes[name][1]
        m = method(cd, "__init__")
        if m is not None:
            return m
        for b in cd.bases:
            bn = b.id if isinstance(b, ast.Name) else (b.attr if isinstance(b, ast.Attribute) else None)
            if bn:
                r = find_init(bn, depth + 1)
                if r is not None:
                    return r
        return None

    def init_status(fn):
        if fn is None:
            return "trivial"
        body = [st for st in fn.body if not (isinstance(st, ast.Expr) and isinstance(st.value, ast.Constant))]
        if all(isinstance(st, ast.Pass) for st in body):
            return "trivial"
        if len(body) == 1 and isinstance(body[0], ast.Expr) and isinstance(body[0].value, ast.Call):
            c = body[0].value
            if isinstance(c.func, ast.Attribute) and c.func.attr == "__init__" and isinstance(c.func.value, ast.Name) \
                    and c.func.value.id in ("Operator", "Expr") and len(c.args) == 1 and not c.keywords:
                return "hashResetOnly"       # Operator.__init__(self): only `self._hash = None`
        st = body[0]
        if isinstance(st, ast.If) and len(st.body) == 1 and isinstance(st.body[0], ast.Return) and st.body[0].value is None:
            t = ast.unparse(st.test)
            if "self._initialised" in t or ("hasattr(self" in t):
                return "guarded"
        return "unguarded"

    rows = []
    for name, (rel, cd) in sorted(classes.items()):
        nw = method(cd, "__new__")
        if nw is None:
            continue
        fresh = set()
        for n in ast.walk(nw):
            if isinstance(n, ast.Assign) and len(n.targets) == 1 and isinstance(n.targets[0], ast.Name) and isinstance(n.value, ast.Call) \
                    and isinstance(n.value.func, ast.Attribute) and n.value.func.attr == "__new__":
                fresh.add(n.targets[0].id)
        early = 0
        for n in ast.walk(nw):
            if isinstance(n, ast.Return) and n.value is not None:
                v = n.value
                if isinstance(v, ast.Name) and v.id in fresh:
                    continue
                if isinstance(v, ast.Call) and isinstance(v.func, ast.Attribute) and v.func.attr == "__new__":
                    continue
                early += 1
        if early:
            rows.append((rel, name, early, init_status(find_init(name))))
    return rows


def lean_kind(kind, arg):
    if kind in ("guardedSelf", "unguardedSelf"):
        c, f = arg.split(".", 1)
        return "(.%s %s %s)" % (kind, L.s(c), L.s(f))
    if kind in ("moduleGlobal", "nonFresh", "nameAug", "dataSelfStore", "globalRebind"):
        return "(.%s %s)" % (kind, L.s(arg))
    if kind == "nameAugNonFresh":
        return "(.nameAug %s)" % L.s(arg)
    return "." + kind


def render(repo: Path) -> str:
    sites, helpers = scan(repo)
    rows = summarise(sites)
    out = ["import UflVerif.Model.Writes", "",
           L.header("writes.py", "every write site (attribute / subscript store, in-place container method, augmented assignment) in ufl/, "
                                 "with the kind the intra-procedural analysis assigns to its target; rows are (file, function, written object, "
                                 "operation, field, kind, number of such statements)"),
           "namespace UflVerif.Gen.Writes", "open UflVerif.Writes", ""]
    # one definition per file keeps elaboration fast
    byfile = {}
    for (k, n) in rows:
        byfile.setdefault(k[0], []).append((k, n))
    names = []
    for i, (f, rs) in enumerate(sorted(byfile.items())):
        nm = "sites_%d" % i
        names.append(nm)
        out.append("/-- %s -/" % f)
        out.append("def %s : List Site := [" % nm)
        out.append(",\n".join("  ⟨%s, %s, %s, %s, %s, %s, %d⟩" % (L.s(k[0]), L.s(k[1]), L.s(k[2]), L.s(k[3]), L.s(k[4]), lean_kind(k[5], k[6]), n)
                              for k, n in rs))
        out.append("]")
        out.append("")
    # right-nested, so that the kernel reaches every element through one append
    out.append("def sites : List Site := List.flatten [" + ", ".join(names) + "]")
    out.append("")
    out.append("/-- memo helper methods and whether every call of them is guarded by `if <recv>.<slot> is None` (or sits in a constructor) -/")
    out.append("def memoHelpers : List (String × Bool) := " + L.lst(sorted(helpers.items()), lambda kv: "(%s, %s)" % (L.s(kv[0]), L.b(kv[1]))))
    out.append("")
    out.append("/-- classes whose `__new__` can return an object it did not allocate (file, class, number of such returns, status of the")
    out.append("    `__init__` Python then runs on the returned object if it is an instance of the class) -/")
    out.append("def newInits : List (String × String × Nat × String) := " + L.lst(scan.new_inits, lambda r: "(%s, %s, %d, %s)" % (L.s(r[0]), L.s(r[1]), r[2], L.s(r[3]))))
    out.append("")
    out.append("def scannedFiles : Nat := %d" % len(byfile))
    out.append("")
    out.append("end UflVerif.Gen.Writes")
    return "\n".join(out) + "\n"


if __name__ == "__main__":
    import sys
    sys.path.insert(0, os.environ.get("UFL_VERIF_REPO", "/repo"))
    sites, helpers = scan(Path(os.environ.get("UFL_VERIF_REPO", "/repo")))
    from collections import Counter
    print(Counter(s["kind"] for s in sites))
    print(helpers)
    show = set(sys.argv[1:])
    for (k, n) in summarise(sites):
        if k[5] in show:
            print(n, k)
