"""Translator for C08: run the real `apply_function_pullbacks` on a coefficient of every element of an instance
family (each pull-back kind x (tdim, gdim) x leading tensor axis; mixed, nested mixed and symmetric compositions)
and embed the returned tree together with the element tree (pull-back kind, reference value shape, sub-elements,
symmetry map — read from the live element objects) in Gen/Pullbacks.lean."""
from . import leanfmt as L
from .leanexpr import LeanExprWriter

PB = {"IdentityPullback": "identity", "ContravariantPiola": "contra", "CovariantPiola": "co", "L2Piola": "l2",
      "DoubleContravariantPiola": "dcontra", "DoubleCovariantPiola": "dco", "CovariantContravariantPiola": "coco",
      "MixedPullback": "mixed", "SymmetricPullback": "symmetric", "PhysicalPullback": "physical", "CustomPullback": "custom"}


def elements(cell, tdim):
    """name -> element builder for one reference cell"""
    import ufl
    from ufl import pullback as pb
    from ufl.sobolevspace import H1, HDiv, HCurl, L2, HDivDiv, HEin
    from utils import FiniteElement, MixedElement, SymmetricElement
    P = lambda deg, sh=(): FiniteElement("Lagrange", cell, deg, sh, pb.identity_pullback, H1)
    RT = lambda lead=(): FiniteElement("RT", cell, 1, tuple(lead) + (tdim,), pb.contravariant_piola, HDiv)
    N1 = lambda lead=(): FiniteElement("N1curl", cell, 1, tuple(lead) + (tdim,), pb.covariant_piola, HCurl)
    DG = lambda: FiniteElement("DGl2", cell, 0, (), pb.l2_piola, L2)
    DGv = lambda: FiniteElement("DGl2", cell, 0, (2,), pb.l2_piola, L2)
    HH = lambda lead=(): FiniteElement("HHJ", cell, 1, tuple(lead) + (tdim, tdim), pb.double_contravariant_piola, HDivDiv)
    RG = lambda lead=(): FiniteElement("Regge", cell, 1, tuple(lead) + (tdim, tdim), pb.double_covariant_piola, HEin)
    CC = lambda lead=(): FiniteElement("GLS", cell, 1, tuple(lead) + (tdim, tdim), pb.covariant_contravariant_piola, L2)
    E = {
        "P": lambda: P(2), "Pvec": lambda: P(1, (3,)), "Pten": lambda: P(1, (2, 2)),
        "RT": RT, "RTrows": lambda: RT((2,)), "N1": N1, "N1rows": lambda: N1((2,)),
        "DG": DG, "DGv": DGv, "HHJ": HH, "Regge": RG, "GLS": CC,
        "mixed_P_RT_N1": lambda: MixedElement([P(1), RT(), N1()]),
        "mixed_RT_DG": lambda: MixedElement([RT(), DG()]),
        "mixed_nested": lambda: MixedElement([P(1, (2,)), MixedElement([N1(), DG()]), RT()]),
        "mixed_ten": lambda: MixedElement([P(1, (2, 2)), N1()]),
    }
    if tdim >= 2:
        E["HHJrows"] = lambda: HH((2,))
        E["mixed_Regge_P"] = lambda: MixedElement([RG(), P(1)])
    sym2 = {(0, 0): 0, (0, 1): 1, (1, 0): 1, (1, 1): 2}
    E["sym_P"] = lambda: SymmetricElement(sym2, [P(2), P(1), P(3)])
    E["sym_RT"] = lambda: SymmetricElement(sym2, [RT(), RT(), RT()])
    E["mixed_sym_P"] = lambda: MixedElement([SymmetricElement(sym2, [P(3), P(3), P(3)]), P(1)])
    voigt = {(0, 0): 0, (1, 1): 1, (0, 1): 2, (1, 0): 2}          # insertion order is not row-major
    E["sym_voigt_P"] = lambda: SymmetricElement(voigt, [P(2), P(1), P(3)])
    E["sym_voigt_N1"] = lambda: SymmetricElement(voigt, [N1(), N1(), N1()])
    E["mixed_sym_voigt"] = lambda: MixedElement([P(1), SymmetricElement(voigt, [P(1), P(2), P(1)])])
    sym3 = {(0,): 0, (1,): 1, (2,): 0}
    E["sym_vec_N1"] = lambda: SymmetricElement(sym3, [N1(), N1()])
    return E


GEOMS = [("interval", 1, 1), ("interval", 1, 2), ("triangle", 2, 2), ("triangle", 2, 3), ("tetrahedron", 3, 3), ("interval", 1, 3)]


def elem_lean(e):
    name = type(e.pullback).__name__
    kind = PB.get(name, "custom")
    subs = list(e.sub_elements) if kind in ("mixed", "symmetric") else []
    sym = []
    if kind == "symmetric":
        sym = sorted((tuple(int(x) for x in k), int(v)) for k, v in e.pullback._symmetry.items())
    return "(.mk .%s %s [%s] [%s])" % (kind, L.lst([int(x) for x in e.reference_value_shape]), ", ".join(elem_lean(s) for s in subs),
                                      ", ".join("(%s, %d)" % (L.lst(k), v) for k, v in sym))


def build_instances():
    import ufl
    from ufl.algorithms.apply_function_pullbacks import apply_function_pullbacks
    from ufl.classes import ReferenceValue, Jacobian, JacobianDeterminant, JacobianInverse
    from utils import LagrangeElement
    out = []
    for cellname, tdim, gdim in GEOMS:
        cell = getattr(ufl, cellname)
        mesh = ufl.Mesh(LagrangeElement(cell, 1, (gdim,)))
        for name, mk in elements(cell, tdim).items():
            rec = dict(name=name, cell=cellname, tdim=tdim, gdim=gdim)
            try:
                el = mk()
                V = ufl.FunctionSpace(mesh, el)
                f = ufl.Coefficient(V)
                rec.update(element=el, space=V, f=f, mesh=mesh)
                rec["out"] = apply_function_pullbacks(f)
                rec["value_shape"] = tuple(int(x) for x in V.value_shape)
            except Exception as e:
                rec["error"] = "%s: %s" % (type(e).__name__, str(e)[:200])
            out.append(rec)
    return out


class PBWriter(LeanExprWriter):
    """ReferenceValue(f), Jacobian, JacobianDeterminant, JacobianInverse are the symbols the form compiler tabulates:
    they are written as terminals r, J, detJ, K"""
    def _expr(self, o):
        n = o._ufl_class_.__name__
        if n == "ReferenceValue":
            return '(.term { cls := "ReferenceValue", key := "r", shape := %s })' % L.lst(o.ufl_shape)
        if n == "Jacobian":
            return '(.term { cls := "Jacobian", key := "J", shape := %s })' % L.lst(o.ufl_shape)
        if n == "JacobianDeterminant":
            return '(.term { cls := "JacobianDeterminant", key := "detJ", shape := [] })'
        if n == "JacobianInverse":
            return '(.term { cls := "JacobianInverse", key := "K", shape := %s })' % L.lst(o.ufl_shape)
        return super()._expr(o)


def render():
    """returns ({module: text}, instances): one generated module per (cell, gdim)"""
    insts = build_instances()
    files = {}
    for cellname, tdim, gdim in GEOMS:
        tag = "%s%d" % (cellname, gdim)
        lines = ["import UflVerif.Model.Pullback\n",
                 L.header("pullbacks.py", "apply_function_pullbacks(f) for a coefficient f of each element of the instance family on a %s in %dD, with the element tree read from the live objects." % (cellname, gdim)),
                 "namespace UflVerif.Gen.Pullbacks\nopen UflVerif Expr Pullback\n"]
        entries = []
        for r in insts:
            if (r["cell"], r["gdim"]) != (cellname, gdim):
                continue
            if "error" in r:
                entries.append("  -- %s on %s gdim %d: %s" % (r["name"], r["cell"], r["gdim"], r["error"].replace("\n", " ")))
                continue
            w = PBWriter()
            entries.append("  { name := %s, tdim := %d, gdim := %d, elem := %s, valueShape := %s, out :=\n    %s }" % (
                L.s(r["name"]), r["tdim"], r["gdim"], elem_lean(r["element"]), L.lst(r["value_shape"]), w.expr(r["out"])))
        lines.append("def %s : List Case := [\n%s]\n" % (tag, ",\n".join(entries)))
        lines.append("end UflVerif.Gen.Pullbacks\n")
        files["Pullbacks_" + tag] = "\n".join(lines)
    return files, insts
