"""UFL expression -> Lean `Expr` literal (for translators that embed trees returned by the real code).
Index counts are renumbered by first occurrence (pre-order, operands left to right), terminals are named
by the caller (`names`: id(obj) -> key) so that the generated text is stable from run to run."""
from fractions import Fraction
from . import leanfmt as L
import uflio


class LeanExprWriter:
    def __init__(self, names=None, index_base=0):
        self.names = names or {}
        self.imap = {}
        self.base = index_base
        self.memo = {}

    def idx(self, count):
        if count not in self.imap:
            self.imap[count] = self.base + len(self.imap)
        return self.imap[count]

    def term(self, o):
        from ufl.classes import Label, Argument
        name = o._ufl_class_.__name__
        key = self.names.get(id(o))
        if key is None:
            key = repr(o)
        count, part = 0, -1
        if isinstance(o, Argument):
            count = o.number(); part = -1 if o.part() is None else o.part()
        shape = () if isinstance(o, Label) else o.ufl_shape
        extra = ""
        if count:
            extra += ", count := %d" % count
        if part != -1:
            extra += ", part := %d" % part
        return ".term { cls := %s, key := %s, shape := %s%s }" % (L.s(name), L.s(key), L.lst(shape), extra)

    def nats(self, xs):
        return "[" + ", ".join(str(int(x)) for x in xs) + "]"

    def expr(self, o):
        k = id(o)
        if k in self.memo:
            return self.memo[k][1]
        r = self._expr(o)
        self.memo[k] = (o, r)
        return r

    def _expr(self, o):
        from ufl.classes import IntValue, FloatValue, ComplexValue, Zero, MultiIndex, FixedIndex
        name = o._ufl_class_.__name__
        if o._ufl_is_terminal_:
            if isinstance(o, IntValue):
                v = int(o._value)
                return "(.int %s)" % (str(v) if v >= 0 else "(%d)" % v)
            if isinstance(o, FloatValue):
                f = Fraction(o._value)
                return "(.real %s %d)" % (str(f.numerator) if f.numerator >= 0 else "(%d)" % f.numerator, f.denominator)
            if isinstance(o, ComplexValue):
                a, b = Fraction(o._value.real), Fraction(o._value.imag)
                return "(.cplx (%d) %d (%d) %d)" % (a.numerator, a.denominator, b.numerator, b.denominator)
            if isinstance(o, Zero):
                return "(.zero %s [%s])" % (self.nats(o.ufl_shape), ", ".join("(%d, %d)" % (self.idx(c), d) for c, d in zip(o.ufl_free_indices, o.ufl_index_dimensions)))
            if isinstance(o, MultiIndex):
                return "(.mi [%s])" % ", ".join(".fixed %d" % int(i) if isinstance(i, FixedIndex) else ".free %d" % self.idx(i.count()) for i in o._indices)
            return "(" + self.term(o) + ")"
        if name in uflio.GRADLIKE:
            aux = self.nats(o.ufl_shape[-1:])
        elif name in uflio.SHAPE_AUX or name not in uflio.KNOWN_OPS:
            aux = self.nats(o.ufl_shape)
        else:
            aux = "[]"
        opname = name[0].lower() + name[1:]
        if name not in uflio.KNOWN_OPS:
            op = "(.other %s)" % L.s(name)
        else:
            op = "." + {"eQ": "eQ"}.get(opname, opname)
            if name in ("EQ", "NE", "LE", "GE", "LT", "GT"):
                op = "." + name[0].lower() + name[1]
        # multi-index operands must be visited after the expression operands are numbered?  No: pre-order, left to right.
        args = [self.expr(c) for c in o.ufl_operands]
        return "(.op %s %s [%s])" % (op, aux, ", ".join(args))
