"""Translator for C14: the dispatch of `ArityChecker` as the live class computed it -> Gen/Arity.lean.

For every registered UFL type: the *function* its handler resolves to (`positive_restricted = linear_operator`,
`dot = inner`, `expr = nonlinear_operator` are aliases, so the handler *name* is not enough), whether map_expr_dag
treats the type as a cut-off (handler takes no operand results), and one behavioural observation of the
`list_tensor` rule: is an argument-free non-zero component next to components with arguments accepted?"""
from . import leanfmt as L


def observe():
    import ufl
    import ufl.classes  # noqa: F401  (registers every type)
    from ufl.core.expr import Expr
    from ufl.algorithms.check_arities import ArityChecker, ArityMismatch
    ac = ArityChecker(())
    rows = []
    for c in Expr._ufl_all_classes_:
        h = ac._handlers[c._ufl_typecode_]
        fn = getattr(h, "__func__", h).__name__
        rows.append((c.__name__, bool(getattr(c, "_ufl_is_terminal_", False)), fn, bool(ac._is_cutoff_type[c._ufl_typecode_])))
    # behavioural probe of the list_tensor rule on <v, f>
    from utils import LagrangeElement
    mesh = ufl.Mesh(LagrangeElement(ufl.triangle, 1, (2,)))
    V = ufl.FunctionSpace(mesh, LagrangeElement(ufl.triangle, 1))
    v, f = ufl.TestFunction(V), ufl.Coefficient(V)
    o = ufl.classes.ListTensor(v, f)
    try:
        r = ac.list_tensor(o, ((v, False),), ())
        zero_only = False if r == ((v, False),) else None
    except ArityMismatch:
        zero_only = True
    if zero_only is None:
        raise RuntimeError("unexpected result of ArityChecker.list_tensor on <v, f>: %r" % (r,))
    # ... and <v, 0> must be accepted under either rule
    z = ufl.classes.ListTensor(v, ufl.classes.Zero())
    if ac.list_tensor(z, ((v, False),), ()) != ((v, False),):
        raise RuntimeError("ArityChecker.list_tensor rejects <v, 0>")
    return rows, zero_only


def render():
    rows, zero_only = observe()
    out = [L.header("arity.py", "ArityChecker: (type name, is terminal, function the handler resolves to, cut-off type) for every registered UFL type; "
                                "listTensorZeroOnly = observed: does list_tensor reject an argument-free non-zero component next to components with arguments."),
           "namespace UflVerif.Gen.Arity\n",
           "def table : List (String × Bool × String × Bool) := [\n  " +
           ",\n  ".join("(%s, %s, %s, %s)" % (L.s(n), L.b(t), L.s(h), L.b(c)) for n, t, h, c in rows) + "]\n",
           "def listTensorZeroOnly : Bool := %s\n" % L.b(zero_only),
           "end UflVerif.Gen.Arity\n"]
    return "\n".join(out), dict(types=len(rows), zero_only=zero_only, handlers=sorted({r[2] for r in rows}))
