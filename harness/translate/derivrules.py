"""Translator for C02-C04: the derivative RULES of the real code as trees.  For every scalar operator `op` of the language the
real `expand_derivatives(derivative(op(f, g), (f, g), (df, dg)))` (GateauxDerivativeRuleset -> GenericDerivativeRuleset) is run on
scalar coefficients f, g with scalar directions df, dg and the returned tree is embedded in Gen/DerivRules.lean: it expresses the
derivative of op(f, g) in terms of f, g and the derivatives df, dg of the operands.  The same is done with `grad` (GradRuleset:
operand derivatives are the symbols grad(f), grad(g), written as vector-valued terminals `df`, `dg`) and with
`diff(., v)` for the variable ruleset."""
from . import leanfmt as L
from .leanexpr import LeanExprWriter


def operators():
    """name -> (arity, builder)"""
    import ufl
    return {
        "sum": (2, lambda f, g: f + g), "product": (2, lambda f, g: f * g), "division": (2, lambda f, g: f / g),
        "power": (2, lambda f, g: f ** g), "power2": (1, lambda f: f ** 2), "power3": (1, lambda f: f ** 3),
        "powerHalf5": (1, lambda f: f ** 2.5), "powerNeg1": (1, lambda f: f ** -1),
        "abs": (1, abs), "sqrt": (1, ufl.sqrt), "exp": (1, ufl.exp), "ln": (1, ufl.ln), "sin": (1, ufl.sin), "cos": (1, ufl.cos), "tan": (1, ufl.tan),
        "cosh": (1, ufl.cosh), "sinh": (1, ufl.sinh), "tanh": (1, ufl.tanh), "acos": (1, ufl.acos), "asin": (1, ufl.asin), "atan": (1, ufl.atan),
        "erf": (1, ufl.erf), "atan2": (2, ufl.atan2),
        "conditional": (2, lambda f, g: ufl.conditional(ufl.lt(f, g), f, g)),
        "conditionalGe": (2, lambda f, g: ufl.conditional(ufl.ge(f, 0.5), g, f * g)),
        "minValue": (2, ufl.min_value), "maxValue": (2, ufl.max_value),
        "conj": (1, ufl.conj), "real": (1, ufl.real), "imag": (1, ufl.imag), "sign": (1, ufl.sign),
        "neg": (1, lambda f: -f), "variable": (2, lambda f, g: ufl.variable(f * g)),
        "posRestricted": (1, lambda f: f("+")), "negRestricted": (1, lambda f: f("-")),
    }


class InputWriter(LeanExprWriter):
    """the differentiated expression op(f, g) itself; the four symbols carry the counts 0..3 in the order the real objects were
    created (f < g < df < dg), which is what the canonical operand sorting of the constructors looks at"""
    COUNTS = {"f": 0, "g": 1, "df": 2, "dg": 3}

    def term(self, o):
        key = self.names.get(id(o))
        if key in self.COUNTS:
            c = self.COUNTS[key]
            return '.term { cls := "Coefficient", key := %s, shape := %s%s }' % (L.s(key), L.lst(o.ufl_shape), (", count := %d" % c) if c else "")
        return super().term(o)


class RuleWriter(LeanExprWriter):
    def __init__(self, names):
        super().__init__(names=names)

    def _expr(self, o):
        # grad of an operand symbol is the operand's derivative symbol (vector valued)
        n = o._ufl_class_.__name__
        if n == "Grad" and id(o.ufl_operands[0]) in self.names:
            key = "d" + self.names[id(o.ufl_operands[0])]
            return '(.term { cls := "Coefficient", key := %s, shape := %s })' % (L.s(key), L.lst(o.ufl_shape))
        return super()._expr(o)


def build():
    import ufl
    from ufl.algorithms import expand_derivatives
    from utils import LagrangeElement
    cell = ufl.triangle
    mesh = ufl.Mesh(LagrangeElement(cell, 1, (2,)))
    V = ufl.FunctionSpace(mesh, LagrangeElement(cell, 2))
    out = []
    for name, (ar, mk) in operators().items():
        f, g, df, dg = [ufl.Coefficient(V) for _ in range(4)]
        names = {id(f): "f", id(g): "g", id(df): "df", id(dg): "dg"}
        e = mk(f) if ar == 1 else mk(f, g)
        from ufl.classes import Label
        from ufl.corealg.traversal import unique_pre_traversal
        for o in unique_pre_traversal(e):
            if isinstance(o, Label):
                names[id(o)] = "lbl"
        rec = dict(name=name, arity=ar, names=names, keep=(f, g, df, dg, e), inp=e)
        try:
            rec["gateaux"] = expand_derivatives(ufl.derivative(e, (f, g), (df, dg)))
        except Exception as ex:
            rec["gateaux_error"] = "%s: %s" % (type(ex).__name__, str(ex)[:200])
        try:
            rec["grad"] = expand_derivatives(ufl.grad(e))
        except Exception as ex:
            rec["grad_error"] = "%s: %s" % (type(ex).__name__, str(ex)[:200])
        # variable ruleset: d/dv op(v, v*v) for a scalar variable v = variable(f)   (chain rule through both operands)
        try:
            v = ufl.variable(f)
            ev = mk(v) if ar == 1 else mk(v, v * v)
            rec["variable"] = expand_derivatives(ufl.diff(ev, v))
            rec["keep2"] = (v, ev)
            rec["inp_v"] = ev
            names_v = dict(names)
            for o in unique_pre_traversal(ev):
                if isinstance(o, Label):
                    names_v[id(o)] = "lbl" if o == v.ufl_operands[1] else "lbl%d" % len(names_v)
            rec["names_v"] = names_v
        except Exception as ex:
            rec["variable_error"] = "%s: %s" % (type(ex).__name__, str(ex)[:200])
        out.append(rec)
    return out


def render():
    recs = build()
    lines = ["import UflVerif.Model.Syntax\n",
             L.header("derivrules.py", "Derivative rules of the real code: expand_derivatives(derivative(op(f,g),(f,g),(df,dg))) and expand_derivatives(grad(op(f,g))) for scalar coefficient operands."),
             "namespace UflVerif.Gen.DerivRules\nopen UflVerif Expr\n",
             "structure Rule where\n  name : String\n  arity : Nat\n  out : Expr\n"]
    for fam in ("gateaux", "grad", "variable"):
        ents = []
        for r in recs:
            if fam not in r:
                ents.append("  -- %s: %s" % (r["name"], r.get(fam + "_error", "").replace("\n", " ")))
                continue
            w = RuleWriter(r.get("names_v", r["names"]) if fam == "variable" else r["names"])
            ents.append("  { name := %s, arity := %d, out :=\n    %s }" % (L.s(r["name"]), r["arity"], w.expr(r[fam])))
        lines.append("def %s : List Rule := [\n%s]\n" % ({"variable": "variableFam"}.get(fam, fam), ",\n".join(ents)))
    ents = []
    for r in recs:
        if "gateaux" in r:
            ents.append("  (%s,\n    %s)" % (L.s(r["name"]), InputWriter(r["names"]).expr(r["inp"])))
    lines.append("/-- the differentiated expressions op(f, g) of the `gateaux` family (symbols with counts 0..3) -/\ndef gateauxInputs : List (String × Expr) := [\n%s]\n" % ",\n".join(ents))
    ents = []
    for r in recs:
        if "variable" in r:
            ents.append("  (%s,\n    %s)" % (L.s(r["name"]), InputWriter(r["names_v"]).expr(r["inp_v"])))
    lines.append("/-- the differentiated expressions op(v, v*v) of the `variableFam` family, v = variable(f) with label `lbl` -/\ndef variableInputs : List (String × Expr) := [\n%s]\n" % ",\n".join(ents))
    lines.append("end UflVerif.Gen.DerivRules\n")
    return "\n".join(lines), recs
