"""Translator for C02-C04: the derivative RULES of the real code as trees.  For every scalar operator `op` of the language the
real `expand_derivatives(derivative(op(f, g), (f, g), (df, dg)))` (GateauxDerivativeRuleset -> GenericDerivativeRuleset) is run on
scalar coefficients f, g with scalar directions df, dg and the returned tree is embedded in Gen/DerivRules.lean: it expresses the
derivative of op(f, g) in terms of f, g and the derivatives df, dg of the operands.  The same is done with `grad` (GradRuleset:
operand derivatives are the symbols grad(f), grad(g), written as vector-valued terminals `df`, `dg`) and with
`diff(., v)` for the variable ruleset."""
from . import leanfmt as L
from .leanexpr import LeanExprWriter


def operators():
    """name -> (arity, builder)"""
    import ufl
    return {
        "sum": (2, lambda f, g: f + g), "product": (2, lambda f, g: f * g), "division": (2, lambda f, g: f / g),
        "power": (2, lambda f, g: f ** g), "power2": (1, lambda f: f ** 2), "power3": (1, lambda f: f ** 3),
        "powerHalf5": (1, lambda f: f ** 2.5), "powerNeg1": (1, lambda f: f ** -1),
        "abs": (1, abs), "sqrt": (1, ufl.sqrt), "exp": (1, ufl.exp), "ln": (1, ufl.ln), "sin": (1, ufl.sin), "cos": (1, ufl.cos), "tan": (1, ufl.tan),
        "cosh": (1, ufl.cosh), "sinh": (1, ufl.sinh), "tanh": (1, ufl.tanh), "acos": (1, ufl.acos), "asin": (1, ufl.asin), "atan": (1, ufl.atan),
        "erf": (1, ufl.erf), "atan2": (2, ufl.atan2),
        "conditional": (2, lambda f, g: ufl.conditional(ufl.lt(f, g), f, g)),
        "conditionalGe": (2, lambda f, g: ufl.conditional(ufl.ge(f, 0.5), g, f * g)),
        "minValue": (2, ufl.min_value), "maxValue": (2, ufl.max_value),
        "conj": (1, ufl.conj), "real": (1, ufl.real), "imag": (1, ufl.imag), "sign": (1, ufl.sign),
        "neg": (1, lambda f: -f), "variable": (2, lambda f, g: ufl.variable(f * g)),
        "posRestricted": (1, lambda f: f("+")), "negRestricted": (1, lambda f: f("-")),
    }


class RuleWriter(LeanExprWriter):
    def __init__(self, names):
        super().__init__(names=names)

    def _expr(self, o):
        # grad of an operand symbol is the operand's derivative symbol (vector valued)
        n = o._ufl_class_.__name__
        if n == "Grad" and id(o.ufl_operands[0]) in self.names:
            key = "d" + self.names[id(o.ufl_operands[0])]
            return '(.term { cls := "Coefficient", key := %s, shape := %s })' % (L.s(key), L.lst(o.ufl_shape))
        return super()._expr(o)


def build():
    import ufl
    from ufl.algorithms import expand_derivatives
    from utils import LagrangeElement
    cell = ufl.triangle
    mesh = ufl.Mesh(LagrangeElement(cell, 1, (2,)))
    V = ufl.FunctionSpace(mesh, LagrangeElement(cell, 2))
    out = []
    for name, (ar, mk) in operators().items():
        f, g, df, dg = [ufl.Coefficient(V) for _ in range(4)]
        names = {id(f): "f", id(g): "g", id(df): "df", id(dg): "dg"}
        e = mk(f) if ar == 1 else mk(f, g)
        rec = dict(name=name, arity=ar, names=names, keep=(f, g, df, dg, e))
        try:
            rec["gateaux"] = expand_derivatives(ufl.derivative(e, (f, g), (df, dg)))
        except Exception as ex:
            rec["gateaux_error"] = "%s: %s" % (type(ex).__name__, str(ex)[:200])
        try:
            rec["grad"] = expand_derivatives(ufl.grad(e))
        except Exception as ex:
            rec["grad_error"] = "%s: %s" % (type(ex).__name__, str(ex)[:200])
        # variable ruleset: d/dv op(v, v*v) for a scalar variable v = variable(f)   (chain rule through both operands)
        try:
            v = ufl.variable(f)
            ev = mk(v) if ar == 1 else mk(v, v * v)
            rec["variable"] = expand_derivatives(ufl.diff(ev, v))
            rec["keep2"] = (v, ev)
        except Exception as ex:
            rec["variable_error"] = "%s: %s" % (type(ex).__name__, str(ex)[:200])
        out.append(rec)
    return out


def render():
    recs = build()
    lines = ["import UflVerif.Model.Syntax\n",
             L.header("derivrules.py", "Derivative rules of the real code: expand_derivatives(derivative(op(f,g),(f,g),(df,dg))) and expand_derivatives(grad(op(f,g))) for scalar coefficient operands."),
             "namespace UflVerif.Gen.DerivRules\nopen UflVerif Expr\n",
             "structure Rule where\n  name : String\n  arity : Nat\n  out : Expr\n"]
    for fam in ("gateaux", "grad", "variable"):
        ents = []
        for r in recs:
            if fam not in r:
                ents.append("  -- %s: %s" % (r["name"], r.get(fam + "_error", "").replace("\n", " ")))
                continue
            w = RuleWriter(r["names"])
            ents.append("  { name := %s, arity := %d, out :=\n    %s }" % (L.s(r["name"]), r["arity"], w.expr(r[fam])))
        lines.append("def %s : List Rule := [\n%s]\n" % ({"variable": "variableFam"}.get(fam, fam), ",\n".join(ents)))
    lines.append("end UflVerif.Gen.DerivRules\n")
    return "\n".join(lines), recs
