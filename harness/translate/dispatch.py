"""Translator for C19 (dispatch part): the handler tables every algorithm class computes -> Gen/Dispatch.lean."""
import importlib, pkgutil
from . import leanfmt as L


def all_subclasses(c):
    out = []
    for s in c.__subclasses__():
        out.append(s)
        out += all_subclasses(s)
    return out


def observe():
    import ufl, ufl.algorithms, ufl.formatting, ufl.corealg
    for pkg in (ufl.algorithms, ufl.formatting, ufl.corealg):
        for m in pkgutil.iter_modules(pkg.__path__):
            try:
                importlib.import_module(pkg.__name__ + "." + m.name)
            except Exception:  # optional deps
                pass
    from ufl.core.expr import Expr
    from ufl.core.ufl_type import UFLType
    from ufl.corealg.multifunction import MultiFunction
    from ufl.algorithms.transformer import Transformer
    from ufl.corealg.dag_traverser import DAGTraverser
    classes = list(Expr._ufl_all_classes_)
    # intern handler names
    def mro_names(cls):
        out = []
        for c in cls.mro():
            hn = vars(c).get("_ufl_handler_name_")
            if hn is not None:
                out.append(hn)
        if "ufl_type" not in out:
            out.append("ufl_type")
        return out
    types = [(c.__name__, c._ufl_typecode_, mro_names(c)) for c in classes]
    cand = sorted({n for _, _, m in types for n in m})
    algs = []
    seen = set()
    for base, kind in ((MultiFunction, "MF"), (Transformer, "TR")):
        for A in [base] + all_subclasses(base):
            if A in seen:
                continue
            seen.add(A)
            # build the table exactly as the code does, without running the subclass constructor
            inst = object.__new__(A)
            try:
                base.__init__(inst)
            except Exception as e:   # noqa
                algs.append((A.__module__ + "." + A.__qualname__, kind, None, None, "init raised " + type(e).__name__))
                continue
            if kind == "MF":
                table = list(MultiFunction._handlers_cache[A][0])
            else:
                table = [x[0] if x is not None else None for x in Transformer._handlers_cache[A]]
            defined = [n for n in cand if hasattr(inst, n)]
            algs.append((A.__module__ + "." + A.__qualname__, kind, defined, table, None))
    # DAGTraverser subclasses: functools.singledispatchmethod registry
    dags = []
    for D in all_subclasses(DAGTraverser):
        disp = getattr(vars(D).get("process"), "dispatcher", None) or getattr(D.process, "dispatcher", None)
        if disp is None:
            continue
        reg = [k for k in disp.registry.keys() if isinstance(k, type)]
        regnames = sorted(k.__name__ for k in reg)
        row = []
        for c in classes:
            f = disp.dispatch(c)
            # which registered class does this implementation belong to (first in MRO order)
            owners = [k for k in c.mro() if k in disp.registry and disp.registry[k] is f]
            row.append(owners[0].__name__ if owners else None)
        dags.append((D.__module__ + "." + D.__qualname__, regnames, row))
    pymro = [[k.__name__ for k in c.mro()] for c in classes]
    return types, algs, dags, pymro


def render():
    types, algs, dags, pymro = observe()
    names = sorted({n for _, _, m in types for n in m} | {n for a in algs if a[2] for n in a[2]})
    idx = {n: i for i, n in enumerate(names)}
    cls_names = sorted({n for m in pymro for n in m})
    cidx = {n: i for i, n in enumerate(cls_names)}
    out = [L.header("dispatch.py", "typecodes/MROs of every registered UFL type, and for every MultiFunction / Transformer / DAGTraverser subclass in ufl the handler table the code itself computed. Names are interned as indices."),
           "namespace UflVerif.Gen.Dispatch\n",
           "def handlerNames : List String := %s\n" % L.lst(names, L.s),
           "/-- per typecode: handler names along the MRO (indices into handlerNames), own first -/",
           "def typeMro : List (List Nat) := [\n  " + ",\n  ".join(L.lst([idx[n] for n in m], str, 10**9) for _, _, m in types) + "]\n",
           "def typeNames : List String := %s\n" % L.lst([t[0] for t in types], L.s),
           "/-- (class, kind, handler names visible on instances, table computed by the class: typecode ↦ handler) -/",
           "def algs : List (String × String × List Nat × List (Option Nat)) := ["]
    rows = []
    for name, kind, defined, table, err in algs:
        if err:
            continue
        rows.append("  (%s, %s, %s,\n   %s)" % (L.s(name), L.s(kind), L.lst([idx[n] for n in defined], str, 10**9),
                                               L.lst([None if t is None else idx[t] for t in table], L.opt, 10**9)))
    out.append(",\n".join(rows) + "]\n")
    out.append("def classNames : List String := %s\n" % L.lst(cls_names, L.s))
    out.append("/-- per typecode: Python MRO as indices into classNames -/")
    out.append("def pyMro : List (List Nat) := [\n  " + ",\n  ".join(L.lst([cidx[n] for n in m], str, 10**9) for m in pymro) + "]\n")
    out.append("/-- DAGTraverser subclasses: (class, registered classes of `process`, per typecode the registered class whose rule singledispatch selects) -/")
    out.append("def dags : List (String × List Nat × List (Option Nat)) := [")
    rows = []
    for name, reg, row in dags:
        rows.append("  (%s, %s,\n   %s)" % (L.s(name), L.lst([cidx[n] for n in reg if n in cidx], str, 10**9),
                                          L.lst([None if r is None or r not in cidx else cidx[r] for r in row], L.opt, 10**9)))
    out.append(",\n".join(rows) + "]\n")
    out.append("end UflVerif.Gen.Dispatch\n")
    stats = dict(types=len(types), algs=len([a for a in algs if not a[4]]), skipped=[a[0] + ": " + a[4] for a in algs if a[4]], dags=len(dags))
    return "\n".join(out), stats
