"""Translator for C17: the rule `RestrictionPropagator` applies to every registered UFL type -> Gen/Restrictions.lean.

For every class in `Expr._ufl_all_classes_` the handler name is read from the table the MultiFunction machinery itself
computed (`MultiFunction._handlers_cache[RestrictionPropagator]`), resolved to the function object on the class, and that
function is identified by its own `__name__` (`_require_restriction`, `_default_restricted`, `_opposite`, `_ignore_restriction`,
`_missing_rule`, `reuse_if_untouched`, or a rule with a body of its own: `restricted`, `variable`, `reference_value`,
`coefficient`, `facet_normal`).  Also emitted: whether the rule visits the operands (number of positional parameters, the test
`map_expr_dag` applies) and `default_restriction_map`."""
import inspect
from . import leanfmt as L


def observe():
    from ufl.core.expr import Expr
    from ufl.corealg.multifunction import MultiFunction
    from ufl.algorithms import apply_restrictions as AR
    RP = AR.RestrictionPropagator
    inst = RP()                      # fills MultiFunction._handlers_cache[RP]
    names = list(MultiFunction._handlers_cache[RP][0])
    rows = []
    for c in Expr._ufl_all_classes_:
        hn = names[c._ufl_typecode_]
        fn = getattr(RP, hn)
        fn = getattr(fn, "__func__", fn)
        nparams = len(inspect.signature(fn).parameters)        # including self
        varargs = any(p.kind == p.VAR_POSITIONAL for p in inspect.signature(fn).parameters.values())
        visits = varargs or nparams > 2                        # handler(self, o) is a cutoff rule: operands are not visited
        rows.append((c.__name__, fn.__name__, visits, bool(c._ufl_is_terminal_), bool(getattr(c, "_ufl_is_abstract_", False))))
    drm = sorted(AR.default_restriction_map.items())
    del inst
    return rows, drm


def render():
    rows, drm = observe()
    out = [L.header("restrictions.py", "ufl/algorithms/apply_restrictions.py: per registered UFL type the rule RestrictionPropagator applies "
                    "(name of the function the computed handler table resolves to), whether the rule visits the operands, and default_restriction_map."),
           "namespace UflVerif.Gen.Restrictions\n",
           "/-- (class name, rule, rule visits operands, class is a terminal, class is abstract) -/",
           "def ruleTable : List (String × String × Bool × Bool × Bool) := [\n  " +
           ",\n  ".join("(%s, %s, %s, %s, %s)" % (L.s(n), L.s(r), L.b(v), L.b(t), L.b(a)) for n, r, v, t, a in rows) + "]\n",
           "/-- integral type ↦ default side (`none` = no default restriction) -/",
           "def defaultRestrictionMap : List (String × Option String) := [\n  " +
           ",\n  ".join("(%s, %s)" % (L.s(k), L.opt(v, L.s)) for k, v in drm) + "]\n",
           "end UflVerif.Gen.Restrictions\n"]
    stats = dict(types=len(rows), rules=sorted({r for _, r, _, _, _ in rows}))
    return "\n".join(out), stats
