"""Translator: which terminal comparators `cmp_expr` of the tree under test uses -> Gen/OrderVariant.lean.

Read from the live module `ufl.sorting`:
  * `_terminal_cmps` (typecode -> comparator function): which classes are dispatched through the table and to what;
  * the source of `cmp_expr`: the if/elif/else chain that picks the comparator of a terminal (table lookup, optional
    `isinstance(a, GeometricQuantity)` branch, final `_cmp_terminal_by_repr`);
  * the source of the comparators of `Constant`, `Zero` and of the fallback branches: each must have the form
        x = KEY(a);  y = KEY(b);  return -1 if x < y else (...)          (a three-way comparison of two sort keys)
    and KEY is translated part by part (`repr(a)`, `a._ufl_domain._ufl_sort_key_()`, `a._ufl_shape`, `a._count`,
    `a.ufl_index_dimensions`, ...) into the `List KeyPart` the Lean model `Expr.cmpTerm` (Model/Order.lean) interprets.
Anything the model has no counterpart for (another class in the table, another branch, a key expression that is not one of
the recognised parts) raises `Untranslatable`: the check then reports a broken translator tie instead of silently using a
stale model.  The hand-modelled comparators (`_cmp_multi_index`, `_cmp_argument`, `_cmp_coefficient`, `_cmp_label`) are only
checked to be the ones in the table; their behaviour is tied by the correspondence of C29.
"""
import ast
import inspect
import textwrap

from . import leanfmt as L


class Untranslatable(Exception):
    pass


HAND_MODELLED = {"MultiIndex": "_cmp_multi_index", "Argument": "_cmp_argument", "Coefficient": "_cmp_coefficient", "Label": "_cmp_label"}
KEYED = ("Constant", "Zero")        # classes whose table entry (if any) is translated key by key

# attribute chains on the argument `a` -> the key part they read
PARTS = {
    "repr(a)": "repr",
    "a._ufl_domain._ufl_sort_key_()": "domKey",
    "a.ufl_domain()._ufl_sort_key_()": "domKey",
    "a._domain._ufl_sort_key_()": "domKey",
    # `_sortable` (ufl/sorting.py, fix_C12_1) replaces the objects inside the key (the coordinate element) by their repr, which
    # is how harness/uflio.py sends every domain key; without it Python raises TypeError where the model compares the reprs
    "_sortable(a._ufl_domain._ufl_sort_key_())": "domKey",
    "_sortable(a._domain._ufl_sort_key_())": "domKey",
    "a._ufl_shape": "shape",
    "a.ufl_shape": "shape",
    "a._count": "count",
    "a.count()": "count",
    "a.ufl_index_dimensions": "indexDims",
}

# `OrdCfg.numeric` of Model/Order.lean: the keys of _cmp_constant, _cmp_geometric_quantity, _cmp_zero in fix_C12_1.diff
NUMERIC = [["domKey", "shape", "count"], ["domKey"], ["shape", "indexDims"]]

# accepted spellings of the three-way comparison of x and y
THREE_WAY = {
    "-1 if x < y else 1 if x > y else 0",
    "-1 if x < y else 0 if x == y else 1",
}


def _rename(node, frm, to):
    class R(ast.NodeTransformer):
        def visit_Name(self, n):
            return ast.copy_location(ast.Name(id=to if n.id == frm else n.id, ctx=n.ctx), n)
    return R().visit(ast.parse(ast.unparse(node), mode="eval").body)


def key_parts(fn):
    """the sort key a comparator `fn(a, b)` compares, as a list of part names"""
    src = textwrap.dedent(inspect.getsource(fn))
    f = ast.parse(src).body[0]
    if not isinstance(f, ast.FunctionDef) or [x.arg for x in f.args.args] != ["a", "b"]:
        raise Untranslatable("%s: not a function of (a, b)" % fn.__name__)
    body = list(f.body)
    if body and isinstance(body[0], ast.Expr) and isinstance(body[0].value, ast.Constant) and isinstance(body[0].value.value, str):
        body = body[1:]          # docstring
    if len(body) != 3 or not all(isinstance(s, ast.Assign) for s in body[:2]) or not isinstance(body[2], ast.Return):
        raise Untranslatable("%s: body is not `x = ..; y = ..; return <three-way>`" % fn.__name__)
    ax, ay, ret = body
    if ast.unparse(ax.targets[0]) != "x" or ast.unparse(ay.targets[0]) != "y" or len(ax.targets) != 1 or len(ay.targets) != 1:
        raise Untranslatable("%s: keys are not assigned to x and y" % fn.__name__)
    if ast.unparse(_rename(ax.value, "a", "b")) != ast.unparse(ay.value):
        raise Untranslatable("%s: the key of b is not the key of a (%s vs %s)" % (fn.__name__, ast.unparse(ax.value), ast.unparse(ay.value)))
    if ast.unparse(ret.value) not in THREE_WAY:
        raise Untranslatable("%s: unrecognised comparison `%s`" % (fn.__name__, ast.unparse(ret.value)))
    items = ax.value.elts if isinstance(ax.value, ast.Tuple) else [ax.value]
    parts = []
    for it in items:
        t = ast.unparse(it)
        if t not in PARTS:
            raise Untranslatable("%s: key component `%s` has no counterpart in the model" % (fn.__name__, t))
        parts.append(PARTS[t])
    return parts


def dispatch_chain(S):
    """the branches `cmp_expr` goes through for a terminal: [("table", None) | ("isinstance", cls) | ("else", None), comparator name]"""
    src = textwrap.dedent(inspect.getsource(S.cmp_expr))
    tree = ast.parse(src)
    found = []
    for n in ast.walk(tree):
        if isinstance(n, ast.If) and ast.unparse(n.test) == "a._ufl_is_terminal_":
            found.append(n)
    if len(found) != 1:
        raise Untranslatable("cmp_expr: expected one `if a._ufl_is_terminal_:` block, found %d" % len(found))
    blk = found[0].body
    if not blk or not isinstance(blk[0], ast.If):
        raise Untranslatable("cmp_expr: the terminal block does not start with the comparator dispatch")
    rest = [ast.unparse(s) for s in blk[1:]]
    if rest != ["if c:\n    return c"]:
        raise Untranslatable("cmp_expr: unexpected statements after the comparator dispatch: %r" % rest)
    chain = []
    node = blk[0]
    while True:
        test = ast.unparse(node.test)
        if len(node.body) != 1:
            raise Untranslatable("cmp_expr: branch `%s` has more than one statement" % test)
        stmt = ast.unparse(node.body[0])
        if test == "x in _terminal_cmps":
            if stmt != "c = _terminal_cmps[x](a, b)":
                raise Untranslatable("cmp_expr: table branch does `%s`" % stmt)
            chain.append(("table", None, None))
        elif isinstance(node.test, ast.Call) and ast.unparse(node.test.func) == "isinstance" and len(node.test.args) == 2 \
                and ast.unparse(node.test.args[0]) == "a" and isinstance(node.test.args[1], ast.Name):
            chain.append(("isinstance", node.test.args[1].id, _called(stmt)))
        else:
            raise Untranslatable("cmp_expr: unrecognised dispatch test `%s`" % test)
        if len(node.orelse) == 1 and isinstance(node.orelse[0], ast.If):
            node = node.orelse[0]
            continue
        if len(node.orelse) != 1:
            raise Untranslatable("cmp_expr: dispatch chain has no single final else")
        chain.append(("else", None, _called(ast.unparse(node.orelse[0]))))
        break
    return chain


def _called(stmt):
    """`c = f(a, b)` -> 'f'"""
    t = ast.parse(stmt).body[0]
    if isinstance(t, ast.Assign) and ast.unparse(t.targets[0]) == "c" and isinstance(t.value, ast.Call) \
            and isinstance(t.value.func, ast.Name) and [ast.unparse(x) for x in t.value.args] == ["a", "b"] and not t.value.keywords:
        return t.value.func.id
    raise Untranslatable("cmp_expr: branch statement `%s` is not `c = f(a, b)`" % stmt)


def read():
    """dict(table, chain, const, geo, zero, geo_names): everything Gen/OrderVariant.lean records"""
    import ufl.sorting as S
    from ufl.core.expr import Expr
    from ufl.geometry import GeometricQuantity
    by_tc = {c._ufl_typecode_: c for c in Expr._ufl_all_classes_}
    table = []
    for tc in sorted(S._terminal_cmps):
        cls = by_tc[tc].__name__
        table.append((cls, S._terminal_cmps[tc].__name__))
    tnames = dict(table)
    for cls, fn in HAND_MODELLED.items():
        if tnames.get(cls) != fn:
            raise Untranslatable("_terminal_cmps[%s] is %s, the model has %s" % (cls, tnames.get(cls), fn))
    extra = sorted(set(tnames) - set(HAND_MODELLED) - set(KEYED))
    if extra:
        raise Untranslatable("_terminal_cmps has comparators for classes the model does not dispatch: %s" % extra)
    chain = dispatch_chain(S)
    if chain[0][0] != "table" or chain[-1][0] != "else" or any(k == "table" for k, _, _ in chain[1:]):
        raise Untranslatable("cmp_expr: dispatch chain %r does not start with the table lookup / end with else" % (chain,))
    default = key_parts(getattr(S, chain[-1][2]))
    if default != ["repr"]:
        raise Untranslatable("the comparator of the remaining terminals (%s) compares %s; the model compares repr" % (chain[-1][2], default))
    geo = default
    mids = chain[1:-1]
    if len(mids) > 1:
        raise Untranslatable("cmp_expr: more than one isinstance branch: %r" % (mids,))
    for kind, cname, fn in mids:
        if getattr(S, cname, None) is not GeometricQuantity:
            raise Untranslatable("cmp_expr: isinstance branch on %s; the model only has the one on GeometricQuantity" % cname)
        geo = key_parts(getattr(S, fn))
    def keyed(cls):
        if cls in tnames:
            return key_parts(getattr(S, tnames[cls]))
        # not in the table: the class falls through the chain.  Constant and Zero are not geometric quantities.
        return default
    const, zero = keyed("Constant"), keyed("Zero")
    for what, parts, allowed in (("Constant", const, {"repr", "domKey", "shape", "count"}), ("GeometricQuantity", geo, {"repr", "domKey", "shape"}),
                                 ("Zero", zero, {"repr", "shape", "indexDims"})):
        if not set(parts) <= allowed:
            raise Untranslatable("the key of %s reads %s; the model of that class carries %s" % (what, parts, sorted(allowed)))
    geo_names = [c.__name__ for c in Expr._ufl_all_classes_ if issubclass(c, GeometricQuantity) and c._ufl_is_terminal_]
    return dict(table=table, chain=[(k, c or "", f or "") for k, c, f in chain], const=const, geo=geo, zero=zero, geo_names=geo_names)


def variant(d=None):
    """'R' = Constant, geometric quantities and Zero are compared by repr (`OrdCfg.byRepr`, the tree before fix_C12_1),
    'N' = by the numeric keys of fix_C12_1 (`OrdCfg.numeric`), 'M' = anything else (C29's theorems cover it, C12's analysis does not)"""
    d = d or read()
    ks = [d["const"], d["geo"], d["zero"]]
    if ks == [["repr"], ["repr"], ["repr"]]:
        return "R"
    if ks == NUMERIC:
        return "N"
    return "M"


def render():
    d = read()
    part = lambda p: "." + p
    out = ["import UflVerif.Model.Syntax\n",
           L.header("ordervariant.py", "the terminal comparators of ufl/sorting.py: `_terminal_cmps`, the dispatch chain of `cmp_expr`, and the sort keys\n"
                    "    compared for Constant, geometric quantities and Zero (translated from the comparators' source)."),
           "namespace UflVerif.Gen.OrderVariant\n",
           "/-- `_terminal_cmps`: (class, comparator) -/",
           "def table : List (String × String) := " + L.lst(d["table"], lambda p: "(%s, %s)" % (L.s(p[0]), L.s(p[1]))) + "\n",
           "/-- how `cmp_expr` picks the comparator of a terminal: (branch, isinstance class, comparator called) -/",
           "def chain : List (String × String × String) := " + L.lst(d["chain"], lambda p: "(%s, %s, %s)" % tuple(L.s(x) for x in p)) + "\n",
           "/-- the sort key compared for two `Constant`s -/",
           "def constKey : List KeyPart := " + L.lst(d["const"], part) + "\n",
           "/-- the sort key compared for two geometric quantities of one class -/",
           "def geoKey : List KeyPart := " + L.lst(d["geo"], part) + "\n",
           "/-- the sort key compared for two `Zero`s -/",
           "def zeroKey : List KeyPart := " + L.lst(d["zero"], part) + "\n",
           "/-- the terminal classes that are instances of `GeometricQuantity` -/",
           "def geoNames : List String := " + L.lst(d["geo_names"], L.s) + "\n",
           "end UflVerif.Gen.OrderVariant\n"]
    return "\n".join(out), d


def regenerate():
    """write Gen/OrderVariant.lean; returns [(relative path, changed)]"""
    from common import LEAN, write_if_changed
    text, _ = render()
    p = LEAN / "UflVerif/Gen/OrderVariant.lean"
    return [(p.relative_to(LEAN), write_if_changed(p, text))]
