"""Translator for C26: reference-cell tables and the observed cell API -> Gen/Cells.lean."""
import itertools
from . import leanfmt as L

NAMED_MAXD = 6


def observe():
    import ufl.cell as C
    names = list(C._sub_entity_celltypes.keys())
    obs = []
    for n in names:
        c = C.Cell(n)
        td = c.topological_dimension
        o = dict(name=n, tdim=td,
                 numSub=[c.num_sub_entities(d) for d in range(NAMED_MAXD)],
                 numSubNeg=c.num_sub_entities(-1),
                 subNames=[[e.cellname for e in c.sub_entities(d)] for d in range(NAMED_MAXD)],
                 subTdims=[[e.topological_dimension for e in c.sub_entities(d)] for d in range(NAMED_MAXD)],
                 subTypes=[sorted(e.cellname for e in c.sub_entity_types(d)) for d in range(NAMED_MAXD)],
                 numVertices=c.num_vertices, numEdges=c.num_edges, numFaces=c.num_faces,
                 numFacets=c.num_facets, numRidges=c.num_ridges, numPeaks=c.num_peaks,
                 vertices=[e.cellname for e in c.vertices], edges=[e.cellname for e in c.edges],
                 faces=[e.cellname for e in c.faces],
                 facets=[e.cellname for e in c.facets], ridges=[e.cellname for e in c.ridges],
                 peaks=[e.cellname for e in c.peaks],
                 facetTypes=sorted(e.cellname for e in c.facet_types),
                 ridgeTypes=sorted(e.cellname for e in c.ridge_types),
                 peakTypes=sorted(e.cellname for e in c.peak_types),
                 isSimplex=bool(c.is_simplex), simplexFacets=bool(c.has_simplex_facets),
                 table=[list(r) for r in C._sub_entity_celltypes[n]])
        obs.append(o)
    # tensor product cells: all products of 1..3 named factors of total dimension <= 3
    tdim = {o["name"]: o["tdim"] for o in obs}
    prods = []
    for k in (1, 2, 3):
        for fs in itertools.product(names, repeat=k):
            if sum(tdim[f] for f in fs) <= 3:
                prods.append(fs)
    pobs = []
    for fs in prods:
        c = C.TensorProductCell(*[C.Cell(f) for f in fs])
        td = c.topological_dimension
        ns = []
        for d in range(0, 5):
            try:
                ns.append(c.num_sub_entities(d))
            except NotImplementedError:
                ns.append(None)
        def cnt(f):
            try:
                return f()
            except NotImplementedError:
                return None
        pobs.append(dict(factors=list(fs), tdim=td, numSub=ns, numSubNeg=c.num_sub_entities(-1),
                         nVertEntities=len(c.sub_entities(0)),
                         vertNames=sorted({e.cellname for e in c.sub_entities(0)}),
                         numFacets=cnt(lambda: c.num_facets), numVertices=c.num_vertices,
                         topIsSelf=(c.sub_entities(td) == (c,)) if td > 0 else True,
                         isSimplex=bool(c.is_simplex)))
    # ordering: all cells sorted by the implementation's own <, plus the full truth table
    allc = [("N", (o["name"],), C.Cell(o["name"])) for o in obs] + \
           [("P", tuple(p["factors"]), C.TensorProductCell(*[C.Cell(f) for f in p["factors"]])) for p in pobs]
    import functools
    def cmp(a, b):
        return -1 if a[2] < b[2] else (1 if b[2] < a[2] else 0)
    srt = sorted(allc, key=functools.cmp_to_key(cmp))
    lt = [[bool(a[2] < b[2]) for b in srt] for a in srt]
    eq = [[bool(a[2] == b[2]) for b in srt] for a in srt]
    order = [a[0] + ":" + "*".join(a[1]) for a in srt]
    return obs, pobs, order, lt, eq


def render():
    obs, pobs, order, lt, eq = observe()
    ls = lambda xs: L.lst(xs, L.s)
    ln = lambda xs: L.lst(xs, str)
    out = [L.header("cells.py", "ufl/cell.py: _sub_entity_celltypes, the observed Cell/TensorProductCell API and the truth table of `<`."),
           "namespace UflVerif.Gen.Cells\n",
           "structure CellObs where\n  name : String\n  tdim : Nat\n  table : List (List String)\n  numSub : List Nat\n  numSubNeg : Nat\n"
           "  subNames : List (List String)\n  subTdims : List (List Nat)\n  subTypes : List (List String)\n"
           "  numVertices : Nat\n  numEdges : Nat\n  numFaces : Nat\n  numFacets : Nat\n  numRidges : Nat\n  numPeaks : Nat\n"
           "  vertices : List String\n  edges : List String\n  faces : List String\n"
           "  facets : List String\n  ridges : List String\n  peaks : List String\n"
           "  facetTypes : List String\n  ridgeTypes : List String\n  peakTypes : List String\n  isSimplex : Bool\n  simplexFacets : Bool\n",
           "structure ProdObs where\n  factors : List String\n  tdim : Nat\n  numSub : List (Option Nat)\n  numSubNeg : Nat\n"
           "  nVertEntities : Nat\n  vertNames : List String\n  numFacets : Option Nat\n  numVertices : Nat\n  topIsSelf : Bool\n  isSimplex : Bool\n"]
    out.append("def obs : List CellObs := [")
    rows = []
    for o in obs:
        rows.append("  { name := %s, tdim := %d, table := %s,\n    numSub := %s, numSubNeg := %d,\n    subNames := %s,\n    subTdims := %s,\n    subTypes := %s,\n"
                    "    numVertices := %d, numEdges := %d, numFaces := %d, numFacets := %d, numRidges := %d, numPeaks := %d,\n"
                    "    vertices := %s, edges := %s, faces := %s,\n    facets := %s, ridges := %s, peaks := %s,\n"
                    "    facetTypes := %s, ridgeTypes := %s, peakTypes := %s, isSimplex := %s, simplexFacets := %s }" % (
            L.s(o["name"]), o["tdim"], L.lst(o["table"], ls, 10**9), ln(o["numSub"]), o["numSubNeg"],
            L.lst(o["subNames"], ls, 10**9), L.lst(o["subTdims"], ln, 10**9), L.lst(o["subTypes"], ls, 10**9),
            o["numVertices"], o["numEdges"], o["numFaces"], o["numFacets"], o["numRidges"], o["numPeaks"],
            ls(o["vertices"]), ls(o["edges"]), ls(o["faces"]), ls(o["facets"]), ls(o["ridges"]), ls(o["peaks"]),
            ls(o["facetTypes"]), ls(o["ridgeTypes"]), ls(o["peakTypes"]), L.b(o["isSimplex"]), L.b(o["simplexFacets"])))
    out.append(",\n".join(rows) + "]\n")
    out.append("def prods : List ProdObs := [")
    rows = []
    for p in pobs:
        rows.append("  { factors := %s, tdim := %d, numSub := %s, numSubNeg := %d, nVertEntities := %d, vertNames := %s, numFacets := %s, numVertices := %d, topIsSelf := %s, isSimplex := %s }" % (
            ls(p["factors"]), p["tdim"], L.lst(p["numSub"], L.opt), p["numSubNeg"], p["nVertEntities"], ls(p["vertNames"]),
            L.opt(p["numFacets"]), p["numVertices"], L.b(p["topIsSelf"]), L.b(p["isSimplex"])))
    out.append(",\n".join(rows) + "]\n")
    out.append("/-- every cell considered (N:name, P:factor*factor), sorted by the implementation's own `<` -/")
    out.append("def order : List String := %s\n" % L.lst(order, L.s))
    out.append("/-- ltTable[i][j] = (order[i] < order[j]) as evaluated by the implementation -/")
    out.append("def ltTable : List (List Bool) := [\n  " + ",\n  ".join(L.lst(r, L.b, 10**9) for r in lt) + "]\n")
    out.append("/-- eqTable[i][j] = (order[i] == order[j]) as evaluated by the implementation -/")
    out.append("def eqTable : List (List Bool) := [\n  " + ",\n  ".join(L.lst(r, L.b, 10**9) for r in eq) + "]\n")
    out.append("end UflVerif.Gen.Cells\n")
    return "\n".join(out), dict(named=len(obs), products=len(pobs), ordered=len(order))
