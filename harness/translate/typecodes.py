"""Translator: class name -> typecode table (the order `cmp_expr` compares first) -> Gen/Typecodes.lean."""
from . import leanfmt as L


def render():
    from ufl.core.expr import Expr
    rows = [(c.__name__, c._ufl_typecode_) for c in Expr._ufl_all_classes_]
    out = [L.header("typecodes.py", "ufl_type registration order: (class name, _ufl_typecode_) for every registered UFL type."),
           "namespace UflVerif.Gen.Typecodes\n",
           "def table : List (String × Nat) := [\n  " + ",\n  ".join("(%s, %d)" % (L.s(n), t) for n, t in rows) + "]\n",
           "end UflVerif.Gen.Typecodes\n"]
    return "\n".join(out), len(rows)
