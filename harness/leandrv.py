"""Run a Lean driver (line protocol) over a batch of request lines."""
import subprocess
from common import LEAN


EXES = {"Expr": "exprdrv"}


def run_driver(name: str, lines, timeout=3000):
    """returns list of reply lines (same length as `lines`) or raises RuntimeError"""
    if not lines:
        return []
    cmd = ["lake", "env", "lean", "--run", "Drivers/%s.lean" % name]
    exe = EXES.get(name)
    if exe:      # Mathlib-free drivers are compiled to native code (10-100x faster than the interpreter)
        b = subprocess.run(["lake", "build", exe], cwd=LEAN, capture_output=True, text=True, timeout=timeout)
        if b.returncode == 0 and (LEAN / ".lake/build/bin" / exe).exists():
            cmd = [str(LEAN / ".lake/build/bin" / exe)]
    p = subprocess.run(cmd, cwd=LEAN, input="\n".join(lines) + "\n",
                       capture_output=True, text=True, timeout=timeout)
    out = p.stdout.splitlines()
    if p.returncode != 0 or len(out) != len(lines):
        raise RuntimeError("driver %s: exit %d, %d replies for %d requests; stderr: %s; tail: %s" % (
            name, p.returncode, len(out), len(lines), p.stderr[-500:], out[-2:] if out else ""))
    return out
