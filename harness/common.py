"""Shared machinery for every property check (see DESIGN.md section 3.3 / 4).

A property module (harness/props/cNN.py) defines a `Prop` subclass instance with
  regenerate(ctx)      -> writes lean/UflVerif/Gen/*.lean from /repo's current tree (translator tie)
  lean_modules         -> Lean modules holding the model and the CNN_* theorems
  correspondence(ctx)  -> runs model and implementation on the same inputs, returns Failure list
  search(ctx, fails)   -> failing-input search on the real code (property oracle), returns Witness|None
  known-finding replays are handled here.
"""
from __future__ import annotations

import sys as _sys
if hasattr(_sys, "set_int_max_str_digits"):      # exact rationals from the Lean drivers can have thousands of digits (CPython's default limit is 4300)
    _sys.set_int_max_str_digits(0)
import fcntl
import hashlib
import json
import os
import re
import subprocess
import sys
import time
from dataclasses import dataclass, field
from pathlib import Path

ROOT = Path(__file__).resolve().parent.parent
LEAN = ROOT / "lean"
REPO = Path(os.environ.get("UFL_VERIF_REPO", "/repo"))
ALLOWED_AXIOMS = {"propext", "Classical.choice", "Quot.sound"}
BANNED = re.compile(r"\bsorry\b|\badmit\b|^axiom\s|native_decide|bv_decide|implemented_by|\bunsafe\s|maxHeartbeats\s+0\b|@\[extern")

# make sure the implementation under test is /repo's *current working tree*
sys.path.insert(0, str(REPO))
sys.path.insert(1, str(REPO / "test"))
os.environ.setdefault("UFL_VERIF", "1")


@dataclass
class Ctx:
    pid: str
    tier: str
    seed: int
    replay: str | None = None
    t0: float = field(default_factory=time.time)

    @property
    def quick(self):
        return self.tier == "quick"


@dataclass
class Failure:
    """A tie that no longer checks: a theorem that does not compile or a correspondence case."""
    kind: str          # 'theorem' | 'axioms' | 'audit' | 'correspondence' | 'translator'
    name: str          # theorem name / correspondence stream
    detail: str        # compiler message / model vs impl outputs
    case: object = None  # the input on which model and implementation differ (if any)


@dataclass
class Witness:
    """A concrete input on which the property fails on the real code."""
    what: str          # one-line description, stable across runs (used to match known findings)
    key: str           # identity for known_findings.json
    data: dict


def write_if_changed(path: Path, text: str) -> bool:
    path.parent.mkdir(parents=True, exist_ok=True)
    if path.exists() and path.read_text() == text:
        return False
    tmp = path.with_suffix(path.suffix + ".tmp%d" % os.getpid())
    tmp.write_text(text)
    os.replace(tmp, path)
    return True


class LeanLock:
    def __enter__(self):
        self.f = open(LEAN / ".verif.lock", "w")
        fcntl.flock(self.f, fcntl.LOCK_EX)
        return self

    def __exit__(self, *a):
        fcntl.flock(self.f, fcntl.LOCK_UN)
        self.f.close()


def run_cmd(cmd, cwd=None, timeout=3600, input=None, env=None):
    p = subprocess.run(cmd, cwd=cwd, capture_output=True, text=True, timeout=timeout, input=input, env=env)
    return p.returncode, p.stdout + p.stderr


def lake_build(modules, timeout=3000):
    """Build the given modules; returns (ok, log).  Caller holds LeanLock."""
    rc, out = run_cmd(["lake", "build"] + list(modules), cwd=LEAN, timeout=timeout)
    return rc == 0, out


def failing_decls(log: str):
    """Extract (file, line, message) of errors from a lake build log."""
    errs = []
    for m in re.finditer(r"^error: ([^\n:]+\.lean):(\d+):(\d+): (.*?)(?=^\S|\Z)", log, re.M | re.S):
        errs.append((m.group(1), int(m.group(2)), m.group(4).strip()[:2000]))
    return errs


def decl_at(path: Path, line: int) -> str:
    """Name of the theorem/def enclosing a line of a Lean file."""
    try:
        lines = path.read_text().splitlines()
    except OSError:
        return "?"
    for i in range(min(line, len(lines)) - 1, -1, -1):
        m = re.match(r"\s*(?:@\[[^\]]*\]\s*)?(?:private\s+|protected\s+)?(theorem|lemma|def|example|instance|abbrev)\s+([^\s:({\[]+)?", lines[i])
        if m:
            return m.group(2) or "example@%d" % (i + 1)
    return "?"


def strip_comments(src: str) -> str:
    src = re.sub(r"/-.*?-/", lambda m: "\n" * m.group(0).count("\n"), src, flags=re.S)
    return re.sub(r"--.*", "", src)


def grep_banned(files):
    hits = []
    for f in files:
        body = strip_comments(Path(f).read_text())
        for i, l in enumerate(body.splitlines(), 1):
            if BANNED.search(l):
                hits.append("%s:%d: %s" % (f, i, l.strip()))
    return hits


def lean_deps(modules):
    """Source files of the given modules and everything of UflVerif they import (transitively)."""
    seen, todo = {}, list(modules)
    while todo:
        m = todo.pop()
        if m in seen or not m.startswith("UflVerif"):
            continue
        p = LEAN / (m.replace(".", "/") + ".lean")
        if not p.exists():
            continue
        seen[m] = p
        for mm in re.findall(r"^import\s+(\S+)", p.read_text(), re.M):
            todo.append(mm)
    return seen


def audit_axioms(modules, prefix):
    """Run `#audit_prefix` over the modules; returns ({theorem: [axioms]}, log)."""
    src = "import UflVerif.AuditCmd\n" + "".join("import %s\n" % m for m in modules) + '#audit_prefix "%s"\n' % prefix
    tmp = LEAN / (".audit_%s_%d.lean" % (prefix, os.getpid()))
    tmp.write_text(src)
    try:
        rc, out = run_cmd(["lake", "env", "lean", str(tmp.name)], cwd=LEAN, timeout=1800)
    finally:
        tmp.unlink(missing_ok=True)
    res = {}
    for m in re.finditer(r"AXIOMS (\S+) : \[(.*?)\]", out, re.S):
        res[m.group(1)] = [a.strip() for a in m.group(2).replace("\n", " ").split(",") if a.strip()]
    return res, (out if rc != 0 else "")


def load_known():
    p = ROOT / "known_findings.json"
    if not p.exists():
        return {"findings": [], "fixed": []}
    return json.loads(p.read_text())


class Evidence:
    def __init__(self, ctx: Ctx):
        self.ctx = ctx
        self.cov = {"obligations": 0, "discharged": 0, "checker_cmd": "", "trusted_base": [],
                    "evaluations": 0, "distinct_nontrivial": 0, "rule": "", "samples": []}
        self.assumptions = []
        self.violations = 0

    def write(self):
        d = {"property_id": self.ctx.pid, "tier": self.ctx.tier, "seed": self.ctx.seed, "level": "proof",
             "coverage": self.cov, "assumptions": self.assumptions,
             "wall_s": round(time.time() - self.ctx.t0, 2), "violations": self.violations}
        p = ROOT / "evidence" / (self.ctx.pid + ".json")
        p.parent.mkdir(exist_ok=True)
        p.write_text(json.dumps(d, indent=1, default=str) + "\n")


TRUSTED_COMMON = [
    "Lean 4.33.0 kernel (thorough tier additionally re-checks the .olean files with leanchecker)",
    "axioms allowed in CNN_* theorems: propext, Classical.choice, Quot.sound (audited by #audit_prefix on every run; no native_decide / bv_decide / own axioms / sorry)",
    "the Python translators and correspondence harness under /verif/harness (serializer, generators, comparer) and the Lean driver's parser/printer",
    "hand-written model == code only on the inputs the correspondence generates",
]


class Prop:
    pid = "C00"
    lean_modules: list = []       # modules with the theorems (Props.CNN) — model modules come in by import
    theorem_prefix = None         # default pid + "_"
    trusted: list = []
    assumptions: list = []
    min_theorems = 1

    def regenerate(self, ctx):    # translator tie; returns list of (path, changed)
        return []

    def correspondence(self, ctx, ev):  # returns list[Failure]
        return []

    def oracle(self, ctx, ev):    # direct property oracle on the implementation; list[Witness]
        return []

    def search(self, ctx, fails):  # failing-input search after a tie broke; Witness | None
        return None

    def replay(self, ctx, data):  # re-run a replay file; returns Witness | None
        return None


def write_replay(pid, payload) -> str:
    blob = json.dumps(payload, indent=1, sort_keys=True, default=str)
    h = hashlib.sha1(blob.encode()).hexdigest()[:12]
    d = ROOT / "replays"
    d.mkdir(exist_ok=True)
    p = d / ("%s-%s.json" % (pid, h))
    p.write_text(blob + "\n")
    return str(p.relative_to(ROOT))


def main_run(prop: Prop, ctx: Ctx) -> int:
    ev = Evidence(ctx)
    pid = ctx.pid
    prefix = prop.theorem_prefix or (pid + "_")
    ev.cov["trusted_base"] = TRUSTED_COMMON + list(prop.trusted)
    ev.assumptions = list(prop.assumptions)
    fails: list[Failure] = []
    witnesses: list[Witness] = []
    known = load_known()

    if ctx.replay:
        data = json.loads((ROOT / ctx.replay).read_text() if not os.path.isabs(ctx.replay) else Path(ctx.replay).read_text())
        w = prop.replay(ctx, data)
        if w is None:
            print("replay: property holds on this input now")
            return 0
        print("VIOLATION property=%s replay=%s" % (pid, ctx.replay))
        print("  " + w.what)
        return 1

    # 1. translator tie: regenerate model data from the current source
    try:
        with LeanLock():
            gen = list(prop.regenerate(ctx) or [])
            # every model that sorts operands (Model/Order.lean, linked into all drivers) follows the terminal comparators
            # of the tree under test: regenerate that choice for every property, not only for the ones that state it
            from translate import ordervariant
            og = ordervariant.regenerate()
            if any(m == "UflVerif.Gen.OrderVariant" for m in lean_deps(prop.lean_modules)):
                gen += og
            # 2. kernel re-checks every theorem against the regenerated data
            ok, log = lake_build(prop.lean_modules)
            if not ok:
                errs = failing_decls(log)
                if not errs:
                    fails.append(Failure("theorem", "lake build", log[-3000:]))
                for f, line, msg in errs:
                    name = decl_at(LEAN / f if not os.path.isabs(f) else Path(f), line)
                    fails.append(Failure("theorem", "%s (%s:%d)" % (name, f, line), msg))
                axs, alog = {}, ""
            else:
                axs, alog = audit_axioms(prop.lean_modules, prefix)
    except Exception as e:  # translator crashed on the current tree: the tie is broken
        import traceback
        fails.append(Failure("translator", type(e).__name__, traceback.format_exc()[-3000:]))
        axs, alog, gen = {}, "", []
    if alog:
        fails.append(Failure("audit", "audit_prefix", alog[-2000:]))
    deps = lean_deps(prop.lean_modules)
    banned = grep_banned(deps.values())
    for b in banned:
        fails.append(Failure("audit", "banned token", b))
    bad_ax = {t: a for t, a in axs.items() if not set(a) <= ALLOWED_AXIOMS}
    for t, a in bad_ax.items():
        fails.append(Failure("axioms", t, "depends on %s" % a))
    n_thm = len(axs)
    build_ok = not any(f.kind in ("theorem", "translator") for f in fails)
    if build_ok and n_thm < prop.min_theorems:
        fails.append(Failure("audit", "theorem count", "found %d %s* theorems, expected >= %d" % (n_thm, prefix, prop.min_theorems)))
    n_fail_thm = len([f for f in fails if f.kind in ("theorem", "axioms")])
    ev.cov["obligations"] = max(n_thm, prop.min_theorems) if not build_ok else n_thm
    ev.cov["discharged"] = 0 if not build_ok else n_thm - len(bad_ax)
    ev.cov["theorems"] = sorted(axs)
    ev.cov["axioms_used"] = sorted({a for v in axs.values() for a in v})
    ev.cov["checker_cmd"] = "cd lean && lake build %s && lake env lean <#audit_prefix \"%s\">" % (" ".join(prop.lean_modules), prefix)
    ev.cov["generated_files"] = [str(p) for p, _ in gen] if gen else []

    # 3. correspondence tie
    try:
        fails += prop.correspondence(ctx, ev) or []
    except Exception as e:
        import traceback
        fails.append(Failure("correspondence", type(e).__name__, traceback.format_exc()[-3000:]))

    # 4. property oracle on the implementation (supports the search; also replays known findings)
    try:
        witnesses += prop.oracle(ctx, ev) or []
    except Exception as e:
        import traceback
        fails.append(Failure("correspondence", "oracle crashed: " + type(e).__name__, traceback.format_exc()[-3000:]))

    if ctx.tier == "thorough" and build_ok:
        rc, out = run_cmd(["lake", "env", "leanchecker"] + list(deps), cwd=LEAN, timeout=3000)
        ev.cov["leanchecker"] = "ok" if rc == 0 else out[-500:]
        if rc != 0:
            fails.append(Failure("audit", "leanchecker", out[-2000:]))

    # 5. a tie broke: search for a failing input
    if fails and not witnesses:
        try:
            w = prop.search(ctx, fails)
            if w:
                witnesses.append(w)
        except Exception as e:
            import traceback
            fails.append(Failure("correspondence", "search crashed: " + type(e).__name__, traceback.format_exc()[-2000:]))

    known_keys = {k["key"]: k for k in known.get("findings", []) if k.get("property") == pid}
    new_w = [w for w in witnesses if w.key not in known_keys]
    for w in witnesses:
        if w.key in known_keys:
            print("KNOWN-FINDING: property=%s %s" % (pid, known_keys[w.key].get("what", w.what)))
    ev.cov["known_findings_reproduced"] = [w.key for w in witnesses if w.key in known_keys]
    rc = 0
    if new_w:
        for w in new_w[:5]:
            path = write_replay(pid, {"property": pid, "kind": "failing-input", "what": w.what, "key": w.key, "data": w.data,
                                      "broken_ties": [dict(kind=f.kind, name=f.name, detail=f.detail[:1500]) for f in fails[:10]]})
            print("VIOLATION property=%s replay=%s" % (pid, path))
            print("  " + w.what)
        rc = 1
    elif fails:
        path = write_replay(pid, {"property": pid, "kind": "tie-broken",
                                  "no_longer_checks": [dict(kind=f.kind, name=f.name, detail=f.detail[:3000], case=f.case) for f in fails[:20]]})
        for f in fails[:8]:
            print("  tie broken [%s] %s: %s" % (f.kind, f.name, f.detail.strip().splitlines()[0][:300] if f.detail.strip() else ""))
        print("VIOLATION property=%s replay=%s no-failing-input-found" % (pid, path))
        rc = 1
    ev.violations = len(new_w) + (1 if (fails and not new_w) else 0)
    ev.cov["broken_ties"] = [dict(kind=f.kind, name=f.name) for f in fails[:20]]
    if ev.cov["discharged"] < 1:   # nothing was proved on this run: do not present proof-level counts
        ev.cov["obligations_not_discharged"] = ev.cov.pop("obligations")
        ev.cov.pop("discharged")
    ev.write()
    if rc == 0:
        print("OK property=%s tier=%s theorems=%d/%d evaluations=%d wall=%.1fs" % (
            pid, ctx.tier, ev.cov["discharged"], ev.cov["obligations"], ev.cov["evaluations"], time.time() - ctx.t0))
    return rc
