"""C11 support code: serializer of forms with raw metadata (Drivers/C11.lean), an independent structural key of the compiled meaning
of a form (`py_key`, written against the public attributes of the UFL classes, not against ufl/algorithms/signature.py), the
renderer of the model's token stream, and the generator of pairs of forms that differ by exactly one edit.
"""
import hashlib
import random
import warnings

import common  # noqa  (puts the repo under test on sys.path)
import c12lib
from c12lib import Regime
from uflio import enc


# ---------------------------------------------------------------------------------------------- serializer
def tl(s):
    return "~" + enc(s)


def md_printed(v):
    """what `canonicalize_metadata` makes of a leaf"""
    if isinstance(v, (int, float, str)) or v is None:
        return str(v)
    if hasattr(v, "ufl_signature"):
        return v.ufl_signature
    return str(v)


def mdv_s(v):
    import numpy as np
    if isinstance(v, np.ndarray):
        return "(A %s %s)" % (mdv_s(v.tolist()), tl(str(v)))
    if isinstance(v, dict):
        if not all(isinstance(k, str) for k in v):
            raise TypeError("metadata keys must be str")
        return "(D%s)" % "".join(" (%s %s)" % (tl(k), mdv_s(x)) for k, x in v.items())
    if isinstance(v, (list, tuple)):
        return "(S %s%s)" % ("t" if isinstance(v, tuple) else "l", "".join(" " + mdv_s(x) for x in v))
    s = md_printed(v)
    if not all(ord(c) < 128 for c in s + repr(v)):
        raise TypeError("non-ASCII metadata is outside the wire format")
    return "(L %s %s %s)" % (tl(type(v).__name__), tl(repr(v)), tl(s))


def fform_s(form, memo):
    out = []
    for itg in form.integrals():
        if itg.extra_domain_integral_type_map():
            raise TypeError("multi-domain integrals are outside the model")
        md = itg.metadata()
        out.append("(fitg %s %s %s %s %s)" % (enc(itg.integral_type()), c12lib.mesh_s(itg.ufl_domain()), c12lib.sub_s(itg.subdomain_id()),
                                             mdv_s({} if md is None else md), c12lib.cser(itg.integrand(), memo)))
    return "(fform %s)" % " ".join(out)


# ---------------------------------------------------------------------------------------------- the model's tokens -> Python's str
def _tok_atom(t, depth, infmt):
    tag = t[0]
    if tag == "s":
        s = c12lib._dec(t[1][1:])
        return s if (infmt and depth == 0) else repr(s)
    if tag == "r":
        return c12lib._dec(t[1][1:])
    if tag == "i":
        return t[1]
    if tag == "H":
        return repr(hashlib.sha512(render_tokens(t[1:]).encode("utf-8")).digest())
    if tag == "F":
        return repr(render_tokens(t[1:], infmt=True))
    raise ValueError(tag)


def render_tokens(toks, infmt=False):
    """the model's token stream (`Inj.toks`) as the string Python's `str` prints; digests are computed here with sha512.
    Inside an f-string a str part at bracket depth 0 is printed bare."""
    out, depth = [], 0
    for k, t in enumerate(toks):
        if t == "LP":
            out.append("("); depth += 1
        elif t == "RP":
            out.append(")"); depth -= 1
        elif t == "LB":
            out.append("["); depth += 1
        elif t == "RB":
            out.append("]"); depth -= 1
        elif t == "CM":
            nxt = toks[k + 1] if k + 1 < len(toks) else None
            out.append("," if nxt == "RP" else ", ")
        elif t == "NONE":
            out.append("None")
        else:
            out.append(_tok_atom(t, depth, infmt))
    return "".join(out)


def tokens_signature(reply):
    """'(ok (tok..))' -> hex signature obtained by printing the tokens"""
    t = c12lib.sig_parse(reply)
    return hashlib.sha512(render_tokens(t[1]).encode("utf-8")).hexdigest()


# ---------------------------------------------------------------------------------------------- independent key of the meaning
class _Tables:
    def __init__(self):
        self.meshes, self.coeffs, self.consts, self.labels, self.bfos = {}, {}, {}, {}, {}
        self.idx = {}


def _collect(o, T, seen):
    from ufl.classes import (MultiIndex, Index, Zero, Label, Constant, GeometricQuantity, BaseFormOperator, Form)
    from ufl.coefficient import BaseCoefficient
    from ufl.argument import BaseArgument
    if id(o) in seen:
        return
    seen[id(o)] = o
    if isinstance(o, Form):
        for itg in o.integrals():
            T.meshes[itg.ufl_domain().ufl_id()] = itg.ufl_domain()
            _collect(itg.integrand(), T, seen)
        return
    if isinstance(o, BaseCoefficient):
        T.coeffs[(type(o).__name__, o.count())] = o
        d = o.ufl_function_space().ufl_domain()
        T.meshes[d.ufl_id()] = d
        return
    if isinstance(o, BaseArgument):
        d = o.ufl_function_space().ufl_domain()
        T.meshes[d.ufl_id()] = d
        return
    if isinstance(o, Constant):
        T.consts[o.count()] = o
        T.meshes[o.ufl_domain().ufl_id()] = o.ufl_domain()
        return
    if isinstance(o, GeometricQuantity):
        T.meshes[o._domain.ufl_id()] = o._domain
        return
    if isinstance(o, Label):
        T.labels[o.count()] = o
        return
    if isinstance(o, MultiIndex):
        for i in o._indices:
            if isinstance(i, Index) and i.count() not in T.idx:
                T.idx[i.count()] = len(T.idx)
        return
    if isinstance(o, Zero):
        for c in o.ufl_free_indices:
            if c not in T.idx:
                T.idx[c] = len(T.idx)
        return
    if isinstance(o, BaseFormOperator):
        d = o.ufl_function_space().ufl_domain()
        T.meshes[d.ufl_id()] = d
        for s in o.argument_slots():
            _collect(s, T, seen)
    for c in getattr(o, "ufl_operands", ()):
        _collect(c, T, seen)


def _rank(d, k):
    return sorted(d).index(k)


def _mesh_key(m, T):
    return ("Mesh", _rank(T.meshes, m.ufl_id()), repr(m.ufl_coordinate_element()))


def _space_key(V, T):
    return (type(V).__name__, _mesh_key(V.ufl_domain(), T), repr(V.ufl_element()), V.label())


def _md_blind(v):
    """metadata as the recorded causes see it: leaves by str(), dicts as sequences of pairs (used only to *explain* collisions)"""
    import numpy as np
    if isinstance(v, np.ndarray):
        return _md_blind(v.tolist())
    if isinstance(v, dict):
        return tuple((k, _md_blind(v[k])) for k in sorted(v))
    if isinstance(v, (list, tuple)):
        return tuple(_md_blind(x) for x in v)
    return md_printed(v)


BLIND = [False]


def _md_key(v):
    import numpy as np
    if BLIND[0]:
        return _md_blind({} if v is None else v)
    if v is None:
        return ("None",)
    if isinstance(v, np.ndarray):
        return _md_key(v.tolist())
    if isinstance(v, dict):
        return ("dict", tuple(sorted((k, _md_key(x)) for k, x in v.items())))
    if isinstance(v, (list, tuple)):
        return ("seq", tuple(_md_key(x) for x in v))          # lists and tuples are documented to be merged
    if isinstance(v, (bool, np.bool_)):
        return ("bool", bool(v))
    if isinstance(v, (int, np.integer)):
        return ("int", int(v))
    if isinstance(v, (float, np.floating)):
        return ("float", float(v).hex())
    if isinstance(v, str):
        return ("str", v)
    return ("obj", type(v).__name__, repr(v))


def _key(o, T, memo):
    from ufl.classes import (MultiIndex, FixedIndex, Zero, Label, Constant, GeometricQuantity, BaseFormOperator, Form,
                             IntValue, FloatValue, ComplexValue, Identity, PermutationSymbol)
    from ufl.coefficient import BaseCoefficient
    from ufl.argument import BaseArgument
    hit = memo.get(id(o))
    if hit is not None:
        return hit[1]
    name = type(o).__name__
    if isinstance(o, Form):
        r = ("Form", tuple(_integral_key(i, T, memo) for i in o.integrals()))
    elif isinstance(o, BaseCoefficient):
        r = (name, _rank(T.coeffs, (name, o.count())), _space_key(o.ufl_function_space(), T))
    elif isinstance(o, BaseArgument):
        r = (name, o.number(), o.part(), _space_key(o.ufl_function_space(), T))
    elif isinstance(o, Constant):
        r = (name, _rank(T.consts, o.count()), _mesh_key(o.ufl_domain(), T), tuple(o.ufl_shape))
    elif isinstance(o, GeometricQuantity):
        r = (name, _mesh_key(o._domain, T))
    elif isinstance(o, Label):
        r = (name, _rank(T.labels, o.count()))
    elif isinstance(o, MultiIndex):
        r = (name, tuple(("F", int(i)) if isinstance(i, FixedIndex) else ("X", T.idx[i.count()]) for i in o._indices))
    elif isinstance(o, Zero):
        r = (name, tuple(o.ufl_shape), tuple(sorted((T.idx[c], d) for c, d in zip(o.ufl_free_indices, o.ufl_index_dimensions))))
    elif isinstance(o, IntValue):
        r = (name, int(o._value))
    elif isinstance(o, FloatValue):
        r = (name, float(o._value).hex())
    elif isinstance(o, ComplexValue):
        r = (name, o._value.real.hex(), o._value.imag.hex())
    elif isinstance(o, (Identity, PermutationSymbol)):
        r = (name, o._dim)
    elif getattr(o, "_ufl_is_terminal_", False):
        r = (name, repr(o))
    else:
        kids = tuple(_key(c, T, memo) for c in o.ufl_operands)
        if isinstance(o, BaseFormOperator) and not BLIND[0]:
            r = (name, kids, ("derivatives", getattr(o, "derivatives", None)), ("space", _space_key(o.ufl_function_space(), T)),
                 ("slots", tuple(_key(s, T, memo) for s in o.argument_slots())))
        else:
            r = (name, kids)
    memo[id(o)] = (o, r)
    return r


def _sub_key(s):
    import numbers
    if isinstance(s, numbers.Integral) and not isinstance(s, bool):
        return ("int", int(s))
    if isinstance(s, tuple):
        return ("tuple", tuple(_sub_key(x) for x in s))
    return (type(s).__name__, s)


def _integral_key(itg, T, memo):
    md = itg.metadata()
    return (_key(itg.integrand(), T, memo), _mesh_key(itg.ufl_domain(), T), itg.integral_type(), _sub_key(itg.subdomain_id()),
            _md_key({} if md is None else md))


def py_key_blind(form):
    """`py_key` with the data of the recorded causes made invisible (base-form-operator data, the type of a metadata leaf)"""
    BLIND[0] = True
    try:
        return py_key(form)
    finally:
        BLIND[0] = False


def py_key(form):
    """a canonical structural description of everything of a form a form compiler reads: classes and operands, literal values,
    element reprs, domains, integral types, subdomain ids, typed metadata, base-form-operator data; index counts numbered by first
    occurrence, coefficient / constant / label counts and mesh ids by rank.  Independent of ufl/algorithms/signature.py."""
    T = _Tables()
    _collect(form, T, {})
    return _key(form, T, {})


# ---------------------------------------------------------------------------------------------- pairs that differ by one edit
DIFFER, SAME = "differ", "same"


class Site:
    """what one build of a pair contributes: a scalar factor for the edited integrand and / or the measure of the edited integral"""

    def __init__(self, expr=None, itype=None, sub=None, md="unset", mesh=None, whole=None, sdata=None, restrict=False, order=None):
        self.expr, self.itype, self.sub, self.md, self.mesh = expr, itype, sub, md, mesh
        self.whole, self.sdata, self.restrict, self.order = whole, sdata, restrict, order


def _kinds():
    import ufl
    import numpy as np
    from ufl.classes import IntValue, FloatValue, ComplexValue, Zero, Variable, Label, ExternalOperator, Interpolate, Coargument
    from utils import LagrangeElement, FiniteElement
    tri = ufl.triangle
    K = {}

    def kind(expect, weight=1.0, known=None):
        def deco(fn):
            K[fn.__name__] = (fn, expect, weight, known)
            return fn
        return deco

    def S(m, deg=1, sh=(), label=""):
        return ufl.FunctionSpace(m, LagrangeElement(tri, deg, sh), label=label)

    # ---- literals
    @kind(DIFFER)
    def lit_int(E, rng, v):
        a = rng.choice([2, 3, 5, 7, 99, 100, -1])
        return Site(expr=E.u * IntValue(a + (1 if v else 0)))

    @kind(DIFFER, 1.5)
    def lit_float(E, rng, v):
        import math
        a = rng.choice([0.5, 0.1, 1e-3, 3.0, 1e22, 1 / 3, 2.5e-310, 123456.789, -7.25, 5e-324])
        b = rng.choice([math.nextafter(a, math.inf), math.nextafter(a, -math.inf), a / 2, -a, a + 1])
        return Site(expr=E.u * FloatValue(b if v else a))

    @kind(DIFFER, 0.5)
    def lit_int_vs_float(E, rng, v):
        a = rng.choice([2, 3, 10])
        return Site(expr=E.u * (FloatValue(float(a)) if v else IntValue(a)))

    @kind(DIFFER, 0.7)
    def lit_complex(E, rng, v):
        a, b = rng.choice([(1 + 2j, 1 + 3j), (2j, 2.0000000000000004j), (1 + 2j, 1 - 2j), (0.5 + 1j, 0.25 + 1j)])
        return Site(expr=E.u * ComplexValue(b if v else a))

    # ---- index patterns
    @kind(DIFFER, 1.5)
    def index_swap(E, rng, v):
        i, j = ufl.Index(), ufl.Index()
        A, B = rng.choice([(E.A, E.B), (E.A, E.A)])
        return Site(expr=A[i, j] * (B[i, j] if v else B[j, i]))

    @kind(DIFFER)
    def index_fixed(E, rng, v):
        a, b = rng.choice([((0, 1), (1, 0)), ((0, 0), (1, 1)), ((0, 1), (0, 0))])
        return Site(expr=E.A[b if v else a] * E.u)

    @kind(DIFFER)
    def index_free_vs_fixed(E, rng, v):
        i = ufl.Index()
        return Site(expr=(E.A[0, 0] if v else E.A[i, i]) * E.u)

    @kind(DIFFER)
    def index_component_tensor(E, rng, v):
        i, j = ufl.Index(), ufl.Index()
        T = ufl.as_tensor(E.A[i, j] * E.u, (j, i) if v else (i, j))
        return Site(expr=T[0, 1])

    @kind(DIFFER)
    def zero_index(E, rng, v):
        i, j = ufl.Index(), ufl.Index()
        c = ufl.conditional(ufl.lt(E.u, E.v), Zero((), tuple(sorted((i.count(), j.count()))), (2, 2)), E.A[i, j])
        return Site(expr=c * (E.B[j, i] if v else E.B[i, j]))

    # ---- elements, spaces, coefficients
    @kind(DIFFER, 1.5)
    def elem_degree(E, rng, v):
        sh = rng.choice([(), (2,)])
        d = rng.choice([1, 2])
        f = ufl.Coefficient(S(E.m0, d + (1 if v else 0), sh))
        return Site(expr=(f if sh == () else f[0]) * E.u)

    @kind(DIFFER)
    def elem_family(E, rng, v):
        el = FiniteElement("Discontinuous Lagrange", tri, 1, (), ufl.identity_pullback, ufl.L2) if v else LagrangeElement(tri, 1, ())
        return Site(expr=ufl.Coefficient(ufl.FunctionSpace(E.m0, el)) * E.u)

    @kind(DIFFER)
    def elem_of_argument(E, rng, v):
        return Site(expr=ufl.TestFunction(S(E.m0, 2 if v else 1)) * E.u)

    @kind(DIFFER)
    def space_label(E, rng, v):
        lab = rng.choice(["boundary", "b", "0"])
        return Site(expr=ufl.Coefficient(S(E.m0, 1, (), lab if v else "")) * E.u)

    @kind(DIFFER)
    def coord_degree(E, rng, v):
        m = ufl.Mesh(LagrangeElement(tri, 2 if v else 1, (2,)), ufl_id=E.free_mesh_id)
        return Site(expr=ufl.Coefficient(S(m)) * E.u)

    @kind(DIFFER, 1.5)
    def coeff_swap(E, rng, v):
        return Site(expr=(E.u * E.v if v else E.u * E.u) + E.v)

    @kind(DIFFER)
    def const_shape(E, rng, v):
        return Site(expr=ufl.Constant(E.m0, (3,) if v else (2,))[0] * E.u)

    @kind(DIFFER)
    def const_vs_const(E, rng, v):
        return Site(expr=(E.c * E.c2 if v else E.c * E.c) + E.c2)

    @kind(DIFFER)
    def arg_number(E, rng, v):
        V = S(E.m0)
        return Site(expr=ufl.Argument(V, 1 if v else 0) * E.u)

    @kind(DIFFER)
    def arg_part(E, rng, v):
        V = S(E.m0)
        return Site(expr=ufl.Argument(V, 0, 1 if v else None) * E.u)

    @kind(DIFFER)
    def geo_class(E, rng, v):
        a, b = rng.sample([ufl.CellVolume, ufl.Circumradius, ufl.CellDiameter, ufl.FacetArea, ufl.MinFacetEdgeLength], 2)
        return Site(expr=(b if v else a)(E.m0) * E.u)

    @kind(DIFFER)
    def geo_mesh(E, rng, v):
        return Site(expr=ufl.CellVolume(E.m1 if v else E.m0) * ufl.CellVolume(E.m0) * ufl.Circumradius(E.m1))

    @kind(DIFFER)
    def variable_share(E, rng, v):
        x = E.u * E.v
        a, b = Variable(x, Label()), Variable(x, Label())
        return Site(expr=a * (a if v else b) + b)

    @kind(DIFFER)
    def derivative_wrt(E, rng, v):
        F = ufl.sin(E.u) * E.v * E.u
        return Site(expr=ufl.derivative(F, E.v if v else E.u, E.tv))

    # ---- operator classes and operand order
    @kind(DIFFER, 1.5)
    def opclass_math(E, rng, v):
        a, b = rng.sample([ufl.sin, ufl.cos, ufl.exp, ufl.tan, ufl.cosh, ufl.sinh, ufl.erf, abs, ufl.conj, ufl.real, ufl.imag, ufl.sign], 2)
        return Site(expr=(b if v else a)(E.u + E.v))

    @kind(DIFFER)
    def opclass_cmp(E, rng, v):
        a, b = rng.sample([ufl.lt, ufl.gt, ufl.le, ufl.ge, ufl.eq, ufl.ne], 2)
        return Site(expr=ufl.conditional((b if v else a)(E.u, E.v), E.u, E.c))

    @kind(DIFFER)
    def opclass_arith(E, rng, v):
        a, b = rng.sample([lambda x, y: x + y, lambda x, y: x * y, lambda x, y: x / y, lambda x, y: x ** y, ufl.max_value, ufl.min_value,
                           ufl.atan2], 2)
        return Site(expr=(b if v else a)(E.u, E.v) * E.c)

    @kind(DIFFER)
    def opclass_tensor(E, rng, v):
        a, b = rng.sample([ufl.tr, ufl.det, lambda M: ufl.dev(M)[0, 0], lambda M: ufl.sym(M)[0, 1], lambda M: ufl.skew(M)[0, 1],
                           lambda M: ufl.transpose(M)[0, 1], lambda M: ufl.inv(M)[0, 1], lambda M: M[0, 1]], 2)
        return Site(expr=(b if v else a)(E.A) * E.u)

    @kind(DIFFER)
    def opclass_deriv(E, rng, v):
        a, b = rng.sample([lambda f: ufl.grad(f)[0], lambda f: ufl.grad(f)[1], lambda f: ufl.nabla_grad(f)[0], lambda f: f.dx(0),
                           lambda f: ufl.div(ufl.grad(f)), lambda f: ufl.Dn(f) if False else ufl.grad(f)[0] * 2], 2)
        return Site(expr=(b if v else a)(E.u) * E.v)

    @kind(DIFFER, 2.0)
    def operand_order(E, rng, v):
        f = rng.choice([lambda x, y: x / y, lambda x, y: x ** y, ufl.atan2, lambda x, y: x - y,
                        lambda x, y: ufl.conditional(ufl.lt(E.c, E.c2), x, y), lambda x, y: ufl.conditional(ufl.lt(x, y), E.c, E.c2),
                        lambda x, y: ufl.bessel_J(1, x) * y + x, lambda x, y: ufl.diff(ufl.variable(x) * y, ufl.variable(x)) if False else x / (y + 1)])
        a, b = E.u, E.v
        return Site(expr=f(b, a) if v else f(a, b))

    @kind(DIFFER)
    def operand_order_tensor(E, rng, v):
        f = rng.choice([lambda x, y: ufl.inner(x, y), lambda x, y: ufl.dot(x, y), lambda x, y: ufl.outer(x, y)[0, 1],
                        lambda x, y: ufl.dot(E.A, x)[0] * y[1], lambda x, y: ufl.as_vector([x[0], y[1]])[1] * x[1],
                        lambda x, y: ufl.perp(x)[0] * y[0]])
        a, b = E.w, E.w2
        return Site(expr=f(b, a) if v else f(a, b))

    @kind(DIFFER)
    def list_tensor_order(E, rng, v):
        T = ufl.as_vector([E.v, E.u] if v else [E.u, E.v])
        return Site(expr=T[0] * E.c + T[1])

    @kind(DIFFER, 1.5)
    def restriction_side(E, rng, v):
        return Site(expr=E.u("-") if v else E.u("+"), itype="interior_facet", restrict=True)

    @kind(DIFFER)
    def avg_vs_jump(E, rng, v):
        return Site(expr=ufl.jump(E.u) if v else ufl.avg(E.u), itype="interior_facet", restrict=True)

    # ---- base form operators
    @kind(DIFFER, 1.2, known="C11:collision:base-form-operator:derivatives")
    def bfo_derivatives(E, rng, v):
        a, b = rng.choice([((0,), (1,)), (None, (1,)), ((1,), (2,))])
        return Site(expr=ExternalOperator(E.u, function_space=E.V, derivatives=b if v else a) * E.v)

    @kind(DIFFER, 1.2, known="C11:collision:base-form-operator:function-space")
    def bfo_space(E, rng, v):
        if rng.random() < 0.5:
            return Site(expr=ExternalOperator(E.u, function_space=S(E.m0, 2) if v else E.V) * E.v)
        return Site(expr=Interpolate(E.u, S(E.m0, 2) if v else E.V) * E.v)

    @kind(DIFFER, 1.2, known="C11:collision:base-form-operator:argument-slots")
    def bfo_slots(E, rng, v):
        vs = Coargument(E.V.dual(), 0)
        return Site(expr=ExternalOperator(E.u, function_space=E.V, argument_slots=(vs, E.v if v else E.u)) * E.v * E.u)

    @kind(DIFFER)
    def bfo_operand(E, rng, v):
        return Site(expr=ExternalOperator(E.v if v else E.u, function_space=E.V) * E.v * E.u)

    @kind(DIFFER)
    def bfo_class(E, rng, v):
        return Site(expr=(Interpolate(E.u, E.V) if v else ExternalOperator(E.u, function_space=E.V)) * E.v)

    # ---- measures
    @kind(DIFFER, 1.5)
    def subdomain_id(E, rng, v):
        a, b = rng.choice([(1, 2), ("everywhere", 1), (0, 1), (7, 70), (1, (1, 2))])
        return Site(sub=b if v else a)

    @kind(DIFFER, 1.5)
    def integral_type(E, rng, v):
        a, b = rng.sample(["cell", "exterior_facet", "vertex", "custom"], 2)
        return Site(itype=b if v else a)

    @kind(DIFFER)
    def integration_domain(E, rng, v):
        return Site(mesh=E.m1 if v else E.m0)

    @kind(DIFFER, 2.0)
    def md_value(E, rng, v):
        a, b = rng.choice([({"quadrature_degree": 2}, {"quadrature_degree": 3}), ({"k": "a"}, {"k": "b"}), ({"k": 1.5}, {"k": 1.25}),
                           ({"a": 1}, {"b": 1}), ({}, {"k": 1}), ({"k": [1, 2]}, {"k": [1, 3]}), ({"k": [1, 2]}, {"k": [1, 2, 2]}),
                           ({"k": {"a": 1}}, {"k": {"a": 2}}), ({"k": True}, {"k": False}), ({"k": 2}, {"k": 2.0}),
                           ({"k": (1, (2, 3))}, {"k": ((1, 2), 3)}), ({"k": "1, 2"}, {"k": "1,2"}), ({"k": 1, "l": 2}, {"k": 2, "l": 1}),
                           ({"quadrature_degree": 2, "quadrature_rule": "default"}, {"quadrature_degree": 2, "quadrature_rule": "vertex"})])
        return Site(md=b if v else a)

    @kind(DIFFER)
    def md_array(E, rng, v):
        a, b = rng.choice([(np.array([0.5, 0.25]), np.array([0.5, 0.2500000001])), (np.arange(2000.0), np.where(np.arange(2000) == 1000, -1.0, np.arange(2000.0))),
                           (np.array([[1.0, 2.0], [3.0, 4.0]]), np.array([[1.0, 2.0], [3.0, 4.5]])), (np.array([1, 2]), np.array([1.0, 2.0]))])
        return Site(md={"quadrature_weights": b if v else a})

    @kind(DIFFER)
    def md_degree_kw(E, rng, v):
        return Site(md={"quadrature_degree": 3 if v else 2, "quadrature_rule": "default"})

    @kind(DIFFER, 1.0, known="C11:collision:metadata:int-vs-str")
    def md_int_vs_str(E, rng, v):
        k, a = rng.choice([("quadrature_degree", 2), ("k", 10), ("k", -1)])
        return Site(md={k: str(a) if v else a})

    @kind(DIFFER, 1.0, known="C11:collision:metadata:none-vs-str")
    def md_none_vs_str(E, rng, v):
        return Site(md={rng.choice(["scheme", "k"]): "None" if v else None})

    @kind(DIFFER, 0.7, known="C11:collision:metadata:bool-vs-str")
    def md_bool_vs_str(E, rng, v):
        b = rng.choice([True, False])
        return Site(md={"optimize": str(b) if v else b})

    @kind(DIFFER, 0.7, known="C11:collision:metadata:float-vs-str")
    def md_float_vs_str(E, rng, v):
        a = rng.choice([2.5, 1e-8, 0.1])
        return Site(md={"tol": str(a) if v else a})

    @kind(DIFFER, 0.7, known="C11:collision:metadata:dict-vs-pairs")
    def md_dict_vs_pairs(E, rng, v):
        return Site(md={"k": [("a", 1), ("b", "x")] if v else {"a": 1, "b": "x"}})

    # ---- equivalent by construction
    @kind(SAME, 2.0)
    def same_rebuild(E, rng, v):
        i, j = ufl.Index(), ufl.Index()
        return Site(expr=E.A[i, j] * E.B[j, i] * ufl.Constant(E.m0) + ufl.variable(E.u * E.v) * ufl.Coefficient(E.V))

    @kind(SAME)
    def same_sub_tuple(E, rng, v):
        a = rng.choice([1, 2, 7])
        return Site(sub=(a,) if v else a)

    @kind(SAME)
    def same_md_none_empty(E, rng, v):
        return Site(md={} if v else None)

    @kind(SAME)
    def same_md_list_tuple(E, rng, v):
        return Site(md={"k": (1, 2.5, "a") if v else [1, 2.5, "a"]})

    @kind(SAME)
    def same_md_key_order(E, rng, v):
        return Site(md={"b": 2, "a": 1} if v else {"a": 1, "b": 2})

    @kind(SAME)
    def same_md_numpy_scalar(E, rng, v):
        return Site(md={"k": np.float64(2.5), "n": np.int64(3)} if v else {"k": 2.5, "n": 3})

    @kind(SAME)
    def same_subdomain_data(E, rng, v):
        return Site(sdata="B" if v else "A", sub=1)

    @kind(SAME)
    def same_integral_order(E, rng, v):
        return Site(order=bool(v))

    @kind(SAME, 0.7, known="C11:unequal:subdomain-id:numpy-int")
    def same_sub_numpy_int(E, rng, v):
        a = rng.choice([1, 2])
        return Site(sub=np.int64(a) if v else a)

    return K


class Env:
    pass


def shifted(regime, d):
    """the counters one or a few objects later, all counts staying inside their digit length: creation order unchanged"""
    st = {k: c + d for k, c in regime.starts.items()}
    return Regime(st)


def build(seed, kind, variant, regime2=False):
    """one form of the pair (seed, kind); everything random comes from random.Random(seed) and is drawn identically in both variants"""
    import ufl
    import gen
    from utils import LagrangeElement
    fn, expect, _, _ = init_kinds()[kind]
    rng = random.Random(seed)
    starts = dict(index=rng.choice([20, 40, 100, 300]), coeff=rng.choice([20, 40, 100]), const=rng.choice([20, 40, 100]),
                  label=rng.choice([20, 40]), mesh=rng.choice([20, 40, 100]))
    reg = Regime(starts)
    if (regime2 or kind == "same_rebuild") and variant:
        reg = shifted(reg, rng.choice([1, 3, 17]))
    else:
        rng.choice([1, 3, 17])
    tri = ufl.triangle
    with c12lib.counters(reg):
        grng = random.Random(rng.randrange(1 << 30))
        G = gen.Gen(grng, gdim=2, with_args=False, math=True, compound=grng.random() < 0.4, derivs=grng.random() < 0.3, reuse=0.7,
                    variables=True)
        E = Env()
        E.m0 = G.mesh
        E.m1 = ufl.Mesh(LagrangeElement(tri, 1, (2,)))
        E.free_mesh_id = E.m1.ufl_id() + 1
        ufl.Mesh._ufl_global_id = E.free_mesh_id + 1
        E.V = ufl.FunctionSpace(E.m0, LagrangeElement(tri, 1, ()))
        E.W = ufl.FunctionSpace(E.m0, LagrangeElement(tri, 1, (2,)))
        E.T = ufl.FunctionSpace(E.m0, LagrangeElement(tri, 1, (2, 2)))
        E.u, E.v = ufl.Coefficient(E.V), ufl.Coefficient(E.V)
        E.w, E.w2 = ufl.Coefficient(E.W), ufl.Coefficient(E.W)
        E.A, E.B = ufl.Coefficient(E.T), ufl.Coefficient(E.T)
        E.c, E.c2 = ufl.Constant(E.m0), ufl.Constant(E.m0)
        E.tv = ufl.TestFunction(E.V)
        nint = rng.choice([1, 1, 2, 3])
        edited = rng.randrange(nint)
        depth = rng.choice([0, 1, 2])
        srng = random.Random(rng.randrange(1 << 30))
        site = fn(E, srng, variant)
        terms = []
        for k in range(nint):
            bulk = G.expr((), (), depth) if depth else E.v
            itype = rng.choice(["cell", "cell", "exterior_facet"])
            sub = rng.choice(["everywhere", "everywhere", 1, 3])
            md = rng.choice([None, None, {"quadrature_degree": 2}])
            mesh, sdata = E.m0, None
            e = bulk
            if k == edited:
                if site.itype is not None:
                    itype = site.itype
                if site.sub is not None:
                    sub = site.sub
                if site.md != "unset":
                    md = site.md
                if site.mesh is not None:
                    mesh = site.mesh
                sdata = site.sdata
                if site.restrict:
                    e = bulk("+") * site.expr
                elif site.expr is not None:
                    e = bulk * site.expr if rng.random() < 0.7 else bulk + site.expr
                else:
                    rng.random()
            elif itype == "interior_facet":
                e = bulk("+")
            meas = ufl.Measure(ufl.measure.integral_type_to_measure_name[itype], domain=mesh, subdomain_id=sub, metadata=md, subdomain_data=sdata)
            terms.append((k, e * meas))
        if site.order is not None:
            # two more integrals with different subdomain ids, added in either order
            a, b = E.u * ufl.dx(domain=E.m0, subdomain_id=11), E.v * E.v * ufl.ds(domain=E.m0, subdomain_id=12)
            extra = [b, a] if site.order else [a, b]
        else:
            extra = []
        form = None
        for t in extra[:1] + [t for _, t in terms] + extra[1:]:
            form = t if form is None else form + t
    return form


KINDS = None


def init_kinds():
    global KINDS
    if KINDS is None:
        KINDS = _kinds()
    return KINDS


def choose_kinds(rng, n):
    K = init_kinds()
    names = sorted(K)
    w = [K[k][2] for k in names]
    out = list(names)          # every kind at least once
    while len(out) < n:
        out.append(rng.choices(names, w)[0])
    return out[:max(n, len(names))]


def sigof(form):
    with warnings.catch_warnings():
        warnings.simplefilter("ignore")
        return c12lib.sigof(form)
