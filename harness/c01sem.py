"""Reference semantics for the C01 end-to-end oracle (harness/props/c01.py).

A `World` is one random affine simplex cell (for interior facets: two cells sharing a facet) with a point on it, physical
fields, and the values of every symbol a form compiler tabulates, all computed *directly from the vertices* (nothing here
goes through UFL's geometry lowering, pullbacks or derivative passes):

  * vertices: random rationals, non-degenerate, gdim >= tdim; x = v0 + J X, J = vertex differences, K = (J^T J)^-1 J^T,
    detJ = det J (tdim = gdim) or CellOrientation * sqrt(det J^T J) (immersed), facet data from the UFC reference
    simplex (facet i is opposite vertex i), outward normal by Gram-Schmidt, volumes / radii from props.c07.direct;
  * fields: for every coefficient / argument a polynomial reference value r(x) per reference component; the physical field
    IS the element's declared push-forward of r (props.c08.push, which is independent of UFL), so f and reference_value(f)
    are consistent by construction on every cell, immersed ones included; reference gradients are D^n r contracted with J,
    physical gradients D^n r contracted with the tangential projector J K and pushed forward (K, J, detJ are constant on
    an affine cell);
  * on an interior facet the '-' cell gets its own vertex numbering, orientation and fields; fields of elements in H1
    agree on the facet (r- = r+ + l q with l an affine function vanishing on the facet) but not their gradients; all other
    fields are independent on the two sides.

`evaluate(world, expr)` substitutes, side by side (a restriction sets the side for everything below it; outside any
restriction the world's default side is used), per-side clones for coefficients / arguments and constant stand-in
coefficients for reference values, reference gradients and geometric quantities, and then calls UFL's own point
evaluation `expr(x, mapping)`.  The same evaluator is used for the original integrand (physical symbols) and for the
preprocessed one (reference symbols); intermediate stages mix both."""
import itertools
import math
from fractions import Fraction

from props.c07 import direct, gram_det, sub, dot, norm, scal, FACETS, EDGES, REFV, REFN, FACT
from props.c08 import El, push, prod, flat


class Unevaluable(Exception):
    pass



# ---------------------------------------------------------------- numbers that remember the size of the terms they were summed from
class Mag:
    """value v together with m >= the sum of the absolute values of the terms v was accumulated from: the scale against which
    rounding of the irrational data (normals, volumes: floats) has to be judged when an integrand cancels analytically (det of a
    rank-one matrix, jump of a continuous field).  UFL's point evaluation is generic over Python numbers; math functions see float(v)."""
    __slots__ = ("v", "m")

    def __init__(self, v, m=None):
        self.v = v
        self.m = abs(float(v)) if m is None else m

    @staticmethod
    def of(o):
        return o if isinstance(o, Mag) else Mag(o)

    def __add__(self, o):
        o = Mag.of(o)
        return Mag(self.v + o.v, self.m + o.m)
    __radd__ = __add__

    def __sub__(self, o):
        o = Mag.of(o)
        return Mag(self.v - o.v, self.m + o.m)

    def __rsub__(self, o):
        o = Mag.of(o)
        return Mag(o.v - self.v, self.m + o.m)

    def __mul__(self, o):
        o = Mag.of(o)
        return Mag(self.v * o.v, self.m * o.m)
    __rmul__ = __mul__

    def __truediv__(self, o):
        o = Mag.of(o)
        return Mag(self.v / o.v, self.m / abs(float(o.v)))

    def __rtruediv__(self, o):
        o = Mag.of(o)
        return Mag(o.v / self.v, o.m / abs(float(self.v)))

    def __pow__(self, o):
        ov = o.v if isinstance(o, Mag) else o
        if isinstance(ov, int) or (isinstance(ov, Fraction) and ov.denominator == 1) or (isinstance(ov, float) and ov == int(ov) and abs(ov) < 64):
            n = int(ov)
            if n >= 0:
                return Mag(self.v ** n, self.m ** n)
            return Mag(self.v ** n, self.m ** (-n) / abs(float(self.v)) ** (-2 * n))
        return Mag(float(self.v) ** float(ov))

    def __rpow__(self, o):
        return Mag(float(o) ** float(self.v))

    def __neg__(self):
        return Mag(-self.v, self.m)

    def __pos__(self):
        return self

    def __abs__(self):
        return Mag(abs(self.v), self.m)

    def __float__(self):
        return float(self.v)

    def __bool__(self):
        return bool(self.v)

    def conjugate(self):
        return self

    @property
    def real(self):
        return self

    @property
    def imag(self):
        return Mag(0)

    def __lt__(self, o):
        return self.v < Mag.of(o).v

    def __le__(self, o):
        return self.v <= Mag.of(o).v

    def __gt__(self, o):
        return self.v > Mag.of(o).v

    def __ge__(self, o):
        return self.v >= Mag.of(o).v

    def __eq__(self, o):
        return self.v == Mag.of(o).v

    def __ne__(self, o):
        return self.v != Mag.of(o).v

    def __hash__(self):
        return hash(self.v)

    def __repr__(self):
        return "Mag(%r, %.3g)" % (self.v, self.m)


import numbers as _numbers
_numbers.Real.register(Mag)       # UFL's math functions dispatch on numbers.Real (math.* via __float__), everything else goes to cmath


def magify(v):
    if isinstance(v, tuple):
        return tuple(magify(x) for x in v)
    return Mag.of(v)

# ---------------------------------------------------------------- polynomials with exact coefficients
class Poly:
    def __init__(self, n, terms=None):
        self.n = n
        self.t = {k: v for k, v in (terms or {}).items() if v != 0}

    @staticmethod
    def random(rng, n, deg, nterms=4):
        t = {}
        for _ in range(nterms):
            e = [0] * n
            for _ in range(rng.randint(0, deg)):
                e[rng.randrange(n)] += 1
            t[tuple(e)] = t.get(tuple(e), 0) + Fraction(rng.randint(-4, 4), rng.choice([1, 1, 2, 3]))
        return Poly(n, t)

    def d(self, k):
        out = {}
        for e, c in self.t.items():
            if e[k]:
                e2 = list(e)
                e2[k] -= 1
                out[tuple(e2)] = out.get(tuple(e2), 0) + c * e[k]
        return Poly(self.n, out)

    def dn(self, ks):
        p = self
        for k in ks:
            p = p.d(k)
        return p

    def __call__(self, x):
        s = 0
        for e, c in self.t.items():
            m = c
            for xi, ei in zip(x, e):
                if ei:
                    m = m * xi ** ei
            s = s + m
        return s

    def __add__(self, o):
        t = dict(self.t)
        for e, c in o.t.items():
            t[e] = t.get(e, 0) + c
        return Poly(self.n, t)

    def __mul__(self, o):
        t = {}
        for e1, c1 in self.t.items():
            for e2, c2 in o.t.items():
                e = tuple(a + b for a, b in zip(e1, e2))
                t[e] = t.get(e, 0) + c1 * c2
        return Poly(self.n, t)


def affine(n, a, p):
    """x -> a . (x - p)"""
    t = {tuple([0] * n): -sum(ai * pi for ai, pi in zip(a, p))}
    for k in range(n):
        e = [0] * n
        e[k] = 1
        t[tuple(e)] = t.get(tuple(e), 0) + a[k]
    return Poly(n, t)


# ---------------------------------------------------------------- small exact linear algebra
def mat_T(A):
    return [list(r) for r in zip(*A)] if A else []


def mat_mul(A, B):
    return [[sum(A[i][k] * B[k][j] for k in range(len(B))) for j in range(len(B[0]))] for i in range(len(A))]


def mat_inv(A):
    n = len(A)
    M = [list(A[i]) + [Fraction(int(i == j)) for j in range(n)] for i in range(n)]
    for c in range(n):
        p = next(r for r in range(c, n) if M[r][c] != 0)
        M[c], M[p] = M[p], M[c]
        piv = M[c][c]
        M[c] = [v / piv for v in M[c]]
        for r in range(n):
            if r != c and M[r][c] != 0:
                f = M[r][c]
                M[r] = [a - f * b for a, b in zip(M[r], M[c])]
    return [r[n:] for r in M]


def mat_det(A):
    n = len(A)
    if n == 0:
        return Fraction(1)
    if n == 1:
        return A[0][0]
    if n == 2:
        return A[0][0] * A[1][1] - A[0][1] * A[1][0]
    return sum((-1) ** j * A[0][j] * mat_det([r[:j] + r[j + 1:] for r in A[1:]]) for j in range(n))


def pinv(A):
    """left pseudo-inverse (A^T A)^-1 A^T of a full-column-rank matrix"""
    At = mat_T(A)
    return mat_mul(mat_inv(mat_mul(At, A)), At)


def tup(v):
    return tuple(tup(w) for w in v) if isinstance(v, (list, tuple)) else v


# ---------------------------------------------------------------- one cell
class Cell:
    def __init__(self, V, tdim, gdim, co, facet):
        self.V, self.tdim, self.gdim, self.co, self.facet = V, tdim, gdim, co, facet
        self.cols = [sub(V[j + 1], V[0]) for j in range(tdim)]
        self.J = [[self.cols[j][i] for j in range(tdim)] for i in range(gdim)]          # gdim x tdim
        self.K = pinv(self.J)                                                            # tdim x gdim
        g = mat_det(mat_mul(mat_T(self.J), self.J))
        if g == 0:
            raise ValueError("degenerate")
        if tdim == gdim:
            self.detJ = mat_det(self.J)
            self.pdet = abs(self.detJ)
        else:
            self.pdet = math.sqrt(float(g))
            self.detJ = co * self.pdet
        self.P = mat_mul(self.J, self.K)                                                 # tangential projector (identity if tdim = gdim)
        fv = FACETS[tdim][facet]
        RV = [[Fraction(int(v)) for v in p] for p in REFV[tdim]]
        self.RFJ = [[RV[fv[j + 1]][i] - RV[fv[0]][i] for j in range(tdim - 1)] for i in range(tdim)] if tdim > 1 else None
        self.FJ = mat_mul(self.J, self.RFJ) if tdim > 1 else None                      # gdim x (tdim-1)
        self.fverts = [V[i] for i in fv]

    def facet_scale(self):
        """|facet| / |reference facet| from the facet's vertices"""
        if self.tdim == 1:
            return 1
        ft = [sub(p, self.fverts[0]) for p in self.fverts[1:]]
        return math.sqrt(abs(float(gram_det(ft))))

    def quantities(self, x):
        if not hasattr(self, "_q"):
            Vf = [[float(c) for c in p] for p in self.V]
            self._q, _ = direct(Vf, self.tdim, self.gdim, self.facet, [float(c) for c in x])
        return self._q

    def geo(self, name, x, weight):
        """value (nested tuple) of the geometric quantity `name` on this cell; callable for x-dependent ones"""
        t, g = self.tdim, self.gdim
        q = self.quantities(x)
        if name in ("CellVolume", "Circumradius", "MinCellEdgeLength", "MaxCellEdgeLength", "CellDiameter"):
            return q[name]
        if name in ("FacetArea", "MinFacetEdgeLength", "MaxFacetEdgeLength"):
            if name not in q:
                raise Unevaluable(name)
            return q[name]
        if name == "FacetNormal":
            return tuple(q["FacetNormal"])
        if name == "Jacobian":
            return tup(self.J)
        if name == "JacobianInverse":
            return tup(self.K)
        if name == "JacobianDeterminant":
            return self.detJ
        if name == "CellOrientation":
            return self.co
        if name == "CellOrigin":
            return tup(self.V[0])
        if name == "CellVertices":
            return tup(self.V)
        if name == "ReferenceCellVolume":
            return Fraction(1, FACT[t])
        if name == "ReferenceFacetVolume":
            return Fraction(1, FACT[t - 1])
        if name == "ReferenceNormal":
            return tuple(REFN[t][self.facet])
        if name == "QuadratureWeight":
            return weight
        if name == "CellFacetJacobian" and t > 1:
            return tup(self.RFJ)
        if name == "FacetJacobian" and t > 1:
            return tup(self.FJ)
        if name == "FacetJacobianInverse" and t > 1:
            return tup(pinv(self.FJ))
        if name == "FacetJacobianDeterminant":
            return self.facet_scale()
        if name == "CellEdgeVectors" and t > 1:
            return tup([sub(self.V[b], self.V[a]) for a, b in EDGES[t]])
        if name == "FacetEdgeVectors" and t == 3:
            f = self.fverts
            return tup([sub(f[2], f[1]), sub(f[2], f[0]), sub(f[1], f[0])])
        if name == "CellCoordinate":
            X = [sum(self.K[i][j] * (x[j] - self.V[0][j]) for j in range(g)) for i in range(t)]
            K = self.K
            def Xf(xx, derivatives=()):
                if not derivatives:
                    return tuple(X)
                if len(derivatives) == 1:
                    return tuple(K[i][derivatives[0]] for i in range(t))
                return tuple(0 for _ in range(t))
            return Xf
        if name == "CellNormal" and t == g - 1:
            if t == 2:
                a, b = self.cols
                cr = [a[1] * b[2] - a[2] * b[1], a[2] * b[0] - a[0] * b[2], a[0] * b[1] - a[1] * b[0]]
            else:
                cr = [-self.cols[0][1], self.cols[0][0]]
            nn = math.sqrt(float(dot(cr, cr)))
            return tuple(self.co * float(c) / nn for c in cr)
        raise Unevaluable("geometric quantity " + name)


# ---------------------------------------------------------------- the world: one or two cells, a point, fields
class World:
    def __init__(self, rng, tdim, gdim, two_sided):
        self.rng, self.tdim, self.gdim, self.two_sided = rng, tdim, gdim, two_sided
        q = lambda: Fraction(rng.randint(-6, 6), rng.choice([1, 2]))
        for _ in range(200):
            V = [[q() for _ in range(gdim)] for _ in range(tdim + 1)]
            cols = [sub(V[j + 1], V[0]) for j in range(tdim)]
            if abs(float(gram_det(cols))) > 0.3:
                break
        else:
            raise ValueError("no cell")
        fp = rng.randrange(tdim + 1)
        self.cells = {"+": Cell(V, tdim, gdim, rng.choice([-1, 1]), fp)}
        fverts = [V[i] for i in FACETS[tdim][fp]]
        if two_sided:
            # the '-' cell: the same facet vertices (in a permuted order, at the positions of a random local facet) + an opposite vertex
            # on the other side of the facet (any non-degenerate position on an immersed mesh)
            for _ in range(200):
                fm = rng.randrange(tdim + 1)
                perm = list(fverts)
                rng.shuffle(perm)
                opp_p = V[fp] if tdim > 1 else V[1 - fp]
                if tdim == gdim:
                    lam = [Fraction(rng.randint(1, 4)) for _ in fverts]
                    base = [sum(l * p[k] for l, p in zip(lam, fverts)) / sum(lam) for k in range(gdim)]
                    s = Fraction(rng.randint(1, 4), rng.choice([1, 2]))
                    opp = [base[k] - s * (opp_p[k] - base[k]) for k in range(gdim)]
                    if tdim > 1:                       # shear along the facet so that the two cells are not mirror images
                        tdir = sub(fverts[1], fverts[0])
                        sh = Fraction(rng.randint(-3, 3), 2)
                        opp = [opp[k] + sh * tdir[k] for k in range(gdim)]
                else:
                    opp = [q() for _ in range(gdim)]
                Vm = [None] * (tdim + 1)
                slots = list(FACETS[tdim][fm])
                for s_, p in zip(slots, perm):
                    Vm[s_] = p
                Vm[fm if tdim > 1 else 1 - fm] = opp
                if any(v is None for v in Vm):
                    continue
                cols = [sub(Vm[j + 1], Vm[0]) for j in range(tdim)]
                if abs(float(gram_det(cols))) > 0.3:
                    break
            else:
                raise ValueError("no neighbour cell")
            self.cells["-"] = Cell(Vm, tdim, gdim, rng.choice([-1, 1]), fm)
            if tdim == 1:
                # interval: facet fp of '+' is the vertex V[fp]... FACETS[1] = [(0,), (1,)]: facet i IS vertex i
                pass
        # the point: on the facet for facet integrals (always generated on the facet: a cell integrand may be evaluated anywhere)
        lam = [Fraction(rng.randint(1, 5)) for _ in fverts]
        self.x = [sum(l * p[k] for l, p in zip(lam, fverts)) / sum(lam) for k in range(gdim)]
        self.x_cell = None
        lamc = [Fraction(rng.randint(1, 5)) for _ in V]
        self.x_interior = [sum(l * p[k] for l, p in zip(lamc, V)) / sum(lamc) for k in range(gdim)]
        self.weight = Fraction(rng.randint(1, 9), rng.choice([2, 3, 5]))
        # affine function vanishing on the facet: a . (x - p), a orthogonal to the facet's tangents
        tang = []
        for p in fverts[1:]:
            t = sub(p, fverts[0])
            for b in tang:
                t = sub(t, scal(dot(t, b) / dot(b, b), b))
            tang.append(t)
        for _ in range(50):
            a = [q() for _ in range(gdim)]
            for b in tang:
                a = sub(a, scal(dot(a, b) / dot(b, b), b))
            if any(c != 0 for c in a):
                break
        self.l_facet = affine(gdim, a, fverts[0])
        self.fields = {}       # form argument -> {side: {ref component: Poly}}
        self.continuous = {}
        self.els = {}          # form argument -> El
        self.consts = {}
        self.default_side = "+"
        self.on_facet = True

    def point(self):
        return self.x if self.on_facet else self.x_interior

    # ---- conditioning probe: a relative perturbation of the irrational (float) data, deterministic per (seed, key)
    perturb = None

    def p(self, v, key=""):
        """v itself, or - in perturbation mode - v with every float entry multiplied by 1 + 1e-12 u, u in [-1, 1] fixed per entry"""
        if self.perturb is None:
            return v
        if isinstance(v, float):
            import random as _r
            u = _r.Random("%s|%s" % (self.perturb, key)).uniform(-1, 1)
            return v * (1 + 1e-12 * u)
        if isinstance(v, tuple):
            return tuple(self.p(x, "%s.%d" % (key, i)) for i, x in enumerate(v))
        return v

    # ---- fields
    def add_field(self, f, el, continuous, degree=2):
        rng, n = self.rng, self.gdim
        comps = list(itertools.product(*[range(d) for d in el.ref]))
        plus = {c: Poly.random(rng, n, degree) for c in comps}
        sides = {"+": plus}
        if self.two_sided:
            if continuous:
                sides["-"] = {c: plus[c] + self.l_facet * Poly.random(rng, n, max(degree - 1, 0), 2) for c in comps}
            else:
                sides["-"] = {c: Poly.random(rng, n, degree) for c in comps}
        self.fields[f] = sides
        self.els[f] = el
        self.continuous[f] = continuous

    def alias_field(self, new, old):
        self.fields[new] = self.fields[old]
        self.els[new] = self.els[old]
        self.continuous[new] = self.continuous[old]

    def ref_jet(self, f, side, c, ks):
        """ReferenceGrad^n(reference_value(f))[c, ks] : D^n r_c contracted with J on every derivative axis"""
        cell = self.cells[side]
        r = self.fields[f][side][tuple(c)]
        x = self.point()
        g = self.gdim
        tot = 0
        for ms in itertools.product(range(g), repeat=len(ks)):
            w = 1
            for m, k in zip(ms, ks):
                w = w * cell.J[m][k]
            if w != 0:
                tot = tot + w * r.dn(ms)(x)
        return tot

    def phys_jet(self, f, side, c, ks, x=None):
        """Grad^n(f)[c, ks]: the push-forward of D^n r contracted with the tangential projector on every derivative axis"""
        cell = self.cells[side]
        el = self.els[f]
        x = self.point() if x is None else x
        g = self.gdim
        def rv(cc):
            r = self.fields[f][side][tuple(cc)]
            if not ks:
                return r(x)
            if self.tdim == g:
                return r.dn(ks)(x)
            tot = 0
            for ms in itertools.product(range(g), repeat=len(ks)):
                w = 1
                for m, k in zip(ms, ks):
                    w = w * cell.P[m][k]
                if w != 0:
                    tot = tot + w * r.dn(ms)(x)
            return tot
        return push(el, rv, tuple(c), cell.J, cell.K, self.p(cell.detJ, "detJ" + side), self.tdim, g)


# ---------------------------------------------------------------- element descriptors from live elements
def el_of(e):
    """the declared push-forward of a live element as a props.c08.El tree (reads only the pullback's type and the shapes)"""
    from ufl import pullback as pb
    p = e.pullback
    ref = tuple(int(d) for d in e.reference_value_shape)
    if isinstance(p, pb.IdentityPullback):
        return El("identity", ref)
    if isinstance(p, pb.ContravariantPiola):
        return El("contra", ref)
    if isinstance(p, pb.CovariantPiola):
        return El("co", ref)
    if isinstance(p, pb.L2Piola):
        return El("l2", ref)
    if isinstance(p, pb.DoubleContravariantPiola):
        return El("dcontra", ref)
    if isinstance(p, pb.DoubleCovariantPiola):
        return El("dco", ref)
    if isinstance(p, pb.CovariantContravariantPiola):
        return El("coco", ref)
    if isinstance(p, pb.SymmetricPullback):
        return El("symmetric", ref, [el_of(s) for s in e.sub_elements], dict(p._symmetry))
    if isinstance(p, pb.MixedPullback):
        return El("mixed", ref, [el_of(s) for s in e.sub_elements])
    raise Unevaluable("pullback " + type(p).__name__)


# ---------------------------------------------------------------- evaluation
class Evaluator:
    def __init__(self, world, mesh):
        import ufl
        from ufl import pullback as pb
        from ufl.sobolevspace import H1
        from utils import FiniteElement
        self.w, self.mesh, self.ufl = world, mesh, ufl
        self.two = getattr(world, "two_now", world.two_sided)
        self.cell = mesh.ufl_cell()
        self._el = lambda sh: FiniteElement("Lagrange", self.cell, 1, tuple(sh), pb.identity_pullback, H1)
        self.mapping = {}
        self.memo = {}
        self.keep = []
        self.clones = {}
        self.standins = {}
        self.used_sides = set()
        self.unrestricted = []      # side-dependent atoms met outside every restriction

    def standin(self, key, shape, value):
        k = (key, )
        if key not in self.standins:
            c = self.ufl.Coefficient(self.ufl.FunctionSpace(self.mesh, self._el(shape)))
            self.standins[key] = c
            if callable(value):
                self.mapping[c] = (lambda fn: (lambda x, derivatives=(): magify(fn(x, derivatives))))(value)
            else:
                self.mapping[c] = magify(value)
        return self.standins[key]

    def clone(self, f, side):
        key = (f, side)
        if key not in self.clones:
            w = self.w
            c = self.ufl.Coefficient(f.ufl_function_space())
            self.clones[key] = c
            shape = f.ufl_shape
            def fn(x, derivatives=(), f=f, side=side, shape=shape):
                def build(prefix, rest):
                    if not rest:
                        return Mag.of(w.phys_jet(f, side, prefix, tuple(derivatives), x))
                    return tuple(build(prefix + (i,), rest[1:]) for i in range(rest[0]))
                return build((), tuple(shape))
            self.mapping[c] = fn
        return self.clones[key]

    def side_of(self, side, what):
        if side is None:
            if self.two:
                self.unrestricted.append(what)
            return self.w.default_side
        return side

    def subst(self, e, side=None):
        from ufl.classes import (Restricted, ReferenceGrad, ReferenceValue, Terminal, FormArgument, Constant, SpatialCoordinate,
                                 GeometricQuantity, MultiIndex, ConstantValue, Label, CellAvg, FacetAvg, Grad)
        key = (id(e), side)
        hit = self.memo.get(key)
        if hit is not None:
            return hit
        self.keep.append(e)
        r = self._subst(e, side)
        self.memo[key] = r
        return r

    def _subst(self, e, side):
        from ufl.classes import (Restricted, ReferenceGrad, ReferenceValue, FormArgument, Constant, SpatialCoordinate,
                                 GeometricQuantity, MultiIndex, ConstantValue, Label, CellAvg, FacetAvg)
        w = self.w
        if isinstance(e, Restricted):
            if not self.two:
                raise Unevaluable("restriction in a one-sided integral")
            return self.subst(e.ufl_operands[0], e.side())
        if isinstance(e, (CellAvg, FacetAvg)):
            raise Unevaluable(type(e).__name__)
        if isinstance(e, (ReferenceGrad, ReferenceValue)):
            n, base = 0, e
            while isinstance(base, ReferenceGrad):
                n, base = n + 1, base.ufl_operands[0]
            inner_side = side
            if isinstance(base, Restricted):          # apply_restrictions propagates to the terminal: reference_grad(reference_value(f)('+'))
                inner_side, base = base.side(), base.ufl_operands[0]
            if isinstance(base, ReferenceValue) and isinstance(base.ufl_operands[0], Restricted):
                inner_side = base.ufl_operands[0].side()
                base = ReferenceValue(base.ufl_operands[0].ufl_operands[0])
            if isinstance(base, ReferenceValue):
                f = base.ufl_operands[0]
                if not isinstance(f, FormArgument) or f not in w.fields:
                    raise Unevaluable("reference value of " + type(f).__name__)
                s = self.side_of(inner_side, "reference_value" if n == 0 else "reference_grad(reference_value)")
                shape = tuple(e.ufl_shape)
                rsh = tuple(base.ufl_shape)
                def build(prefix, rest):
                    if not rest:
                        return w.ref_jet(f, s, prefix[:len(rsh)], prefix[len(rsh):])
                    return tuple(build(prefix + (i,), rest[1:]) for i in range(rest[0]))
                return self.standin(("rv", f, n, s), shape, build((), shape))
            if isinstance(base, SpatialCoordinate):
                s = self.side_of(inner_side, "reference_grad(x)")
                if n == 1:
                    return self.standin(("J", s), e.ufl_shape, tup(w.cells[s].J))
                return self.ufl.classes.Zero(e.ufl_shape)
            if isinstance(base, GeometricQuantity):
                name = type(base).__name__
                if name == "CellCoordinate" and n == 1:
                    return self.ufl.Identity(w.tdim)
                if name in ("CellCoordinate",):
                    return self.ufl.classes.Zero(e.ufl_shape)
                return self.ufl.classes.Zero(e.ufl_shape)      # piecewise constant on an affine cell
            raise Unevaluable("reference gradient of " + type(base).__name__)
        if e._ufl_is_terminal_:
            if isinstance(e, (MultiIndex, ConstantValue, Label)):
                return e
            if isinstance(e, FormArgument):
                if e not in w.fields:
                    raise Unevaluable("no data for " + str(e))
                cont = w.continuous.get(e, False)
                s = side
                if s is None:
                    if self.two:
                        self.unrestricted.append("form argument" if not cont else "H1 form argument")
                    s = w.default_side
                return self.clone(e, s)
            if isinstance(e, Constant):
                if e not in self.mapping:
                    if e not in w.consts:
                        sh = e.ufl_shape
                        def rnd(sh):
                            return tuple(rnd(sh[1:]) for _ in range(sh[0])) if sh else Fraction(w.rng.randint(-5, 5), w.rng.choice([1, 2]))
                        w.consts[e] = rnd(sh)
                    self.mapping[e] = magify(w.consts[e])
                return e
            if isinstance(e, SpatialCoordinate):
                return e
            if isinstance(e, GeometricQuantity):
                name = type(e).__name__
                sidefree = name in ("QuadratureWeight", "ReferenceCellVolume", "ReferenceFacetVolume")
                s = side
                if s is None:
                    if self.two and not sidefree:
                        self.unrestricted.append(name)
                    s = w.default_side
                if not w.on_facet and name in ("FacetNormal", "FacetArea", "FacetJacobian", "FacetJacobianDeterminant", "FacetJacobianInverse",
                                               "CellFacetJacobian", "ReferenceNormal", "ReferenceFacetVolume", "MinFacetEdgeLength", "MaxFacetEdgeLength", "FacetEdgeVectors"):
                    raise Unevaluable("facet quantity in a cell integral")
                val = w.cells[s].geo(name, w.point(), w.weight)
                return self.standin(("geo", name, s), e.ufl_shape, val if callable(val) else w.p(val, name + s))
            raise Unevaluable("terminal " + type(e).__name__)
        ops = [self.subst(o, side) for o in e.ufl_operands]
        if all(a is b for a, b in zip(ops, e.ufl_operands)):
            return e
        return e._ufl_expr_reconstruct_(*ops)

    def value(self, e):
        """value of the scalar expression e at the world's point"""
        import warnings
        e2 = self.subst(e, None)
        x = tuple(self.w.point())
        with warnings.catch_warnings():
            warnings.simplefilter("ignore")
            v = e2(x, self.mapping)
        if hasattr(v, "ufl_shape"):
            raise Unevaluable("evaluation returned a UFL object: " + str(v)[:80])
        if isinstance(v, complex):
            if abs(v.imag) > 1e-12 * max(1.0, abs(v.real)):
                raise Unevaluable("complex value")
            v = v.real
        return Mag.of(v)
