/-
Substitution of terminals by terminals of the same shape or by zeros, semantically: the value of
the substituted expression is the value of the original under the valuation in which each replaced
terminal takes the value (and the derivative jets) of its image.  Unlike the substitution lemma of
C21 this one goes through `grad^k(terminal)`; it is relativised to the terminals that occur in the
expression.  Corollaries: the value depends on the valuation only through the terminals that occur.
-/
import UflVerif.Model.FormTransform
import UflVerif.Sem.Congr
import UflVerif.Sem.FI

namespace UflVerif.ArgEnv
open UflVerif Expr

variable {K : Type} [Add K] [Mul K] [Sub K] [Neg K] [Div K] [Zero K] [One K] [IntCast K] [NatCast K]

abbrev TermFn (K : Type) := Side → String → List Nat → K
abbrev JetFn (K : Type) := Side → String → List Nat → List Nat → K

/-- what the substitution `φ` and the two valuations have to satisfy at one terminal `d` -/
def Compat (φ : TermData → Option Expr) (ρ : Env K) (t' : TermFn K) (j' : JetFn K) (d : TermData) : Prop :=
  match φ d with
  | none => (∀ s c, t' s d.key c = ρ.term s d.key c) ∧ (∀ s c ds, j' s d.key c ds = ρ.jet s d.key c ds)
  | some (.term d') => d.cls ≠ "Identity" ∧ d.cls ≠ "Label" ∧ d'.cls ≠ "Identity" ∧ d'.cls ≠ "Label" ∧ d'.shape = d.shape ∧
      (∀ s c, t' s d.key c = ρ.term s d'.key c) ∧ (∀ s c ds, j' s d.key c ds = ρ.jet s d'.key c ds)
  | some (.zero sh f) => d.cls ≠ "Identity" ∧ d.cls ≠ "Label" ∧ sh = d.shape ∧ f = [] ∧
      (∀ s c, t' s d.key c = 0) ∧ (∀ s c ds, j' s d.key c ds = 0)
  | some _ => False

/- every terminal of the expression is compatible -/
mutual
def CompatE (φ : TermData → Option Expr) (ρ : Env K) (t' : TermFn K) (j' : JetFn K) : Expr → Prop
  | .term d => Compat φ ρ t' j' d
  | .op _ _ args => CompatL φ ρ t' j' args
  | _ => True
def CompatL (φ : TermData → Option Expr) (ρ : Env K) (t' : TermFn K) (j' : JetFn K) : List Expr → Prop
  | [] => True
  | a :: as => CompatE φ ρ t' j' a ∧ CompatL φ ρ t' j' as
end

theorem mapTermPL_length (φ : TermData → Option Expr) : ∀ as : List Expr, (mapTermPL φ as).length = as.length
  | [] => rfl
  | a :: as => by simp [mapTermPL, mapTermPL_length φ as]

theorem map_term_shape (φ : TermData → Option Expr) (ρ : Env K) (t' : TermFn K) (j' : JetFn K) (d : TermData)
    (h : Compat φ ρ t' j' d) : shape (mapTermP φ (.term d)) = d.shape ∧ fi (mapTermP φ (.term d)) = [] := by
  unfold Compat at h
  simp only [mapTermP]
  split at h
  · rename_i h0; simp [h0, shape, fi]
  · rename_i d' h0; simp [h0, shape, fi, h.2.2.2.2.1]
  · rename_i sh f h0; simp [h0, shape, fi, h.2.2.1, h.2.2.2.1]
  · exact h.elim

theorem map_chain_shape (φ : TermData → Option Expr) (ρ : Env K) (t' : TermFn K) (j' : JetFn K) :
    ∀ (a : Expr) (p : TermData × Nat), gradChain a = some p → CompatE φ ρ t' j' a →
    shape (mapTermP φ a) = shape a ∧ fi (mapTermP φ a) = fi a := by
  intro a
  fun_induction gradChain a with
  | case1 d => intro p _ hc; have := map_term_shape φ ρ t' j' d hc; simpa [shape, fi] using this
  | case2 aux a d k hk ih =>
    intro p _ hc
    simp only [CompatE, CompatL, and_true] at hc
    have := ih _ hk hc
    simp only [mapTermP, mapTermPL, shape, fi, this.1, this.2, and_self]
  | case3 aux a hk ih => intro p h; simp at h
  | case4 e h1 h2 => intro p h; simp at h

theorem map_shape_fi (φ : TermData → Option Expr) (ρ : Env K) (t' : TermFn K) (j' : JetFn K) :
    (∀ e : Expr, WF e = true → CompatE φ ρ t' j' e → shape (mapTermP φ e) = shape e ∧ fi (mapTermP φ e) = fi e) ∧ (∀ _p : Expr, True) ∧
    (∀ xs : List Expr, WFL xs = true → CompatL φ ρ t' j' xs → ∀ x ∈ xs, shape (mapTermP φ x) = shape x ∧ fi (mapTermP φ x) = fi x) := by
  apply WF.mutual_induct (motive_1 := fun e => WF e = true → CompatE φ ρ t' j' e → shape (mapTermP φ e) = shape e ∧ fi (mapTermP φ e) = fi e)
    (motive_2 := fun _ => True)
    (motive_3 := fun xs => WFL xs = true → CompatL φ ρ t' j' xs → ∀ x ∈ xs, shape (mapTermP φ x) = shape x ∧ fi (mapTermP φ x) = fi x)
  all_goals try (first | (intros; trivial) | (intros; simp_all [mapTermP, mapTermPL, shape, fi, WF, WFL, CompatE, CompatL]; done))
  -- terminal
  · intro d _ hc; have := map_term_shape φ ρ t' j' d hc; simpa [shape, fi] using this
  -- list tensor
  · intro aux a as iha ihas hw hc
    simp only [WF, Bool.and_eq_true] at hw
    simp only [CompatE, CompatL] at hc
    have := iha hw.1.1 hc.1
    simp only [mapTermP, mapTermPL, shape, fi, this.1, this.2, mapTermPL_length, and_self]
  -- grad of a terminal chain
  · intro aux a hw hc
    simp only [WF, Option.isSome_iff_exists] at hw
    obtain ⟨p, hp⟩ := hw
    simp only [CompatE, CompatL, and_true] at hc
    have := map_chain_shape φ ρ t' j' a p hp hc
    simp only [mapTermP, mapTermPL, shape, fi, this.1, this.2, and_self]
  -- math functions
  · intro aux fnk a h1 h2 h3 h4 h5 h6 h7 h8 ih hw hc
    have hwa : WF a = true := by revert hw; cases fnk <;> simp_all [WF, mathName]
    simp only [CompatE, CompatL, and_true] at hc
    have := ih hwa hc
    revert hw
    cases fnk <;> simp_all [mapTermP, mapTermPL, shape, fi, WF, mathName]
  -- lists
  · intro a as iha ihas hw hc x hx
    simp only [WFL, Bool.and_eq_true] at hw
    simp only [CompatL] at hc
    cases List.mem_cons.mp hx with
    | inl e => rw [e]; exact iha hw.1 hc.1
    | inr e => exact ihas hw.2 hc.2 x e

/-! ### the substitution lemma -/

def S1 (φ : TermData → Option Expr) (ρ : Env K) (t' : TermFn K) (j' : JetFn K) (side : Side) (ι : IdxEnv) (e : Expr) (c : List Nat) : Prop :=
  WF e = true → CompatE φ ρ t' j' e →
    eval ρ side ι (mapTermP φ e) c = eval { ρ with term := t', jet := j' } side ι e c

def S2 (φ : TermData → Option Expr) (ρ : Env K) (t' : TermFn K) (j' : JetFn K) (side : Side) (ι : IdxEnv) (p : Expr) : Prop :=
  WFC p = true → CompatE φ ρ t' j' p →
    evalB ρ side ι (mapTermP φ p) = evalB { ρ with term := t', jet := j' } side ι p

def S3 (φ : TermData → Option Expr) (ρ : Env K) (t' : TermFn K) (j' : JetFn K) (side : Side) (ι : IdxEnv) (xs : List Expr) (n : Nat) (c : List Nat) : Prop :=
  WFL xs = true → CompatL φ ρ t' j' xs →
    evalNth ρ side ι (mapTermPL φ xs) n c = evalNth { ρ with term := t', jet := j' } side ι xs n c

theorem map_sem_aux (φ : TermData → Option Expr) (ρ : Env K) (t' : TermFn K) (j' : JetFn K) :
    (∀ side ι e c, S1 φ ρ t' j' side ι e c) ∧ (∀ side ι p, S2 φ ρ t' j' side ι p) ∧ (∀ side ι xs n c, S3 φ ρ t' j' side ι xs n c) := by
  have hsf := (map_shape_fi φ ρ t' j').1
  apply eval.mutual_induct { ρ with term := t', jet := j' } (motive_1 := S1 φ ρ t' j') (motive_2 := S2 φ ρ t' j') (motive_3 := S3 φ ρ t' j')
  -- literals, zero, multi-index
  · intro side ι v c _ _; simp [mapTermP, eval]
  · intro side ι n d c _ _; simp [mapTermP, eval]
  · intro side ι a b c d x _ _; simp [mapTermP, eval]
  · intro side ι sh f c _ _; simp [mapTermP, eval]
  · intro side ι is c hw; simp [WF] at hw
  -- terminals of class Identity / Label keep their value (they are never replaced)
  · intro side ι d hd j _ hc
    simp only [CompatE, Compat] at hc
    split at hc
    · rename_i h0; simp [mapTermP, h0, eval, hd]
    · exact absurd hd hc.1
    · exact absurd hd hc.1
    · exact hc.elim
  · intro side ι d hd i j hij _ hc
    simp only [CompatE, Compat] at hc
    split at hc
    · rename_i h0; simp [mapTermP, h0, eval, hd, hij]
    · exact absurd hd hc.1
    · exact absurd hd hc.1
    · exact hc.elim
  · intro side ι d c hd hx _ hc
    simp only [CompatE, Compat] at hc
    split at hc
    · rename_i h0
      simp only [mapTermP, h0, eval, hd, ↓reduceIte]
    · exact absurd hd hc.1
    · exact absurd hd hc.1
    · exact hc.elim
  · intro side ι d c hd hl _ hc
    simp only [CompatE, Compat] at hc
    split at hc
    · rename_i h0; simp [mapTermP, h0, eval, hd, hl]
    · exact absurd hl hc.2.1
    · exact absurd hl hc.2.1
    · exact hc.elim
  · intro side ι d c hd hl _ hc
    simp only [CompatE, Compat] at hc
    split at hc
    · rename_i h0; simp [mapTermP, h0, eval, hd, hl, hc.1]
    · rename_i d' h0
      obtain ⟨_, _, h1, h2, _, ht, _⟩ := hc
      simp [mapTermP, h0, eval, hd, hl, h1, h2, ht]
    · rename_i sh f h0
      simp [mapTermP, h0, eval, hd, hl, hc.2.2.2.2.1]
    · exact hc.elim
  -- sum product division power
  · intro side ι aux c a b iha ihb hw hc
    have wa : WF a = true := by simp only [WF, Bool.and_eq_true] at hw; simp [hw]
    have wb : WF b = true := by simp only [WF, Bool.and_eq_true] at hw; simp [hw]
    simp only [CompatE, CompatL, and_true] at hc
    simp only [mapTermP, mapTermPL, eval]
    rw [iha wa hc.1, ihb wb hc.2]
  · intro side ι aux c a b iha ihb hw hc
    have wa : WF a = true := by simp only [WF, Bool.and_eq_true] at hw; simp [hw]
    have wb : WF b = true := by simp only [WF, Bool.and_eq_true] at hw; simp [hw]
    simp only [CompatE, CompatL, and_true] at hc
    simp only [mapTermP, mapTermPL, eval]
    rw [iha wa hc.1, ihb wb hc.2]
  · intro side ι aux c a b iha ihb hw hc
    have wa : WF a = true := by simp only [WF, Bool.and_eq_true] at hw; simp [hw]
    have wb : WF b = true := by simp only [WF, Bool.and_eq_true] at hw; simp [hw]
    simp only [CompatE, CompatL, and_true] at hc
    simp only [mapTermP, mapTermPL, eval]
    rw [iha wa hc.1, ihb wb hc.2]
  · intro side ι aux c a b iha ihb hw hc
    have wa : WF a = true := by simp only [WF, Bool.and_eq_true] at hw; simp [hw]
    have wb : WF b = true := by simp only [WF, Bool.and_eq_true] at hw; simp [hw]
    simp only [CompatE, CompatL, and_true] at hc
    simp only [mapTermP, mapTermPL, eval]
    rw [iha wa hc.1, ihb wb hc.2]
  -- abs conj real imag
  · intro side ι aux c a ih hw hc
    simp only [WF] at hw
    simp only [CompatE, CompatL, and_true] at hc
    simp only [mapTermP, mapTermPL, eval]; rw [ih hw hc]
  · intro side ι aux c a ih hw hc
    simp only [WF] at hw
    simp only [CompatE, CompatL, and_true] at hc
    simp only [mapTermP, mapTermPL, eval]; rw [ih hw hc]
  · intro side ι aux c a ih hw hc
    simp only [WF] at hw
    simp only [CompatE, CompatL, and_true] at hc
    simp only [mapTermP, mapTermPL, eval]; rw [ih hw hc]
  · intro side ι aux c a ih hw hc
    simp only [WF] at hw
    simp only [CompatE, CompatL, and_true] at hc
    simp only [mapTermP, mapTermPL, eval]; rw [ih hw hc]
  -- indexed
  · intro side ι aux c a is ih hw hc
    have wa : WF a = true := by simp only [WF, Bool.and_eq_true] at hw; simp [hw]
    simp only [CompatE, CompatL, and_true] at hc
    simp only [mapTermP, mapTermPL, eval]
    exact ih wa hc
  -- index sum
  · intro side ι aux c a j ih hw hc
    have wa : WF a = true := by simp only [WF, Bool.and_eq_true] at hw; simp [hw]
    simp only [CompatE, CompatL, and_true] at hc
    simp only [mapTermP, mapTermPL, eval, (hsf a wa hc).2]
    congr 1
    funext v
    exact ih v wa hc
  -- component tensor
  · intro side ι aux c a is ih hw hc
    have wa : WF a = true := by simp only [WF, Bool.and_eq_true] at hw; simp [hw]
    simp only [CompatE, CompatL, and_true] at hc
    simp only [mapTermP, mapTermPL, eval]
    exact ih wa hc
  -- list tensor
  · intro side ι aux xs v c' ih hw hc
    simp only [mapTermP, eval]
    cases xs with
    | nil => simp [WF] at hw
    | cons x0 rest =>
      simp only [WF, Bool.and_eq_true] at hw
      simp only [CompatE] at hc
      exact ih (by simp [WFL, hw.1.1, hw.1.2]) hc
  · intro side ι aux xs _ _; simp [mapTermP, eval]
  -- conditional
  · intro side ι aux c p t f hb ihp iht hw hc
    simp only [WF, Bool.and_eq_true] at hw
    obtain ⟨⟨⟨⟨wp, wt⟩, wf⟩, _⟩, _⟩ := hw
    simp only [CompatE, CompatL, and_true] at hc
    simp only [mapTermP, mapTermPL, eval]
    rw [ihp wp hc.1, hb]
    simp only [↓reduceIte]
    exact iht wt hc.2.1
  · intro side ι aux c p t f hb ihp ihf hw hc
    simp only [WF, Bool.and_eq_true] at hw
    obtain ⟨⟨⟨⟨wp, wt⟩, wf⟩, _⟩, _⟩ := hw
    simp only [CompatE, CompatL, and_true] at hc
    simp only [mapTermP, mapTermPL, eval]
    rw [ihp wp hc.1]
    simp only [hb, Bool.false_eq_true, ↓reduceIte]
    exact ihf wf hc.2.2
  -- min / max
  · intro side ι aux c a b x y _ iha ihb hw hc
    have wa : WF a = true := by simp only [WF, Bool.and_eq_true] at hw; simp [hw]
    have wb : WF b = true := by simp only [WF, Bool.and_eq_true] at hw; simp [hw]
    simp only [CompatE, CompatL, and_true] at hc
    simp only [mapTermP, mapTermPL, eval]
    rw [iha wa hc.1, ihb wb hc.2]
  · intro side ι aux c a b x y _ iha ihb hw hc
    have wa : WF a = true := by simp only [WF, Bool.and_eq_true] at hw; simp [hw]
    have wb : WF b = true := by simp only [WF, Bool.and_eq_true] at hw; simp [hw]
    simp only [CompatE, CompatL, and_true] at hc
    simp only [mapTermP, mapTermPL, eval]
    rw [iha wa hc.1, ihb wb hc.2]
  · intro side ι aux c a b x y _ iha ihb hw hc
    have wa : WF a = true := by simp only [WF, Bool.and_eq_true] at hw; simp [hw]
    have wb : WF b = true := by simp only [WF, Bool.and_eq_true] at hw; simp [hw]
    simp only [CompatE, CompatL, and_true] at hc
    simp only [mapTermP, mapTermPL, eval]
    rw [iha wa hc.1, ihb wb hc.2]
  · intro side ι aux c a b x y _ iha ihb hw hc
    have wa : WF a = true := by simp only [WF, Bool.and_eq_true] at hw; simp [hw]
    have wb : WF b = true := by simp only [WF, Bool.and_eq_true] at hw; simp [hw]
    simp only [CompatE, CompatL, and_true] at hc
    simp only [mapTermP, mapTermPL, eval]
    rw [iha wa hc.1, ihb wb hc.2]
  -- variable
  · intro side ι aux c a l ih hw hc
    cases l <;> simp only [WF, Bool.false_eq_true] at hw
    simp only [CompatE, CompatL] at hc
    simp only [mapTermP, mapTermPL, eval]; exact ih hw hc.1
  -- restrictions
  · intro side ι aux c a ih hw hc
    simp only [WF] at hw
    simp only [CompatE, CompatL, and_true] at hc
    simp only [mapTermP, mapTermPL, eval]; rw [ih hw hc]
  · intro side ι aux c a ih hw hc
    simp only [WF] at hw
    simp only [CompatE, CompatL, and_true] at hc
    simp only [mapTermP, mapTermPL, eval]; rw [ih hw hc]
  -- atan2
  · intro side ι aux c a b iha ihb hw hc
    have wa : WF a = true := by simp only [WF, Bool.and_eq_true] at hw; simp [hw]
    have wb : WF b = true := by simp only [WF, Bool.and_eq_true] at hw; simp [hw]
    simp only [CompatE, CompatL, and_true] at hc
    simp only [mapTermP, mapTermPL, eval]
    rw [iha wa hc.1, ihb wb hc.2]
  -- Bessel functions are outside the verified fragment
  · intro side ι aux c n x _ _ hw; simp [WF] at hw
  · intro side ι aux c n x _ _ hw; simp [WF] at hw
  · intro side ι aux c n x _ _ hw; simp [WF] at hw
  · intro side ι aux c n x _ _ hw; simp [WF] at hw
  -- grad: the chain is renamed, or collapses to a node without value when the terminal becomes zero
  · intro side ι aux c a d k hk hw hc
    simp only [CompatE, CompatL, and_true] at hc
    have key : ∀ (a : Expr) (p : TermData × Nat), gradChain a = some p → CompatE φ ρ t' j' a →
        Compat φ ρ t' j' p.1 ∧
        (match φ p.1 with
         | none => mapTermP φ a = a
         | some (.term d') => gradChain (mapTermP φ a) = some (d', p.2)
         | some (.zero _ _) => gradChain (.op .grad aux [mapTermP φ a]) = none
         | some _ => True) := by
      intro a
      fun_induction gradChain a with
      | case1 d =>
        intro p hp hca
        simp only [Option.some.injEq] at hp; subst hp
        simp only [CompatE] at hca
        refine ⟨hca, ?_⟩
        simp only [mapTermP]
        split <;> simp_all [gradChain]
      | case2 aux' a d k hk ih =>
        intro p hp hca
        simp only [Option.some.injEq] at hp; subst hp
        simp only [CompatE, CompatL, and_true] at hca
        obtain ⟨h1, h2⟩ := ih _ hk hca
        refine ⟨h1, ?_⟩
        simp only at h2 ⊢
        split
        · rename_i h0; rw [h0] at h2; simp only at h2; simp [mapTermP, mapTermPL, h2]
        · rename_i d' h0; rw [h0] at h2; simp only at h2; simp [mapTermP, mapTermPL, gradChain, h2]
        · rename_i sh f h0; rw [h0] at h2; simp only at h2
          simp only [mapTermP, mapTermPL, gradChain] at h2 ⊢
          split at h2 <;> simp_all
        · trivial
      | case3 aux' a hk ih => intro p h; simp at h
      | case4 e h1 h2 => intro p h; simp at h
    obtain ⟨hcd, hm⟩ := key a (d, k) hk hc
    simp only at hm
    unfold Compat at hcd
    split at hcd
    · rename_i h0
      rw [h0] at hm; simp only at hm
      simp only [mapTermP, mapTermPL, hm, eval, hk, hcd.2]
    · rename_i d' h0
      rw [h0] at hm; simp only at hm
      obtain ⟨_, _, _, _, hs, _, hj⟩ := hcd
      simp only [mapTermP, mapTermPL, eval, hm, hk, hs, hj]
    · rename_i sh f h0
      rw [h0] at hm; simp only at hm
      simp only [mapTermP, mapTermPL] at hm ⊢
      simp only [gradChain] at hm
      simp only [eval, hk, hcd.2.2.2.2.2]
      split at hm
      · simp at hm
      · rename_i hn; simp [hn]
    · exact hcd.elim
  · intro side ι aux c a hk hw _
    simp [WF, hk] at hw
  -- math functions
  · intro side ι aux c fnk a h1 h2 h3 h4 h5 h6 h7 h8 n hn ih hw hc
    have hwf : WF (.op fnk aux [a]) = (WF a && trueScalar a) := by
      cases fnk <;> simp_all [WF, mathName]
    have hev : ∀ (ρ' : Env K) (x : Expr), eval ρ' side ι (.op fnk aux [x]) c = ρ'.fn n (eval ρ' side ι x c) := by
      intro ρ' x; cases fnk <;> simp_all [eval, mathName]
    rw [hwf] at hw
    simp only [Bool.and_eq_true] at hw
    simp only [CompatE, CompatL, and_true] at hc
    simp only [mapTermP, mapTermPL]
    rw [hev, hev, ih hw.1 hc]
  · intro side ι aux c fnk a h1 h2 h3 h4 h5 h6 h7 h8 hn hw
    cases fnk <;> simp_all [WF, mathName]
  -- anything else is outside the verified fragment
  · intro side ι k aux args c
    intros
    intro hw
    unfold WF at hw
    split at hw <;> simp_all
  -- comparisons
  · intro side ι aux a b iha ihb hw hc
    have wa : WF a = true := by simp only [WFC, Bool.and_eq_true] at hw; simp [hw]
    have wb : WF b = true := by simp only [WFC, Bool.and_eq_true] at hw; simp [hw]
    simp only [CompatE, CompatL, and_true] at hc
    simp only [mapTermP, mapTermPL, evalB]
    first | rw [iha wa hc.1, ihb wb hc.2] | rw [iha wb hc.2, ihb wa hc.1]
  · intro side ι aux a b iha ihb hw hc
    have wa : WF a = true := by simp only [WFC, Bool.and_eq_true] at hw; simp [hw]
    have wb : WF b = true := by simp only [WFC, Bool.and_eq_true] at hw; simp [hw]
    simp only [CompatE, CompatL, and_true] at hc
    simp only [mapTermP, mapTermPL, evalB]
    first | rw [iha wa hc.1, ihb wb hc.2] | rw [iha wb hc.2, ihb wa hc.1]
  · intro side ι aux a b iha ihb hw hc
    have wa : WF a = true := by simp only [WFC, Bool.and_eq_true] at hw; simp [hw]
    have wb : WF b = true := by simp only [WFC, Bool.and_eq_true] at hw; simp [hw]
    simp only [CompatE, CompatL, and_true] at hc
    simp only [mapTermP, mapTermPL, evalB]
    first | rw [iha wa hc.1, ihb wb hc.2] | rw [iha wb hc.2, ihb wa hc.1]
  · intro side ι aux a b iha ihb hw hc
    have wa : WF a = true := by simp only [WFC, Bool.and_eq_true] at hw; simp [hw]
    have wb : WF b = true := by simp only [WFC, Bool.and_eq_true] at hw; simp [hw]
    simp only [CompatE, CompatL, and_true] at hc
    simp only [mapTermP, mapTermPL, evalB]
    first | rw [iha wa hc.1, ihb wb hc.2] | rw [iha wb hc.2, ihb wa hc.1]
  · intro side ι aux a b iha ihb hw hc
    have wa : WF a = true := by simp only [WFC, Bool.and_eq_true] at hw; simp [hw]
    have wb : WF b = true := by simp only [WFC, Bool.and_eq_true] at hw; simp [hw]
    simp only [CompatE, CompatL, and_true] at hc
    simp only [mapTermP, mapTermPL, evalB]
    first | rw [iha wa hc.1, ihb wb hc.2] | rw [iha wb hc.2, ihb wa hc.1]
  · intro side ι aux a b iha ihb hw hc
    have wa : WF a = true := by simp only [WFC, Bool.and_eq_true] at hw; simp [hw]
    have wb : WF b = true := by simp only [WFC, Bool.and_eq_true] at hw; simp [hw]
    simp only [CompatE, CompatL, and_true] at hc
    simp only [mapTermP, mapTermPL, evalB]
    first | rw [iha wa hc.1, ihb wb hc.2] | rw [iha wb hc.2, ihb wa hc.1]
  -- and / or / not
  · intro side ι aux a b iha ihb hw hc
    simp only [WFC, Bool.and_eq_true] at hw
    simp only [CompatE, CompatL, and_true] at hc
    simp only [mapTermP, mapTermPL, evalB]; rw [iha hw.1 hc.1, ihb hw.2 hc.2]
  · intro side ι aux a b iha ihb hw hc
    simp only [WFC, Bool.and_eq_true] at hw
    simp only [CompatE, CompatL, and_true] at hc
    simp only [mapTermP, mapTermPL, evalB]; rw [iha hw.1 hc.1, ihb hw.2 hc.2]
  · intro side ι aux a ih hw hc
    simp only [WFC] at hw
    simp only [CompatE, CompatL, and_true] at hc
    simp only [mapTermP, mapTermPL, evalB]; rw [ih hw hc]
  -- not a condition
  · intro side ι k aux args
    intros
    intro hw
    unfold WFC at hw
    split at hw <;> simp_all
  · intro side ι t
    intros
    intro hw
    unfold WFC at hw
    split at hw <;> simp_all
  -- component selection in a list tensor
  · intro side ι n c _ _; simp [mapTermPL, evalNth]
  · intro side ι x tail c ih hw hc
    simp only [WFL, Bool.and_eq_true] at hw
    simp only [CompatL] at hc
    simp only [mapTermPL, evalNth]
    exact ih hw.1 hc.1
  · intro side ι x xs n c ih hw hc
    simp only [WFL, Bool.and_eq_true] at hw
    simp only [CompatL] at hc
    simp only [mapTermPL, evalNth]
    exact ih hw.2 hc.2

/-- **Substitution lemma (terminals ↦ terminals / zeros, through gradients).** -/
theorem map_sem (φ : TermData → Option Expr) (ρ : Env K) (t' : TermFn K) (j' : JetFn K) (side : Side) (ι : IdxEnv)
    (e : Expr) (c : List Nat) (hw : WF e = true) (hc : CompatE φ ρ t' j' e) :
    eval ρ side ι (mapTermP φ e) c = eval { ρ with term := t', jet := j' } side ι e c :=
  (map_sem_aux φ ρ t' j').1 side ι e c hw hc

mutual
theorem mapTermP_none : ∀ e : Expr, mapTermP (fun _ => none) e = e
  | .int _ | .real _ _ | .cplx _ _ _ _ | .zero _ _ | .mi _ | .term _ => by simp [mapTermP]
  | .op k x as => by simp [mapTermP, mapTermPL_none as]
theorem mapTermPL_none : ∀ as : List Expr, mapTermPL (fun _ => none) as = as
  | [] => rfl
  | a :: as => by simp [mapTermPL, mapTermP_none a, mapTermPL_none as]
end

/- keys of the terminals of an expression -/
mutual
def keysOf : Expr → List String
  | .term d => [d.key]
  | .op _ _ args => keysOfL args
  | _ => []
def keysOfL : List Expr → List String
  | [] => []
  | a :: as => keysOf a ++ keysOfL as
end

mutual
theorem compat_none (ρ : Env K) (t' : TermFn K) (j' : JetFn K) : ∀ e : Expr,
    (∀ k ∈ keysOf e, (∀ s c, t' s k c = ρ.term s k c) ∧ (∀ s c ds, j' s k c ds = ρ.jet s k c ds)) →
    CompatE (fun _ => none) ρ t' j' e
  | .int _, _ | .real _ _, _ | .cplx _ _ _ _, _ | .zero _ _, _ | .mi _, _ => by simp [CompatE]
  | .term d, h => by
    simp only [CompatE, Compat]
    exact h d.key (by simp [keysOf])
  | .op k x as, h => by
    simp only [CompatE]
    exact compatL_none ρ t' j' as (by simpa [keysOf] using h)
theorem compatL_none (ρ : Env K) (t' : TermFn K) (j' : JetFn K) : ∀ as : List Expr,
    (∀ k ∈ keysOfL as, (∀ s c, t' s k c = ρ.term s k c) ∧ (∀ s c ds, j' s k c ds = ρ.jet s k c ds)) →
    CompatL (fun _ => none) ρ t' j' as
  | [], _ => by simp [CompatL]
  | a :: as, h => by
    simp only [CompatL]
    exact ⟨compat_none ρ t' j' a (fun k hk => h k (by simp [keysOfL, hk])),
           compatL_none ρ t' j' as (fun k hk => h k (by simp [keysOfL, hk]))⟩
end

/-- The value depends on the valuation only through the terminals that occur. -/
theorem eval_env_congr (ρ : Env K) (t' : TermFn K) (j' : JetFn K) (side : Side) (ι : IdxEnv) (e : Expr) (c : List Nat)
    (hw : WF e = true)
    (h : ∀ k ∈ keysOf e, (∀ s c, t' s k c = ρ.term s k c) ∧ (∀ s c ds, j' s k c ds = ρ.jet s k c ds)) :
    eval { ρ with term := t', jet := j' } side ι e c = eval ρ side ι e c := by
  have := map_sem (fun _ => none) ρ t' j' side ι e c hw (compat_none ρ t' j' e h)
  rw [mapTermP_none] at this
  exact this.symm

/-! ### valuations with some terminals set to zero or to given values -/

/-- value and derivative jets of one terminal on each side -/
structure ArgVal (K : Type) where
  t : Side → List Nat → K
  j : Side → List Nat → List Nat → K

def _root_.UflVerif.Env.zeroKeys (ρ : Env K) (Z : List String) : Env K :=
  { ρ with term := fun s key c => if key ∈ Z then 0 else ρ.term s key c,
           jet := fun s key c ds => if key ∈ Z then 0 else ρ.jet s key c ds }

def _root_.UflVerif.Env.setKey (ρ : Env K) (k : String) (x : ArgVal K) : Env K :=
  { ρ with term := fun s key c => if key = k then x.t s c else ρ.term s key c,
           jet := fun s key c ds => if key = k then x.j s c ds else ρ.jet s key c ds }

/-- zeroing terminals that do not occur changes nothing -/
theorem eval_zeroKeys_irrelevant (ρ : Env K) (Z : List String) (side : Side) (ι : IdxEnv) (e : Expr) (c : List Nat)
    (hw : WF e = true) (h : ∀ k ∈ keysOf e, k ∉ Z) :
    eval (ρ.zeroKeys Z) side ι e c = eval ρ side ι e c := by
  unfold Env.zeroKeys
  apply eval_env_congr ρ _ _ side ι e c hw
  intro k hk
  simp [h k hk]

/-- setting a terminal that does not occur changes nothing -/
theorem eval_setKey_irrelevant (ρ : Env K) (k : String) (x : ArgVal K) (side : Side) (ι : IdxEnv) (e : Expr) (c : List Nat)
    (hw : WF e = true) (h : k ∉ keysOf e) :
    eval (ρ.setKey k x) side ι e c = eval ρ side ι e c := by
  unfold Env.setKey
  apply eval_env_congr ρ _ _ side ι e c hw
  intro k' hk'
  have : k' ≠ k := fun e => h (e ▸ hk')
  simp [this]

end UflVerif.ArgEnv
