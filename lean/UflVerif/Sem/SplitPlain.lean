/-
The form splitter over the plain constructor layer, as a total function.

`fsT fx cfg e` is what `fsG fx plainRb cfg e` returns whenever it returns (`fsG_plain`); it is the function
the value theorems of Props/C22.lean speak about.
-/
import UflVerif.Model.FormSplit
import UflVerif.Sem.Beq
import UflVerif.Sem.FI

namespace UflVerif
namespace Expr

/-- `FormSplitter.argument`, total (the image of an argument in the block selected by `cfg.idx`) -/
def splitArgT (cfg : SplitCfg) (d : TermData) : Expr :=
  match (if d.count < 0 then none else cfg.idx[d.count.toNat]?) with
  | none => .term d
  | some sel =>
    if d.part ≠ -1 then
      (match sel with
       | none => .zero d.shape []
       | some p => if d.part = (p : Int) then .term d else .zero d.shape [])
    else
      match cfg.subsOf d.key with
      | [] => .term d
      | subs => .op .listTensor [] (argEntries cfg.replaceArg d sel subs 0 0)

/-- `child[multiindex]` on a list tensor with fixed indices, total -/
def ltGetT : Expr → List Nat → Expr
  | e, [] => e
  | .op .listTensor _ xs, v :: vs => ltGetT (xs.getD v zeroS) vs
  | e, v :: vs => .op .indexed [] [e, .mi ((v :: vs).map .fixed)]

def getAllT (xs : List Expr) (vs : List Nat) : List Expr := vs.map (fun v => xs.getD v zeroS)

/-- `FormSplitter.indexed`, total, plain constructors -/
def fsIndexedT (fx : Bool) (aux : List Nat) (a' : Expr) (is : List Idx) : Expr :=
  match a', fixedAll is with
  | .op .listTensor x xs, some vs =>
    if fx then ltGetT (.op .listTensor x xs) vs
    else
    (match vs with
     | [v] => xs.getD v zeroS
     | _ =>
       if vs.length == xs.length && vs == List.range xs.length then a'
       else .op .listTensor [] (getAllT xs vs))
  | _, _ => .op .indexed aux [a', .mi is]

/-- what the handlers make of a node whose operands have been processed -/
def fsNode (fx : Bool) (k : Op) (aux : List Nat) (args args' : List Expr) : Expr :=
  match k, args, args' with
  | .positiveRestricted, [_], [a'] | .negativeRestricted, [_], [a'] => if isZero a' then a' else .op k aux [a']
  | .indexed, [_, .mi is], [a', _] => fsIndexedT fx aux a' is
  | _, _, _ => .op k aux args'

mutual
def fsT (fx : Bool) (cfg : SplitCfg) : Expr → Expr
  | .term d => if d.cls == "Argument" then splitArgT cfg d else .term d
  | .op k aux args => fsNode fx k aux args (fsTL fx cfg args)
  | e => e
def fsTL (fx : Bool) (cfg : SplitCfg) : List Expr → List Expr
  | [] => []
  | a :: as => fsT fx cfg a :: fsTL fx cfg as
end

/-! ### `fsT` is the model over the plain constructor layer -/

theorem splitArg_plain (cfg : SplitCfg) (d : TermData) (r : Expr) (h : splitArg plainRb cfg d = some r) : r = splitArgT cfg d := by
  unfold splitArg at h
  unfold splitArgT
  split at h <;> rename_i hsel
  · rw [hsel]
    split at h
    · cases h
    · simp only [Option.some.injEq] at h; exact h.symm
  · rw [hsel]
    simp only
    split at h
    · rename_i hp
      rw [if_pos hp]
      split at h
      · simp only [Option.some.injEq] at h; exact h.symm
      · split at h <;> rename_i hq
        · simp only; rw [if_pos hq]; simp only [Option.some.injEq] at h; exact h.symm
        · simp only; rw [if_neg hq]; simp only [Option.some.injEq] at h; exact h.symm
    · rename_i hp
      rw [if_neg hp]
      split at h
      · rename_i hs; rw [hs]; simp only [Option.some.injEq] at h; exact h.symm
      · rename_i subs hs
        simp only [plainRb, Option.some.injEq] at h
        split
        · rename_i hs'; exact absurd hs' hs
        · exact h.symm

theorem getAll_T (xs : List Expr) : ∀ (vs : List Nat) (rows : List Expr), getAll xs vs = some rows → rows = getAllT xs vs
  | [], rows, h => by simp [getAll] at h; simp [getAllT, h]
  | v :: vs, rows, h => by
    simp only [getAll] at h
    split at h
    · rename_i x r hx hr
      simp only [Option.some.injEq] at h
      have := getAll_T xs vs r hr
      subst h
      simp only [getAllT, List.map_cons, List.cons.injEq] at this ⊢
      refine ⟨?_, this⟩
      simp [List.getD, hx]
    · simp at h

theorem ltGet_plain : ∀ (vs : List Nat) (e r : Expr), ltGet plainRb e vs = some r → r = ltGetT e vs
  | [], e, r, h => by
    cases e <;> simp_all [ltGet, ltGetT]
  | v :: vs, e, r, h => by
    unfold ltGet at h
    split at h
    · rename_i heq; cases heq
    · rename_i x xs v' vs' heq
      simp only [List.cons.injEq] at heq
      obtain ⟨rfl, rfl⟩ := heq
      split at h
      · rename_i sub hs
        have := ltGet_plain vs sub r h
        simp only [ltGetT, List.getD, hs, Option.getD_some]
        exact this
      · cases h
    · rename_i e' v' vs' hne heq
      simp only [List.cons.injEq] at heq
      obtain ⟨rfl, rfl⟩ := heq
      simp only [plainRb, Option.some.injEq] at h
      unfold ltGetT
      split
      · rename_i heq2; cases heq2
      · rename_i x xs v'' vs'' heq2; exact (hne x xs rfl).elim
      · rename_i heq2
        simp only [List.cons.injEq] at heq2
        obtain ⟨rfl, rfl⟩ := heq2
        exact h.symm

theorem fsIndexed_plain (fx : Bool) (aux : List Nat) (a a' : Expr) (is : List Idx) (r : Expr)
    (h : fsIndexed fx plainRb aux a a' is = some r) : r = fsIndexedT fx aux a' is := by
  unfold fsIndexed at h
  unfold fsIndexedT
  split at h
  · rename_i x xs vs hfa
    simp only [hfa]
    split at h
    · rename_i hfx; rw [if_pos hfx]; exact ltGet_plain vs _ r h
    · rename_i hfx; rw [if_neg hfx]
      split at h
      · rename_i v
        simp only [List.getD]
        cases hx : xs[v]? with
        | none => rw [hx] at h; cases h
        | some y => rw [hx] at h; simp only [Option.some.injEq] at h; simp [h]
      · rename_i hne
        split at h
        · rename_i hc
          simp only [Option.some.injEq] at h
          split
          · rename_i v; exact (hne v rfl).elim
          · rw [if_pos hc]; exact h.symm
        · rename_i hc
          split at h
          · rename_i rows hr
            simp only [plainRb, Option.some.injEq] at h
            split
            · rename_i v; exact (hne v rfl).elim
            · rw [if_neg hc, ← getAll_T xs vs rows hr]; exact h.symm
          · cases h
  · rename_i hno
    split
    · rename_i x xs vs hfa; exact (hno x xs vs rfl hfa).elim
    · split at h
      · rename_i hb
        simp only [Option.some.injEq] at h
        rw [beq_eq _ a hb]; exact h.symm
      · simp only [plainRb, Option.some.injEq] at h; exact h.symm

theorem fsNodeG_plain (fx : Bool) (k : Op) (aux : List Nat) (args args' : List Expr) (r : Expr)
    (h : fsNodeG fx plainRb k aux args args' = some r) : r = fsNode fx k aux args args' := by
  unfold fsNodeG at h
  unfold fsNode
  split at h
  · simp only
    split at h
    · rename_i hz; rw [if_pos hz]; simp only [Option.some.injEq] at h; exact h.symm
    · rename_i hz; rw [if_neg hz]; simp only [plainRb, Option.some.injEq] at h; exact h.symm
  · simp only
    split at h
    · rename_i hz; rw [if_pos hz]; simp only [Option.some.injEq] at h; exact h.symm
    · rename_i hz; rw [if_neg hz]; simp only [plainRb, Option.some.injEq] at h; exact h.symm
  · simp only
    exact fsIndexed_plain fx aux _ _ _ r h
  · rename_i h1 h2 h3
    split
    · rename_i x a'; exact (h1 x a' rfl rfl rfl).elim
    · rename_i x a'; exact (h2 x a' rfl rfl rfl).elim
    · rename_i a is a' m; exact (h3 a is a' m rfl rfl rfl).elim
    · split at h
      · rename_i hb
        simp only [Option.some.injEq] at h
        rw [beqL_eq _ _ hb]; exact h.symm
      · simp only [plainRb, Option.some.injEq] at h; exact h.symm

mutual
theorem fsG_plain (fx : Bool) (cfg : SplitCfg) : ∀ (e r : Expr), fsG fx plainRb cfg e = some r → r = fsT fx cfg e
  | .term d, r, h => by
    simp only [fsG] at h
    simp only [fsT]
    split at h
    · rename_i hc; rw [if_pos hc]; exact splitArg_plain cfg d r h
    · rename_i hc; rw [if_neg hc]; simp only [Option.some.injEq] at h; exact h.symm
  | .op k aux args, r, h => by
    simp only [fsG] at h
    simp only [fsT]
    cases hL : fsGL fx plainRb cfg args with
    | none => rw [hL] at h; cases h
    | some args' =>
      rw [hL] at h
      rw [← fsGL_plain fx cfg args args' hL]
      exact fsNodeG_plain fx k aux args args' r h
  | .int _, r, h | .real _ _, r, h | .cplx _ _ _ _, r, h | .zero _ _, r, h | .mi _, r, h => by
    simp only [fsG, Option.some.injEq] at h; simp only [fsT]; exact h.symm
theorem fsGL_plain (fx : Bool) (cfg : SplitCfg) : ∀ (as rs : List Expr), fsGL fx plainRb cfg as = some rs → rs = fsTL fx cfg as
  | [], rs, h => by simp only [fsGL, Option.some.injEq] at h; simp only [fsTL]; exact h.symm
  | a :: as, rs, h => by
    simp only [fsGL] at h
    cases ha : fsG fx plainRb cfg a with
    | none => rw [ha] at h; cases h
    | some x =>
      cases hs : fsGL fx plainRb cfg as with
      | none => rw [ha, hs] at h; cases h
      | some xs =>
        rw [ha, hs] at h
        simp only [Option.some.injEq] at h
        simp only [fsTL]
        rw [← fsG_plain fx cfg a x ha, ← fsGL_plain fx cfg as xs hs]; exact h.symm
end

end Expr
end UflVerif
