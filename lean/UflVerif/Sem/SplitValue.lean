/-
Value of a block: the splitter (plain constructor layer, `fsT`) is a substitution of every argument by
its image in the selected block, up to the `indexed` shortcut and the dropped restriction of zeros.
`block_aux` is the induction; Props/C22.lean states the theorems.
-/
import UflVerif.Sem.SplitPlain
import UflVerif.Sem.Congr

namespace UflVerif
namespace Expr

variable {K : Type} [Add K] [Mul K] [Sub K] [Neg K] [Div K] [Zero K] [One K] [IntCast K] [NatCast K]

/-! ### unfolding `fsT` -/

def isSpecial (k : Op) : Bool := k == .positiveRestricted || k == .negativeRestricted || k == .indexed

theorem fsT_op (fx : Bool) (cfg : SplitCfg) (k : Op) (aux : List Nat) (args : List Expr) (h : isSpecial k = false) :
    fsT fx cfg (.op k aux args) = .op k aux (fsTL fx cfg args) := by
  simp only [fsT]
  unfold fsNode
  split
  · simp [isSpecial] at h
  · simp [isSpecial] at h
  · simp [isSpecial] at h
  · rfl

theorem fsT_pos (fx : Bool) (cfg : SplitCfg) (aux : List Nat) (a : Expr) :
    fsT fx cfg (.op .positiveRestricted aux [a]) =
      if isZero (fsT fx cfg a) then fsT fx cfg a else .op .positiveRestricted aux [fsT fx cfg a] := by
  simp only [fsT, fsTL, fsNode]

theorem fsT_neg (fx : Bool) (cfg : SplitCfg) (aux : List Nat) (a : Expr) :
    fsT fx cfg (.op .negativeRestricted aux [a]) =
      if isZero (fsT fx cfg a) then fsT fx cfg a else .op .negativeRestricted aux [fsT fx cfg a] := by
  simp only [fsT, fsTL, fsNode]

theorem fsT_indexed (fx : Bool) (cfg : SplitCfg) (aux : List Nat) (a : Expr) (is : List Idx) :
    fsT fx cfg (.op .indexed aux [a, .mi is]) = fsIndexedT fx aux (fsT fx cfg a) is := by
  simp only [fsT, fsTL, fsNode]

/-! ### the entries of the list tensors the splitter builds -/

/-- closed scalar entries: `Zero()`, a (scalar) terminal, a terminal indexed by fixed indices -/
def isEntry : Expr → Bool
  | .zero sh f => sh.isEmpty && f.isEmpty
  | .term d => d.shape.isEmpty
  | .op .indexed _ [.term _, .mi is] => (fixedAll is).isSome
  | _ => false

theorem fixedAll_map_fixed : ∀ vs : List Nat, fixedAll (vs.map Idx.fixed) = some vs
  | [] => rfl
  | v :: vs => by simp [fixedAll, fixedAll_map_fixed vs]

theorem resolve_fixedAll (ι : IdxEnv) : ∀ (is : List Idx) (vs : List Nat), fixedAll is = some vs → is.map (Idx.resolve ι) = vs
  | [], vs, h => by simp [fixedAll] at h; simp [h]
  | .fixed v :: is, vs, h => by
    simp only [fixedAll, Option.map_eq_some_iff] at h
    obtain ⟨ws, hw, rfl⟩ := h
    simp [Idx.resolve, resolve_fixedAll ι is ws hw]
  | .free _ :: _, vs, h => by simp [fixedAll] at h

theorem ndindex_length : ∀ (sh : List Nat) (j : List Nat), j ∈ ndindex sh → j.length = sh.length
  | [], j, h => by simp [ndindex] at h; simp [h]
  | n :: rest, j, h => by
    simp only [ndindex, List.mem_flatMap, List.mem_map] at h
    obtain ⟨i, _, j', hj', rfl⟩ := h
    simp [ndindex_length rest j' hj']

theorem subEntries_entry (r : Bool) (d : TermData) (sub : SubArg) (counter : Nat) (sel : Bool) :
    ∀ x ∈ subEntries r d sub counter sel, isEntry x = true := by
  intro x hx
  unfold subEntries at hx
  simp only at hx
  split at hx
  · simp only [List.mem_map] at hx
    obtain ⟨_, _, rfl⟩ := hx; rfl
  · split at hx
    · simp only [List.mem_map] at hx
      obtain ⟨j, hj, rfl⟩ := hx
      split
      · rename_i he
        have := ndindex_length sub.shape j hj
        simp only [List.isEmpty_iff] at he
        simp only [isEntry, List.isEmpty_iff]
        rw [he] at this
        exact List.eq_nil_of_length_eq_zero this.symm
      · simp [isEntry, fixedAll_map_fixed]
    · simp only [List.mem_map] at hx
      obtain ⟨q, _, rfl⟩ := hx
      simp [isEntry, fixedAll]

theorem argEntries_entry (r : Bool) (d : TermData) (sel : Option Nat) :
    ∀ (subs : List SubArg) (i counter : Nat), ∀ x ∈ argEntries r d sel subs i counter, isEntry x = true
  | [], _, _ => by intro x hx; simp [argEntries] at hx
  | sub :: rest, i, counter => by
    intro x hx
    simp only [argEntries, List.mem_append] at hx
    rcases hx with hx | hx
    · exact subEntries_entry r d sub counter _ x hx
    · exact argEntries_entry r d sel rest (i + 1) _ x hx

theorem eval_entry_indep (ρ : Env K) (side : Side) (ι ι' : IdxEnv) (x : Expr) (c : List Nat) (h : isEntry x = true) :
    eval ρ side ι x c = eval ρ side ι' x c := by
  unfold isEntry at h
  split at h
  · simp [eval]
  · simp [eval]
  · rename_i aux d is
    simp only [Option.isSome_iff_exists] at h
    obtain ⟨vs, hv⟩ := h
    simp only [eval, resolve_fixedAll ι is vs hv, resolve_fixedAll ι' is vs hv]
  · cases h

theorem evalNth_entries_indep (ρ : Env K) (side : Side) (ι ι' : IdxEnv) :
    ∀ (xs : List Expr) (n : Nat) (c : List Nat), (∀ x ∈ xs, isEntry x = true) → evalNth ρ side ι xs n c = evalNth ρ side ι' xs n c
  | [], _, _, _ => by simp [evalNth]
  | x :: xs, 0, c, h => by simp only [evalNth]; exact eval_entry_indep ρ side ι ι' x c (h x (by simp))
  | x :: xs, n + 1, c, h => by
    simp only [evalNth]; exact evalNth_entries_indep ρ side ι ι' xs n c (fun y hy => h y (by simp [hy]))

/-- the image of an argument does not depend on the index environment -/
theorem eval_img_indep (ρ : Env K) (side : Side) (ι ι' : IdxEnv) (cfg : SplitCfg) (d : TermData) (c : List Nat) :
    eval ρ side ι (splitArgT cfg d) c = eval ρ side ι' (splitArgT cfg d) c := by
  unfold splitArgT
  split
  · simp [eval]
  · split
    · split
      · simp [eval]
      · split <;> simp [eval]
    · split
      · simp [eval]
      · rename_i sel _ subs _
        cases c with
        | nil => simp [eval]
        | cons v c' =>
          simp only [eval]
          exact evalNth_entries_indep ρ side ι ι' _ v c' (argEntries_entry cfg.replaceArg d _ _ 0 0)

/-! ### shapes and free indices of the images -/

theorem idxPairs_all_fixed (sh : List Nat) : ∀ ps : List (Idx × Nat), (∀ p ∈ ps, ∃ v, p.1 = Idx.fixed v) → idxPairs sh ps = []
  | [], _ => rfl
  | (.fixed v, k) :: ps, h => by
    simp only [idxPairs]; exact idxPairs_all_fixed sh ps (fun p hp => h p (by simp [hp]))
  | (.free c, k) :: ps, h => by
    obtain ⟨v, hv⟩ := h (.free c, k) (by simp)
    cases hv

theorem fixedAll_mem : ∀ (is : List Idx) (vs : List Nat), fixedAll is = some vs → ∀ i ∈ is, ∃ v, i = Idx.fixed v
  | [], _, _ => by intro i hi; cases hi
  | .fixed v :: is, vs, h => by
    simp only [fixedAll, Option.map_eq_some_iff] at h
    obtain ⟨ws, hw, _⟩ := h
    intro i hi
    rcases List.mem_cons.mp hi with rfl | hi
    · exact ⟨v, rfl⟩
    · exact fixedAll_mem is ws hw i hi
  | .free _ :: _, vs, h => by simp [fixedAll] at h

theorem zipIdx_fst_mem {α : Type} : ∀ (l : List α) (k : Nat) (p : α × Nat), p ∈ l.zipIdx k → p.1 ∈ l
  | [], _, p, h => by simp at h
  | a :: l, k, p, h => by
    simp only [List.zipIdx_cons, List.mem_cons] at h
    rcases h with rfl | h
    · simp
    · exact List.mem_cons_of_mem _ (zipIdx_fst_mem l (k + 1) p h)

theorem indexed_fixed_fi (aux : List Nat) (a : Expr) (is : List Idx) (vs : List Nat) (h : fixedAll is = some vs) :
    fi (.op .indexed aux [a, .mi is]) = fi a := by
  simp only [fi]
  rw [idxPairs_all_fixed (shape a) is.zipIdx (fun p hp => fixedAll_mem is vs h p.1 (zipIdx_fst_mem is 0 p hp))]
  rfl

theorem entry_shape_fi (x : Expr) (h : isEntry x = true) : shape x = [] ∧ fi x = [] := by
  unfold isEntry at h
  split at h
  · simp only [Bool.and_eq_true, List.isEmpty_iff] at h; simp [shape, fi, h.1, h.2]
  · simp only [List.isEmpty_iff] at h; simp [shape, fi, h]
  · rename_i aux d is
    simp only [Option.isSome_iff_exists] at h
    obtain ⟨vs, hv⟩ := h
    exact ⟨by simp [shape], by rw [indexed_fixed_fi aux _ is vs hv]; simp [fi]⟩
  · cases h

/-- number of entries of the list tensor built for a mixed-element argument -/
def entriesLen : List SubArg → Nat
  | [] => 0
  | sub :: rest => (ndindex sub.shape).length + entriesLen rest

theorem subEntries_length (r : Bool) (d : TermData) (sub : SubArg) (counter : Nat) (sel : Bool) :
    (subEntries r d sub counter sel).length = (ndindex sub.shape).length := by
  unfold subEntries
  simp only
  split
  · simp
  · split <;> simp

theorem argEntries_length (r : Bool) (d : TermData) (sel : Option Nat) :
    ∀ (subs : List SubArg) (i counter : Nat), (argEntries r d sel subs i counter).length = entriesLen subs
  | [], _, _ => rfl
  | sub :: rest, i, counter => by
    simp [argEntries, entriesLen, subEntries_length, argEntries_length r d sel rest]

/-- the shape of a mixed-element argument is the flattened size of its sub-elements -/
def shapeOK (cfg : SplitCfg) (d : TermData) : Bool :=
  d.part != -1 || (cfg.subsOf d.key).isEmpty || (d.shape == [entriesLen (cfg.subsOf d.key)] && entriesLen (cfg.subsOf d.key) != 0)

theorem img_shape_fi (cfg : SplitCfg) (d : TermData) (h : shapeOK cfg d = true) :
    shape (splitArgT cfg d) = d.shape ∧ fi (splitArgT cfg d) = [] := by
  unfold splitArgT
  split
  · simp [shape, fi]
  · split
    · split
      · simp [shape, fi]
      · split <;> simp [shape, fi]
    · rename_i sel hsel hp
      split
      · simp [shape, fi]
      · rename_i subs hs
        have hne : cfg.subsOf d.key ≠ [] := hs
        simp only [shapeOK, Bool.or_eq_true, bne_iff_ne, ne_eq, List.isEmpty_iff, Bool.and_eq_true, beq_iff_eq] at h
        have hp' : d.part = -1 := by simpa using hp
        rcases h with (h | h) | h
        · exact absurd hp' h
        · exact absurd h hne
        · have hl := argEntries_length cfg.replaceArg d sel (cfg.subsOf d.key) 0 0
          have hent := argEntries_entry cfg.replaceArg d sel (cfg.subsOf d.key) 0 0
          cases hxs : argEntries cfg.replaceArg d sel (cfg.subsOf d.key) 0 0 with
          | nil => rw [hxs] at hl; simp only [List.length_nil] at hl; exact absurd hl.symm h.2
          | cons x xs =>
            rw [hxs] at hl hent
            have := entry_shape_fi x (hent x (by simp))
            simp only [List.length_cons] at hl
            simp only [shape, fi, this.1, this.2, h.1, hl, and_self]

/-! ### admissible inputs -/

def argOf (A : List TermData) (key : String) : Option TermData := A.find? (fun x => x.key == key)

/-- `A` lists the arguments: an `Argument` terminal is found under its key (and has the shape of its
    mixed element), any other terminal is not listed -/
def termAdm (cfg : SplitCfg) (A : List TermData) (d : TermData) : Bool :=
  if d.cls == "Argument" then argOf A d.key == some d && shapeOK cfg d else (argOf A d.key).isNone

/-- under a gradient: the argument is kept or replaced by a zero (arguments of a `MixedFunctionSpace`);
    the derivative of the list tensor standing for a mixed-element argument is outside the semantics -/
def gradImgOK (cfg : SplitCfg) (d : TermData) : Bool :=
  d.cls != "Argument" || (match splitArgT cfg d with
    | .term _ => true
    | .zero _ _ => true
    | _ => false)

/-- the `indexed` shortcut of the code as it stands is only right for one fixed index -/
def shortcutOK (fx : Bool) (a' : Expr) (is : List Idx) : Bool :=
  fx || (match a', fixedAll is with
    | .op .listTensor _ _, some vs => vs.length == 1
    | _, _ => true)

/-- the condition on an argument under a gradient.  `gm = none`: the argument is kept or replaced by a zero (the
    derivative of a list tensor has no meaning in the plain semantics `eval`); `gm = some _`: any image (the semantics
    extended by the componentwise gradient of tensors of components, `evalX` of Sem/SplitGrad.lean) -/
def gradOK (gm : Option Nat) (cfg : SplitCfg) (d : TermData) : Bool :=
  match gm with
  | none => gradImgOK cfg d
  | some _ => true

mutual
def Adm (gm : Option Nat) (fx : Bool) (cfg : SplitCfg) (A : List TermData) : Expr → Bool
  | .term d => termAdm cfg A d
  | .op .grad _ [a] => (match gradChain a with
      | some (d, _) => termAdm cfg A d && gradOK gm cfg d
      | none => false)
  | .op .indexed _ [a, .mi is] => Adm gm fx cfg A a && shortcutOK fx (fsT fx cfg a) is
  | .op _ _ args => AdmL gm fx cfg A args
  | _ => true
def AdmL (gm : Option Nat) (fx : Bool) (cfg : SplitCfg) (A : List TermData) : List Expr → Bool
  | [] => true
  | a :: as => Adm gm fx cfg A a && AdmL gm fx cfg A as
end

/-- the valuation in which every listed argument takes the value of its image in the selected block -/
def imgEnv (ρ : Env K) (cfg : SplitCfg) (A : List TermData) (ι₀ : IdxEnv) : Env K :=
  { ρ with
    term := fun side key c => match argOf A key with
      | some d => eval ρ side ι₀ (splitArgT cfg d) c
      | none => ρ.term side key c
    jet := fun side key c ds => match argOf A key with
      | some d => (match splitArgT cfg d with
          | .term _ => ρ.jet side key c ds
          | _ => 0)
      | none => ρ.jet side key c ds }

/-! ### list tensors with uniform entries -/

mutual
def LTwf : Expr → Bool
  | .op .listTensor _ (x :: xs) => xs.all (fun y => shape y == shape x && fi y == fi x) && LTwf x && LTwfL xs
  | _ => true
def LTwfL : List Expr → Bool
  | [] => true
  | a :: as => LTwf a && LTwfL as
end

theorem LTwf_not_lt (e : Expr) (h : ∀ x xs, e ≠ .op .listTensor x xs) : LTwf e = true := by
  unfold LTwf
  split
  · rename_i x y ys; exact absurd rfl (h x (y :: ys))
  · rfl

theorem LTwf_entry (x : Expr) (h : isEntry x = true) : LTwf x = true := by
  apply LTwf_not_lt
  intro a xs he
  subst he
  simp [isEntry] at h

theorem LTwfL_entries : ∀ xs : List Expr, (∀ x ∈ xs, isEntry x = true) → LTwfL xs = true
  | [], _ => rfl
  | x :: xs, h => by
    simp only [LTwfL, Bool.and_eq_true]
    exact ⟨LTwf_entry x (h x (by simp)), LTwfL_entries xs (fun y hy => h y (by simp [hy]))⟩

theorem img_LTwf (cfg : SplitCfg) (d : TermData) : LTwf (splitArgT cfg d) = true := by
  unfold splitArgT
  split
  · rfl
  · split
    · split
      · rfl
      · split <;> rfl
    · split
      · rfl
      · rename_i sel hsel hp subs hs
        have hent := argEntries_entry cfg.replaceArg d sel (cfg.subsOf d.key) 0 0
        cases hxs : argEntries cfg.replaceArg d sel (cfg.subsOf d.key) 0 0 with
        | nil => rfl
        | cons x xs =>
          rw [hxs] at hent
          simp only [LTwf, Bool.and_eq_true, List.all_eq_true, beq_iff_eq]
          have hx := entry_shape_fi x (hent x (by simp))
          refine ⟨⟨?_, LTwf_entry x (hent x (by simp))⟩, LTwfL_entries xs (fun y hy => hent y (by simp [hy]))⟩
          intro y hy
          have := entry_shape_fi y (hent y (by simp [hy]))
          simp [this.1, this.2, hx.1, hx.2]

/-! ### fixed indices within range -/

def inR : List Nat → List Nat → Prop
  | [], [] => True
  | v :: vs, n :: sh => v < n ∧ inR vs sh
  | _, _ => False

theorem fixedInRange_tail' (n : Nat) (sh : List Nat) (k : Idx) (ks : List Idx) (h : fixedInRange (n :: sh) (k :: ks) = true) :
    fixedInRange sh ks = true := by
  simp only [fixedInRange, List.all_eq_true] at h ⊢
  intro p hp
  have hm : (p.1, p.2 + 1) ∈ (k :: ks).zipIdx := by
    rw [List.zipIdx_cons]
    simp only [List.mem_cons]
    right
    rw [List.mem_zipIdx_iff_getElem?] at hp
    rw [List.mem_zipIdx_iff_le_and_getElem?_sub]
    simpa using hp
  have := h (p.1, p.2 + 1) hm
  simpa using this

theorem fixedInRange_head (n : Nat) (sh : List Nat) (v : Nat) (ks : List Idx) (h : fixedInRange (n :: sh) (.fixed v :: ks) = true) : v < n := by
  simp only [fixedInRange, List.all_eq_true] at h
  have := h (.fixed v, 0) (by rw [List.zipIdx_cons]; simp)
  simpa using this

theorem fixedInRange_inR : ∀ (is : List Idx) (sh : List Nat) (vs : List Nat), is.length = sh.length →
    fixedInRange sh is = true → fixedAll is = some vs → inR vs sh
  | [], [], vs, _, _, h => by simp [fixedAll] at h; subst h; trivial
  | [], _ :: _, _, hl, _, _ => by simp at hl
  | _ :: _, [], _, hl, _, _ => by simp at hl
  | .free _ :: _, _ :: _, _, _, _, h => by simp [fixedAll] at h
  | .fixed v :: is, n :: sh, vs, hl, hr, h => by
    simp only [fixedAll, Option.map_eq_some_iff] at h
    obtain ⟨ws, hw, rfl⟩ := h
    simp only [List.length_cons, Nat.add_right_cancel_iff] at hl
    exact ⟨fixedInRange_head n sh v is hr, fixedInRange_inR is sh ws hl (fixedInRange_tail' n sh _ is hr) hw⟩

theorem LTwfL_get : ∀ (xs : List Expr) (v : Nat) (y : Expr), LTwfL xs = true → xs[v]? = some y → LTwf y = true
  | [], _, _, _, h => by simp at h
  | x :: xs, 0, y, hw, h => by
    simp only [List.getElem?_cons_zero, Option.some.injEq] at h
    simp only [LTwfL, Bool.and_eq_true] at hw
    rw [← h]; exact hw.1
  | x :: xs, v + 1, y, hw, h => by
    simp only [List.getElem?_cons_succ] at h
    simp only [LTwfL, Bool.and_eq_true] at hw
    exact LTwfL_get xs v y hw.2 h

/-- `child[multiindex]` on uniform list tensors yields a scalar with the free indices of the tensor -/
theorem ltGetT_facts : ∀ (vs : List Nat) (e : Expr), LTwf e = true → inR vs (shape e) →
    shape (ltGetT e vs) = [] ∧ fi (ltGetT e vs) = fi e ∧ LTwf (ltGetT e vs) = true
  | [], e, hw, hr => by
    have : shape e = [] := by
      cases hs : shape e with
      | nil => rfl
      | cons _ _ => rw [hs] at hr; exact hr.elim
    simp [ltGetT, this, hw]
  | v :: vs, e, hw, hr => by
    unfold ltGetT
    split
    · rename_i heq; cases heq
    · rename_i x xs v' vs' heq
      simp only [List.cons.injEq] at heq
      obtain ⟨rfl, rfl⟩ := heq
      cases xs with
      | nil => simp only [shape] at hr; exact hr.elim
      | cons x0 rest =>
        simp only [shape] at hr
        simp only [LTwf, Bool.and_eq_true, List.all_eq_true, beq_iff_eq] at hw
        obtain ⟨⟨hall, hx0⟩, hrest⟩ := hw
        have hv : v < (x0 :: rest).length := by simpa using hr.1
        have hget : (x0 :: rest)[v]? = some ((x0 :: rest)[v]) := List.getElem?_eq_getElem hv
        have hy : (x0 :: rest).getD v zeroS = (x0 :: rest)[v] := by simp [List.getD, hget]
        rw [hy]
        have hmem : (x0 :: rest)[v] ∈ x0 :: rest := List.getElem_mem hv
        have hsf : shape ((x0 :: rest)[v]) = shape x0 ∧ fi ((x0 :: rest)[v]) = fi x0 := by
          rcases List.mem_cons.mp hmem with h | h
          · rw [h]; exact ⟨rfl, rfl⟩
          · exact hall _ h
        have hlw : LTwf ((x0 :: rest)[v]) = true :=
          LTwfL_get (x0 :: rest) v _ (by simp [LTwfL, hx0, hrest]) hget
        have := ltGetT_facts vs ((x0 :: rest)[v]) hlw (by rw [hsf.1]; exact hr.2)
        exact ⟨this.1, by rw [this.2.1, hsf.2]; simp [fi], this.2.2⟩
    · rename_i e' v' vs' hne heq
      simp only [List.cons.injEq] at heq
      obtain ⟨rfl, rfl⟩ := heq
      refine ⟨by simp [shape], ?_, LTwf_not_lt _ (by intro x xs h; cases h)⟩
      exact indexed_fixed_fi [] _ _ (v :: vs) (fixedAll_map_fixed (v :: vs))

/-! ### the splitter keeps shapes and free indices -/

theorem fsTL_length (fx : Bool) (cfg : SplitCfg) : ∀ as : List Expr, (fsTL fx cfg as).length = as.length
  | [] => rfl
  | a :: as => by simp [fsTL, fsTL_length fx cfg as]

theorem img_cases (cfg : SplitCfg) (d : TermData) :
    splitArgT cfg d = .term d ∨ splitArgT cfg d = .zero d.shape [] ∨ ∃ xs, splitArgT cfg d = .op .listTensor [] xs := by
  unfold splitArgT
  split
  · exact Or.inl rfl
  · split
    · split
      · exact Or.inr (Or.inl rfl)
      · split
        · exact Or.inl rfl
        · exact Or.inr (Or.inl rfl)
    · split
      · exact Or.inl rfl
      · exact Or.inr (Or.inr ⟨_, rfl⟩)

theorem chain_shape_fi (fx : Bool) (cfg : SplitCfg) : ∀ (a : Expr) (d : TermData) (k : Nat), gradChain a = some (d, k) →
    shape (fsT fx cfg (.term d)) = d.shape → fi (fsT fx cfg (.term d)) = [] →
    shape (fsT fx cfg a) = shape a ∧ fi (fsT fx cfg a) = fi a := by
  intro a
  fun_induction gradChain a with
  | case1 d =>
    intro d' k h hs hf
    simp only [Option.some.injEq, Prod.mk.injEq] at h
    obtain ⟨rfl, _⟩ := h
    exact ⟨by rw [hs]; simp [shape], by rw [hf]; simp [fi]⟩
  | case2 aux a d k hk ih =>
    intro d' k' h hs hf
    simp only [Option.some.injEq, Prod.mk.injEq] at h
    obtain ⟨rfl, _⟩ := h
    have := ih d k hk hs hf
    rw [fsT_op fx cfg _ _ _ rfl]
    simp only [fsTL, shape, fi, this.1, this.2, and_self]
  | case3 aux a hk ih => intro d' k h; simp at h
  | case4 e h1 h2 => intro d' k h; simp at h

theorem term_shape_fi (fx : Bool) (cfg : SplitCfg) (A : List TermData) (d : TermData) (h : termAdm cfg A d = true) :
    shape (fsT fx cfg (.term d)) = d.shape ∧ fi (fsT fx cfg (.term d)) = [] := by
  simp only [termAdm] at h
  simp only [fsT]
  split
  · rename_i hc
    rw [if_pos hc] at h
    simp only [Bool.and_eq_true] at h
    exact img_shape_fi cfg d h.2
  · simp [shape, fi]

def P1 (gm : Option Nat) (fx : Bool) (cfg : SplitCfg) (A : List TermData) (e : Expr) : Prop :=
  WF e = true → Adm gm fx cfg A e = true →
    shape (fsT fx cfg e) = shape e ∧ fi (fsT fx cfg e) = fi e ∧ LTwf (fsT fx cfg e) = true

def P3 (gm : Option Nat) (fx : Bool) (cfg : SplitCfg) (A : List TermData) (xs : List Expr) : Prop :=
  WFL xs = true → AdmL gm fx cfg A xs = true →
    ∀ x ∈ xs, shape (fsT fx cfg x) = shape x ∧ fi (fsT fx cfg x) = fi x ∧ LTwf (fsT fx cfg x) = true

theorem preserve_aux (gm : Option Nat) (fx : Bool) (cfg : SplitCfg) (A : List TermData) :
    (∀ e, P1 gm fx cfg A e) ∧ (∀ _p : Expr, True) ∧ (∀ xs, P3 gm fx cfg A xs) := by
  apply WF.mutual_induct (motive_1 := P1 gm fx cfg A) (motive_2 := fun _ => True) (motive_3 := P3 gm fx cfg A)
  all_goals try (intros; trivial)
  -- literals
  · intro v _ _; simp [fsT, LTwf]
  · intro n d _ _; simp [fsT, LTwf]
  · intro a b c d _ _; simp [fsT, LTwf]
  -- terminal
  · intro d _ ha
    simp only [Adm, termAdm] at ha
    simp only [fsT]
    split
    · rename_i hc
      rw [if_pos hc] at ha
      simp only [Bool.and_eq_true] at ha
      have := img_shape_fi cfg d ha.2
      exact ⟨by rw [this.1]; simp [shape], by rw [this.2]; simp [fi], img_LTwf cfg d⟩
    · simp [LTwf]
  -- zero, multi-index
  · intro sh f _ _; simp [fsT, LTwf]
  · intro is hw; simp [WF] at hw
  -- sum
  · intro aux a b iha ihb hw ha
    simp only [WF, Bool.and_eq_true] at hw
    simp only [Adm, AdmL, Bool.and_true, Bool.and_eq_true] at ha
    have h1 := iha hw.1.1.1 ha.1
    have h2 := ihb hw.1.1.2 ha.2
    rw [fsT_op fx cfg _ _ _ rfl]
    simp only [fsTL, shape, fi, h1.1, h1.2.1, h2.1, h2.2.1, true_and]
    exact LTwf_not_lt _ (by intro x xs h; cases h)
  -- product
  · intro aux a b iha ihb hw ha
    simp only [WF, Bool.and_eq_true] at hw
    simp only [Adm, AdmL, Bool.and_true, Bool.and_eq_true] at ha
    have h1 := iha hw.1.1.1.1 ha.1
    have h2 := ihb hw.1.1.1.2 ha.2
    rw [fsT_op fx cfg _ _ _ rfl]
    simp only [fsTL, shape, fi, h1.1, h1.2.1, h2.1, h2.2.1, true_and]
    exact LTwf_not_lt _ (by intro x xs h; cases h)
  -- division
  · intro aux a b iha ihb hw ha
    simp only [WF, Bool.and_eq_true] at hw
    simp only [Adm, AdmL, Bool.and_true, Bool.and_eq_true] at ha
    have h1 := iha hw.1.1.1 ha.1
    have h2 := ihb hw.1.1.2 ha.2
    rw [fsT_op fx cfg _ _ _ rfl]
    simp only [fsTL, shape, fi, h1.1, h1.2.1, h2.1, h2.2.1, true_and]
    exact LTwf_not_lt _ (by intro x xs h; cases h)
  -- power
  · intro aux a b iha ihb hw ha
    simp only [WF, Bool.and_eq_true] at hw
    simp only [Adm, AdmL, Bool.and_true, Bool.and_eq_true] at ha
    have h1 := iha hw.1.1.1 ha.1
    have h2 := ihb hw.1.1.2 ha.2
    rw [fsT_op fx cfg _ _ _ rfl]
    simp only [fsTL, shape, fi, h1.1, h1.2.1, h2.1, h2.2.1, true_and]
    exact LTwf_not_lt _ (by intro x xs h; cases h)
  -- abs
  · intro aux a iha hw ha
    simp only [WF, Bool.and_eq_true] at hw
    simp only [Adm, AdmL, Bool.and_true, Bool.and_eq_true] at ha
    have h1 := iha hw ha
    rw [fsT_op fx cfg _ _ _ rfl]
    simp only [fsTL, shape, fi, h1.1, h1.2.1, true_and]
    exact LTwf_not_lt _ (by intro x xs h; cases h)
  -- conj
  · intro aux a iha hw ha
    simp only [WF, Bool.and_eq_true] at hw
    simp only [Adm, AdmL, Bool.and_true, Bool.and_eq_true] at ha
    have h1 := iha hw ha
    rw [fsT_op fx cfg _ _ _ rfl]
    simp only [fsTL, shape, fi, h1.1, h1.2.1, true_and]
    exact LTwf_not_lt _ (by intro x xs h; cases h)
  -- real
  · intro aux a iha hw ha
    simp only [WF, Bool.and_eq_true] at hw
    simp only [Adm, AdmL, Bool.and_true, Bool.and_eq_true] at ha
    have h1 := iha hw ha
    rw [fsT_op fx cfg _ _ _ rfl]
    simp only [fsTL, shape, fi, h1.1, h1.2.1, true_and]
    exact LTwf_not_lt _ (by intro x xs h; cases h)
  -- imag
  · intro aux a iha hw ha
    simp only [WF, Bool.and_eq_true] at hw
    simp only [Adm, AdmL, Bool.and_true, Bool.and_eq_true] at ha
    have h1 := iha hw ha
    rw [fsT_op fx cfg _ _ _ rfl]
    simp only [fsTL, shape, fi, h1.1, h1.2.1, true_and]
    exact LTwf_not_lt _ (by intro x xs h; cases h)
  -- indexed
  · intro aux a is iha hw ha
    simp only [WF, Bool.and_eq_true, beq_iff_eq] at hw
    obtain ⟨⟨⟨wa, hl⟩, hrange⟩, _⟩ := hw
    simp only [Adm, Bool.and_eq_true] at ha
    have h1 := iha wa ha.1
    rw [fsT_indexed]
    unfold fsIndexedT
    split
    · rename_i x xs vs hx hf
      have hfi : fi (.op .indexed aux [a, .mi is]) = fi a := indexed_fixed_fi aux a is vs hf
      have hR : inR vs (shape (.op .listTensor x xs)) := by
        rw [← hx, h1.1]; exact fixedInRange_inR is (shape a) vs hl hrange hf
      have hW : LTwf (.op .listTensor x xs) = true := by rw [← hx]; exact h1.2.2
      have hfa : fi (.op .listTensor x xs) = fi a := by rw [← hx]; exact h1.2.1
      have facts := ltGetT_facts vs _ hW hR
      split
      · exact ⟨by rw [facts.1]; simp [shape], by rw [facts.2.1, hfa, hfi], facts.2.2⟩
      · rename_i hfx
        have hfx' : fx = false := by simpa using hfx
        subst hfx'
        have hso := ha.2
        simp only [shortcutOK, hx, hf, Bool.false_or, beq_iff_eq] at hso
        split
        · rename_i v
          have e1 : ltGetT (.op .listTensor x xs) [v] = xs.getD v zeroS := by simp [ltGetT]
          rw [e1] at facts
          exact ⟨by rw [facts.1]; simp [shape], by rw [facts.2.1, hfa, hfi], facts.2.2⟩
        · rename_i hne
          obtain ⟨v, hv⟩ := List.length_eq_one_iff.mp hso
          exact (hne v hv).elim
    · refine ⟨by simp [shape], ?_, LTwf_not_lt _ (by intro x xs h; cases h)⟩
      simp only [fi, h1.1, h1.2.1]
  -- index sum
  · intro aux a j iha hw ha
    simp only [WF, Bool.and_eq_true] at hw
    simp only [Adm, AdmL, Bool.and_true, Bool.and_eq_true] at ha
    have h1 := iha hw.1 ha
    rw [fsT_op fx cfg _ _ _ rfl]
    simp only [fsTL, fsT, shape, fi, h1.1, h1.2.1, true_and]
    exact LTwf_not_lt _ (by intro x xs h; cases h)
  -- component tensor
  · intro aux a is iha hw ha
    simp only [WF, Bool.and_eq_true] at hw
    simp only [Adm, AdmL, Bool.and_true, Bool.and_eq_true] at ha
    have h1 := iha hw.1.1 ha
    rw [fsT_op fx cfg _ _ _ rfl]
    simp only [fsTL, fsT, shape, fi, h1.1, h1.2.1, true_and]
    exact LTwf_not_lt _ (by intro x xs h; cases h)
  -- list tensor
  · intro aux a as iha ihas hw ha
    simp only [WF, Bool.and_eq_true, List.all_eq_true, beq_iff_eq] at hw
    obtain ⟨⟨wa, was⟩, hsame⟩ := hw
    simp only [Adm, AdmL, Bool.and_eq_true] at ha
    have h1 := iha wa ha.1
    have h3 := ihas was ha.2
    rw [fsT_op fx cfg _ _ _ rfl]
    simp only [fsTL, shape, fi, h1.1, h1.2.1, fsTL_length, true_and]
    simp only [LTwf, Bool.and_eq_true, List.all_eq_true, beq_iff_eq, h1.2.2, and_true]
    have key : ∀ (xs : List Expr), (∀ x ∈ xs, shape (fsT fx cfg x) = shape x ∧ fi (fsT fx cfg x) = fi x ∧ LTwf (fsT fx cfg x) = true) →
        (∀ x ∈ xs, shape x = shape a ∧ fi x = fi a) →
        (∀ y ∈ fsTL fx cfg xs, shape y = shape a ∧ fi y = fi a) ∧ LTwfL (fsTL fx cfg xs) = true := by
      intro xs
      induction xs with
      | nil => intro _ _; simp [fsTL, LTwfL]
      | cons x xs ih =>
        intro hp hs
        have hx := hp x (by simp)
        have hsx := hs x (by simp)
        have := ih (fun y hy => hp y (by simp [hy])) (fun y hy => hs y (by simp [hy]))
        refine ⟨?_, by simp [fsTL, LTwfL, hx.2.2, this.2]⟩
        intro y hy
        simp only [fsTL, List.mem_cons] at hy
        rcases hy with rfl | hy
        · exact ⟨by rw [hx.1, hsx.1], by rw [hx.2.1, hsx.2]⟩
        · exact this.1 y hy
    have := key as h3 hsame
    refine ⟨fun y hy => ?_, this.2⟩
    rw [h1.1, h1.2.1]; exact this.1 y hy
  -- conditional
  · intro aux c t f _ iht ihf hw ha
    simp only [WF, Bool.and_eq_true] at hw
    simp only [Adm, AdmL, Bool.and_true, Bool.and_eq_true] at ha
    have h1 := iht hw.1.1.1.2 ha.2.1
    rw [fsT_op fx cfg _ _ _ rfl]
    simp only [fsTL, shape, fi, h1.1, h1.2.1, true_and]
    exact LTwf_not_lt _ (by intro x xs h; cases h)
  -- min
  · intro aux a b iha ihb hw ha
    simp only [WF, Bool.and_eq_true] at hw
    simp only [Adm, AdmL, Bool.and_true, Bool.and_eq_true] at ha
    have h1 := iha hw.1.1.1 ha.1
    have h2 := ihb hw.1.1.2 ha.2
    rw [fsT_op fx cfg _ _ _ rfl]
    simp only [fsTL, shape, fi, h1.1, h1.2.1, h2.1, h2.2.1, true_and]
    exact LTwf_not_lt _ (by intro x xs h; cases h)
  -- max
  · intro aux a b iha ihb hw ha
    simp only [WF, Bool.and_eq_true] at hw
    simp only [Adm, AdmL, Bool.and_true, Bool.and_eq_true] at ha
    have h1 := iha hw.1.1.1 ha.1
    have h2 := ihb hw.1.1.2 ha.2
    rw [fsT_op fx cfg _ _ _ rfl]
    simp only [fsTL, shape, fi, h1.1, h1.2.1, h2.1, h2.2.1, true_and]
    exact LTwf_not_lt _ (by intro x xs h; cases h)
  -- atan2
  · intro aux a b iha ihb hw ha
    simp only [WF, Bool.and_eq_true] at hw
    simp only [Adm, AdmL, Bool.and_true, Bool.and_eq_true] at ha
    have h1 := iha hw.1.1.1 ha.1
    have h2 := ihb hw.1.1.2 ha.2
    rw [fsT_op fx cfg _ _ _ rfl]
    simp only [fsTL, shape, fi, h1.1, h1.2.1, h2.1, h2.2.1, true_and]
    exact LTwf_not_lt _ (by intro x xs h; cases h)
  -- variable
  · intro aux a d iha hw ha
    simp only [WF] at hw
    simp only [Adm, AdmL, Bool.and_true, Bool.and_eq_true] at ha
    have h1 := iha hw ha.1
    rw [fsT_op fx cfg _ _ _ rfl]
    simp only [fsTL, shape, fi, h1.1, h1.2.1, true_and]
    exact LTwf_not_lt _ (by intro x xs h; cases h)
  -- restrictions
  · intro aux a iha hw ha
    simp only [WF] at hw
    simp only [Adm, AdmL, Bool.and_true] at ha
    have h1 := iha hw ha
    rw [fsT_pos]
    split
    · exact ⟨by rw [h1.1]; simp [shape], by rw [h1.2.1]; simp [fi], h1.2.2⟩
    · exact ⟨by simp [shape, h1.1], by simp [fi, h1.2.1], LTwf_not_lt _ (by intro x xs h; cases h)⟩
  · intro aux a iha hw ha
    simp only [WF] at hw
    simp only [Adm, AdmL, Bool.and_true] at ha
    have h1 := iha hw ha
    rw [fsT_neg]
    split
    · exact ⟨by rw [h1.1]; simp [shape], by rw [h1.2.1]; simp [fi], h1.2.2⟩
    · exact ⟨by simp [shape, h1.1], by simp [fi, h1.2.1], LTwf_not_lt _ (by intro x xs h; cases h)⟩
  -- grad
  · intro aux a hw ha
    simp only [WF, Option.isSome_iff_exists] at hw
    obtain ⟨⟨d, k⟩, hk⟩ := hw
    simp only [Adm, hk, Bool.and_eq_true] at ha
    have ht := term_shape_fi fx cfg A d ha.1
    have := chain_shape_fi fx cfg a d k hk ht.1 ht.2
    rw [fsT_op fx cfg _ _ _ rfl]
    simp only [fsTL, shape, fi, this.1, this.2, true_and]
    exact LTwf_not_lt _ (by intro x xs h; cases h)
  -- math functions
  · intro aux fnk a h1 h2 h3 h4 h5 h6 h7 h8 iha hw ha
    have hm : (mathName fnk).isSome = true ∧ WF a = true := by
      revert hw; cases fnk <;> simp_all [WF, mathName]
    have hsp : isSpecial fnk = false := by
      have := hm.1; revert this; cases fnk <;> simp [mathName, isSpecial]
    have hadm : Adm gm fx cfg A (.op fnk aux [a]) = Adm gm fx cfg A a := by
      have := hm.1; revert this; cases fnk <;> simp [Adm, AdmL, mathName]
    rw [hadm] at ha
    have h1' := iha hm.2 ha
    rw [fsT_op fx cfg _ _ _ hsp]
    have hsh : ∀ x : Expr, shape (.op fnk aux [x]) = [] ∧ fi (.op fnk aux [x]) = fi x := by
      intro x; have := hm.1; revert this; cases fnk <;> simp [shape, fi, mathName]
    simp only [fsTL]
    refine ⟨by rw [(hsh _).1, (hsh _).1], by rw [(hsh _).2, (hsh _).2, h1'.2.1], ?_⟩
    apply LTwf_not_lt
    intro x xs h
    simp only [op.injEq] at h
    exact h5 h.1
  -- anything else is not well formed
  · intro k aux args
    intros
    intro hw
    unfold WF at hw
    split at hw <;> simp_all
  -- lists
  · intro _ _ x hx; cases hx
  · intro a as iha ihas hw ha x hx
    simp only [WFL, Bool.and_eq_true] at hw
    simp only [AdmL, Bool.and_eq_true] at ha
    rcases List.mem_cons.mp hx with rfl | h
    · exact iha hw.1 ha.1
    · exact ihas hw.2 ha.2 x h

/-! ### the value of a block -/

theorem isZero_eq' (a : Expr) (h : isZero a = true) : ∃ sh f, a = .zero sh f := by
  cases a <;> simp [isZero] at h
  exact ⟨_, _, rfl⟩

theorem evalNth_getD (ρ : Env K) (side : Side) (ι : IdxEnv) : ∀ (xs : List Expr) (v : Nat) (c : List Nat),
    evalNth ρ side ι xs v c = eval ρ side ι (xs.getD v zeroS) c
  | [], v, c => by simp [evalNth, zeroS, eval]
  | x :: xs, 0, c => by simp [evalNth]
  | x :: xs, v + 1, c => by simp only [evalNth]; rw [evalNth_getD ρ side ι xs v c]; simp [List.getD]

theorem ltGetT_eval (ρ : Env K) (side : Side) (ι : IdxEnv) : ∀ (vs : List Nat) (e : Expr),
    eval ρ side ι (ltGetT e vs) [] = eval ρ side ι e vs
  | [], e => by simp [ltGetT]
  | v :: vs, e => by
    unfold ltGetT
    split
    · rename_i heq; cases heq
    · rename_i x xs v' vs' heq
      simp only [List.cons.injEq] at heq
      obtain ⟨rfl, rfl⟩ := heq
      rw [ltGetT_eval ρ side ι vs _]
      simp only [eval]
      exact (evalNth_getD ρ side ι xs v vs).symm
    · rename_i e' v' vs' hne heq
      simp only [List.cons.injEq] at heq
      obtain ⟨rfl, rfl⟩ := heq
      simp only [eval]
      rw [resolve_fixedAll ι _ (v :: vs) (fixedAll_map_fixed (v :: vs))]

theorem chain_fix (fx : Bool) (cfg : SplitCfg) : ∀ (a : Expr) (d : TermData) (k : Nat), gradChain a = some (d, k) →
    fsT fx cfg (.term d) = .term d → fsT fx cfg a = a := by
  intro a
  fun_induction gradChain a with
  | case1 d =>
    intro d' k h hf
    simp only [Option.some.injEq, Prod.mk.injEq] at h
    obtain ⟨rfl, _⟩ := h
    exact hf
  | case2 aux a d k hk ih =>
    intro d' k' h hf
    simp only [Option.some.injEq, Prod.mk.injEq] at h
    obtain ⟨rfl, _⟩ := h
    rw [fsT_op fx cfg _ _ _ rfl]
    simp only [fsTL, ih d k hk hf]
  | case3 aux a hk ih => intro d' k h; simp at h
  | case4 e h1 h2 => intro d' k h; simp at h

theorem chain_zero (fx : Bool) (cfg : SplitCfg) : ∀ (a : Expr) (d : TermData) (k : Nat), gradChain a = some (d, k) →
    ∀ sh f, fsT fx cfg (.term d) = .zero sh f → gradChain (fsT fx cfg a) = none := by
  intro a
  fun_induction gradChain a with
  | case1 d =>
    intro d' k h sh f hf
    simp only [Option.some.injEq, Prod.mk.injEq] at h
    obtain ⟨rfl, _⟩ := h
    rw [hf]; simp [gradChain]
  | case2 aux a d k hk ih =>
    intro d' k' h sh f hf
    simp only [Option.some.injEq, Prod.mk.injEq] at h
    obtain ⟨rfl, _⟩ := h
    rw [fsT_op fx cfg _ _ _ rfl]
    simp only [fsTL, gradChain, ih d k hk sh f hf]
  | case3 aux a hk ih => intro d' k h; simp at h
  | case4 e h1 h2 => intro d' k h; simp at h

def B1 (ρ : Env K) (fx : Bool) (cfg : SplitCfg) (A : List TermData) (ι₀ : IdxEnv) (side : Side) (ι : IdxEnv) (e : Expr) (c : List Nat) : Prop :=
  WF e = true → Adm none fx cfg A e = true → c.length = (shape e).length →
    eval ρ side ι (fsT fx cfg e) c = eval (imgEnv ρ cfg A ι₀) side ι e c

def B2 (ρ : Env K) (fx : Bool) (cfg : SplitCfg) (A : List TermData) (ι₀ : IdxEnv) (side : Side) (ι : IdxEnv) (p : Expr) : Prop :=
  WFC p = true → Adm none fx cfg A p = true → evalB ρ side ι (fsT fx cfg p) = evalB (imgEnv ρ cfg A ι₀) side ι p

def B3 (ρ : Env K) (fx : Bool) (cfg : SplitCfg) (A : List TermData) (ι₀ : IdxEnv) (side : Side) (ι : IdxEnv) (xs : List Expr) (n : Nat) (c : List Nat) : Prop :=
  WFL xs = true → AdmL none fx cfg A xs = true → (∀ x ∈ xs, c.length = (shape x).length) →
    evalNth ρ side ι (fsTL fx cfg xs) n c = evalNth (imgEnv ρ cfg A ι₀) side ι xs n c

theorem notArg_of_cls (d : TermData) (s : String) (h : d.cls = s) (hs : s ≠ "Argument") : (d.cls == "Argument") = false := by
  rw [h]; simpa using hs

theorem block_aux (ρ : Env K) (fx : Bool) (cfg : SplitCfg) (A : List TermData) (ι₀ : IdxEnv) :
    (∀ side ι e c, B1 ρ fx cfg A ι₀ side ι e c) ∧ (∀ side ι p, B2 ρ fx cfg A ι₀ side ι p) ∧
    (∀ side ι xs n c, B3 ρ fx cfg A ι₀ side ι xs n c) := by
  have hsf := (preserve_aux none fx cfg A).1
  apply eval.mutual_induct (imgEnv ρ cfg A ι₀) (motive_1 := B1 ρ fx cfg A ι₀) (motive_2 := B2 ρ fx cfg A ι₀) (motive_3 := B3 ρ fx cfg A ι₀)
  -- 1-5 literals, zero, multi-index
  · intro side ι v c _ _ _; simp [fsT, eval]
  · intro side ι n d c _ _ _; simp [fsT, eval]
  · intro side ι a b c d x _ _ _; simp [fsT, eval, imgEnv]
  · intro side ι sh f c _ _ _; simp [fsT, eval]
  · intro side ι is c hw; simp [WF] at hw
  -- 6-10 terminals
  · intro side ι d hd j _ _ _
    simp [fsT, notArg_of_cls d _ hd (by decide), eval, hd]
  · intro side ι d hd i j _ _ _ _
    simp [fsT, notArg_of_cls d _ hd (by decide), eval, hd]
  · intro side ι d c hd _ _ _ _
    simp [fsT, notArg_of_cls d _ hd (by decide), eval, hd]
  · intro side ι d c hd hl _ _ _
    simp [fsT, notArg_of_cls d _ hl (by decide), eval, hd, hl]
  · intro side ι d c hd hl _ hg _
    simp only [Adm, termAdm] at hg
    simp only [fsT]
    split
    · rename_i hc
      rw [if_pos hc] at hg
      simp only [Bool.and_eq_true, beq_iff_eq] at hg
      simp only [eval, hd, hl, ↓reduceIte, imgEnv, hg.1]
      exact eval_img_indep ρ side ι ι₀ cfg d c
    · rename_i hc
      rw [if_neg hc] at hg
      simp only [Option.isNone_iff_eq_none] at hg
      simp only [eval, hd, hl, ↓reduceIte, imgEnv, hg]
  -- 11 sum
  · intro side ι aux c a b iha ihb hw hg hc
    simp only [WF, Bool.and_eq_true, beq_iff_eq] at hw
    obtain ⟨⟨⟨wa, wb⟩, hs⟩, _⟩ := hw
    simp only [Adm, AdmL, Bool.and_true, Bool.and_eq_true] at hg
    simp only [shape] at hc
    rw [fsT_op fx cfg _ _ _ rfl]
    simp only [fsTL, eval]
    rw [iha wa hg.1 hc, ihb wb hg.2 (by rw [← hs]; exact hc)]
  -- 12 product
  · intro side ι aux c a b iha ihb hw hg _
    simp only [WF, Bool.and_eq_true, List.isEmpty_iff] at hw
    obtain ⟨⟨⟨⟨wa, wb⟩, sa⟩, sb⟩, _⟩ := hw
    simp only [Adm, AdmL, Bool.and_true, Bool.and_eq_true] at hg
    rw [fsT_op fx cfg _ _ _ rfl]
    simp only [fsTL, eval]
    rw [iha wa hg.1 (by simp [sa]), ihb wb hg.2 (by simp [sb])]
  -- 13 division
  · intro side ι aux c a b iha ihb hw hg hc
    simp only [WF, Bool.and_eq_true, List.isEmpty_iff, trueScalar] at hw
    obtain ⟨⟨⟨wa, wb⟩, sa⟩, sb, _⟩ := hw
    simp only [Adm, AdmL, Bool.and_true, Bool.and_eq_true] at hg
    simp only [shape, List.length_nil] at hc
    rw [fsT_op fx cfg _ _ _ rfl]
    simp only [fsTL, eval]
    rw [iha wa hg.1 (by simp [sa, hc]), ihb wb hg.2 (by simp [sb, hc])]
    try rfl
  -- 14 power
  · intro side ι aux c a b iha ihb hw hg hc
    simp only [WF, Bool.and_eq_true, List.isEmpty_iff, trueScalar] at hw
    obtain ⟨⟨⟨wa, wb⟩, sa, _⟩, sb, _⟩ := hw
    simp only [Adm, AdmL, Bool.and_true, Bool.and_eq_true] at hg
    simp only [shape, List.length_nil] at hc
    rw [fsT_op fx cfg _ _ _ rfl]
    simp only [fsTL, eval]
    rw [iha wa hg.1 (by simp [sa, hc]), ihb wb hg.2 (by simp [sb, hc])]
    try rfl
  -- 15-18 abs conj real imag
  · intro side ι aux c a ih hw hg hc
    simp only [WF] at hw; simp only [Adm, AdmL, Bool.and_true] at hg; simp only [shape] at hc
    rw [fsT_op fx cfg _ _ _ rfl]
    simp only [fsTL, eval]; rw [ih hw hg hc]; try rfl
  · intro side ι aux c a ih hw hg hc
    simp only [WF] at hw; simp only [Adm, AdmL, Bool.and_true] at hg; simp only [shape] at hc
    rw [fsT_op fx cfg _ _ _ rfl]
    simp only [fsTL, eval]; rw [ih hw hg hc]; try rfl
  · intro side ι aux c a ih hw hg hc
    simp only [WF] at hw; simp only [Adm, AdmL, Bool.and_true] at hg; simp only [shape] at hc
    rw [fsT_op fx cfg _ _ _ rfl]
    simp only [fsTL, eval]; rw [ih hw hg hc]; try rfl
  · intro side ι aux c a ih hw hg hc
    simp only [WF] at hw; simp only [Adm, AdmL, Bool.and_true] at hg; simp only [shape] at hc
    rw [fsT_op fx cfg _ _ _ rfl]
    simp only [fsTL, eval]; rw [ih hw hg hc]; try rfl
  -- 19 indexed
  · intro side ι aux c a is ih hw hg hc
    simp only [WF, Bool.and_eq_true, beq_iff_eq] at hw
    obtain ⟨⟨⟨wa, hl⟩, _⟩, _⟩ := hw
    simp only [Adm, Bool.and_eq_true] at hg
    have hc0 : c = [] := by simpa [shape] using hc
    subst hc0
    rw [fsT_indexed]
    simp only [eval]
    rw [← ih wa hg.1 (by simp [hl])]
    unfold fsIndexedT
    split
    · rename_i x xs vs hx hf
      rw [resolve_fixedAll ι is vs hf, hx]
      split
      · exact ltGetT_eval ρ side ι vs _
      · rename_i hfx
        have hfx' : fx = false := by simpa using hfx
        subst hfx'
        have hso := hg.2
        simp only [shortcutOK, hx, hf, Bool.false_or, beq_iff_eq] at hso
        obtain ⟨v, rfl⟩ := List.length_eq_one_iff.mp hso
        simp only [eval]
        exact (evalNth_getD ρ side ι xs v []).symm
    · simp only [eval]
  -- 20 index sum
  · intro side ι aux c a j ih hw hg hc
    simp only [WF, Bool.and_eq_true] at hw
    simp only [Adm, AdmL, Bool.and_true, Bool.and_eq_true] at hg
    simp only [shape] at hc
    rw [fsT_op fx cfg _ _ _ rfl]
    simp only [fsTL, fsT, eval, (hsf a hw.1 hg).2.1]
    congr 1
    funext v
    exact ih v hw.1 hg hc
  -- 21 component tensor
  · intro side ι aux c a is ih hw hg _
    simp only [WF, Bool.and_eq_true, List.isEmpty_iff] at hw
    simp only [Adm, AdmL, Bool.and_true, Bool.and_eq_true] at hg
    rw [fsT_op fx cfg _ _ _ rfl]
    simp only [fsTL, fsT, eval]
    exact ih hw.1.1 hg (by simp [hw.1.2])
  -- 22-23 list tensor
  · intro side ι aux xs v c' ih hw hg hc
    rw [fsT_op fx cfg _ _ _ rfl]
    simp only [eval]
    cases xs with
    | nil => simp [WF] at hw
    | cons x0 rest =>
      simp only [WF, Bool.and_eq_true, List.all_eq_true, beq_iff_eq] at hw
      obtain ⟨⟨w0, wr⟩, hsame⟩ := hw
      simp only [Adm] at hg
      simp only [shape, List.length_cons, Nat.add_right_cancel_iff] at hc
      apply ih (by simp [WFL, w0, wr]) hg
      intro x hx
      cases List.mem_cons.mp hx with
      | inl h => rw [h]; exact hc
      | inr h => rw [(hsame x h).1]; exact hc
  · intro side ι aux xs _ _ _
    rw [fsT_op fx cfg _ _ _ rfl]
    simp [eval]
  -- 24-25 conditional
  · intro side ι aux c p t f hb ihp iht hw hg hc
    simp only [WF, Bool.and_eq_true, beq_iff_eq] at hw
    obtain ⟨⟨⟨⟨wp, wt⟩, wf⟩, hs⟩, _⟩ := hw
    simp only [Adm, AdmL, Bool.and_true, Bool.and_eq_true] at hg
    simp only [shape] at hc
    rw [fsT_op fx cfg _ _ _ rfl]
    simp only [fsTL, eval]
    rw [ihp wp hg.1, hb]
    simp only [↓reduceIte]
    exact iht wt hg.2.1 hc
  · intro side ι aux c p t f hb ihp ihf hw hg hc
    simp only [WF, Bool.and_eq_true, beq_iff_eq] at hw
    obtain ⟨⟨⟨⟨wp, wt⟩, wf⟩, hs⟩, _⟩ := hw
    simp only [Adm, AdmL, Bool.and_true, Bool.and_eq_true] at hg
    simp only [shape] at hc
    rw [fsT_op fx cfg _ _ _ rfl]
    simp only [fsTL, eval]
    rw [ihp wp hg.1]
    simp only [hb, Bool.false_eq_true, ↓reduceIte]
    exact ihf wf hg.2.2 (by rw [← hs]; exact hc)
  -- 26-29 min / max
  · intro side ι aux c a b x y _ iha ihb hw hg hc
    simp only [WF, Bool.and_eq_true, List.isEmpty_iff, trueScalar] at hw
    obtain ⟨⟨⟨wa, wb⟩, sa, _⟩, sb, _⟩ := hw
    simp only [Adm, AdmL, Bool.and_true, Bool.and_eq_true] at hg
    simp only [shape, List.length_nil] at hc
    rw [fsT_op fx cfg _ _ _ rfl]
    simp only [fsTL, eval]
    rw [iha wa hg.1 (by simp [sa, hc]), ihb wb hg.2 (by simp [sb, hc])]
    try rfl
  · intro side ι aux c a b x y _ iha ihb hw hg hc
    simp only [WF, Bool.and_eq_true, List.isEmpty_iff, trueScalar] at hw
    obtain ⟨⟨⟨wa, wb⟩, sa, _⟩, sb, _⟩ := hw
    simp only [Adm, AdmL, Bool.and_true, Bool.and_eq_true] at hg
    simp only [shape, List.length_nil] at hc
    rw [fsT_op fx cfg _ _ _ rfl]
    simp only [fsTL, eval]
    rw [iha wa hg.1 (by simp [sa, hc]), ihb wb hg.2 (by simp [sb, hc])]
    try rfl
  · intro side ι aux c a b x y _ iha ihb hw hg hc
    simp only [WF, Bool.and_eq_true, List.isEmpty_iff, trueScalar] at hw
    obtain ⟨⟨⟨wa, wb⟩, sa, _⟩, sb, _⟩ := hw
    simp only [Adm, AdmL, Bool.and_true, Bool.and_eq_true] at hg
    simp only [shape, List.length_nil] at hc
    rw [fsT_op fx cfg _ _ _ rfl]
    simp only [fsTL, eval]
    rw [iha wa hg.1 (by simp [sa, hc]), ihb wb hg.2 (by simp [sb, hc])]
    try rfl
  · intro side ι aux c a b x y _ iha ihb hw hg hc
    simp only [WF, Bool.and_eq_true, List.isEmpty_iff, trueScalar] at hw
    obtain ⟨⟨⟨wa, wb⟩, sa, _⟩, sb, _⟩ := hw
    simp only [Adm, AdmL, Bool.and_true, Bool.and_eq_true] at hg
    simp only [shape, List.length_nil] at hc
    rw [fsT_op fx cfg _ _ _ rfl]
    simp only [fsTL, eval]
    rw [iha wa hg.1 (by simp [sa, hc]), ihb wb hg.2 (by simp [sb, hc])]
    try rfl
  -- 30 variable
  · intro side ι aux c a l ih hw hg hc
    cases l <;> simp only [WF, Bool.false_eq_true] at hw
    simp only [Adm, AdmL, Bool.and_true, Bool.and_eq_true] at hg
    simp only [shape] at hc
    rw [fsT_op fx cfg _ _ _ rfl]
    simp only [fsTL, fsT, eval]; exact ih hw hg.1 hc
  -- 31-32 restrictions
  · intro side ι aux c a ih hw hg hc
    simp only [WF] at hw; simp only [Adm, AdmL, Bool.and_true] at hg; simp only [shape] at hc
    rw [fsT_pos]
    simp only [eval]
    rw [← ih hw hg hc]
    split
    · rename_i hz
      obtain ⟨sh, f, he⟩ := isZero_eq' _ hz
      rw [he]; simp [eval]
    · simp only [eval]
  · intro side ι aux c a ih hw hg hc
    simp only [WF] at hw; simp only [Adm, AdmL, Bool.and_true] at hg; simp only [shape] at hc
    rw [fsT_neg]
    simp only [eval]
    rw [← ih hw hg hc]
    split
    · rename_i hz
      obtain ⟨sh, f, he⟩ := isZero_eq' _ hz
      rw [he]; simp [eval]
    · simp only [eval]
  -- 33 atan2
  · intro side ι aux c a b iha ihb hw hg hc
    simp only [WF, Bool.and_eq_true, List.isEmpty_iff, trueScalar] at hw
    obtain ⟨⟨⟨wa, wb⟩, sa, _⟩, sb, _⟩ := hw
    simp only [Adm, AdmL, Bool.and_true, Bool.and_eq_true] at hg
    simp only [shape, List.length_nil] at hc
    rw [fsT_op fx cfg _ _ _ rfl]
    simp only [fsTL, eval]
    rw [iha wa hg.1 (by simp [sa, hc]), ihb wb hg.2 (by simp [sb, hc])]
    try rfl
  -- 34-37 Bessel functions are outside the verified fragment
  · intro side ι aux c n x _ _ hw; simp [WF] at hw
  · intro side ι aux c n x _ _ hw; simp [WF] at hw
  · intro side ι aux c n x _ _ hw; simp [WF] at hw
  · intro side ι aux c n x _ _ hw; simp [WF] at hw
  -- 38-39 grad
  · intro side ι aux c a d k hk hw hg _
    simp only [Adm, hk, Bool.and_eq_true] at hg
    obtain ⟨hta, hgi⟩ := hg
    rw [fsT_op fx cfg _ _ _ rfl]
    simp only [fsTL]
    simp only [termAdm] at hta
    by_cases hc : (d.cls == "Argument") = true
    · rw [if_pos hc] at hta
      simp only [Bool.and_eq_true, beq_iff_eq] at hta
      simp only [gradOK, gradImgOK] at hgi
      have hft : fsT fx cfg (.term d) = splitArgT cfg d := by simp [fsT, hc]
      rcases img_cases cfg d with h | h | ⟨xs, h⟩
      · rw [chain_fix fx cfg a d k hk (by rw [hft, h])]
        simp only [eval, hk, imgEnv, hta.1, h]
      · rw [h] at hft
        simp only [eval, chain_zero fx cfg a d k hk _ _ hft, hk, imgEnv, hta.1, h]
      · rw [h] at hgi; simp at hgi; exact absurd (by simpa using hc) hgi
    · have hc' : (d.cls == "Argument") = false := by simpa using hc
      rw [if_neg hc] at hta
      simp only [Option.isNone_iff_eq_none] at hta
      rw [chain_fix fx cfg a d k hk (by simp [fsT, hc'])]
      simp only [eval, hk, imgEnv, hta]
  · intro side ι aux c a hk hw _ _
    simp [WF, hk] at hw
  -- 40-41 math functions
  · intro side ι aux c fnk a h1 h2 h3 h4 h5 h6 h7 h8 n hn ih hw hg hc
    have hwf : WF (.op fnk aux [a]) = (WF a && trueScalar a) := by
      cases fnk <;> simp_all [WF, mathName]
    have hsh : shape (.op fnk aux [a]) = [] := by
      cases fnk <;> simp_all [shape, mathName]
    have hgf : Adm none fx cfg A (.op fnk aux [a]) = Adm none fx cfg A a := by
      cases fnk <;> simp_all [Adm, AdmL, mathName]
    have hsp : isSpecial fnk = false := by
      cases fnk <;> simp_all [mathName, isSpecial]
    have hev : ∀ (ρ' : Env K) (x : Expr), eval ρ' side ι (.op fnk aux [x]) c = ρ'.fn n (eval ρ' side ι x c) := by
      intro ρ' x; cases fnk <;> simp_all [eval, mathName]
    rw [hwf] at hw
    simp only [Bool.and_eq_true, trueScalar, List.isEmpty_iff] at hw
    obtain ⟨wa, sa, fa⟩ := hw
    rw [hsh] at hc
    rw [hgf] at hg
    rw [fsT_op fx cfg _ _ _ hsp]
    simp only [fsTL]
    rw [hev, hev, ih wa hg (by simp [sa] at hc ⊢; exact hc)]
    rfl
  · intro side ι aux c fnk a h1 h2 h3 h4 h5 h6 h7 h8 hn hw
    cases fnk <;> simp_all [WF, mathName]
  -- 42 anything else is outside the verified fragment
  · intro side ι k aux args c
    intros
    intro hw
    unfold WF at hw
    split at hw <;> simp_all
  -- 43-48 comparisons
  · intro side ι aux a b iha ihb hw hg
    simp only [WFC, Bool.and_eq_true, List.isEmpty_iff, trueScalar] at hw
    obtain ⟨⟨⟨wa, wb⟩, sa, fa⟩, sb, fb⟩ := hw
    simp only [Adm, AdmL, Bool.and_true, Bool.and_eq_true] at hg
    rw [fsT_op fx cfg _ _ _ rfl]
    simp only [fsTL, evalB]
    rw [iha wa hg.1 (by simp [sa]), ihb wb hg.2 (by simp [sb])]
    try rfl
  · intro side ι aux a b iha ihb hw hg
    simp only [WFC, Bool.and_eq_true, List.isEmpty_iff, trueScalar] at hw
    obtain ⟨⟨⟨wa, wb⟩, sa, fa⟩, sb, fb⟩ := hw
    simp only [Adm, AdmL, Bool.and_true, Bool.and_eq_true] at hg
    rw [fsT_op fx cfg _ _ _ rfl]
    simp only [fsTL, evalB]
    rw [iha wa hg.1 (by simp [sa]), ihb wb hg.2 (by simp [sb])]
    try rfl
  · intro side ι aux a b iha ihb hw hg
    simp only [WFC, Bool.and_eq_true, List.isEmpty_iff, trueScalar] at hw
    obtain ⟨⟨⟨wa, wb⟩, sa, fa⟩, sb, fb⟩ := hw
    simp only [Adm, AdmL, Bool.and_true, Bool.and_eq_true] at hg
    rw [fsT_op fx cfg _ _ _ rfl]
    simp only [fsTL, evalB]
    rw [iha wa hg.1 (by simp [sa]), ihb wb hg.2 (by simp [sb])]
    try rfl
  · intro side ι aux a b ihb iha hw hg
    simp only [WFC, Bool.and_eq_true, List.isEmpty_iff, trueScalar] at hw
    obtain ⟨⟨⟨wa, wb⟩, sa, fa⟩, sb, fb⟩ := hw
    simp only [Adm, AdmL, Bool.and_true, Bool.and_eq_true] at hg
    rw [fsT_op fx cfg _ _ _ rfl]
    simp only [fsTL, evalB]
    rw [iha wa hg.1 (by simp [sa]), ihb wb hg.2 (by simp [sb])]
    try rfl
  · intro side ι aux a b ihb iha hw hg
    simp only [WFC, Bool.and_eq_true, List.isEmpty_iff, trueScalar] at hw
    obtain ⟨⟨⟨wa, wb⟩, sa, fa⟩, sb, fb⟩ := hw
    simp only [Adm, AdmL, Bool.and_true, Bool.and_eq_true] at hg
    rw [fsT_op fx cfg _ _ _ rfl]
    simp only [fsTL, evalB]
    rw [iha wa hg.1 (by simp [sa]), ihb wb hg.2 (by simp [sb])]
    try rfl
  · intro side ι aux a b iha ihb hw hg
    simp only [WFC, Bool.and_eq_true, List.isEmpty_iff, trueScalar] at hw
    obtain ⟨⟨⟨wa, wb⟩, sa, fa⟩, sb, fb⟩ := hw
    simp only [Adm, AdmL, Bool.and_true, Bool.and_eq_true] at hg
    rw [fsT_op fx cfg _ _ _ rfl]
    simp only [fsTL, evalB]
    rw [iha wa hg.1 (by simp [sa]), ihb wb hg.2 (by simp [sb])]
    try rfl
  -- 49-51 and / or / not
  · intro side ι aux a b iha ihb hw hg
    simp only [WFC, Bool.and_eq_true] at hw
    simp only [Adm, AdmL, Bool.and_true, Bool.and_eq_true] at hg
    rw [fsT_op fx cfg _ _ _ rfl]
    simp only [fsTL, evalB]; rw [iha hw.1 hg.1, ihb hw.2 hg.2]
  · intro side ι aux a b iha ihb hw hg
    simp only [WFC, Bool.and_eq_true] at hw
    simp only [Adm, AdmL, Bool.and_true, Bool.and_eq_true] at hg
    rw [fsT_op fx cfg _ _ _ rfl]
    simp only [fsTL, evalB]; rw [iha hw.1 hg.1, ihb hw.2 hg.2]
  · intro side ι aux a ih hw hg
    simp only [WFC] at hw
    simp only [Adm, AdmL, Bool.and_true, Bool.and_eq_true] at hg
    rw [fsT_op fx cfg _ _ _ rfl]
    simp only [fsTL, evalB]; rw [ih hw hg]
  -- 52-53 not a condition
  · intro side ι k aux args
    intros
    intro hw
    unfold WFC at hw
    split at hw <;> simp_all
  · intro t side ι
    intros
    intro hw
    unfold WFC at hw
    split at hw <;> simp_all
  -- 54-56 component selection in a list tensor
  · intro side ι n c _ _ _; simp [fsTL, evalNth]
  · intro side ι x tail c ih hw hg hc
    simp only [WFL, Bool.and_eq_true] at hw
    simp only [AdmL, Bool.and_eq_true] at hg
    simp only [fsTL, evalNth]
    exact ih hw.1 hg.1 (hc x (by simp))
  · intro side ι x xs n c ih hw hg hc
    simp only [WFL, Bool.and_eq_true] at hw
    simp only [AdmL, Bool.and_eq_true] at hg
    simp only [fsTL, evalNth]
    exact ih hw.2 hg.2 (fun y hy => hc y (by simp [hy]))

end Expr
end UflVerif