/-
Lemmas for C14 (the arity check): list utilities of the model, the environments of a linearity test,
"the value does not depend on terminals that do not occur" (`eval_override`), and the syntactic
content of an accepted arity (`cov`: the arity lists exactly the Argument terminals of the expression).
-/
import Mathlib.Algebra.Field.Defs
import Mathlib.Tactic.Ring
import UflVerif.Model.Arity
import UflVerif.Model.Eval
import UflVerif.Sem.Sum
import UflVerif.Sem.Congr
import UflVerif.Sem.FI

namespace UflVerif
namespace Arity
open Expr

/-! ### `set` / `sorted` -/

theorem mem_dedup {α : Type} [DecidableEq α] (y : α) : ∀ l : List α, y ∈ dedup l ↔ y ∈ l
  | [] => by simp [dedup]
  | x :: xs => by
    simp only [dedup, List.mem_cons, List.mem_filter, decide_eq_true_eq, mem_dedup y xs]
    by_cases h : y = x
    · simp [h]
    · simp [h]

theorem dedup_eq_nil {α : Type} [DecidableEq α] (l : List α) : dedup l = [] ↔ l = [] := by
  cases l <;> simp [dedup]

theorem mem_insertBy {α : Type} (le : α → α → Bool) (x y : α) : ∀ l : List α, y ∈ insertBy le x l ↔ y = x ∨ y ∈ l
  | [] => by simp [insertBy]
  | z :: zs => by
    unfold insertBy
    by_cases h : le x z = true
    · simp [h]
    · simp only [h, Bool.false_eq_true, ↓reduceIte, List.mem_cons, mem_insertBy le x y zs]
      constructor
      · rintro (h1 | h1 | h1) <;> simp [h1]
      · rintro (h1 | h1 | h1) <;> simp [h1]

theorem mem_sortBy {α : Type} (le : α → α → Bool) (y : α) : ∀ l : List α, y ∈ sortBy le l ↔ y ∈ l
  | [] => by simp [sortBy]
  | x :: xs => by
    have ih := mem_sortBy le y xs
    unfold sortBy at ih ⊢
    simp only [List.foldr_cons, mem_insertBy, ih, List.mem_cons]

theorem sortBy_eq_nil {α : Type} (le : α → α → Bool) (l : List α) : sortBy le l = [] ↔ l = [] := by
  constructor
  · intro h
    cases l with
    | nil => rfl
    | cons x xs =>
      have : x ∈ sortBy le (x :: xs) := (mem_sortBy le x _).2 (by simp)
      rw [h] at this; cases this
  · intro h; subst h; rfl

theorem mem_numbers (n : Int) (a : Ar) : n ∈ numbers a ↔ ∃ p ∈ a, p.1.count = n := by
  simp [numbers, List.mem_map]

theorem mem_conjAr (d : TermData) (b : Bool) (a : Ar) : (d, b) ∈ conjAr a ↔ (d, !b) ∈ a := by
  simp only [conjAr, List.mem_map, Prod.mk.injEq, Prod.exists]
  constructor
  · rintro ⟨d', b', h, rfl, rfl⟩; simpa using h
  · intro h; exact ⟨d, !b, h, rfl, by simp⟩

theorem numbers_conjAr (a : Ar) : numbers (conjAr a) = numbers a := by
  simp [numbers, conjAr, List.map_map, Function.comp_def]

theorem conjAr_eq_nil (a : Ar) : conjAr a = [] ↔ a = [] := by simp [conjAr]

theorem mem_numberKey (n : Int) (a : Ar) : n ∈ numberKey a ↔ n ∈ numbers a := by
  simp [numberKey, sortInt, mem_sortBy, mem_dedup]

theorem numberKey_eq_nil (a : Ar) : numberKey a = [] ↔ a = [] := by
  simp [numberKey, sortInt, sortBy_eq_nil, dedup_eq_nil, numbers]

/-- a list of length ≤ 1 has at most one member -/
theorem eq_of_mem_short {α : Type} (l : List α) (h : ¬ l.length > 1) (x y : α) (hx : x ∈ l) (hy : y ∈ l) : x = y := by
  match l, h, hx, hy with
  | [z], _, hx, hy => simp at hx hy; rw [hx, hy]
  | _ :: _ :: _, h, _, _ => simp at h

/-! ### the environments of a linearity test -/
section sem
variable {K : Type} [Field K]

/-- replace the data (values and derivative jets) of the terminals whose key satisfies `N` -/
def override (ρ : Env K) (N : String → Bool) (t : Side → String → List Nat → K)
    (j : Side → String → List Nat → List Nat → K) : Env K :=
  { ρ with term := fun sd k c => if N k then t sd k c else ρ.term sd k c,
           jet := fun sd k c ds => if N k then j sd k c ds else ρ.jet sd k c ds }

mutual
/-- no terminal of the expression has a key in `N` -/
def avoids (N : String → Bool) : Expr → Bool
  | .term d => !N d.key
  | .op _ _ args => avoidsL N args
  | _ => true
def avoidsL (N : String → Bool) : List Expr → Bool
  | [] => true
  | a :: as => avoids N a && avoidsL N as
end

theorem avoids_chain (N : String → Bool) : ∀ (a : Expr) (p : TermData × Nat), gradChain a = some p →
    avoids N a = true → N p.1.key = false := by
  intro a
  fun_induction gradChain a with
  | case1 d => intro p h ha; simp at h; subst h; simpa [avoids] using ha
  | case2 aux a d k hk ih =>
    intro p h ha
    simp at h; subst h
    exact ih (d, k) hk (by simpa [avoids, avoidsL] using ha)
  | case3 aux a hk ih => intro p h; simp at h
  | case4 e h1 h2 => intro p h; simp at h

/-! ### the value depends on the data of the terminals that occur only -/

theorem override_aux (ρ : Env K) (N : String → Bool) (t : Side → String → List Nat → K)
    (j : Side → String → List Nat → List Nat → K) :
    (∀ side ι e c, avoids N e = true → eval (override ρ N t j) side ι e c = eval ρ side ι e c) ∧
    (∀ side ι p, avoids N p = true → evalB (override ρ N t j) side ι p = evalB ρ side ι p) ∧
    (∀ side ι xs n c, avoidsL N xs = true → evalNth (override ρ N t j) side ι xs n c = evalNth ρ side ι xs n c) := by
  apply eval.mutual_induct ρ
    (motive_1 := fun side ι e c => avoids N e = true → eval (override ρ N t j) side ι e c = eval ρ side ι e c)
    (motive_2 := fun side ι p => avoids N p = true → evalB (override ρ N t j) side ι p = evalB ρ side ι p)
    (motive_3 := fun side ι xs n c => avoidsL N xs = true → evalNth (override ρ N t j) side ι xs n c = evalNth ρ side ι xs n c)
  all_goals (intros; try (simp_all [eval, evalB, evalNth, avoids, avoidsL, override]; done))
  -- grad of a terminal: its key is not in N
  rename_i side ι aux c a d k hk ha
  have hN := avoids_chain N a (d, k) hk (by simpa [avoids, avoidsL] using ha)
  simp only [eval, hk]
  simp only [override]
  simp [hN]

theorem eval_override (ρ : Env K) (N : String → Bool) (t : Side → String → List Nat → K)
    (j : Side → String → List Nat → List Nat → K) (side : Side) (ι : IdxEnv) (e : Expr) (c : List Nat)
    (h : avoids N e = true) : eval (override ρ N t j) side ι e c = eval ρ side ι e c :=
  (override_aux ρ N t j).1 side ι e c h

theorem evalB_override (ρ : Env K) (N : String → Bool) (t : Side → String → List Nat → K)
    (j : Side → String → List Nat → List Nat → K) (side : Side) (ι : IdxEnv) (p : Expr)
    (h : avoids N p = true) : evalB (override ρ N t j) side ι p = evalB ρ side ι p :=
  (override_aux ρ N t j).2.1 side ι p h

end sem

/-! ### syntactic predicates -/

mutual
/-- the Argument terminals of an expression -/
def argTerms : Expr → List TermData
  | .term d => if d.cls = "Argument" then [d] else []
  | .op _ _ args => argTermsL args
  | _ => []
def argTermsL : List Expr → List TermData
  | [] => []
  | a :: as => argTerms a ++ argTermsL as
end

/-- side condition of `shaped` at one node -/
def shapedAt (h : Handler) (args : List Expr) : Bool :=
  match h, args with
  | .variable, [_, l] => !hasArg l
  | .linearIndexed, [_, i] => !hasArg i
  | _, _ => true

mutual
/- operands whose arity the handlers drop (the label of a Variable, the multi-index of
   Indexed / IndexSum / ComponentTensor) contain no Argument: true of every UFL tree -/
def shaped : Expr → Bool
  | .op k _ args => shapedL args && shapedAt (handlerOf k) args
  | _ => true
def shapedL : List Expr → Bool
  | [] => true
  | a :: as => shaped a && shapedL as
end

mutual
/-- `N` marks exactly the keys of the Argument terminals with number `n` -/
def tied (N : String → Bool) (n : Int) : Expr → Bool
  | .term d => N d.key == (d.cls == "Argument" && d.count == n)
  | .op _ _ args => tiedL N n args
  | _ => true
def tiedL (N : String → Bool) (n : Int) : List Expr → Bool
  | [] => true
  | a :: as => tied N n a && tiedL N n as
end

mutual
/-- a list tensor that has components with arguments has `Zero` for every other component -/
def zeroFill : Expr → Bool
  | .op k _ args =>
    zeroFillL args &&
    (match k with
     | .listTensor => !hasArgL args || args.all (fun x => hasArg x || isZero x)
     | _ => true)
  | _ => true
def zeroFillL : List Expr → Bool
  | [] => true
  | a :: as => zeroFill a && zeroFillL as
end

mutual
theorem hasArg_iff : ∀ e : Expr, hasArg e = true ↔ argTerms e ≠ []
  | .term d => by by_cases h : d.cls = "Argument" <;> simp [hasArg, argTerms, h]
  | .op k aux args => by simpa [hasArg, argTerms] using hasArgL_iff args
  | .int _ => by simp [hasArg, argTerms]
  | .real _ _ => by simp [hasArg, argTerms]
  | .cplx _ _ _ _ => by simp [hasArg, argTerms]
  | .zero _ _ => by simp [hasArg, argTerms]
  | .mi _ => by simp [hasArg, argTerms]
theorem hasArgL_iff : ∀ es : List Expr, hasArgL es = true ↔ argTermsL es ≠ []
  | [] => by simp [hasArgL, argTermsL]
  | a :: as => by
    simp only [hasArgL, argTermsL, Bool.or_eq_true, hasArg_iff a, hasArgL_iff as, ne_eq, List.append_eq_nil_iff, not_and_or]
end

theorem hasArg_false (e : Expr) : hasArg e = false ↔ argTerms e = [] := by
  have := hasArg_iff e
  cases h : hasArg e <;> simp_all

theorem hasArgL_false (es : List Expr) : hasArgL es = false ↔ argTermsL es = [] := by
  have := hasArgL_iff es
  cases h : hasArgL es <;> simp_all

/- tied + no Argument terminal with number n ⇒ no terminal has a key in N -/
mutual
theorem avoids_of_tied (N : String → Bool) (n : Int) : ∀ e : Expr, tied N n e = true →
    (∀ d ∈ argTerms e, d.count ≠ n) → avoids N e = true
  | .term d => by
    intro ht hd
    simp only [tied, beq_iff_eq] at ht
    simp only [avoids, ht]
    by_cases h : d.cls = "Argument"
    · have := hd d (by simp [argTerms, h])
      simp [h, this]
    · simp [h]
  | .op k aux args => by
    intro ht hd
    simp only [tied] at ht; simp only [argTerms] at hd; simp only [avoids]
    exact avoidsL_of_tied N n args ht hd
  | .int _ => by intros; simp [avoids]
  | .real _ _ => by intros; simp [avoids]
  | .cplx _ _ _ _ => by intros; simp [avoids]
  | .zero _ _ => by intros; simp [avoids]
  | .mi _ => by intros; simp [avoids]
theorem avoidsL_of_tied (N : String → Bool) (n : Int) : ∀ es : List Expr, tiedL N n es = true →
    (∀ d ∈ argTermsL es, d.count ≠ n) → avoidsL N es = true
  | [] => by intros; simp [avoidsL]
  | a :: as => by
    intro ht hd
    simp only [tiedL, Bool.and_eq_true] at ht
    simp only [argTermsL, List.mem_append] at hd
    simp only [avoidsL, Bool.and_eq_true]
    exact ⟨avoids_of_tied N n a ht.1 (fun d h => hd d (Or.inl h)), avoidsL_of_tied N n as ht.2 (fun d h => hd d (Or.inr h))⟩
end

/-! ### what a successful handler call says -/

theorem hSum_ok {a b A : Ar} (h : hSum a b = .ok A) : a = b ∧ A = a := by
  unfold hSum at h
  split at h
  · rename_i hab; cases h; exact ⟨hab, rfl⟩
  · cases h

theorem hDivision_ok {a b A : Ar} (h : hDivision a b = .ok A) : b = [] ∧ A = a := by
  unfold hDivision at h
  split at h
  · rename_i hb; cases h; exact ⟨hb, rfl⟩
  · cases h

theorem hProduct_ok {a b A : Ar} (h : hProduct a b = .ok A) :
    (a ≠ [] ∧ b ≠ [] ∧ (∀ x ∈ b, x.1.count ∉ numbers a) ∧ (∀ p, p ∈ A ↔ p ∈ a ∨ p ∈ b)) ∨
    (a ≠ [] ∧ b = [] ∧ A = a) ∨ (a = [] ∧ A = b) := by
  unfold hProduct at h
  split at h
  · rename_i hab
    split at h
    · cases h
    · rename_i hany
      simp only at h
      split at h
      · cases h
      · cases h
        left
        refine ⟨hab.1, hab.2, ?_, ?_⟩
        · intro x hx hn
          apply hany
          simp only [List.any_eq_true]
          exact ⟨x, hx, by simpa using hn⟩
        · intro p
          simp [sortAr, mem_sortBy, mem_dedup]
  · rename_i hab
    split at h
    · rename_i ha
      cases h
      right; left
      refine ⟨ha, ?_, rfl⟩
      by_cases hb : b = []
      · exact hb
      · exact absurd ⟨ha, hb⟩ hab
    · rename_i ha
      cases h
      right; right
      exact ⟨by simpa using ha, rfl⟩

theorem hConditional_ok {t f : Expr} {c a b A : Ar} (h : hConditional t f c a b = .ok A) :
    c = [] ∧ ((a ≠ [] ∧ isZero f = true ∧ A = a) ∨ (b ≠ [] ∧ isZero t = true ∧ A = b) ∨ (a = b ∧ A = a)) := by
  unfold hConditional at h
  split at h
  · cases h
  · rename_i hc
    refine ⟨by simpa using hc, ?_⟩
    split at h
    · rename_i h1; cases h; exact Or.inl ⟨h1.1, h1.2, rfl⟩
    · split at h
      · rename_i h2; cases h; exact Or.inr (Or.inl ⟨h2.1, h2.2, rfl⟩)
      · split at h
        · rename_i h3; cases h; exact Or.inr (Or.inr ⟨h3, rfl⟩)
        · cases h

theorem hListTensor_ok {st : Bool} {xs : List Expr} {ops : List Ar} {A : Ar} (h : hListTensor st xs ops = .ok A) :
    (ops.flatten = [] ∧ A = []) ∨
    (ops.flatten ≠ [] ∧ (st = true → zeroFilled xs ops = true) ∧
      (∀ r1 ∈ ops, ∀ r2 ∈ ops, r1 ≠ [] → r2 ≠ [] → numberKey r1 = numberKey r2) ∧
      (∀ p, p ∈ A ↔ p ∈ ops.flatten)) := by
  unfold hListTensor at h
  simp only at h
  split at h
  · rename_i h0
    cases h
    left
    exact ⟨(dedup_eq_nil _).1 h0, rfl⟩
  · rename_i h0
    split at h
    · cases h
    · rename_i hz
      split at h
      · cases h
      · rename_i hn
        cases h
        right
        refine ⟨fun e => h0 ((dedup_eq_nil _).2 e), ?_, ?_, ?_⟩
        · intro hs
          subst hs
          simpa using hz
        · intro r1 h1 r2 h2 n1 n2
          apply eq_of_mem_short _ hn
          · simp only [List.mem_filter, mem_dedup, List.mem_map, decide_eq_true_eq]
            exact ⟨⟨r1, h1, rfl⟩, fun e => n1 ((numberKey_eq_nil r1).1 e)⟩
          · simp only [List.mem_filter, mem_dedup, List.mem_map, decide_eq_true_eq]
            exact ⟨⟨r2, h2, rfl⟩, fun e => n2 ((numberKey_eq_nil r2).1 e)⟩
        · intro p
          simp [sortAr, mem_sortBy, mem_dedup]

theorem forall2_one {α β : Type} {R : α → β → Prop} {as : List α} {r : β} (h : List.Forall₂ R as [r]) :
    ∃ a, as = [a] ∧ R a r := by
  cases h with
  | cons h1 t => cases t; exact ⟨_, rfl, h1⟩

theorem forall2_two {α β : Type} {R : α → β → Prop} {as : List α} {r1 r2 : β} (h : List.Forall₂ R as [r1, r2]) :
    ∃ a b, as = [a, b] ∧ R a r1 ∧ R b r2 := by
  cases h with
  | cons h1 t =>
    obtain ⟨b, rfl, h2⟩ := forall2_one t
    exact ⟨_, _, rfl, h1, h2⟩

theorem forall2_three {α β : Type} {R : α → β → Prop} {as : List α} {r1 r2 r3 : β} (h : List.Forall₂ R as [r1, r2, r3]) :
    ∃ a b c, as = [a, b, c] ∧ R a r1 ∧ R b r2 ∧ R c r3 := by
  cases h with
  | cons h1 t =>
    obtain ⟨b, c, rfl, h2, h3⟩ := forall2_two t
    exact ⟨_, _, _, rfl, h1, h2, h3⟩

theorem arityL_ok (st : Bool) : ∀ (as : List Expr) (rs : List Ar), arityL st as = .ok rs →
    List.Forall₂ (fun a r => arity st a = .ok r) as rs
  | [], rs, h => by simp [arityL] at h; subst h; exact .nil
  | a :: as, rs, h => by
    unfold arityL at h
    split at h
    · cases h
    · rename_i rs' hrs
      split at h
      · cases h
      · rename_i r hr
        cases h
        exact .cons hr (arityL_ok st as rs' hrs)

/-! ### an accepted arity lists exactly the Argument terminals -/

/-- `A` mentions exactly the arguments in `ds` -/
def CovL (ds : List TermData) (A : Ar) : Prop := (∀ d ∈ ds, ∃ b, (d, b) ∈ A) ∧ (∀ p ∈ A, p.1 ∈ ds)

theorem covL_nil : CovL [] [] := ⟨by simp, by simp⟩

theorem covL_nil_right {ds : List TermData} (h : CovL ds []) : ds = [] := by
  cases ds with
  | nil => rfl
  | cons d _ => obtain ⟨b, hb⟩ := h.1 d (by simp); cases hb

theorem covL_nil_left {A : Ar} (h : CovL [] A) : A = [] := by
  cases A with
  | nil => rfl
  | cons p _ => have := h.2 p (by simp); cases this

theorem covL_congr {ds : List TermData} {A A' : Ar} (hm : ∀ p, p ∈ A' ↔ p ∈ A) (h : CovL ds A) : CovL ds A' :=
  ⟨fun d hd => by obtain ⟨b, hb⟩ := h.1 d hd; exact ⟨b, (hm _).2 hb⟩, fun p hp => h.2 p ((hm p).1 hp)⟩

theorem covL_append {d1 d2 : List TermData} {A1 A2 A : Ar} (h1 : CovL d1 A1) (h2 : CovL d2 A2)
    (hm : ∀ p, p ∈ A ↔ p ∈ A1 ∨ p ∈ A2) : CovL (d1 ++ d2) A := by
  constructor
  · intro d hd
    rcases List.mem_append.1 hd with h | h
    · obtain ⟨b, hb⟩ := h1.1 d h; exact ⟨b, (hm _).2 (Or.inl hb)⟩
    · obtain ⟨b, hb⟩ := h2.1 d h; exact ⟨b, (hm _).2 (Or.inr hb)⟩
  · intro p hp
    rcases (hm p).1 hp with h | h
    · exact List.mem_append.2 (Or.inl (h1.2 p h))
    · exact List.mem_append.2 (Or.inr (h2.2 p h))

theorem covL_conj {ds : List TermData} {A : Ar} (h : CovL ds A) : CovL ds (conjAr A) := by
  constructor
  · intro d hd
    obtain ⟨b, hb⟩ := h.1 d hd
    exact ⟨!b, (mem_conjAr d (!b) A).2 (by simpa using hb)⟩
  · intro p hp
    obtain ⟨d, b⟩ := p
    exact h.2 (d, !b) ((mem_conjAr d b A).1 hp)

theorem covL_flatten : ∀ {xs : List Expr} {ops : List Ar},
    List.Forall₂ (fun a r => CovL (argTerms a) r) xs ops → CovL (argTermsL xs) ops.flatten
  | _, _, .nil => by simpa [argTermsL] using covL_nil
  | _, _, .cons h t => by
    simp only [argTermsL, List.flatten_cons]
    exact covL_append h (covL_flatten t) (fun p => List.mem_append)

theorem isZero_argTerms (x : Expr) (h : isZero x = true) : argTerms x = [] := by
  cases x <;> simp_all [isZero, argTerms]

theorem cov_step (st : Bool) (h : Handler) (args : List Expr) (rs : List Ar) (A : Ar)
    (hrun : runHandler st h args rs = .ok A)
    (hcov : List.Forall₂ (fun a r => CovL (argTerms a) r) args rs) (hsh : shapedAt h args = true) :
    CovL (argTermsL args) A := by
  cases h
  case terminal => simp [runHandler] at hrun
  case argument => simp [runHandler] at hrun
  case nonlinear => simp [runHandler] at hrun
  case sum =>
    simp only [runHandler] at hrun
    split at hrun
    · obtain ⟨a, b, rfl, ha, hb⟩ := forall2_two hcov
      obtain ⟨rfl, rfl⟩ := hSum_ok hrun
      simp only [argTermsL, List.append_nil]
      exact covL_append ha hb (by simp)
    · cases hrun
  case division =>
    simp only [runHandler] at hrun
    split at hrun
    · obtain ⟨a, b, rfl, ha, hb⟩ := forall2_two hcov
      obtain ⟨rfl, rfl⟩ := hDivision_ok hrun
      simp only [argTermsL, List.append_nil]
      exact covL_append ha hb (by simp)
    · cases hrun
  case product =>
    simp only [runHandler] at hrun
    split at hrun
    · obtain ⟨a, b, rfl, ha, hb⟩ := forall2_two hcov
      simp only [argTermsL, List.append_nil]
      rcases hProduct_ok hrun with ⟨_, _, _, hm⟩ | ⟨_, rfl, rfl⟩ | ⟨rfl, rfl⟩
      · exact covL_append ha hb hm
      · exact covL_append ha hb (by simp)
      · exact covL_append ha hb (by simp)
    · cases hrun
  case inner =>
    simp only [runHandler] at hrun
    split at hrun
    · obtain ⟨a, b, rfl, ha, hb⟩ := forall2_two hcov
      simp only [argTermsL, List.append_nil]
      have hb' := covL_conj hb
      rcases hProduct_ok hrun with ⟨_, _, _, hm⟩ | ⟨_, he, rfl⟩ | ⟨rfl, rfl⟩
      · exact covL_append ha hb' hm
      · rw [he] at hb'; exact covL_append ha hb' (by simp)
      · exact covL_append ha hb' (by simp)
    · cases hrun
  case outer =>
    simp only [runHandler] at hrun
    split at hrun
    · obtain ⟨a, b, rfl, ha, hb⟩ := forall2_two hcov
      simp only [argTermsL, List.append_nil]
      have ha' := covL_conj ha
      rcases hProduct_ok hrun with ⟨_, _, _, hm⟩ | ⟨_, rfl, rfl⟩ | ⟨he, rfl⟩
      · exact covL_append ha' hb hm
      · exact covL_append ha' hb (by simp)
      · rw [he] at ha'; exact covL_append ha' hb (by simp)
    · cases hrun
  case linearOperator =>
    simp only [runHandler] at hrun
    split at hrun
    · obtain ⟨a, rfl, ha⟩ := forall2_one hcov
      cases hrun
      simpa [argTermsL] using ha
    · cases hrun
  case conj =>
    simp only [runHandler] at hrun
    split at hrun
    · obtain ⟨a, rfl, ha⟩ := forall2_one hcov
      cases hrun
      simpa [argTermsL] using covL_conj ha
    · cases hrun
  case «variable» =>
    simp only [runHandler] at hrun
    split at hrun
    · obtain ⟨a, l, rfl, ha, hl⟩ := forall2_two hcov
      cases hrun
      simp only [shapedAt, Bool.not_eq_eq_eq_not, Bool.not_true] at hsh
      simp [argTermsL, (hasArg_false l).1 hsh]
      exact ha
    · cases hrun
  case linearIndexed =>
    simp only [runHandler] at hrun
    split at hrun
    · obtain ⟨a, l, rfl, ha, hl⟩ := forall2_two hcov
      cases hrun
      simp only [shapedAt, Bool.not_eq_eq_eq_not, Bool.not_true] at hsh
      simp [argTermsL, (hasArg_false l).1 hsh]
      exact ha
    · cases hrun
  case conditional =>
    simp only [runHandler] at hrun
    split at hrun
    · obtain ⟨p, t, f, hargs, hp, ht, hf⟩ := forall2_three hcov
      cases hargs
      obtain ⟨rfl, hcase⟩ := hConditional_ok hrun
      have hp0 := covL_nil_right hp
      simp only [argTermsL, List.append_nil, hp0, List.nil_append]
      rcases hcase with ⟨_, hz, rfl⟩ | ⟨_, hz, rfl⟩ | ⟨rfl, rfl⟩
      · have hf0 := covL_nil_left (isZero_argTerms _ hz ▸ hf)
        subst hf0
        exact covL_append ht hf (by simp)
      · have ht0 := covL_nil_left (isZero_argTerms _ hz ▸ ht)
        subst ht0
        exact covL_append ht hf (by simp)
      · exact covL_append ht hf (by simp)
    · cases hrun
  case listTensor =>
    simp only [runHandler] at hrun
    rcases hListTensor_ok hrun with ⟨h0, rfl⟩ | ⟨_, _, _, hm⟩
    · have := covL_flatten hcov
      rw [h0] at this
      exact this
    · exact covL_congr hm (covL_flatten hcov)

mutual
theorem cov (st : Bool) : ∀ (e : Expr) (A : Ar), arity st e = .ok A → shaped e = true → CovL (argTerms e) A
  | .term d, A, h, _ => by
    unfold arity at h
    by_cases hd : d.cls = "Argument"
    · simp [termHandler, hd] at h
      subst h
      simp only [argTerms, hd, ↓reduceIte]
      exact ⟨fun d' hd' => ⟨false, by simpa using hd'⟩, fun p hp => by simp at hp; simp [hp]⟩
    · simp [termHandler, hd] at h
      subst h
      simp only [argTerms, hd, ↓reduceIte]
      exact covL_nil
  | .op k aux args, A, h, hs => by
    unfold arity at h
    simp only [shaped, Bool.and_eq_true] at hs
    simp only [argTerms]
    split at h
    · split at h
      · cases h
      · rename_i hna
        cases h
        rw [(hasArgL_false args).1 (by simpa using hna)]
        exact covL_nil
    · split at h
      · cases h
      · rename_i rs hrs
        exact cov_step st (handlerOf k) args rs A h (covList st args rs hrs hs.1) hs.2
  | .int _, A, h, _ => by simp [arity] at h; subst h; simpa [argTerms] using covL_nil
  | .real _ _, A, h, _ => by simp [arity] at h; subst h; simpa [argTerms] using covL_nil
  | .cplx _ _ _ _, A, h, _ => by simp [arity] at h; subst h; simpa [argTerms] using covL_nil
  | .zero _ _, A, h, _ => by simp [arity] at h; subst h; simpa [argTerms] using covL_nil
  | .mi _, A, h, _ => by simp [arity] at h; subst h; simpa [argTerms] using covL_nil
theorem covList (st : Bool) : ∀ (as : List Expr) (rs : List Ar), arityL st as = .ok rs → shapedL as = true →
    List.Forall₂ (fun a r => CovL (argTerms a) r) as rs
  | [], rs, h, _ => by simp [arityL] at h; subst h; exact .nil
  | a :: as, rs, h, hs => by
    simp only [shapedL, Bool.and_eq_true] at hs
    unfold arityL at h
    split at h
    · cases h
    · rename_i rs' hrs
      split at h
      · cases h
      · rename_i r hr
        cases h
        exact .cons (cov st a r hr hs.1) (covList st as rs' hrs hs.2)
end

/-- an operand whose arity does not mention number `n` does not depend on the data of argument `n` -/
theorem avoids_of_arity (st : Bool) (N : String → Bool) (n : Int) (e : Expr) (A : Ar) (h : arity st e = .ok A)
    (hs : shaped e = true) (ht : tied N n e = true) (hn : n ∉ numbers A) : avoids N e = true := by
  apply avoids_of_tied N n e ht
  intro d hd hc
  obtain ⟨b, hb⟩ := (cov st e A h hs).1 d hd
  exact hn ((mem_numbers n A).2 ⟨(d, b), hb, hc⟩)

end Arity
end UflVerif
