/-
Free-index lists under a (not necessarily injective) substitution of indices `θ : Nat → Idx`:
an index count may be sent to another index (free image) or to a fixed value (then it disappears).
`Sub θ f g` says that `g` holds exactly the free images of the indices of `f`, with their extents;
`Ext θ f` is the compatibility of extents needed for that to make sense.  Preservation by merge /
remove / the insertion of the indices of a multi-index, and the treatment of `Zero` by `replZero`.
-/
import UflVerif.Sem.Rename
import UflVerif.Model.IndexSubst

namespace UflVerif
namespace Expr
namespace IdxSubst
open FIlemmas Rename

/-- `g` = the free images under `θ` of the indices of `f`, with the same extents -/
structure Sub (θ : Nat → Idx) (f g : FI) : Prop where
  fwd : ∀ i k, FI.has i f = true → θ i = .free k → FI.has k g = true ∧ FI.dimOf k g = FI.dimOf i f
  bwd : ∀ k, FI.has k g = true → ∃ i, FI.has i f = true ∧ θ i = .free k

/-- indices sent to the same index have the same extent -/
def Compat (θ : Nat → Idx) (f : FI) : Prop :=
  ∀ i i' k, FI.has i f = true → FI.has i' f = true → θ i = .free k → θ i' = .free k → FI.dimOf i f = FI.dimOf i' f

/-- a fixed image lies within the extent -/
def FixOK (θ : Nat → Idx) (f : FI) : Prop :=
  ∀ i v, FI.has i f = true → θ i = .fixed v → v < FI.dimOf i f

def Ext (θ : Nat → Idx) (f : FI) : Prop := Compat θ f ∧ FixOK θ f

/-- every index of `g` is in `f` with the same extent -/
def FIle (g f : FI) : Prop := ∀ i, FI.has i g = true → FI.has i f = true ∧ FI.dimOf i g = FI.dimOf i f

/-- the substitution leaves `j` alone and sends nothing else to it -/
def HygJ (θ : Nat → Idx) (j : Nat) : Prop := θ j = .free j ∧ ∀ i, θ i = .free j → i = j

variable {θ : Nat → Idx}

@[simp] theorem substI_free (θ : Nat → Idx) (c : Nat) : substI θ (.free c) = θ c := rfl
@[simp] theorem substI_fixed (θ : Nat → Idx) (v : Nat) : substI θ (.fixed v) = .fixed v := rfl

theorem Sub.nil : Sub θ [] [] := ⟨fun i k h => by simp [FI.has] at h, fun k h => by simp [FI.has] at h⟩

theorem Sub.nil_eq {g : FI} (h : Sub θ [] g) : g = [] := by
  cases g with
  | nil => rfl
  | cons q qs =>
    have hq : FI.has q.1 (q :: qs) = true := by simp [FI.has]
    obtain ⟨i, hi, _⟩ := h.bwd q.1 hq
    simp [FI.has] at hi

theorem Sub.unique {f g g' : FI} (h : Sub θ f g) (h' : Sub θ f g') (sg : Sorted g) (sg' : Sorted g') : g = g' := by
  have key : ∀ {a b : FI}, Sub θ f a → Sub θ f b → ∀ k, FI.has k a = true → FI.has k b = true ∧ FI.dimOf k a = FI.dimOf k b := by
    intro a b ha hb k hk
    obtain ⟨i, hi, ht⟩ := ha.bwd k hk
    exact ⟨(hb.fwd i k hi ht).1, by rw [(ha.fwd i k hi ht).2, (hb.fwd i k hi ht).2]⟩
  apply sorted_ext g g' sg sg'
  · intro k
    cases hk : FI.has k g with
    | true => exact ((key h h' k hk).1).symm
    | false =>
      cases hk' : FI.has k g' with
      | false => rfl
      | true => rw [(key h' h k hk').1] at hk; cases hk
  · intro k
    cases hk : FI.has k g with
    | true => exact (key h h' k hk).2
    | false =>
      cases hk' : FI.has k g' with
      | false => rw [C05.dim_nothas _ _ hk, C05.dim_nothas _ _ hk']
      | true => rw [(key h' h k hk').1] at hk; cases hk

/-! ### sub-lists -/

theorem FIle.rfl' (f : FI) : FIle f f := fun _ h => ⟨h, rfl⟩

theorem FIle.trans {a b c : FI} (h1 : FIle a b) (h2 : FIle b c) : FIle a c := fun i hi =>
  ⟨(h2 i (h1 i hi).1).1, by rw [(h1 i hi).2, (h2 i (h1 i hi).1).2]⟩

theorem FIle.merge_left (a b : FI) (sa : Sorted a) : FIle a (FI.merge a b) := fun i hi =>
  ⟨by rw [has_merge, hi]; rfl, (dimOf_merge_left a b i sa hi).symm⟩

theorem FIle.merge_right (a b : FI) (sa : Sorted a) (hd : DimsAgree a b) : FIle b (FI.merge a b) := fun i hi => by
  refine ⟨by rw [has_merge, hi]; simp, ?_⟩
  rw [C05.merge_dim a b sa i]
  by_cases ha : FI.has i a = true
  · simp only [ha, ↓reduceIte]; exact (hd i ha hi).symm
  · simp only [ha, Bool.false_eq_true, ↓reduceIte]

theorem FIle.remove (j : Nat) (f : FI) : FIle (FI.remove j f) f := fun i hi => by
  rw [has_remove] at hi
  simp only [Bool.and_eq_true, decide_eq_true_eq] at hi
  exact ⟨hi.1, dimOf_remove i j hi.2 f⟩

theorem FIle.foldl_remove : ∀ (cs : List Nat) (f : FI), FIle (cs.foldl (fun acc c => FI.remove c acc) f) f
  | [], f => FIle.rfl' f
  | c :: cs, f => (FIle.foldl_remove cs (FI.remove c f)).trans (FIle.remove c f)

theorem FIle.foldl_insert (ps : List (Nat × Nat)) (f : FI) (sf : Sorted f) :
    FIle f (ps.foldl (fun acc p => FI.insert p acc) f) := fun i hi =>
  ⟨by rw [has_foldl_insert, hi]; rfl, (dimOf_foldl_insert_has i ps f sf hi).symm⟩

theorem Ext.nil : Ext θ [] :=
  ⟨fun i _ _ h => by simp [FI.has] at h, fun i _ h => by simp [FI.has] at h⟩

theorem Ext.of_le {f g : FI} (h : Ext θ f) (hle : FIle g f) : Ext θ g := by
  refine ⟨fun i i' k hi hi' ti ti' => ?_, fun i v hi ti => ?_⟩
  · rw [(hle i hi).2, (hle i' hi').2]
    exact h.1 i i' k (hle i hi).1 (hle i' hi').1 ti ti'
  · rw [(hle i hi).2]
    exact h.2 i v (hle i hi).1 ti

theorem Ext.unremove {j : Nat} {f : FI} (hj : HygJ θ j) (h : Ext θ (FI.remove j f)) : Ext θ f := by
  have hin : ∀ i, i ≠ j → FI.has i f = true → FI.has i (FI.remove j f) = true := by
    intro i hij hi; rw [has_remove, hi]; simp [hij]
  refine ⟨fun i i' k hi hi' ti ti' => ?_, fun i v hi ti => ?_⟩
  · by_cases e1 : i = j
    · subst e1
      have ek : k = i := by have := hj.1; rw [ti] at this; exact Idx.free.inj this
      subst ek
      rw [hj.2 i' ti']
    · by_cases e2 : i' = j
      · subst e2
        have ek : k = i' := by have := hj.1; rw [ti'] at this; exact Idx.free.inj this
        subst ek
        exact absurd (hj.2 i ti) e1
      · have := h.1 i i' k (hin i e1 hi) (hin i' e2 hi') ti ti'
        rwa [dimOf_remove i j e1, dimOf_remove i' j e2] at this
  · have e1 : i ≠ j := by
      intro e; subst e; have := hj.1; rw [ti] at this; cases this
    have := h.2 i v (hin i e1 hi) ti
    rwa [dimOf_remove i j e1] at this

theorem Ext.unremove_foldl : ∀ (cs : List Nat) (f : FI), (∀ c ∈ cs, HygJ θ c) →
    Ext θ (cs.foldl (fun acc c => FI.remove c acc) f) → Ext θ f
  | [], _, _, h => h
  | c :: cs, f, hc, h =>
    Ext.unremove (hc c (by simp)) (Ext.unremove_foldl cs (FI.remove c f) (fun x hx => hc x (by simp [hx])) h)

/-! ### the relation is preserved by the free-index operations -/

theorem Sub.merge {fa fb ga gb : FI} (sfa : Sorted fa) (sga : Sorted ga) (ha : Sub θ fa ga) (hb : Sub θ fb gb)
    (hc : Compat θ (FI.merge fa fb)) : Sub θ (FI.merge fa fb) (FI.merge ga gb) := by
  refine ⟨fun i k hi ti => ?_, fun k hk => ?_⟩
  · rw [has_merge] at hi
    by_cases hia : FI.has i fa = true
    · obtain ⟨h1, h2⟩ := ha.fwd i k hia ti
      refine ⟨by rw [has_merge, h1]; rfl, ?_⟩
      rw [dimOf_merge_left ga gb k sga h1, h2, dimOf_merge_left fa fb i sfa hia]
    · have hib : FI.has i fb = true := by simpa [hia] using hi
      have hia' : FI.has i fa = false := by simpa using hia
      obtain ⟨h1, h2⟩ := hb.fwd i k hib ti
      refine ⟨by rw [has_merge, h1]; simp, ?_⟩
      rw [dimOf_merge_right fa fb i sfa hia']
      by_cases hka : FI.has k ga = true
      · obtain ⟨i1, hi1, t1⟩ := ha.bwd k hka
        rw [dimOf_merge_left ga gb k sga hka, (ha.fwd i1 k hi1 t1).2]
        have := hc i1 i k (by rw [has_merge, hi1]; rfl) (by rw [has_merge, hib]; simp) t1 ti
        rw [dimOf_merge_left fa fb i1 sfa hi1, dimOf_merge_right fa fb i sfa hia'] at this
        exact this
      · have hka' : FI.has k ga = false := by simpa using hka
        rw [dimOf_merge_right ga gb k sga hka', h2]
  · rw [has_merge] at hk
    simp only [Bool.or_eq_true] at hk
    rcases hk with hk | hk
    · obtain ⟨i, hi, ti⟩ := ha.bwd k hk
      exact ⟨i, by rw [has_merge, hi]; rfl, ti⟩
    · obtain ⟨i, hi, ti⟩ := hb.bwd k hk
      exact ⟨i, by rw [has_merge, hi]; simp, ti⟩

theorem Sub.remove {f g : FI} {j : Nat} (hj : HygJ θ j) (h : Sub θ f g) : Sub θ (FI.remove j f) (FI.remove j g) := by
  refine ⟨fun i k hi ti => ?_, fun k hk => ?_⟩
  · rw [has_remove] at hi
    simp only [Bool.and_eq_true, decide_eq_true_eq] at hi
    have hkj : k ≠ j := by intro e; subst e; exact hi.2 (hj.2 i ti)
    obtain ⟨h1, h2⟩ := h.fwd i k hi.1 ti
    refine ⟨by rw [has_remove, h1]; simp [hkj], ?_⟩
    rw [dimOf_remove k j hkj, dimOf_remove i j hi.2, h2]
  · rw [has_remove] at hk
    simp only [Bool.and_eq_true, decide_eq_true_eq] at hk
    obtain ⟨i, hi, ti⟩ := h.bwd k hk.1
    have hij : i ≠ j := by
      intro e; subst e; have := hj.1; rw [ti] at this; exact hk.2 (Idx.free.inj this)
    exact ⟨i, by rw [has_remove, hi]; simp [hij], ti⟩

theorem Sub.foldl_remove : ∀ (cs : List Nat) {f g : FI}, (∀ c ∈ cs, HygJ θ c) → Sub θ f g →
    Sub θ (cs.foldl (fun acc c => FI.remove c acc) f) (cs.foldl (fun acc c => FI.remove c acc) g)
  | [], _, _, _, h => h
  | c :: cs, _, _, hc, h => by
    simp only [List.foldl_cons]
    exact Sub.foldl_remove cs (fun x hx => hc x (by simp [hx])) (Sub.remove (hc c (by simp)) h)

theorem Sub.dimsAgree {fa fb ga gb E : FI} (ha : Sub θ fa ga) (hb : Sub θ fb gb) (hc : Compat θ E)
    (la : FIle fa E) (lb : FIle fb E) : DimsAgree ga gb := by
  intro k hka hkb
  obtain ⟨i1, hi1, t1⟩ := ha.bwd k hka
  obtain ⟨i2, hi2, t2⟩ := hb.bwd k hkb
  rw [(ha.fwd i1 k hi1 t1).2, (hb.fwd i2 k hi2 t2).2, (la i1 hi1).2, (lb i2 hi2).2]
  exact hc i1 i2 k (la i1 hi1).1 (lb i2 hi2).1 t1 t2


/-! ### inserting the indices of a multi-index -/

/-- the fold of `Indexed.__init__` on (count, extent) pairs -/
def insAll : FI → List (Nat × Nat) → Option FI
  | f, [] => some f
  | f, p :: ps => match FI'.insertChecked p f with
    | none => none
    | some f' => insAll f' ps

theorem ixFold_insAll (sh : List Nat) : ∀ (ps : List (Idx × Nat)) (f : FI), (∀ p ∈ ps, p.2 < sh.length) →
    ps.foldl (ixStep sh) (some f) = insAll f (idxPairs sh ps)
  | [], _, _ => rfl
  | (.fixed v, k) :: ps, f, hr => by
    simp only [List.foldl_cons, ixStep, idxPairs]
    exact ixFold_insAll sh ps f (fun p hp => hr p (by simp [hp]))
  | (.free c, k) :: ps, f, hr => by
    have hk : k < sh.length := hr (.free c, k) (by simp)
    have hget : sh[k]? = some (sh.getD k 0) := by simp [List.getD, hk]
    simp only [List.foldl_cons, ixStep, idxPairs, hget, insAll]
    cases hi : FI'.insertChecked (c, sh.getD k 0) f with
    | none => simp only [ixFold_none]
    | some g => exact ixFold_insAll sh ps g (fun p hp => hr p (by simp [hp]))

theorem indexedFI_insAll (base : FI) (sh : List Nat) (is : List Idx) (hl : is.length = sh.length) :
    indexedFI base sh is = insAll base (idxPairs sh is.zipIdx) := by
  rw [indexedFI_fold]
  exact ixFold_insAll sh _ base (fun p hp => by have := C05.zipIdx_lt is p hp; omega)

theorem insAll_facts : ∀ (ps : List (Nat × Nat)) (f g : FI), Sorted f → insAll f ps = some g →
    g = ps.foldl (fun acc p => FI.insert p acc) f ∧ ∀ p ∈ ps, FI.dimOf p.1 g = p.2
  | [], f, g, _, h => by simp only [insAll, Option.some.injEq] at h; subst h; exact ⟨rfl, fun p hp => by cases hp⟩
  | p :: ps, f, g, sf, h => by
    simp only [insAll] at h
    cases hi : FI'.insertChecked p f with
    | none => rw [hi] at h; cases h
    | some f' =>
      rw [hi] at h
      simp only at h
      have e := C05.insertChecked_eq p f f' hi
      subst e
      have sf' := insert_sorted p f sf
      obtain ⟨h1, h2⟩ := insAll_facts ps _ g sf' h
      refine ⟨by simpa using h1, ?_⟩
      intro q hq
      cases List.mem_cons.mp hq with
      | inr e => exact h2 q e
      | inl e =>
        subst e
        have hhas : FI.has q.1 (FI.insert q f) = true := by rw [has_insert]; simp
        rw [h1, dimOf_foldl_insert_has q.1 ps _ sf' hhas, dimOf_insert q q.1 f sf]
        have hs := insertChecked_isSome q f sf
        rw [hi] at hs
        simp only [Option.isSome_some] at hs
        by_cases hq' : FI.has q.1 f = true
        · simp only [hq', Bool.not_true, Bool.false_or] at hs
          simp only [hq', Bool.true_eq_false, and_false, ↓reduceIte]
          exact (beq_iff_eq.mp hs.symm)
        · simp [hq']

theorem insAll_isSome (D : Nat → Nat) : ∀ (ps : List (Nat × Nat)) (f : FI), Sorted f →
    (∀ k, FI.has k f = true → FI.dimOf k f = D k) → (∀ p ∈ ps, p.2 = D p.1) → (insAll f ps).isSome = true
  | [], _, _, _, _ => rfl
  | p :: ps, f, sf, hf, hp => by
    simp only [insAll]
    have hs : (FI'.insertChecked p f).isSome = true := by
      rw [insertChecked_isSome p f sf]
      by_cases h : FI.has p.1 f = true
      · simp [h, hf p.1 h, hp p (by simp)]
      · simp [h]
    obtain ⟨f', hf'⟩ := Option.isSome_iff_exists.mp hs
    rw [hf']
    simp only
    have e := C05.insertChecked_eq p f f' hf'
    subst e
    apply insAll_isSome D ps _ (insert_sorted p f sf) _ (fun q hq => hp q (by simp [hq]))
    intro k hk
    rw [dimOf_insert p k f sf]
    by_cases h : p.1 = k ∧ FI.has k f = false
    · simp only [h, and_self, ↓reduceIte]; rw [← h.1]; exact hp p (by simp)
    · simp only [h, ↓reduceIte]
      apply hf k
      rw [has_insert] at hk
      by_cases hk' : FI.has k f = true
      · exact hk'
      · exfalso
        simp only [hk', Bool.or_false, decide_eq_true_eq] at hk
        exact h ⟨hk.symm, by simpa using hk'⟩

/-- the image of a (count, extent) pair: dropped when the count is sent to a fixed value -/
def pairImg (θ : Nat → Idx) (p : Nat × Nat) : Option (Nat × Nat) :=
  match θ p.1 with
  | .free k => some (k, p.2)
  | .fixed _ => none

theorem mem_filterMap_pairImg (ps : List (Nat × Nat)) (q : Nat × Nat) :
    q ∈ ps.filterMap (pairImg θ) ↔ ∃ p ∈ ps, θ p.1 = .free q.1 ∧ q.2 = p.2 := by
  simp only [List.mem_filterMap, pairImg]
  constructor
  · rintro ⟨p, hp, h⟩
    refine ⟨p, hp, ?_⟩
    cases ht : θ p.1 with
    | fixed v => rw [ht] at h; cases h
    | free k => rw [ht] at h; simp only [Option.some.injEq] at h; subst h; exact ⟨rfl, rfl⟩
  · rintro ⟨p, hp, ht, h2⟩
    refine ⟨p, hp, ?_⟩
    rw [ht]; simp only [Option.some.injEq]; exact Prod.ext rfl h2.symm

/-- the extent every index sent to `k` has (the first one found) -/
def imgDim (θ : Nat → Idx) (f : FI) (k : Nat) : Nat :=
  match f.find? (fun p => decide (θ p.1 = .free k)) with
  | some p => p.2
  | none => 0

theorem imgDim_spec {f : FI} (sf : Sorted f) (hc : Compat θ f) (i k : Nat) (hi : FI.has i f = true) (ti : θ i = .free k) :
    imgDim θ f k = FI.dimOf i f := by
  obtain ⟨p, hp, rfl⟩ := (has_iff i f).mp hi
  unfold imgDim
  cases hfind : f.find? (fun p => decide (θ p.1 = .free k)) with
  | none =>
    rw [List.find?_eq_none] at hfind
    have := hfind p hp
    simp [ti] at this
  | some q =>
    have hq := List.find?_some hfind
    have hqm := List.mem_of_find?_eq_some hfind
    simp only [decide_eq_true_eq] at hq
    simp only
    rw [← dimOf_mem f sf q hqm]
    exact hc q.1 p.1 k ((has_iff q.1 f).mpr ⟨q, hqm, rfl⟩) hi hq ti

theorem has_foldl_insert_iff (ps : List (Nat × Nat)) (f : FI) (c : Nat) :
    FI.has c (ps.foldl (fun acc p => FI.insert p acc) f) = true ↔ FI.has c f = true ∨ ∃ p ∈ ps, p.1 = c := by
  rw [has_foldl_insert]
  simp only [Bool.or_eq_true, List.any_eq_true, beq_iff_eq]

/-- **the free indices of `A[is]` under substitution**: if the extents are compatible on the free
    indices of `A[is]`, the consistency check of `Indexed` passes on the substituted multi-index and
    the free indices are the images -/
theorem Sub.insert_pairs {f f' : FI} (ps : List (Nat × Nat)) (sf : Sorted f) (sf' : Sorted f') (h : Sub θ f f')
    (hd : ∀ p ∈ ps, FI.dimOf p.1 (ps.foldl (fun acc p => FI.insert p acc) f) = p.2)
    (hc : Compat θ (ps.foldl (fun acc p => FI.insert p acc) f)) :
    (insAll f' (ps.filterMap (pairImg θ))).isSome = true ∧
    Sub θ (ps.foldl (fun acc p => FI.insert p acc) f) ((ps.filterMap (pairImg θ)).foldl (fun acc p => FI.insert p acc) f') := by
  have sE := foldl_insert_sorted ps f sf
  have hle := FIle.foldl_insert ps f sf
  have hmemE : ∀ p ∈ ps, FI.has p.1 (ps.foldl (fun acc p => FI.insert p acc) f) = true :=
    fun p hp => (has_foldl_insert_iff ps f p.1).mpr (Or.inr ⟨p, hp, rfl⟩)
  have hsome : (insAll f' (ps.filterMap (pairImg θ))).isSome = true := by
    apply insAll_isSome (imgDim θ (ps.foldl (fun acc p => FI.insert p acc) f)) _ f' sf'
    · intro k hk
      obtain ⟨i, hi, ti⟩ := h.bwd k hk
      rw [(h.fwd i k hi ti).2, imgDim_spec sE hc i k (hle i hi).1 ti, (hle i hi).2]
    · intro q hq
      obtain ⟨p, hp, tp, e⟩ := (mem_filterMap_pairImg ps q).mp hq
      rw [imgDim_spec sE hc p.1 q.1 (hmemE p hp) tp, hd p hp, e]
  refine ⟨hsome, ?_⟩
  obtain ⟨g', hg'⟩ := Option.isSome_iff_exists.mp hsome
  obtain ⟨e, hd'⟩ := insAll_facts _ f' g' sf' hg'
  rw [← e]
  have hasg' : ∀ c, FI.has c g' = true ↔ FI.has c f' = true ∨ ∃ q ∈ ps.filterMap (pairImg θ), q.1 = c := by
    intro c; rw [e]; exact has_foldl_insert_iff _ f' c
  have dimg' : ∀ c, FI.has c f' = true → FI.dimOf c g' = FI.dimOf c f' := by
    intro c hc'; rw [e]; exact dimOf_foldl_insert_has c _ f' sf' hc'
  refine ⟨fun i k hi ti => ?_, fun k hk => ?_⟩
  · rcases (has_foldl_insert_iff ps f i).mp hi with hif | ⟨p, hp, rfl⟩
    · obtain ⟨h1, h2⟩ := h.fwd i k hif ti
      exact ⟨(hasg' k).mpr (Or.inl h1), by rw [dimg' k h1, h2, (hle i hif).2]⟩
    · have hq : (k, p.2) ∈ ps.filterMap (pairImg θ) := (mem_filterMap_pairImg ps (k, p.2)).mpr ⟨p, hp, ti, rfl⟩
      exact ⟨(hasg' k).mpr (Or.inr ⟨_, hq, rfl⟩), by rw [hd' _ hq, hd p hp]⟩
  · rcases (hasg' k).mp hk with hk' | ⟨q, hq, rfl⟩
    · obtain ⟨i, hi, ti⟩ := h.bwd k hk'
      exact ⟨i, (hle i hi).1, ti⟩
    · obtain ⟨p, hp, tp, _⟩ := (mem_filterMap_pairImg ps q).mp hq
      exact ⟨p.1, hmemE p hp, tp⟩

theorem idxPairs_subst (θ : Nat → Idx) (sh : List Nat) : ∀ ps : List (Idx × Nat),
    idxPairs sh (ps.map fun p => (substI θ p.1, p.2)) = (idxPairs sh ps).filterMap (pairImg θ)
  | [] => rfl
  | (.fixed v, k) :: ps => by
    simp only [List.map_cons, substI_fixed, idxPairs]; exact idxPairs_subst θ sh ps
  | (.free c, k) :: ps => by
    simp only [List.map_cons, substI_free, idxPairs, List.filterMap_cons, pairImg]
    cases θ c with
    | fixed v => simp only [idxPairs]; exact idxPairs_subst θ sh ps
    | free k' => simp only [idxPairs, idxPairs_subst θ sh ps]

theorem zipIdx_subst (θ : Nat → Idx) (is : List Idx) :
    (is.map (substI θ)).zipIdx = is.zipIdx.map fun p => (substI θ p.1, p.2) := by
  rw [List.zipIdx_map]
  rfl

theorem mem_idxPairs (sh : List Nat) : ∀ (ps : List (Idx × Nat)) (c k : Nat), (Idx.free c, k) ∈ ps →
    (c, sh.getD k 0) ∈ idxPairs sh ps
  | [], _, _, h => by cases h
  | (.fixed v, k') :: ps, c, k, h => by
    simp only [List.mem_cons, Prod.mk.injEq, reduceCtorEq, false_and, false_or] at h
    simp only [idxPairs]; exact mem_idxPairs sh ps c k h
  | (.free c', k') :: ps, c, k, h => by
    simp only [List.mem_cons, Prod.mk.injEq, Idx.free.injEq] at h
    simp only [idxPairs, List.mem_cons, Prod.mk.injEq]
    rcases h with ⟨rfl, rfl⟩ | h
    · exact Or.inl ⟨rfl, rfl⟩
    · exact Or.inr (mem_idxPairs sh ps c k h)

theorem fixedInRange_subst (θ : Nat → Idx) (sh : List Nat) (is : List Idx) (h : fixedInRange sh is = true)
    (hfix : ∀ c k v, (Idx.free c, k) ∈ is.zipIdx → θ c = .fixed v → v < sh.getD k 0) :
    fixedInRange sh (is.map (substI θ)) = true := by
  unfold fixedInRange at h ⊢
  rw [zipIdx_subst, List.all_map]
  rw [List.all_eq_true] at h ⊢
  intro p hp
  obtain ⟨i, k⟩ := p
  cases i with
  | fixed v => simpa using h _ hp
  | free c =>
    simp only [Function.comp, substI_free]
    cases ht : θ c with
    | free k' => rfl
    | fixed v => simpa using hfix c k v hp ht


/-! ### `Zero`: `IndexReplacer.zero` -/

def LexLe (p q : Nat × Nat) : Prop := p.1 < q.1 ∨ (p.1 = q.1 ∧ p.2 ≤ q.2)
def LexSorted (l : List (Nat × Nat)) : Prop := l.Pairwise LexLe

theorem ins_mem (p x : Nat × Nat) : ∀ l : List (Nat × Nat), x ∈ sortPairs.ins p l ↔ x = p ∨ x ∈ l
  | [] => by simp [sortPairs.ins]
  | q :: qs => by
    unfold sortPairs.ins
    split
    · simp
    · simp only [List.mem_cons, ins_mem p x qs]
      constructor
      · rintro (h | h | h)
        · exact Or.inr (Or.inl h)
        · exact Or.inl h
        · exact Or.inr (Or.inr h)
      · rintro (h | h | h)
        · exact Or.inr (Or.inl h)
        · exact Or.inl h
        · exact Or.inr (Or.inr h)

theorem ins_sorted (p : Nat × Nat) : ∀ l : List (Nat × Nat), LexSorted l → LexSorted (sortPairs.ins p l)
  | [], _ => by simp [sortPairs.ins, LexSorted]
  | q :: qs, h => by
    have hh := List.pairwise_cons.mp h
    unfold sortPairs.ins
    split
    · rename_i hc
      simp only [Bool.or_eq_true, decide_eq_true_eq, Bool.and_eq_true, beq_iff_eq] at hc
      refine List.pairwise_cons.mpr ⟨?_, h⟩
      intro x hx
      cases List.mem_cons.mp hx with
      | inl e => rw [e]; exact hc
      | inr e =>
        have := hh.1 x e
        simp only [LexLe] at this ⊢
        omega
    · rename_i hc
      simp only [Bool.or_eq_true, decide_eq_true_eq, Bool.and_eq_true, beq_iff_eq] at hc
      refine List.pairwise_cons.mpr ⟨?_, ins_sorted p qs hh.2⟩
      intro x hx
      rcases (ins_mem p x qs).mp hx with e | e
      · rw [e]; simp only [LexLe]; omega
      · exact hh.1 x e

theorem foldl_ins_mem (x : Nat × Nat) : ∀ (l acc : List (Nat × Nat)),
    x ∈ l.foldl (fun acc p => sortPairs.ins p acc) acc ↔ x ∈ acc ∨ x ∈ l
  | [], acc => by simp
  | p :: ps, acc => by
    simp only [List.foldl_cons, foldl_ins_mem x ps, ins_mem, List.mem_cons]
    constructor
    · rintro ((h | h) | h)
      · exact Or.inr (Or.inl h)
      · exact Or.inl h
      · exact Or.inr (Or.inr h)
    · rintro (h | h | h)
      · exact Or.inl (Or.inr h)
      · exact Or.inl (Or.inl h)
      · exact Or.inr h

theorem foldl_ins_sorted : ∀ (l acc : List (Nat × Nat)), LexSorted acc →
    LexSorted (l.foldl (fun acc p => sortPairs.ins p acc) acc)
  | [], _, h => h
  | p :: ps, acc, h => foldl_ins_sorted ps _ (ins_sorted p acc h)

theorem sortPairs_mem (x : Nat × Nat) (l : List (Nat × Nat)) : x ∈ sortPairs l ↔ x ∈ l := by
  unfold sortPairs; rw [foldl_ins_mem]; simp

theorem sortPairs_sorted (l : List (Nat × Nat)) : LexSorted (sortPairs l) :=
  foldl_ins_sorted l [] List.Pairwise.nil

theorem uniqueSorted_facts : ∀ (l u : List (Nat × Nat)), LexSorted l → uniqueSorted l = some u →
    (∀ x, x ∈ u ↔ x ∈ l) ∧ Sorted u := by
  intro l
  fun_induction uniqueSorted l with
  | case1 => intro u _ h; simp only [Option.some.injEq] at h; subst h; exact ⟨fun _ => Iff.rfl, List.Pairwise.nil⟩
  | case2 p => intro u _ h; simp only [Option.some.injEq] at h; subst h; exact ⟨fun _ => Iff.rfl, by simp [Sorted]⟩
  | case3 p q rest h1 h2 ih =>
    intro u hs h
    have e : q = p := Prod.ext (beq_iff_eq.mp h1).symm (beq_iff_eq.mp h2).symm
    subst e
    have hs' : LexSorted (q :: rest) := (List.pairwise_cons.mp hs).2
    obtain ⟨i1, i2⟩ := ih u hs' h
    exact ⟨fun x => by rw [i1 x]; simp, i2⟩
  | case4 p q rest h1 h2 => intro u _ h; cases h
  | case5 p q rest h1 ih =>
    intro u hs h
    simp only [Option.map_eq_some_iff] at h
    obtain ⟨u', hu', rfl⟩ := h
    have hh := List.pairwise_cons.mp hs
    obtain ⟨i1, i2⟩ := ih u' hh.2 hu'
    refine ⟨fun x => by simp only [List.mem_cons, i1 x], ?_⟩
    refine List.pairwise_cons.mpr ⟨?_, i2⟩
    intro x hx
    have hx' := (i1 x).mp hx
    have hpq : p.1 < q.1 := by
      have := hh.1 q (by simp)
      have hne : ¬ p.1 = q.1 := by simpa using h1
      simp only [LexLe] at this; omega
    cases List.mem_cons.mp hx' with
    | inl e => rw [e]; exact hpq
    | inr e =>
      have := (List.pairwise_cons.mp hh.2).1 x e
      simp only [LexLe] at this; omega

theorem get_none_of_not_touches (fm : FiMap) (cs : List Nat) (h : fm.touches cs = false) :
    ∀ c ∈ cs, fm.get c = none := by
  intro c hc
  unfold FiMap.touches at h
  rw [List.any_eq_false] at h
  have := h c hc
  simpa using this

/-- what `IndexReplacer.zero` returns: a `Zero` of the same shape whose free indices are the images -/
theorem replZero_spec (fm : FiMap) (sh : List Nat) (f : FI) (r : Expr) (h : replZero fm sh f = some r) :
    ∃ g, r = .zero sh g ∧ (Sorted f → Sub (thetaI fm) f g ∧ Sorted g) := by
  unfold replZero at h
  split at h
  · rename_i ht
    simp only [Bool.not_eq_true', ] at ht
    simp only [Option.some.injEq] at h
    refine ⟨f, h.symm, fun sf => ⟨?_, sf⟩⟩
    have hn := get_none_of_not_touches fm _ ht
    have hθ : ∀ i, FI.has i f = true → thetaI fm i = .free i := by
      intro i hi
      obtain ⟨p, hp, rfl⟩ := (has_iff i f).mp hi
      simp [thetaI, hn p.1 (List.mem_map_of_mem hp)]
    refine ⟨fun i k hi ti => ?_, fun k hk => ⟨k, hk, hθ k hk⟩⟩
    rw [hθ i hi] at ti
    cases ti
    exact ⟨hi, rfl⟩
  · have key : ∀ u, uniqueSorted (sortPairs (f.filterMap (pairImg (thetaI fm)))) = some u →
        (Sorted f → Sub (thetaI fm) f u ∧ Sorted u) := by
      intro u hu sf
      obtain ⟨hm, su⟩ := uniqueSorted_facts _ u (sortPairs_sorted _) hu
      refine ⟨⟨fun i k hi ti => ?_, fun k hk => ?_⟩, su⟩
      · obtain ⟨p, hp, rfl⟩ := (has_iff i f).mp hi
        have hq : (k, p.2) ∈ u := by
          rw [hm, sortPairs_mem]
          exact (mem_filterMap_pairImg f (k, p.2)).mpr ⟨p, hp, ti, rfl⟩
        refine ⟨(has_iff k u).mpr ⟨_, hq, rfl⟩, ?_⟩
        rw [dimOf_mem u su _ hq, dimOf_mem f sf p hp]
      · obtain ⟨q, hq, rfl⟩ := (has_iff k u).mp hk
        rw [hm, sortPairs_mem] at hq
        obtain ⟨p, hp, tp, _⟩ := (mem_filterMap_pairImg f q).mp hq
        exact ⟨p.1, (has_iff p.1 f).mpr ⟨p, hp, rfl⟩, tp⟩
    dsimp only at h
    split at h
    · cases h
    · rename_i heq
      simp only [Option.some.injEq] at h
      exact ⟨[], h.symm, key [] heq⟩
    · rename_i fi' _ heq
      simp only [Option.some.injEq] at h
      exact ⟨fi', h.symm, key fi' heq⟩

end IdxSubst
end Expr
end UflVerif
