/-
Free-index lists of well-formed expressions are strictly sorted by index count, and the lookup of
an index dimension commutes with insert / merge / remove as expected on sorted lists.
-/
import UflVerif.Sem.Congr

namespace UflVerif
namespace Expr
namespace FIlemmas

def Sorted (f : FI) : Prop := f.Pairwise (fun p q => p.1 < q.1)

theorem sortedFI_iff : ∀ f : FI, sortedFI f = true ↔ Sorted f
  | [] => by simp [sortedFI, Sorted]
  | [p] => by simp [sortedFI, Sorted]
  | p :: q :: qs => by
    have ih := sortedFI_iff (q :: qs)
    simp only [sortedFI, Bool.and_eq_true, decide_eq_true_eq, ih, Sorted, List.pairwise_cons]
    constructor
    · rintro ⟨h1, h2, h3⟩
      refine ⟨?_, h2, h3⟩
      intro r hr
      cases List.mem_cons.mp hr with
      | inl e => rw [e]; exact h1
      | inr e => exact Nat.lt_trans h1 (h2 r e)
    · rintro ⟨h1, h2, h3⟩
      exact ⟨h1 q (by simp), h2, h3⟩

theorem has_iff (c : Nat) (f : FI) : FI.has c f = true ↔ ∃ p ∈ f, p.1 = c := by
  simp [FI.has]

theorem not_has_of_lt (c : Nat) : ∀ (f : FI), (∀ q ∈ f, c < q.1) → FI.has c f = false := by
  intro f h
  rw [Bool.eq_false_iff]
  intro hh
  obtain ⟨p, hp, e⟩ := (has_iff c f).mp hh
  have := h p hp
  omega

theorem insert_mem (p : Nat × Nat) : ∀ (f : FI) (q : Nat × Nat), q ∈ FI.insert p f → q = p ∨ q ∈ f
  | [], q, h => by simp [FI.insert] at h; exact Or.inl h
  | r :: rs, q, h => by
    unfold FI.insert at h
    split at h
    · simp only [List.mem_cons] at h; rcases h with h | h | h
      · exact Or.inl h
      · exact Or.inr (by simp [h])
      · exact Or.inr (by simp [h])
    · split at h
      · exact Or.inr h
      · simp only [List.mem_cons] at h
        cases h with
        | inl h => exact Or.inr (by simp [h])
        | inr h => cases insert_mem p rs q h with
          | inl e => exact Or.inl e
          | inr e => exact Or.inr (by simp [e])

theorem insert_sorted (p : Nat × Nat) : ∀ (f : FI), Sorted f → Sorted (FI.insert p f)
  | [], _ => by simp [FI.insert, Sorted]
  | r :: rs, h => by
    unfold FI.insert
    have hh := List.pairwise_cons.mp h
    split
    · rename_i hlt
      refine List.pairwise_cons.mpr ⟨?_, h⟩
      intro q hq
      cases List.mem_cons.mp hq with
      | inl e => rw [e]; exact hlt
      | inr e => exact Nat.lt_trans hlt (hh.1 q e)
    · split
      · exact h
      · rename_i h1 h2
        refine List.pairwise_cons.mpr ⟨?_, insert_sorted p rs hh.2⟩
        intro q hq
        cases insert_mem p rs q hq with
        | inl e => rw [e]; omega
        | inr e => exact hh.1 q e

theorem foldl_insert_sorted : ∀ (ps : List (Nat × Nat)) (f : FI), Sorted f → Sorted (ps.foldl (fun acc p => FI.insert p acc) f)
  | [], f, h => h
  | p :: ps, f, h => foldl_insert_sorted ps _ (insert_sorted p f h)

theorem merge_sorted (a b : FI) (h : Sorted a) : Sorted (FI.merge a b) := foldl_insert_sorted b a h

theorem remove_sorted (j : Nat) (f : FI) (h : Sorted f) : Sorted (FI.remove j f) := List.Pairwise.filter _ h

theorem foldl_remove_sorted : ∀ (cs : List Nat) (f : FI), Sorted f → Sorted (cs.foldl (fun acc c => FI.remove c acc) f)
  | [], f, h => h
  | c :: cs, f, h => foldl_remove_sorted cs _ (remove_sorted c f h)

/-! ### dimension lookup -/

theorem dimOf_cons (j : Nat) (p : Nat × Nat) (f : FI) :
    FI.dimOf j (p :: f) = if p.1 = j then p.2 else FI.dimOf j f := by
  unfold FI.dimOf
  simp only [List.find?_cons]
  by_cases h : p.1 = j
  · simp [h]
  · have : (p.1 == j) = false := by simp [h]
    simp only [this, h, ↓reduceIte]

theorem dimOf_insert (p : Nat × Nat) (j : Nat) : ∀ (f : FI), Sorted f →
    FI.dimOf j (FI.insert p f) = if p.1 = j ∧ FI.has j f = false then p.2 else FI.dimOf j f
  | [], _ => by
    simp only [FI.insert, dimOf_cons, FI.has, List.any_nil, and_true]
  | r :: rs, hs => by
    have hh := List.pairwise_cons.mp hs
    unfold FI.insert
    split
    · rename_i hlt
      rw [dimOf_cons]
      by_cases h : p.1 = j
      · have : FI.has j (r :: rs) = false := by
          apply not_has_of_lt
          intro q hq
          cases List.mem_cons.mp hq with
          | inl e => rw [e, ← h]; exact hlt
          | inr e => rw [← h]; exact Nat.lt_trans hlt (hh.1 q e)
        simp [h, this]
      · simp [h]
    · split
      · rename_i h1 h2
        by_cases h : p.1 = j
        · have : FI.has j (r :: rs) = true := by simp [FI.has, ← h, h2]
          simp [h, this]
        · simp [h]
      · rename_i h1 h2
        rw [dimOf_cons, dimOf_insert p j rs hh.2, dimOf_cons]
        by_cases hr : r.1 = j
        · have : ¬ p.1 = j := by omega
          simp [hr, this]
        · simp only [hr, ↓reduceIte]
          have : FI.has j (r :: rs) = FI.has j rs := by simp [FI.has, hr]
          rw [this]

theorem dimOf_foldl_insert_has (j : Nat) : ∀ (ps : List (Nat × Nat)) (f : FI), Sorted f → FI.has j f = true →
    FI.dimOf j (ps.foldl (fun acc p => FI.insert p acc) f) = FI.dimOf j f
  | [], f, _, _ => rfl
  | p :: ps, f, hs, hj => by
    simp only [List.foldl_cons]
    rw [dimOf_foldl_insert_has j ps _ (insert_sorted p f hs) (by rw [has_insert, hj]; simp), dimOf_insert p j f hs]
    simp [hj]

theorem dimOf_merge_left (a b : FI) (j : Nat) (hs : Sorted a) (hj : FI.has j a = true) :
    FI.dimOf j (FI.merge a b) = FI.dimOf j a := dimOf_foldl_insert_has j b a hs hj

theorem dimOf_foldl_insert_nothas (j : Nat) : ∀ (ps : List (Nat × Nat)) (f : FI), Sorted f → FI.has j f = false →
    FI.dimOf j (ps.foldl (fun acc p => FI.insert p acc) f) = FI.dimOf j ps
  | [], f, _, hj => by
    simp only [List.foldl_nil]
    unfold FI.dimOf
    have : f.find? (fun p => p.1 == j) = none := by
      rw [List.find?_eq_none]
      intro p hp he
      simp only [beq_iff_eq] at he
      have : FI.has j f = true := (has_iff j f).mpr ⟨p, hp, he⟩
      rw [hj] at this; cases this
    simp [this]
  | p :: ps, f, hs, hj => by
    simp only [List.foldl_cons]
    rw [dimOf_cons]
    by_cases h : p.1 = j
    · rw [dimOf_foldl_insert_has j ps _ (insert_sorted p f hs) (by rw [has_insert]; simp [h]), dimOf_insert p j f hs]
      simp [h, hj]
    · simp only [h, ↓reduceIte]
      apply dimOf_foldl_insert_nothas j ps _ (insert_sorted p f hs)
      rw [has_insert, hj]
      have : ¬ j = p.1 := fun e => h e.symm
      simp [this]

theorem dimOf_merge_right (a b : FI) (j : Nat) (hs : Sorted a) (hj : FI.has j a = false) :
    FI.dimOf j (FI.merge a b) = FI.dimOf j b := dimOf_foldl_insert_nothas j b a hs hj

/-- in a sorted list every entry is what `dimOf` finds -/
theorem dimOf_mem : ∀ (f : FI), Sorted f → ∀ p ∈ f, FI.dimOf p.1 f = p.2
  | [], _, p, hp => by cases hp
  | q :: qs, hs, p, hp => by
    have hh := List.pairwise_cons.mp hs
    rw [dimOf_cons]
    cases List.mem_cons.mp hp with
    | inl e => simp [e]
    | inr e =>
      have : q.1 < p.1 := hh.1 p e
      have hne : ¬ q.1 = p.1 := by omega
      simp only [hne, ↓reduceIte]
      exact dimOf_mem qs hh.2 p e

def DimsAgree (f g : FI) : Prop := ∀ i, FI.has i f = true → FI.has i g = true → FI.dimOf i f = FI.dimOf i g

theorem dimsAgree_iff (f g : FI) (hs : Sorted f) : dimsAgree f g = true ↔ DimsAgree f g := by
  unfold dimsAgree DimsAgree
  simp only [List.all_eq_true, Bool.or_eq_true, Bool.not_eq_true', beq_iff_eq]
  constructor
  · intro h i hf hg
    obtain ⟨p, hp, rfl⟩ := (has_iff i f).mp hf
    rw [dimOf_mem f hs p hp]
    cases h p hp with
    | inl e => rw [e] at hg; cases hg
    | inr e => exact e.symm
  · intro h p hp
    by_cases hg : FI.has p.1 g = true
    · right
      rw [← h p.1 ((has_iff p.1 f).mpr ⟨p, hp, rfl⟩) hg, dimOf_mem f hs p hp]
    · left; simpa using hg

theorem DimsAgree.symm {f g : FI} (h : DimsAgree f g) : DimsAgree g f := fun i hg hf => (h i hf hg).symm

theorem remove_cons (j : Nat) (p : Nat × Nat) (ps : FI) :
    FI.remove j (p :: ps) = if p.1 = j then FI.remove j ps else p :: FI.remove j ps := by
  unfold FI.remove
  simp only [List.filter_cons]
  by_cases h : p.1 = j
  · simp [h]
  · simp [h]

theorem dimOf_remove (i j : Nat) (h : i ≠ j) : ∀ f : FI, FI.dimOf i (FI.remove j f) = FI.dimOf i f
  | [] => rfl
  | p :: ps => by
    rw [remove_cons]
    by_cases hp : p.1 = j
    · have : ¬ p.1 = i := by omega
      simp only [hp, ↓reduceIte]
      rw [dimOf_cons, dimOf_remove i j h ps, if_neg this]
    · simp only [hp, ↓reduceIte, dimOf_cons, dimOf_remove i j h ps]

theorem gradChain_fi : ∀ (a : Expr) (p : TermData × Nat), gradChain a = some p → fi a = [] := by
  intro a
  fun_induction gradChain a with
  | case1 d => intro p _; simp [fi]
  | case2 aux a d k hk ih => intro p _; simp only [fi]; exact ih _ hk
  | case3 aux a hk ih => intro p h; simp at h
  | case4 e h1 h2 => intro p h; simp at h

theorem sorted_nil : Sorted [] := List.Pairwise.nil

theorem fi_sorted_aux :
    (∀ e : Expr, WF e = true → Sorted (fi e)) ∧ (∀ _p : Expr, True) ∧ (∀ xs : List Expr, WFL xs = true → ∀ x ∈ xs, Sorted (fi x)) := by
  apply WF.mutual_induct (motive_1 := fun e => WF e = true → Sorted (fi e)) (motive_2 := fun _ => True)
    (motive_3 := fun xs => WFL xs = true → ∀ x ∈ xs, Sorted (fi x))
  -- literals, terminals, zero, multi-index
  · intro v _; exact sorted_nil
  · intro n d _; exact sorted_nil
  · intro a b c d _; exact sorted_nil
  · intro d _; exact sorted_nil
  · intro sh f hw; simp only [WF] at hw; simp only [fi]; exact (sortedFI_iff f).mp hw
  · intro is hw; simp [WF] at hw
  -- sum, product, division, power
  · intro aux a b iha ihb hw
    simp only [WF, Bool.and_eq_true] at hw; simp only [fi]; exact iha hw.1.1.1
  · intro aux a b iha ihb hw
    simp only [WF, Bool.and_eq_true] at hw; simp only [fi]; exact merge_sorted _ _ (iha hw.1.1.1.1)
  · intro aux a b iha ihb hw
    simp only [WF, Bool.and_eq_true] at hw; simp only [fi]; exact iha hw.1.1.1
  · intro aux a b iha ihb hw
    simp only [WF, Bool.and_eq_true] at hw; simp only [fi]; exact iha hw.1.1.1
  -- abs conj real imag
  · intro aux a ih hw; simp only [WF] at hw; simp only [fi]; exact ih hw
  · intro aux a ih hw; simp only [WF] at hw; simp only [fi]; exact ih hw
  · intro aux a ih hw; simp only [WF] at hw; simp only [fi]; exact ih hw
  · intro aux a ih hw; simp only [WF] at hw; simp only [fi]; exact ih hw
  -- indexed, index sum, component tensor
  · intro aux a is ih hw
    simp only [WF, Bool.and_eq_true] at hw; simp only [fi]
    exact foldl_insert_sorted _ _ (ih hw.1.1.1)
  · intro aux a j ih hw
    simp only [WF, Bool.and_eq_true] at hw; simp only [fi]
    exact remove_sorted _ _ (ih hw.1)
  · intro aux a is ih hw
    simp only [WF, Bool.and_eq_true] at hw; simp only [fi]
    exact foldl_remove_sorted _ _ (ih hw.1.1)
  -- list tensor, conditional
  · intro aux a as iha _ hw
    simp only [WF, Bool.and_eq_true] at hw; simp only [fi]; exact iha hw.1.1
  · intro aux c t f _ iht _ hw
    simp only [WF, Bool.and_eq_true] at hw; simp only [fi]; exact iht hw.1.1.1.2
  -- min max atan2
  · intro aux a b iha _ hw
    simp only [WF, Bool.and_eq_true] at hw; simp only [fi]; exact iha hw.1.1.1
  · intro aux a b iha _ hw
    simp only [WF, Bool.and_eq_true] at hw; simp only [fi]; exact iha hw.1.1.1
  · intro aux a b iha _ hw
    simp only [WF, Bool.and_eq_true] at hw; simp only [fi]; exact iha hw.1.1.1
  -- variable, restrictions, grad
  · intro aux a d ih hw; simp only [WF] at hw; simp only [fi]; exact ih hw
  · intro aux a ih hw; simp only [WF] at hw; simp only [fi]; exact ih hw
  · intro aux a ih hw; simp only [WF] at hw; simp only [fi]; exact ih hw
  · intro aux a hw
    simp only [WF, Option.isSome_iff_exists] at hw
    obtain ⟨p, hp⟩ := hw
    simp only [fi]; rw [gradChain_fi a p hp]; exact sorted_nil
  -- math functions: the argument is a true scalar
  · intro aux fnk a h1 h2 h3 h4 h5 h6 h7 h8 ih hw
    have key : WF a = true ∧ fi (.op fnk aux [a]) = fi a := by
      revert hw
      cases fnk <;> simp_all [WF, fi, mathName]
    rw [key.2]; exact ih key.1
  -- anything else is not well formed
  · intro k aux args
    intros
    rename_i hw
    unfold WF at hw
    split at hw <;> simp_all
  -- conditions carry no claim; lists
  all_goals first
    | (intro a as iha ihas hw x hx
       simp only [WFL, Bool.and_eq_true] at hw
       cases List.mem_cons.mp hx with
       | inl e => rw [e]; exact iha hw.1
       | inr e => exact ihas hw.2 x e)
    | trivial
    | (intros; trivial)
    | (intro _ x hx; cases hx)

theorem fi_sorted (e : Expr) (h : WF e = true) : Sorted (fi e) := fi_sorted_aux.1 e h

end FIlemmas
end Expr
end UflVerif
