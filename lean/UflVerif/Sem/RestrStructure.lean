/-
Structural facts about the restriction propagator (no semantics): where restrictions end up, which
inputs are rejected, and that the constructor-using variant refines the constructor-free one.
Lemmas for the C17 property theorems.
-/
import UflVerif.Sem.TwoSidedLemmas

set_option linter.unusedSectionVars false

namespace UflVerif.Restr
open UflVerif Expr

/-! ### unfolding the list predicates at a generic operator -/

theorem Once_op (sd : TermData → Bool) (n : Nat) (k : Op) (aux : List Nat) (args : List Expr)
    (h1 : k ≠ .positiveRestricted) (h2 : k ≠ .negativeRestricted) :
    Once sd n (.op k aux args) = OnceL sd n args := by
  unfold Once
  split <;> simp_all

theorem restrFree_op (k : Op) (aux : List Nat) (args : List Expr) :
    restrFree (.op k aux args) = (k != .positiveRestricted && k != .negativeRestricted && restrFreeL args) := by
  simp [restrFree]

theorem lookup_eq (table : List (Nat × Side)) (m : Nat) :
    (table.find? (fun p => p.1 == m)).map (·.2) = (table.find? (fun p => p.1 == m)).map (·.2) := rfl

/-! ### domains -/

theorem uniqueDomain_all (info : String → TInfo) (o : Expr) (m : Nat) (h : uniqueDomain info o = some m) :
    ∀ x ∈ doms info o, x = m := by
  unfold uniqueDomain at h
  split at h
  · cases h
  · rename_i m' rest heq
    split at h
    · rename_i hall
      injection h with h
      subst h
      intro x hx
      rw [heq] at hx
      cases List.mem_cons.mp hx with
      | inl e => exact e
      | inr e =>
        have := List.all_eq_true.mp hall x e
        simpa using this
    · cases h

/-- no terminal of the expression lives on a domain with two sides -/
def NoSided (info : String → TInfo) (table : List (Nat × Side)) (ds : List Nat) : Prop :=
  ∀ m ∈ ds, (table.find? (fun p => p.1 == m)).map (·.2) ≠ some .plus ∧ (table.find? (fun p => p.1 == m)).map (·.2) ≠ some .minus

theorem sideDep_false_of_noSided (info : String → TInfo) (table : List (Nat × Side)) (d : TermData)
    (h : NoSided info table (doms info (.term d))) : sideDep info table d = false := by
  simp only [sideDep, termDefault, doms] at *
  cases hd : (info d.key).dom with
  | none => simp
  | some m =>
    have := h m (by simp [hd])
    simp [this.1, this.2]

mutual
theorem once_of_restrFree (info : String → TInfo) (table : List (Nat × Side)) (n : Nat) (hn : n ≤ 1) :
    ∀ e : Expr, restrFree e = true → (n = 0 → NoSided info table (doms info e)) → Once (sideDep info table) n e = true
  | .term d, _, hs => by
    simp only [Once]
    split
    · rename_i hsd
      cases n with
      | zero => rw [sideDep_false_of_noSided info table d (hs rfl)] at hsd; cases hsd
      | succ n => have : n = 0 := by omega
                  subst this; rfl
    · simpa using hn
  | .op k aux args, hf, hs => by
    simp only [restrFree, Bool.and_eq_true, bne_iff_ne, ne_eq] at hf
    rw [Once_op _ n k aux args hf.1.1 hf.1.2]
    exact onceL_of_restrFree info table n hn args hf.2 (fun h0 => by simpa [doms] using hs h0)
  | .int _, _, _ => by simpa [Once] using hn
  | .real _ _, _, _ => by simpa [Once] using hn
  | .cplx _ _ _ _, _, _ => by simpa [Once] using hn
  | .zero _ _, _, _ => by simpa [Once] using hn
  | .mi _, _, _ => by simpa [Once] using hn
theorem onceL_of_restrFree (info : String → TInfo) (table : List (Nat × Side)) (n : Nat) (hn : n ≤ 1) :
    ∀ as : List Expr, restrFreeL as = true → (n = 0 → NoSided info table (domsL info as)) → OnceL (sideDep info table) n as = true
  | [], _, _ => rfl
  | a :: as, hf, hs => by
    simp only [restrFreeL, Bool.and_eq_true] at hf
    simp only [OnceL, Bool.and_eq_true]
    refine ⟨once_of_restrFree info table n hn a hf.1 (fun h0 m hm => hs h0 m (by simp [domsL, hm])),
            onceL_of_restrFree info table n hn as hf.2 (fun h0 m hm => hs h0 m (by simp [domsL, hm]))⟩
end

/-! ### the shape of what a terminal rule returns -/

inductive TermShape (cfg : Cfg) (table : List (Nat × Side)) (d : TermData) (g : Expr) : Prop
  | bare (hg : g = .term d) (h : sideDep cfg.info table d = false)
  | wrapped (x : Side) (hx : x ≠ .none) (hg : g = restrict x (.term d))
  | flipped (r : Side) (fresh : Nat) (hr : r ≠ .none) (hg : g = negE fresh (restrict r (.term d)))
      (hcls : d.cls = "FacetNormal") (hrule : cfg.rule d.cls = .facetNormal)

section
variable (cfg : Cfg) (table : List (Nat × Side)) (hdr : cfg.dr = some table)
include hdr

theorem sideDep_of_default_none (d : TermData) (h : termDefault cfg.info table d = some .none) :
    sideDep cfg.info table d = false := by
  simp [sideDep, h]

omit hdr in
theorem sideDep_of_free (d : TermData) (h : spec cfg.info d = .sideFree) : sideDep cfg.info table d = false := by
  simp [sideDep, h]

theorem require_shape (cur : Side) (d : TermData) (g : Expr) (h : requireRule cfg cur (.term d) = some g) :
    TermShape cfg table d g := by
  simp only [requireRule, hdr, defaultOf_term] at h
  cases hd : termDefault cfg.info table d with
  | none => simp [hd] at h
  | some r =>
    simp only [hd] at h
    by_cases hcur : cur = .none
    · subst hcur
      by_cases hr : r = .none
      · subst hr
        simp only [↓reduceIte, Option.some.injEq] at h
        exact .bare h.symm (sideDep_of_default_none cfg table hdr d hd)
      · simp [hr] at h
    · by_cases hr : r = .none
      · simp [hcur, hr] at h
      · simp only [hcur, hr, ↓reduceIte, Option.some.injEq] at h
        exact .wrapped cur hcur h.symm

theorem default_shape (cur : Side) (d : TermData) (g : Expr) (h : defaultRule cfg cur (.term d) = some g) :
    TermShape cfg table d g := by
  simp only [defaultRule, hdr, defaultOf_term] at h
  cases hd : termDefault cfg.info table d with
  | none => simp [hd] at h
  | some r =>
    simp only [hd] at h
    by_cases hcur : cur = .none
    · subst hcur
      simp only [↓reduceIte, Option.some.injEq] at h
      by_cases hr : r = .none
      · subst hr
        exact .bare h.symm (sideDep_of_default_none cfg table hdr d hd)
      · exact .wrapped r hr h.symm
    · by_cases hr : r = .none
      · simp [hcur, hr] at h
      · simp only [hcur, hr, ↓reduceIte, Option.some.injEq] at h
        exact .wrapped cur hcur h.symm

theorem opposite_shape (cur : Side) (d : TermData) (g : Expr) (fresh : Nat) (hcls : d.cls = "FacetNormal")
    (hrule : cfg.rule d.cls = .facetNormal) (h : oppositeRule cfg cur fresh (.term d) = some g) :
    TermShape cfg table d g := by
  simp only [oppositeRule, hdr, defaultOf_term] at h
  cases hd : termDefault cfg.info table d with
  | none => simp [hd] at h
  | some r =>
    simp only [hd] at h
    by_cases hcur : cur = .none
    · subst hcur
      by_cases hr : r = .none
      · subst hr
        simp only [↓reduceIte, Option.some.injEq] at h
        exact .bare h.symm (sideDep_of_default_none cfg table hdr d hd)
      · simp [hr] at h
    · by_cases hr : r = .none
      · simp [hcur, hr] at h
      · by_cases he : cur = r
        · simp only [hcur, hr, he, ↓reduceIte, Option.some.injEq] at h
          exact .wrapped r hr h.symm
        · simp only [hcur, hr, he, ↓reduceIte, Option.some.injEq] at h
          exact .flipped r fresh hr h.symm hcls hrule

theorem term_shape (hr : RuleSound cfg.rule) (cur : Side) (d : TermData) (g : Expr)
    (hok : termRuleOK (cfg.rule d.cls) = true) (h : termRule cfg cur d = some g) : TermShape cfg table d g := by
  simp only [termRule] at h
  cases hrule : cfg.rule d.cls with
  | coefficient =>
    simp only [hrule] at h
    split at h
    · exact default_shape cfg table hdr cur d g h
    · exact require_shape cfg table hdr cur d g h
  | facetNormal =>
    simp only [hrule] at h
    have hcls := hr.normal_only d.cls hrule
    split at h
    · exact opposite_shape cfg table hdr cur d g _ hcls hrule h
    · exact require_shape cfg table hdr cur d g h
  | reuse => simp [hrule, termRuleOK] at hok
  | ignore =>
    simp only [hrule, nodeRule, Option.some.injEq] at h
    have := hr.ignore_free d.cls hrule
    exact .bare h.symm (sideDep_of_free cfg table d (by rw [spec_of_not_disc cfg.info d (by rw [this]; simp), this]))
  | require => simp only [hrule, nodeRule] at h; exact require_shape cfg table hdr cur d g h
  | default => simp only [hrule, nodeRule] at h; exact default_shape cfg table hdr cur d g h
  | opposite => exact absurd hrule (hr.no_opposite d.cls)
  | missing => simp [hrule, nodeRule] at h
  | referenceValue => simp [hrule, nodeRule] at h
  | «variable» => simp [hrule, nodeRule] at h
  | restricted => simp [hrule, nodeRule] at h
  | cellOperator => simp [hrule, nodeRule] at h
  | unknown => simp [hrule, nodeRule] at h

omit hdr in
theorem once_restrict_term (x : Side) (d : TermData) (hx : x ≠ .none) :
    Once (sideDep cfg.info table) 0 (restrict x (.term d)) = true := by
  by_cases hk : isConstantValue (.term d) = true
  · have : restrict x (.term d) = .term d := by cases x <;> simp only [restrict, hk, ↓reduceIte]
    rw [this]
    simp [Once, sideDep_of_free cfg table d (constantValue_term_free cfg.info d hk)]
  · have hk' : isConstantValue (.term d) = false := by simpa using hk
    cases x with
    | none => exact absurd rfl hx
    | plus => simp only [restrict, hk', Bool.false_eq_true, ↓reduceIte, Once]; split <;> simp
    | minus => simp only [restrict, hk', Bool.false_eq_true, ↓reduceIte, Once]; split <;> simp

omit hdr in
theorem TermShape.once {d : TermData} {g : Expr} (o : TermShape cfg table d g) :
    Once (sideDep cfg.info table) 0 g = true := by
  cases o with
  | bare hg h => rw [hg]; simp [Once, h]
  | wrapped x hx hg => rw [hg]; exact once_restrict_term cfg table x d hx
  | flipped r fresh hr hg hcls _ =>
    have hk : isConstantValue (.term d) = false := by simp [isConstantValue, hcls]
    have hw : Once (sideDep cfg.info table) 0 (restrict r (.term d)) = true := once_restrict_term cfg table r d hr
    rw [hg]
    unfold negE
    split
    · rw [Once_op _ _ _ _ _ (by simp) (by simp)]
      simp [OnceL, Once, hw]
    · rw [Once_op _ _ _ _ _ (by simp) (by simp)]
      simp only [OnceL, Bool.and_eq_true, and_true]
      refine ⟨?_, by simp [Once]⟩
      rw [Once_op _ _ _ _ _ (by simp) (by simp)]
      simp only [OnceL, Bool.and_eq_true, and_true]
      refine ⟨by simp [Once], ?_⟩
      rw [Once_op _ _ _ _ _ (by simp) (by simp)]
      simp [OnceL, Once, hw]

end


/-! ### exactly once -/

theorem onceL_of_rel (sd : TermData → Bool) : ∀ (as bs : List Expr), RelL (fun _ b => Once sd 0 b = true) as bs → OnceL sd 0 bs = true
  | [], [], _ => rfl
  | _ :: as, b :: bs, ⟨h, hs⟩ => by simp [OnceL, h, onceL_of_rel sd as bs hs]
  | [], _ :: _, h => by cases h
  | _ :: _, [], h => by cases h

section
variable (cfg : Cfg) (table : List (Nat × Side)) (hdr : cfg.dr = some table) (hr : RuleSound cfg.rule)
include hdr hr

def POnce (e : Expr) : Prop :=
  ∀ cur e', Proper cfg.rule e = true → GradsPlain cfg.rule e = true → applyE cfg plainRb cur e = some e' →
    Once (sideDep cfg.info table) 0 e' = true

omit hr in
theorem lit_once (e : Expr) (hl : isLit e = true) (cur : Side) (e' : Expr)
    (h : nodeRule cfg cur (cfg.rule (clsName e)) 0 e = some e') : Once (sideDep cfg.info table) 0 e' = true := by
  have hd : doms cfg.info e = [] := by cases e <;> simp_all [isLit, doms]
  have hnone : defaultOf cfg table e = none := by simp [defaultOf, uniqueDomain, hd]
  have he : e' = e := by
    cases hrule : cfg.rule (clsName e) <;>
      simp_all [nodeRule, requireRule, defaultRule, oppositeRule]
  subst he
  cases e' <;> simp_all [isLit, Once]

theorem op_once (k : Op) (aux : List Nat) (args : List Expr) (ih : ∀ a ∈ args, POnce cfg table a) :
    POnce cfg table (.op k aux args) := by
  intro cur e' hp hgp h
  simp only [Proper, Bool.and_eq_true, beq_iff_eq] at hp
  obtain ⟨⟨⟨hcanon, hopok⟩, hrv⟩, hpl⟩ := hp
  simp only [GradsPlain, Bool.and_eq_true] at hgp
  obtain ⟨hnode, hgpl⟩ := hgp
  unfold applyE at h
  have hnr : cfg.rule k.name ≠ .restricted → k ≠ .positiveRestricted ∧ k ≠ .negativeRestricted := by
    intro hk
    refine ⟨fun e => ?_, fun e => ?_⟩
    · rw [e, name_pos] at hk; exact hk hr.restricted_pos
    · rw [e, name_neg] at hk; exact hk hr.restricted_neg
  have reuseCase : k ≠ .positiveRestricted → k ≠ .negativeRestricted →
      (match applyL cfg plainRb cur args with
       | some args' => plainRb k aux args args'
       | none => none) = some e' → Once (sideDep cfg.info table) 0 e' = true := by
    intro hk1 hk2 h
    cases hl : applyL cfg plainRb cur args with
    | none => simp [hl] at h
    | some args' =>
      simp only [hl, plainRb, Option.some.injEq] at h
      subst h
      have hrel := applyL_spec cfg plainRb cur args args' hl
      rw [Once_op _ _ k aux args' hk1 hk2]
      apply onceL_of_rel _ args args'
      exact RelL.imp args args' (fun a ha b hab =>
        ih a ha cur b (ProperL_mem cfg.rule args a hpl ha) (GradsPlainL_mem cfg.rule args a hgpl ha) hab) hrel
  cases hrule : cfg.rule k.name with
  | restricted =>
    simp only [hrule] at h
    match args, h, hpl, hgpl, ih with
    | [a], h, hpl, hgpl, ih =>
      by_cases hcur : cur = .none
      · subst hcur
        simp only [↓reduceIte] at h
        have hpa : Proper cfg.rule a = true := ProperL_mem cfg.rule [a] a hpl (by simp)
        have hga : GradsPlain cfg.rule a = true := GradsPlainL_mem cfg.rule [a] a hgpl (by simp)
        split at h
        · exact ih a (by simp) .plus e' hpa hga h
        · exact ih a (by simp) .minus e' hpa hga h
        · cases h
      · simp [hcur] at h
    | [], h, _, _, _ => simp at h
    | _ :: _ :: _, h, _, _, _ => simp at h
  | «variable» =>
    simp only [hrule] at h
    match args, h, hpl, hgpl, ih with
    | [a, l], h, hpl, hgpl, ih =>
      cases ha : applyE cfg plainRb cur a with
      | none => simp [ha] at h
      | some a' =>
        cases hl : applyE cfg plainRb cur l with
        | none => simp [ha, hl] at h
        | some l' =>
          simp only [ha, hl, Option.some.injEq] at h
          subst h
          exact ih a (by simp) cur a' (ProperL_mem cfg.rule [a, l] a hpl (by simp)) (GradsPlainL_mem cfg.rule [a, l] a hgpl (by simp)) ha
    | [], h, _, _, _ => simp at h
    | [_], h, _, _, _ => simp at h
    | _ :: _ :: _ :: _, h, _, _, _ => simp at h
  | referenceValue =>
    simp only [hrule] at h
    have hk : k = .referenceValue := op_of_name hcanon (hr.refvalue_only k.name hrule)
    subst hk
    match args, h, hpl, hrv with
    | [.term d], h, hpl, hrv =>
      cases hg : termRule cfg cur d with
      | none => simp [hg] at h
      | some g =>
        simp only [hg, Option.some.injEq] at h
        subst h
        have hpd : termRuleOK (cfg.rule d.cls) = true := by
          have := ProperL_mem cfg.rule [.term d] (.term d) hpl (by simp)
          simpa [Proper] using this
        have o := term_shape cfg table hdr hr cur d g hpd hg
        have hbare : ∀ (h0 : sideDep cfg.info table d = false),
            Once (sideDep cfg.info table) 0 (.op .referenceValue aux [.term d]) = true := by
          intro h0
          rw [Once_op _ _ _ _ _ (by simp) (by simp)]
          simp [OnceL, Once, h0]
        cases o with
        | bare hg' h0 => rw [hg']; simpa [restrictedSide, restrict] using hbare h0
        | wrapped x hx hg' =>
          by_cases hk : isConstantValue (.term d) = true
          · have : restrict x (.term d) = .term d := by cases x <;> simp only [restrict, hk, ↓reduceIte]
            rw [hg', this]
            simpa [restrictedSide, restrict] using hbare (sideDep_of_free cfg table d (constantValue_term_free cfg.info d hk))
          · have hk' : isConstantValue (.term d) = false := by simpa using hk
            have hin : Once (sideDep cfg.info table) 1 (.op .referenceValue aux [.term d]) = true := by
              rw [Once_op _ _ _ _ _ (by simp) (by simp)]
              simp only [OnceL, Once, Bool.and_true]
              split <;> simp
            rw [hg']
            cases x with
            | none => exact absurd rfl hx
            | plus =>
              have hop : isConstantValue (.op .referenceValue aux [.term d]) = false := rfl
              simp only [restrict, hk', hop, Bool.false_eq_true, ↓reduceIte, restrictedSide, Once, beq_self_eq_true, Bool.true_and]
              exact hin
            | minus =>
              have hop : isConstantValue (.op .referenceValue aux [.term d]) = false := rfl
              simp only [restrict, hk', hop, Bool.false_eq_true, ↓reduceIte, restrictedSide, Once, beq_self_eq_true, Bool.true_and]
              exact hin
        | flipped _ _ _ _ _ hrule' => simp [hrule'] at hrv
    | [], h, _, _ => simp at h
    | [.op _ _ _], h, _, _ => simp at h
    | [.int _], h, _, _ => simp at h
    | [.real _ _], h, _, _ => simp at h
    | [.cplx _ _ _ _], h, _, _ => simp at h
    | [.zero _ _], h, _, _ => simp at h
    | [.mi _], h, _, _ => simp at h
    | _ :: _ :: _, h, _, _ => simp at h
  | reuse =>
    simp only [hrule] at h
    obtain ⟨hk1, hk2⟩ := hnr (by rw [hrule]; simp)
    exact reuseCase hk1 hk2 h
  | cellOperator =>
    simp only [hrule] at h
    obtain ⟨hk1, hk2⟩ := hnr (by rw [hrule]; simp)
    split at h
    · cases h
    · exact reuseCase hk1 hk2 h
  | require =>
    simp only [hrule, requireRule, hdr] at h
    have hk1 : k ≠ .positiveRestricted := fun e => by rw [e, name_pos, hr.restricted_pos] at hrule; cases hrule
    have hk2 : k ≠ .negativeRestricted := fun e => by rw [e, name_neg, hr.restricted_neg] at hrule; cases hrule
    have hfree : restrFree (.op k aux args) = true := by
      simp only [hrule, isNodeRule, ↓reduceIte] at hnode
      simp [restrFree, hk1, hk2, hnode]
    cases hd : defaultOf cfg table (.op k aux args) with
    | none => simp [hd] at h
    | some r =>
      simp only [hd] at h
      by_cases hcur : cur = .none
      · subst hcur
        by_cases hrn : r = .none
        · subst hrn
          simp only [↓reduceIte, Option.some.injEq] at h
          subst h
          apply once_of_restrFree cfg.info table 0 (by omega) _ hfree
          intro _ m hm
          simp only [defaultOf] at hd
          cases hu : uniqueDomain cfg.info (.op k aux args) with
          | none => simp [hu] at hd
          | some m0 =>
            simp only [hu] at hd
            have := uniqueDomain_all cfg.info _ m0 hu m hm
            subst this
            simp [hd]
        · simp [hrn] at h
      · by_cases hrn : r = .none
        · simp [hcur, hrn] at h
        · simp only [hcur, hrn, ↓reduceIte, Option.some.injEq] at h
          subst h
          have hin := once_of_restrFree cfg.info table 1 (by omega) _ hfree (by intro h0; cases h0)
          cases cur with
          | none => exact absurd rfl hcur
          | plus => simpa [restrict, isConstantValue, Once] using hin
          | minus => simpa [restrict, isConstantValue, Once] using hin
  | ignore => simp [hrule, opRuleOK] at hopok
  | default => simp [hrule, opRuleOK] at hopok
  | opposite => simp [hrule, opRuleOK] at hopok
  | coefficient => simp [hrule, opRuleOK] at hopok
  | facetNormal => simp [hrule, opRuleOK] at hopok
  | missing => simp [hrule] at h
  | unknown => simp [hrule] at h

mutual
theorem once_aux : ∀ e : Expr, POnce cfg table e
  | .term d => fun cur e' hp _ h => by
    simp only [applyE] at h
    simp only [Proper] at hp
    exact (term_shape cfg table hdr hr cur d e' hp h).once
  | .op k aux args => op_once cfg table hdr hr k aux args (once_auxL args)
  | .int v => fun cur e' _ _ h => lit_once cfg table hdr (.int v) rfl cur e' (by simpa [applyE] using h)
  | .real n d => fun cur e' _ _ h => lit_once cfg table hdr (.real n d) rfl cur e' (by simpa [applyE] using h)
  | .cplx a b c d => fun cur e' _ _ h => lit_once cfg table hdr (.cplx a b c d) rfl cur e' (by simpa [applyE] using h)
  | .zero sh f => fun cur e' _ _ h => lit_once cfg table hdr (.zero sh f) rfl cur e' (by simpa [applyE] using h)
  | .mi is => fun cur e' _ _ h => lit_once cfg table hdr (.mi is) rfl cur e' (by simpa [applyE] using h)
theorem once_auxL : ∀ (as : List Expr), ∀ a ∈ as, POnce cfg table a
  | [], _, h => by cases h
  | b :: bs, a, h => by
    cases List.mem_cons.mp h with
    | inl e => rw [e]; exact once_aux b
    | inr e => exact once_auxL bs a e
end

end


/-! ### rejection of double restrictions -/

def isR (k : Op) : Bool := k == .positiveRestricted || k == .negativeRestricted

mutual
theorem nested_not_free : ∀ (b : Bool) (e : Expr), Nested b e = true → restrFree e = false
  | b, .op k aux args, h => by
    simp only [Nested, Bool.or_eq_true, Bool.and_eq_true] at h
    simp only [restrFree]
    cases h with
    | inl h =>
      cases h.2 with
      | inl h => simp [beq_iff_eq.mp h]
      | inr h => simp [beq_iff_eq.mp h]
    | inr h => simp [nestedL_not_free _ args h]
  | _, .term _, h => by simp [Nested] at h
  | _, .int _, h => by simp [Nested] at h
  | _, .real _ _, h => by simp [Nested] at h
  | _, .cplx _ _ _ _, h => by simp [Nested] at h
  | _, .zero _ _, h => by simp [Nested] at h
  | _, .mi _, h => by simp [Nested] at h
theorem nestedL_not_free : ∀ (b : Bool) (as : List Expr), NestedL b as = true → restrFreeL as = false
  | _, [], h => by simp [NestedL] at h
  | b, a :: as, h => by
    simp only [NestedL, Bool.or_eq_true] at h
    simp only [restrFreeL]
    cases h with
    | inl h => simp [nested_not_free b a h]
    | inr h => simp [nestedL_not_free b as h]
end

theorem restrFreeL_false : ∀ as : List Expr, restrFreeL as = false → ∃ a ∈ as, restrFree a = false
  | [], h => by simp [restrFreeL] at h
  | a :: as, h => by
    simp only [restrFreeL, Bool.and_eq_false_iff] at h
    cases h with
    | inl h => exact ⟨a, by simp, h⟩
    | inr h => obtain ⟨x, hx, hf⟩ := restrFreeL_false as h; exact ⟨x, by simp [hx], hf⟩

theorem nestedL_true : ∀ (b : Bool) (as : List Expr), NestedL b as = true → ∃ a ∈ as, Nested b a = true
  | _, [], h => by simp [NestedL] at h
  | b, a :: as, h => by
    simp only [NestedL, Bool.or_eq_true] at h
    cases h with
    | inl h => exact ⟨a, by simp, h⟩
    | inr h => obtain ⟨x, hx, hf⟩ := nestedL_true b as h; exact ⟨x, by simp [hx], hf⟩

section
variable (cfg : Cfg) (rb : Rebuild) (hr : RuleSound cfg.rule)
include hr

def PDouble (e : Expr) : Prop :=
  ∀ cur, Proper cfg.rule e = true → GradsPlain cfg.rule e = true →
    (cur ≠ .none → restrFree e = false → applyE cfg rb cur e = none) ∧
    (cur = .none → Nested false e = true → applyE cfg rb cur e = none)

theorem op_double (k : Op) (aux : List Nat) (args : List Expr) (ih : ∀ a ∈ args, PDouble cfg rb a) :
    PDouble cfg rb (.op k aux args) := by
  intro cur hp hgp
  simp only [Proper, Bool.and_eq_true, beq_iff_eq] at hp
  obtain ⟨⟨⟨hcanon, hopok⟩, _⟩, hpl⟩ := hp
  simp only [GradsPlain, Bool.and_eq_true] at hgp
  obtain ⟨hnode, hgpl⟩ := hgp
  -- an operand with the bad pattern makes the operand list fail
  have hmem : ∀ a ∈ args, applyE cfg rb cur a = none → applyL cfg rb cur args = none :=
    fun a ha hn => applyL_none_of_mem cfg rb cur args a ha hn
  have hsub : ∀ a ∈ args, (cur ≠ .none → restrFree a = false → applyE cfg rb cur a = none) ∧
      (cur = .none → Nested false a = true → applyE cfg rb cur a = none) :=
    fun a ha => ih a ha cur (ProperL_mem cfg.rule args a hpl ha) (GradsPlainL_mem cfg.rule args a hgpl ha)
  -- the bad pattern is in an operand whenever the node itself is not a restriction
  have hdown : k ≠ .positiveRestricted → k ≠ .negativeRestricted →
      ((cur ≠ .none ∧ restrFree (.op k aux args) = false) ∨ (cur = .none ∧ Nested false (.op k aux args) = true)) →
      ∃ a ∈ args, applyE cfg rb cur a = none := by
    intro hk1 hk2 hbad
    cases hbad with
    | inl hb =>
      have : restrFreeL args = false := by
        have := hb.2
        simp only [restrFree, Bool.and_eq_false_iff, bne_eq_false_iff_eq] at this
        rcases this with (h | h) | h
        · exact absurd h hk1
        · exact absurd h hk2
        · exact h
      obtain ⟨a, ha, hf⟩ := restrFreeL_false args this
      exact ⟨a, ha, (hsub a ha).1 hb.1 hf⟩
    | inr hb =>
      have : NestedL false args = true := by
        have := hb.2
        simp only [Nested, Bool.false_and, Bool.false_or, Bool.or_eq_true] at this
        have e1 : (k == Op.positiveRestricted) = false := by simpa using hk1
        have e2 : (k == Op.negativeRestricted) = false := by simpa using hk2
        simpa [e1, e2] using this
      obtain ⟨a, ha, hf⟩ := nestedL_true false args this
      exact ⟨a, ha, (hsub a ha).2 hb.1 hf⟩
  have main : ((cur ≠ .none ∧ restrFree (.op k aux args) = false) ∨ (cur = .none ∧ Nested false (.op k aux args) = true)) →
      applyE cfg rb cur (.op k aux args) = none := by
    intro hbad
    unfold applyE
    cases hrule : cfg.rule k.name with
    | restricted =>
      simp only
      match args, hpl, hgpl, ih, hbad with
      | [a], hpl, hgpl, ih, hbad =>
        by_cases hcur : cur = .none
        · subst hcur
          simp only [↓reduceIte]
          have hpa : Proper cfg.rule a = true := ProperL_mem cfg.rule [a] a hpl (by simp)
          have hga : GradsPlain cfg.rule a = true := GradsPlainL_mem cfg.rule [a] a hgpl (by simp)
          have hn : Nested false (.op k aux [a]) = true := by
            cases hbad with
            | inl h => exact absurd rfl h.1
            | inr h => exact h.2
          split
          · simp only [Nested, NestedL, Bool.false_and, Bool.false_or, beq_self_eq_true, Bool.true_or, Bool.or_false] at hn
            exact (ih a (by simp) .plus hpa hga).1 (by simp) (nested_not_free true a (by simpa using hn))
          · simp only [Nested, NestedL, Bool.false_and, Bool.false_or, beq_self_eq_true, Bool.or_true, Bool.or_false] at hn
            exact (ih a (by simp) .minus hpa hga).1 (by simp) (nested_not_free true a (by simpa using hn))
          · rfl
        · simp [hcur]
      | [], _, _, _, _ => rfl
      | _ :: _ :: _, _, _, _, _ => rfl
    | «variable» =>
      simp only
      have hk : k = .variable := op_of_name hcanon (hr.variable_only k.name hrule)
      match args, hdown, hbad with
      | [a, l], hdown, hbad =>
        obtain ⟨x, hx, hn⟩ := hdown (by rw [hk]; simp) (by rw [hk]; simp) hbad
        simp only [List.mem_cons, List.not_mem_nil, or_false] at hx
        cases hx with
        | inl e => subst e; simp [hn]
        | inr e => subst e; cases applyE cfg rb cur a <;> simp [hn]
      | [], _, _ => rfl
      | [_], _, _ => rfl
      | _ :: _ :: _ :: _, _, _ => rfl
    | referenceValue =>
      simp only
      have hk : k = .referenceValue := op_of_name hcanon (hr.refvalue_only k.name hrule)
      match args, hdown, hbad with
      | [.term d], hdown, hbad =>
        obtain ⟨x, hx, hn⟩ := hdown (by rw [hk]; simp) (by rw [hk]; simp) hbad
        simp only [List.mem_cons, List.not_mem_nil, or_false] at hx
        subst hx
        simp only [applyE] at hn
        simp [hn]
      | [], _, _ => rfl
      | [.op _ _ _], _, _ => rfl
      | [.int _], _, _ => rfl
      | [.real _ _], _, _ => rfl
      | [.cplx _ _ _ _], _, _ => rfl
      | [.zero _ _], _, _ => rfl
      | [.mi _], _, _ => rfl
      | _ :: _ :: _, _, _ => simp
    | reuse =>
      simp only
      have hk1 : k ≠ .positiveRestricted := fun e => by rw [e, name_pos, hr.restricted_pos] at hrule; cases hrule
      have hk2 : k ≠ .negativeRestricted := fun e => by rw [e, name_neg, hr.restricted_neg] at hrule; cases hrule
      obtain ⟨a, ha, hn⟩ := hdown hk1 hk2 hbad
      simp [hmem a ha hn]
    | cellOperator =>
      simp only
      have hk1 : k ≠ .positiveRestricted := fun e => by rw [e, name_pos, hr.restricted_pos] at hrule; cases hrule
      have hk2 : k ≠ .negativeRestricted := fun e => by rw [e, name_neg, hr.restricted_neg] at hrule; cases hrule
      obtain ⟨a, ha, hn⟩ := hdown hk1 hk2 hbad
      simp [hmem a ha hn]
    | require =>
      exfalso
      have hk1 : k ≠ .positiveRestricted := fun e => by rw [e, name_pos, hr.restricted_pos] at hrule; cases hrule
      have hk2 : k ≠ .negativeRestricted := fun e => by rw [e, name_neg, hr.restricted_neg] at hrule; cases hrule
      have hfree : restrFree (.op k aux args) = true := by
        simp only [hrule, isNodeRule, ↓reduceIte] at hnode
        simp [restrFree, hk1, hk2, hnode]
      cases hbad with
      | inl h => rw [hfree] at h; cases h.2
      | inr h => have := nested_not_free false _ h.2; rw [hfree] at this; cases this
    | ignore => simp [hrule, opRuleOK] at hopok
    | default => simp [hrule, opRuleOK] at hopok
    | opposite => simp [hrule, opRuleOK] at hopok
    | coefficient => simp [hrule, opRuleOK] at hopok
    | facetNormal => simp [hrule, opRuleOK] at hopok
    | missing => rfl
    | unknown => rfl
  exact ⟨fun h1 h2 => main (Or.inl ⟨h1, h2⟩), fun h1 h2 => main (Or.inr ⟨h1, h2⟩)⟩

mutual
theorem double_aux : ∀ e : Expr, PDouble cfg rb e
  | .op k aux args => op_double cfg rb hr k aux args (double_auxL args)
  | .term _ => fun _ _ _ => ⟨fun _ h => by simp [restrFree] at h, fun _ h => by simp [Nested] at h⟩
  | .int _ => fun _ _ _ => ⟨fun _ h => by simp [restrFree] at h, fun _ h => by simp [Nested] at h⟩
  | .real _ _ => fun _ _ _ => ⟨fun _ h => by simp [restrFree] at h, fun _ h => by simp [Nested] at h⟩
  | .cplx _ _ _ _ => fun _ _ _ => ⟨fun _ h => by simp [restrFree] at h, fun _ h => by simp [Nested] at h⟩
  | .zero _ _ => fun _ _ _ => ⟨fun _ h => by simp [restrFree] at h, fun _ h => by simp [Nested] at h⟩
  | .mi _ => fun _ _ _ => ⟨fun _ h => by simp [restrFree] at h, fun _ h => by simp [Nested] at h⟩
theorem double_auxL : ∀ (as : List Expr), ∀ a ∈ as, PDouble cfg rb a
  | [], _, h => by cases h
  | b :: bs, a, h => by
    cases List.mem_cons.mp h with
    | inl e => rw [e]; exact double_aux b
    | inr e => exact double_auxL bs a e
end

end


/-! ### rejection of missing restrictions (default restrictions given) -/

def sidedDom (table : List (Nat × Side)) (m : Nat) : Prop :=
  (table.find? (fun p => p.1 == m)).map (·.2) = some .plus ∨ (table.find? (fun p => p.1 == m)).map (·.2) = some .minus

mutual
theorem bareDisc_dom (info : String → TInfo) (table : List (Nat × Side)) :
    ∀ e : Expr, BareDisc info table e = true → ∃ m ∈ doms info e, sidedDom table m
  | .term d, h => by
    simp only [BareDisc, Bool.and_eq_true, Bool.or_eq_true, beq_iff_eq, termDefault] at h
    simp only [doms]
    cases hd : (info d.key).dom with
    | none => simp [hd] at h
    | some m => exact ⟨m, by simp, by simpa [hd, sidedDom] using h.2⟩
  | .op k aux args, h => by
    simp only [BareDisc, Bool.and_eq_true] at h
    simpa [doms] using bareDiscL_dom info table args h.2
  | .int _, h => by simp [BareDisc] at h
  | .real _ _, h => by simp [BareDisc] at h
  | .cplx _ _ _ _, h => by simp [BareDisc] at h
  | .zero _ _, h => by simp [BareDisc] at h
  | .mi _, h => by simp [BareDisc] at h
theorem bareDiscL_dom (info : String → TInfo) (table : List (Nat × Side)) :
    ∀ as : List Expr, BareDiscL info table as = true → ∃ m ∈ domsL info as, sidedDom table m
  | [], h => by simp [BareDiscL] at h
  | a :: as, h => by
    simp only [BareDiscL, Bool.or_eq_true] at h
    cases h with
    | inl h => obtain ⟨m, hm, hs⟩ := bareDisc_dom info table a h; exact ⟨m, by simp [domsL, hm], hs⟩
    | inr h => obtain ⟨m, hm, hs⟩ := bareDiscL_dom info table as h; exact ⟨m, by simp [domsL, hm], hs⟩
end

theorem bareDiscL_true (info : String → TInfo) (table : List (Nat × Side)) :
    ∀ as : List Expr, BareDiscL info table as = true → ∃ a ∈ as, BareDisc info table a = true
  | [], h => by simp [BareDiscL] at h
  | a :: as, h => by
    simp only [BareDiscL, Bool.or_eq_true] at h
    cases h with
    | inl h => exact ⟨a, by simp, h⟩
    | inr h => obtain ⟨x, hx, hf⟩ := bareDiscL_true info table as h; exact ⟨x, by simp [hx], hf⟩

section
variable (cfg : Cfg) (rb : Rebuild) (table : List (Nat × Side)) (hdr : cfg.dr = some table) (hr : RuleSound cfg.rule)
include hdr hr

omit hr in
theorem require_missing (o : Expr) (h : ∃ m ∈ doms cfg.info o, sidedDom table m) : requireRule cfg .none o = none := by
  simp only [requireRule, hdr, defaultOf]
  cases hu : uniqueDomain cfg.info o with
  | none => rfl
  | some m0 =>
    obtain ⟨m, hm, hs⟩ := h
    have := uniqueDomain_all cfg.info o m0 hu m hm
    subst this
    simp only
    cases hs with
    | inl hs => simp [hs]
    | inr hs => simp [hs]

omit hr in
theorem opposite_missing (fresh : Nat) (o : Expr) (h : ∃ m ∈ doms cfg.info o, sidedDom table m) :
    oppositeRule cfg .none fresh o = none := by
  simp only [oppositeRule, hdr, defaultOf]
  cases hu : uniqueDomain cfg.info o with
  | none => rfl
  | some m0 =>
    obtain ⟨m, hm, hs⟩ := h
    have := uniqueDomain_all cfg.info o m0 hu m hm
    subst this
    simp only
    cases hs with
    | inl hs => simp [hs]
    | inr hs => simp [hs]

theorem term_missing (d : TermData) (hok : termRuleOK (cfg.rule d.cls) = true)
    (hb : BareDisc cfg.info table (.term d) = true) : termRule cfg .none d = none := by
  have hdom := bareDisc_dom cfg.info table (.term d) hb
  simp only [BareDisc, Bool.and_eq_true, beq_iff_eq] at hb
  have hspec := hb.1
  simp only [termRule]
  cases hrule : cfg.rule d.cls with
  | coefficient =>
    have hcls := hr.coefficient_only d.cls hrule
    have : (cfg.info d.key).h1 = false := by
      cases hh : (cfg.info d.key).h1 with
      | false => rfl
      | true => simp [spec, hcls, hh] at hspec
    simp only [this, Bool.false_eq_true, ↓reduceIte]
    exact require_missing cfg table hdr _ hdom
  | facetNormal =>
    simp only
    split
    · exact opposite_missing cfg table hdr _ _ hdom
    · exact require_missing cfg table hdr _ hdom
  | reuse => simp [hrule, termRuleOK] at hok
  | ignore =>
    have := hr.ignore_free d.cls hrule
    rw [spec_of_not_disc cfg.info d (by rw [this]; simp), this] at hspec
    cases hspec
  | require => simp only [nodeRule]; exact require_missing cfg table hdr _ hdom
  | default =>
    have := hr.default_cont d.cls hrule
    rw [spec_of_not_disc cfg.info d this] at hspec
    exact absurd hspec this
  | opposite => exact absurd hrule (hr.no_opposite d.cls)
  | missing => rfl
  | referenceValue => rfl
  | «variable» => rfl
  | restricted => rfl
  | cellOperator => rfl
  | unknown => rfl

def PMissing (e : Expr) : Prop :=
  Proper cfg.rule e = true → BareDisc cfg.info table e = true → applyE cfg rb .none e = none

theorem op_missing (k : Op) (aux : List Nat) (args : List Expr) (ih : ∀ a ∈ args, PMissing cfg rb table a) :
    PMissing cfg rb table (.op k aux args) := by
  intro hp hb
  have hdom := bareDisc_dom cfg.info table (.op k aux args) hb
  simp only [Proper, Bool.and_eq_true, beq_iff_eq] at hp
  obtain ⟨⟨⟨hcanon, hopok⟩, _⟩, hpl⟩ := hp
  simp only [BareDisc, Bool.and_eq_true, bne_iff_ne, ne_eq] at hb
  obtain ⟨⟨hk1, hk2⟩, hbl⟩ := hb
  obtain ⟨a, ha, hba⟩ := bareDiscL_true cfg.info table args hbl
  have hna : applyE cfg rb .none a = none := ih a ha (ProperL_mem cfg.rule args a hpl ha) hba
  unfold applyE
  cases hrule : cfg.rule k.name with
  | restricted =>
    simp only
    match args with
    | [x] =>
      simp only [↓reduceIte]
      try (split <;> first | exact absurd rfl hk1 | exact absurd rfl hk2 | rfl)
    | [] => rfl
    | _ :: _ :: _ => rfl
  | «variable» =>
    simp only
    match args, ha with
    | [x, l], ha =>
      simp only [List.mem_cons, List.not_mem_nil, or_false] at ha
      cases ha with
      | inl e => subst e; simp [hna]
      | inr e => subst e; cases applyE cfg rb .none x <;> simp [hna]
    | [], _ => rfl
    | [_], _ => rfl
    | _ :: _ :: _ :: _, _ => rfl
  | referenceValue =>
    simp only
    match args, ha with
    | [.term d], ha =>
      simp only [List.mem_cons, List.not_mem_nil, or_false] at ha
      subst ha
      simp only [applyE] at hna
      simp [hna]
    | [], _ => rfl
    | [.op _ _ _], _ => rfl
    | [.int _], _ => rfl
    | [.real _ _], _ => rfl
    | [.cplx _ _ _ _], _ => rfl
    | [.zero _ _], _ => rfl
    | [.mi _], _ => rfl
    | _ :: _ :: _, _ => simp
  | reuse =>
    simp only
    simp [applyL_none_of_mem cfg rb .none args a ha hna]
  | cellOperator =>
    simp only
    simp [applyL_none_of_mem cfg rb .none args a ha hna]
  | require => simp only; exact require_missing cfg table hdr _ hdom
  | ignore => simp [hrule, opRuleOK] at hopok
  | default => simp [hrule, opRuleOK] at hopok
  | opposite => simp [hrule, opRuleOK] at hopok
  | coefficient => simp [hrule, opRuleOK] at hopok
  | facetNormal => simp [hrule, opRuleOK] at hopok
  | missing => rfl
  | unknown => rfl

mutual
theorem missing_aux : ∀ e : Expr, PMissing cfg rb table e
  | .op k aux args => op_missing cfg rb table hdr hr k aux args (missing_auxL args)
  | .term d => fun hp hb => by
    simp only [applyE]
    simp only [Proper] at hp
    exact term_missing cfg table hdr hr d hp hb
  | .int _ => fun _ h => by simp [BareDisc] at h
  | .real _ _ => fun _ h => by simp [BareDisc] at h
  | .cplx _ _ _ _ => fun _ h => by simp [BareDisc] at h
  | .zero _ _ => fun _ h => by simp [BareDisc] at h
  | .mi _ => fun _ h => by simp [BareDisc] at h
theorem missing_auxL : ∀ (as : List Expr), ∀ a ∈ as, PMissing cfg rb table a
  | [], _, h => by cases h
  | b :: bs, a, h => by
    cases List.mem_cons.mp h with
    | inl e => rw [e]; exact missing_aux b
    | inr e => exact missing_auxL bs a e
end

end

/-! ### the constructor-using propagator accepts only what the constructor-free one accepts -/

def PRef (cfg : Cfg) (e : Expr) : Prop :=
  ∀ cur r, applyE cfg implRb cur e = some r → ∃ p, applyE cfg plainRb cur e = some p

theorem refL (cfg : Cfg) (cur : Side) : ∀ (as : List Expr), (∀ a ∈ as, PRef cfg a) → ∀ bs, applyL cfg implRb cur as = some bs →
    ∃ cs, applyL cfg plainRb cur as = some cs
  | [], _, _, _ => ⟨[], rfl⟩
  | a :: as, ih, bs, h => by
    simp only [applyL] at h ⊢
    cases ha : applyE cfg implRb cur a with
    | none => simp [ha] at h
    | some x =>
      cases hl : applyL cfg implRb cur as with
      | none => simp [ha, hl] at h
      | some xs =>
        obtain ⟨p, hp⟩ := ih a (by simp) cur x ha
        obtain ⟨cs, hcs⟩ := refL cfg cur as (fun y hy => ih y (by simp [hy])) xs hl
        exact ⟨p :: cs, by simp [hp, hcs]⟩

theorem op_ref (cfg : Cfg) (k : Op) (aux : List Nat) (args : List Expr) (ih : ∀ a ∈ args, PRef cfg a) :
    PRef cfg (.op k aux args) := by
  intro cur r h
  unfold applyE at h ⊢
  cases hrule : cfg.rule k.name with
  | restricted =>
    simp only [hrule] at h ⊢
    match args, h, ih with
    | [a], h, ih =>
      by_cases hcur : cur = .none
      · simp only [hcur, ↓reduceIte] at h ⊢
        split at h
        · exact ih a (by simp) .plus r h
        · exact ih a (by simp) .minus r h
        · cases h
      · simp [hcur] at h
    | [], h, _ => simp at h
    | _ :: _ :: _, h, _ => simp at h
  | «variable» =>
    simp only [hrule] at h ⊢
    match args, h, ih with
    | [a, l], h, ih =>
      cases ha : applyE cfg implRb cur a with
      | none => simp [ha] at h
      | some a' =>
        cases hl : applyE cfg implRb cur l with
        | none => simp [ha, hl] at h
        | some l' =>
          obtain ⟨p, hp⟩ := ih a (by simp) cur a' ha
          obtain ⟨q, hq⟩ := ih l (by simp) cur l' hl
          exact ⟨p, by simp [hp, hq]⟩
    | [], h, _ => simp at h
    | [_], h, _ => simp at h
    | _ :: _ :: _ :: _, h, _ => simp at h
  | referenceValue => simp only [hrule] at h ⊢; exact ⟨r, h⟩
  | reuse =>
    simp only [hrule] at h ⊢
    cases hl : applyL cfg implRb cur args with
    | none => simp [hl] at h
    | some bs =>
      obtain ⟨cs, hcs⟩ := refL cfg cur args ih bs hl
      exact ⟨.op k aux cs, by simp [hcs, plainRb]⟩
  | cellOperator =>
    simp only [hrule] at h ⊢
    split at h
    · cases h
    · rename_i hcr
      simp only [hcr, Bool.false_eq_true, ↓reduceIte]
      cases hl : applyL cfg implRb cur args with
      | none => simp [hl] at h
      | some bs =>
        obtain ⟨cs, hcs⟩ := refL cfg cur args ih bs hl
        exact ⟨.op k aux cs, by simp [hcs, plainRb]⟩
  | ignore => simp only [hrule] at h ⊢; exact ⟨r, h⟩
  | require => simp only [hrule] at h ⊢; exact ⟨r, h⟩
  | default => simp only [hrule] at h ⊢; exact ⟨r, h⟩
  | opposite => simp only [hrule] at h ⊢; exact ⟨r, h⟩
  | coefficient => simp [hrule] at h
  | facetNormal => simp [hrule] at h
  | missing => simp [hrule] at h
  | unknown => simp [hrule] at h

mutual
theorem ref_aux (cfg : Cfg) : ∀ e : Expr, PRef cfg e
  | .op k aux args => op_ref cfg k aux args (ref_auxL cfg args)
  | .term d => fun cur r h => ⟨r, by simpa [applyE] using h⟩
  | .int v => fun cur r h => ⟨r, by simpa [applyE] using h⟩
  | .real n d => fun cur r h => ⟨r, by simpa [applyE] using h⟩
  | .cplx a b c d => fun cur r h => ⟨r, by simpa [applyE] using h⟩
  | .zero sh f => fun cur r h => ⟨r, by simpa [applyE] using h⟩
  | .mi is => fun cur r h => ⟨r, by simpa [applyE] using h⟩
theorem ref_auxL (cfg : Cfg) : ∀ (as : List Expr), ∀ a ∈ as, PRef cfg a
  | [], _, h => by cases h
  | b :: bs, a, h => by
    cases List.mem_cons.mp h with
    | inl e => rw [e]; exact ref_aux cfg b
    | inr e => exact ref_auxL cfg bs a e
end

end UflVerif.Restr
