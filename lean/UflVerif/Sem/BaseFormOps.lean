/-
Lemmas about `Adjoint`, `Action`, the operators and `build` of the base-form model (C28).
-/
import UflVerif.Sem.BaseFormLemmas

namespace UflVerif
namespace BaseForm
open Finset

set_option linter.unusedSectionVars false
set_option linter.unusedSimpArgs false
set_option linter.unusedVariables false

variable {K : Type} [CommRing K] [DecidableEq K]

/-- the conjugation of the environment is an involutive ring homomorphism -/
structure StarOK (ρ : Env K) : Prop where
  add : ∀ a b, ρ.star (a + b) = ρ.star a + ρ.star b
  mul : ∀ a b, ρ.star (a * b) = ρ.star a * ρ.star b
  zero : ρ.star 0 = 0
  one : ρ.star 1 = 1
  invol : ∀ a, ρ.star (ρ.star a) = a

theorem delta_symm (i j : Nat) : (delta i j : K) = delta j i := by
  unfold delta; by_cases h : i = j <;> simp [h, eq_comm]

theorem star_delta (ρ : Env K) (hs : StarOK ρ) (i j : Nat) : ρ.star (delta i j) = delta i j := by
  unfold delta; split <;> simp [hs.one, hs.zero]

/-! ### Adjoint -/

mutual
theorem mkAdjoint_value (cfg : Cfg) (cj : K → K) (ρ : Env K) (hs : StarOK ρ) :
    ∀ (f b : BF K), (∀ w ∈ adjWeights f, cj w = ρ.star w) → mkAdjoint cfg cj f = .ok b →
      ∀ i j, denote ρ b [i, j] = ρ.star (denote ρ f [j, i])
  | .zero as, b, _, h, i, j => by
    simp only [mkAdjoint, Except.ok.injEq] at h; subst h; simp [denote, hs.zero]
  | .exprZero, b, _, h, i, j => by simp [mkAdjoint] at h
  | .adjoint x, b, _, h, i, j => by
    simp only [mkAdjoint, Except.ok.injEq] at h; subst h; simp [denote, hs.invol]
  | .coargument a, b, _, h, i, j => by
    simp only [mkAdjoint, Except.ok.injEq] at h; subst h
    simp only [denote, deltaT]; rw [star_delta ρ hs, delta_symm]
  | .formSum cs ws, b, hw, h, i, j => by
    simp only [mkAdjoint] at h
    cases hx : mkAdjointL cfg cj cs with
    | error e => simp [hx, ebind_error] at h
    | ok xs =>
      simp only [hx, ebind_ok] at h
      have hw1 : ∀ w ∈ ws, cj w = ρ.star w := fun w hm => hw w (by simp [adjWeights, hm])
      have hw2 : ∀ w ∈ adjWeightsL cs, cj w = ρ.star w := fun w hm => hw w (by simp [adjWeights, hm])
      have key := mkAdjointL_value cfg cj ρ hs cs xs hw2 hx ws hw1 i j
      cases hm : mkFormSum cfg (xs.zip (ws.map cj)) with
      | error e => simp [hm, ebind_error] at h
      | ok res =>
        simp only [hm, ebind_ok] at h
        have hres := denote_mkFormSum cfg ρ (xs.zip (ws.map cj)) res hm [i, j]
        simp only [denote, denoteSum_zip]
        split at h
        · -- re-initialised: the object is `Adjoint(FormSum(...))` itself
          cases ha : (BF.formSum cs ws).arguments cfg with
          | error e => simp [ha, ebind_error] at h
          | ok as =>
            simp only [ha, ebind_ok] at h
            split at h
            · simp at h
            · simp only [Except.ok.injEq] at h; subst h
              simp [denote, denoteSum_zip]
        · simp only [Except.ok.injEq] at h; subst h
          rw [hres, key]
  | .form itgs, b, _, h, i, j => by
    simp only [mkAdjoint] at h
    cases ha : (BF.form itgs).arguments cfg with
    | error e => simp [ha, ebind_error] at h
    | ok as =>
      simp only [ha, ebind_ok] at h
      split at h
      · simp at h
      · simp only [Except.ok.injEq] at h; subst h; simp [denote]
  | .cofunction c s, b, _, h, i, j => by
    simp only [mkAdjoint] at h
    cases ha : (BF.cofunction c s : BF K).arguments cfg with
    | error e => simp [ha, ebind_error] at h
    | ok as =>
      simp only [ha, ebind_ok] at h
      split at h
      · simp at h
      · simp only [Except.ok.injEq] at h; subst h; simp [denote]
  | .matrix c r k, b, _, h, i, j => by
    simp only [mkAdjoint] at h
    cases ha : (BF.matrix c r k : BF K).arguments cfg with
    | error e => simp [ha, ebind_error] at h
    | ok as =>
      simp only [ha, ebind_ok] at h
      split at h
      · simp at h
      · simp only [Except.ok.injEq] at h; subst h; simp [denote]
  | .action l r, b, _, h, i, j => by
    simp only [mkAdjoint] at h
    cases ha : (BF.action l r).arguments cfg with
    | error e => simp [ha, ebind_error] at h
    | ok as =>
      simp only [ha, ebind_ok] at h
      split at h
      · simp at h
      · simp only [Except.ok.injEq] at h; subst h; simp [denote]
  | .coefficient c s, b, _, h, i, j => by simp [mkAdjoint, BF.arguments, ebind_error] at h
  | .argument a, b, _, h, i, j => by simp [mkAdjoint, BF.arguments, ebind_error] at h
  | .exprSum x y, b, _, h, i, j => by simp [mkAdjoint, BF.arguments, ebind_error] at h
  | .exprOther n, b, _, h, i, j => by simp [mkAdjoint, BF.arguments, ebind_error] at h
theorem mkAdjointL_value (cfg : Cfg) (cj : K → K) (ρ : Env K) (hs : StarOK ρ) :
    ∀ (cs xs : List (BF K)), (∀ w ∈ adjWeightsL cs, cj w = ρ.star w) → mkAdjointL cfg cj cs = .ok xs →
      ∀ ws : List K, (∀ w ∈ ws, cj w = ρ.star w) →
        ∀ i j, dsum ρ (xs.zip (ws.map cj)) [i, j] = ρ.star (dsum ρ (cs.zip ws) [j, i])
  | [], xs, _, h, ws, _, i, j => by
    simp only [mkAdjointL, Except.ok.injEq] at h; subst h; simp [dsum, hs.zero]
  | c :: cs, xs, hw, h, ws, hws, i, j => by
    simp only [mkAdjointL] at h
    cases hx : mkAdjoint cfg cj c with
    | error e => simp [hx, ebind_error] at h
    | ok x =>
      cases hxs : mkAdjointL cfg cj cs with
      | error e => simp [hx, hxs, ebind_ok, ebind_error] at h
      | ok xs' =>
        simp only [hx, hxs, ebind_ok] at h
        simp only [Except.ok.injEq] at h; subst h
        cases ws with
        | nil => simp [dsum, hs.zero]
        | cons w ws =>
          have h1 := mkAdjoint_value cfg cj ρ hs c x (fun v hv => hw v (by simp [adjWeightsL, hv])) hx i j
          have h2 := mkAdjointL_value cfg cj ρ hs cs xs' (fun v hv => hw v (by simp [adjWeightsL, hv])) hxs ws
            (fun v hv => hws v (by simp [hv])) i j
          simp only [List.map_cons, List.zip_cons_cons, dsum, h1, h2, hs.add, hs.mul, hws w (by simp)]
end

theorem dualize_dualize (s : Space) : s.dualize.dualize = s := by
  cases s; simp [Space.dualize]

theorem dualize_inj {s t : Space} (h : s.dualize = t.dualize) : s = t := by
  have := congrArg Space.dualize h
  simpa [dualize_dualize] using this

theorem typed_adjoint_of (σ : List Space) (f : BF K) (h : Typed σ f) (hl : σ.length = 2) : Typed σ.reverse (.adjoint f) := by
  obtain ⟨hwt, hsig⟩ := h
  refine ⟨?_, ?_⟩
  · simp [BF.WT, hwt, hsig, hl]
  · simp [BF.sigS, hsig]

mutual
theorem mkAdjoint_res (cfg : Cfg) (cj : K → K) :
    ∀ (f b : BF K) (σ : List Space), OKc σ f → σ.length = 2 → mkAdjoint cfg cj f = .ok b → Res σ.reverse b
  | .zero as, b, σ, _, _, h => by
    simp only [mkAdjoint, Except.ok.injEq] at h; subst h; left; simp [BF.isZeroObj]
  | .exprZero, b, σ, _, _, h => by simp [mkAdjoint] at h
  | .adjoint x, b, σ, ho, hl, h => by
    simp only [mkAdjoint, Except.ok.injEq] at h; subst h
    rcases ho with hz | ⟨hwt, hsig⟩
    · simp [BF.isZero] at hz
    · right
      simp only [BF.WT, Bool.and_eq_true, beq_iff_eq] at hwt
      simp only [BF.sigS] at hsig
      exact ⟨hwt.1, by rw [← hsig]; simp⟩
  | .coargument a, b, σ, ho, hl, h => by
    simp only [mkAdjoint, Except.ok.injEq] at h; subst h
    rcases ho with hz | ⟨hwt, hsig⟩
    · simp [BF.isZero] at hz
    · right
      simp only [BF.sigS] at hsig
      exact ⟨by simp [BF.WT], by simp [BF.sigS, ← hsig, dualize_dualize]⟩
  | .formSum cs ws, b, σ, ho, hl, h => by
    rcases ho with hz | ht
    · simp [BF.isZero] at hz
    have ht' := ht
    obtain ⟨hwt, hsig⟩ := ht
    rw [WT_formSum_iff] at hwt
    simp only [mkAdjoint] at h
    cases hx : mkAdjointL cfg cj cs with
    | error e => simp [hx, ebind_error] at h
    | ok xs =>
      simp only [hx, ebind_ok] at h
      have hcs : ∀ c ∈ cs, OKc σ c := fun c hc => Or.inr ⟨hwt.1 c hc, (hwt.2.1 c hc).trans hsig⟩
      have hxs := (mkAdjointL_res cfg cj cs xs σ hcs hl hx).1
      cases hm : mkFormSum cfg (xs.zip (ws.map cj)) with
      | error e => simp [hm, ebind_error] at h
      | ok res =>
        simp only [hm, ebind_ok] at h
        have hres := mkFormSum_res cfg σ.reverse (xs.zip (ws.map cj)) res (fun p hp => hxs p.1 (List.of_mem_zip hp).1) hm
        split at h
        · cases ha : (BF.formSum cs ws).arguments cfg with
          | error e => simp [ha, ebind_error] at h
          | ok as =>
            simp only [ha, ebind_ok] at h
            split at h
            · simp at h
            · simp only [Except.ok.injEq] at h; subst h
              exact Or.inr (typed_adjoint_of σ _ ht' hl)
        · simp only [Except.ok.injEq] at h; subst h; exact hres
  | .form itgs, b, σ, ho, hl, h => by
    simp only [mkAdjoint] at h
    cases ha : (BF.form itgs).arguments cfg with
    | error e => simp [ha, ebind_error] at h
    | ok as =>
      simp only [ha, ebind_ok] at h
      split at h
      · simp at h
      · simp only [Except.ok.injEq] at h; subst h
        rcases ho with hz | ht
        · simp [BF.isZero] at hz
        · exact Or.inr (typed_adjoint_of σ _ ht hl)
  | .cofunction c s, b, σ, ho, hl, h => by
    simp only [mkAdjoint] at h
    cases ha : (BF.cofunction c s : BF K).arguments cfg with
    | error e => simp [ha, ebind_error] at h
    | ok as =>
      simp only [ha, ebind_ok] at h
      split at h
      · simp at h
      · simp only [Except.ok.injEq] at h; subst h
        rcases ho with hz | ht
        · simp [BF.isZero] at hz
        · exact Or.inr (typed_adjoint_of σ _ ht hl)
  | .matrix c r k, b, σ, ho, hl, h => by
    simp only [mkAdjoint] at h
    cases ha : (BF.matrix c r k : BF K).arguments cfg with
    | error e => simp [ha, ebind_error] at h
    | ok as =>
      simp only [ha, ebind_ok] at h
      split at h
      · simp at h
      · simp only [Except.ok.injEq] at h; subst h
        rcases ho with hz | ht
        · simp [BF.isZero] at hz
        · exact Or.inr (typed_adjoint_of σ _ ht hl)
  | .action l r, b, σ, ho, hl, h => by
    simp only [mkAdjoint] at h
    cases ha : (BF.action l r).arguments cfg with
    | error e => simp [ha, ebind_error] at h
    | ok as =>
      simp only [ha, ebind_ok] at h
      split at h
      · simp at h
      · simp only [Except.ok.injEq] at h; subst h
        rcases ho with hz | ht
        · simp [BF.isZero] at hz
        · exact Or.inr (typed_adjoint_of σ _ ht hl)
  | .coefficient c s, b, σ, _, _, h => by simp [mkAdjoint, BF.arguments, ebind_error] at h
  | .argument a, b, σ, _, _, h => by simp [mkAdjoint, BF.arguments, ebind_error] at h
  | .exprSum x y, b, σ, _, _, h => by simp [mkAdjoint, BF.arguments, ebind_error] at h
  | .exprOther n, b, σ, _, _, h => by simp [mkAdjoint, BF.arguments, ebind_error] at h
theorem mkAdjointL_res (cfg : Cfg) (cj : K → K) :
    ∀ (cs xs : List (BF K)) (σ : List Space), (∀ c ∈ cs, OKc σ c) → σ.length = 2 → mkAdjointL cfg cj cs = .ok xs →
      (∀ x ∈ xs, OKc σ.reverse x) ∧ xs.length = cs.length
  | [], xs, σ, _, _, h => by
    simp only [mkAdjointL, Except.ok.injEq] at h; subst h; simp
  | c :: cs, xs, σ, hc, hl, h => by
    simp only [mkAdjointL] at h
    cases hx : mkAdjoint cfg cj c with
    | error e => simp [hx, ebind_error] at h
    | ok x =>
      cases hxs : mkAdjointL cfg cj cs with
      | error e => simp [hx, hxs, ebind_ok, ebind_error] at h
      | ok xs' =>
        simp only [hx, hxs, ebind_ok, Except.ok.injEq] at h; subst h
        have h1 := mkAdjoint_res cfg cj c x σ (hc c (by simp)) hl hx
        have h2 := mkAdjointL_res cfg cj cs xs' σ (fun c' hc' => hc c' (by simp [hc'])) hl hxs
        refine ⟨?_, by simp [h2.2]⟩
        intro y hy
        simp only [List.mem_cons] at hy
        rcases hy with rfl | hy
        · exact h1.okc
        · exact h2.1 y hy
end

/-! ### contraction algebra -/

/-- contraction of the last slot of `L` (after `n` free slots, dimension `d`) with the first slot of `R` -/
def contr (n d : Nat) (L R : List Nat → K) (idx : List Nat) : K :=
  sumN d (fun k => L (idx.take n ++ [k]) * R (k :: idx.drop n))

theorem denote_action (ρ : Env K) (l r : BF K) (idx : List Nat) :
    denote ρ (.action l r) idx = contr l.splitAt (l.contrDim ρ) (denote ρ l) (denote ρ r) idx := by
  simp [denote, contr]

theorem contr_zero_left (n d : Nat) (L R : List Nat → K) (idx : List Nat) (h : ∀ i, L i = 0) : contr n d L R idx = 0 := by
  simp [contr, sumN_eq_sum, h]

theorem contr_zero_right (n d : Nat) (L R : List Nat → K) (idx : List Nat) (h : ∀ i, R i = 0) : contr n d L R idx = 0 := by
  simp [contr, sumN_eq_sum, h]

theorem contr_add_right (n d : Nat) (L R1 R2 : List Nat → K) (idx : List Nat) :
    contr n d L (fun j => R1 j + R2 j) idx = contr n d L R1 idx + contr n d L R2 idx := by
  simp [contr, sumN_eq_sum, mul_add, Finset.sum_add_distrib]

theorem contr_smul_right (n d : Nat) (w : K) (L R : List Nat → K) (idx : List Nat) :
    contr n d L (fun j => w * R j) idx = w * contr n d L R idx := by
  simp only [contr, sumN_eq_sum, Finset.mul_sum]
  apply Finset.sum_congr rfl; intros; ring

theorem contr_add_left (n d : Nat) (L1 L2 R : List Nat → K) (idx : List Nat) :
    contr n d (fun j => L1 j + L2 j) R idx = contr n d L1 R idx + contr n d L2 R idx := by
  simp [contr, sumN_eq_sum, add_mul, Finset.sum_add_distrib]

theorem contr_smul_left (n d : Nat) (w : K) (L R : List Nat → K) (idx : List Nat) :
    contr n d (fun j => w * L j) R idx = w * contr n d L R idx := by
  simp only [contr, sumN_eq_sum, Finset.mul_sum]
  apply Finset.sum_congr rfl; intros; ring

/-- the identity on the left: `Σ_k δ(i,k) R(k :: rest) = R(i :: rest)` -/
theorem contr_delta_left (d : Nat) (R : List Nat → K) (i : Nat) (rest : List Nat) (hi : i < d) :
    contr 1 d deltaT R (i :: rest) = R (i :: rest) := by
  simp only [contr, sumN_eq_sum, List.take_succ_cons, List.take_zero, List.singleton_append, List.drop_succ_cons, List.drop_zero]
  simp only [deltaT, delta, ite_mul, one_mul, zero_mul]
  rw [Finset.sum_ite_eq]
  simp [hi]

/-- the identity on the right: `Σ_k L(pre ++ [k]) δ(k,j) = L(pre ++ [j])` -/
theorem contr_delta_right (d : Nat) (L : List Nat → K) (pre : List Nat) (j : Nat) (hj : j < d) :
    contr pre.length d L deltaT (pre ++ [j]) = L (pre ++ [j]) := by
  simp only [contr, sumN_eq_sum, List.take_left', List.drop_left']
  simp only [deltaT, delta, mul_ite, mul_one, mul_zero]
  rw [Finset.sum_ite_eq']
  simp [hj]

/-! ### multi-indices -/

theorem IdxOK.length_eq (ρ : Env K) : ∀ (σ : List Space) (idx : List Nat), IdxOK ρ σ idx → idx.length = σ.length
  | [], [], _ => rfl
  | [], _ :: _, h => by simp [IdxOK] at h
  | _ :: _, [], h => by simp [IdxOK] at h
  | s :: σ, i :: idx, h => by
    simp only [IdxOK] at h
    simp [IdxOK.length_eq ρ σ idx h.2]

theorem IdxOK_append (ρ : Env K) : ∀ (σ1 σ2 : List Space) (idx : List Nat),
    IdxOK ρ (σ1 ++ σ2) idx → IdxOK ρ σ1 (idx.take σ1.length) ∧ IdxOK ρ σ2 (idx.drop σ1.length)
  | [], σ2, idx, h => by simpa [IdxOK] using h
  | s :: σ1, σ2, [], h => by simp [IdxOK] at h
  | s :: σ1, σ2, i :: idx, h => by
    simp only [List.cons_append, IdxOK] at h
    have ih := IdxOK_append ρ σ1 σ2 idx h.2
    simp [IdxOK, h.1, ih.1, ih.2]

theorem IdxOK_append_mk (ρ : Env K) : ∀ (σ1 σ2 : List Space) (i1 i2 : List Nat),
    IdxOK ρ σ1 i1 → IdxOK ρ σ2 i2 → IdxOK ρ (σ1 ++ σ2) (i1 ++ i2)
  | [], σ2, [], i2, _, h2 => by simpa using h2
  | [], σ2, _ :: _, i2, h1, _ => by simp [IdxOK] at h1
  | _ :: _, σ2, [], i2, h1, _ => by simp [IdxOK] at h1
  | s :: σ1, σ2, i :: i1, i2, h1, h2 => by
    simp only [IdxOK] at h1
    simp [IdxOK, h1.1, IdxOK_append_mk ρ σ1 σ2 i1 i2 h1.2 h2]

theorem IdxOK_single (ρ : Env K) (s : Space) (idx : List Nat) (h : IdxOK ρ [s] idx) : ∃ j, idx = [j] ∧ j < ρ.dim s.id := by
  cases idx with
  | nil => simp [IdxOK] at h
  | cons j rest =>
    cases rest with
    | nil => exact ⟨j, rfl, by simpa [IdxOK] using h⟩
    | cons _ _ => simp [IdxOK] at h

/-! ### Action -/

theorem dsum_action_right (ρ : Env K) (l : BF K) : ∀ (cs : List (BF K)) (ws : List K) (idx : List Nat),
    dsum ρ ((cs.map (BF.action l)).zip ws) idx = denote ρ (.action l (.formSum cs ws)) idx
  | [], ws, idx => by
    rw [denote_action]
    simp only [List.map_nil, List.zip_nil_left, dsum]
    rw [contr_zero_right]; intro i; simp [denote, denoteSum]
  | c :: cs, [], idx => by
    rw [denote_action]
    simp only [List.map_cons, List.zip_nil_right, dsum]
    rw [contr_zero_right]; intro i; simp [denote, denoteSum]
  | c :: cs, w :: ws, idx => by
    have ih := dsum_action_right ρ l cs ws idx
    rw [denote_action] at ih ⊢
    simp only [List.map_cons, List.zip_cons_cons, dsum, ih, denote_action]
    have : (denote ρ (BF.formSum (c :: cs) (w :: ws))) = fun j => w * denote ρ c j + denote ρ (BF.formSum cs ws) j := by
      funext j; simp [denote, denoteSum]
    rw [this, contr_add_right, contr_smul_right]

theorem dsum_action_left (ρ : Env K) (r : BF K) (n d : Nat) : ∀ (cs : List (BF K)) (ws : List K) (idx : List Nat),
    (∀ c ∈ cs, c.splitAt = n ∧ c.contrDim ρ = d) →
    dsum ρ ((cs.map (fun c => BF.action c r)).zip ws) idx
      = contr n d (denote ρ (.formSum cs ws)) (denote ρ r) idx
  | [], ws, idx, _ => by
    simp only [List.map_nil, List.zip_nil_left, dsum]
    rw [contr_zero_left]; intro i; simp [denote, denoteSum]
  | c :: cs, [], idx, _ => by
    simp only [List.map_cons, List.zip_nil_right, dsum]
    rw [contr_zero_left]; intro i; simp [denote, denoteSum]
  | c :: cs, w :: ws, idx, h => by
    have ih := dsum_action_left ρ r n d cs ws idx (fun c' hc' => h c' (by simp [hc']))
    have hc := h c (by simp)
    simp only [List.map_cons, List.zip_cons_cons, dsum, ih, denote_action, hc.1, hc.2]
    have : (denote ρ (BF.formSum (c :: cs) (w :: ws))) = fun j => w * denote ρ c j + denote ρ (BF.formSum cs ws) j := by
      funext j; simp [denote, denoteSum]
    rw [this, contr_add_left, contr_smul_left]

theorem actBase_none (cfg : Cfg) (l r : BF K) (h : actBase cfg l r = none) :
    l.isZero = false ∧ r.isZero = false ∧ l.isArgLike = false ∧ r.isArgLike = false := by
  unfold actBase at h
  split at h
  · split at h <;> simp at h
  · rename_i hz
    split at h
    · simp at h
    · split at h
      · simp at h
      · simp_all

theorem typed_action (l r : BF K) (σl σr pre post : List Space) (s : Space) (hl : Typed σl l) (hr : Typed σr r)
    (hσl : σl = pre ++ [s]) (hσr : σr = s.dualize :: post) : Typed (pre ++ post) (.action l r) := by
  obtain ⟨hwl, hsl⟩ := hl
  obtain ⟨hwr, hsr⟩ := hr
  refine ⟨?_, ?_⟩
  · simp only [BF.WT, hwl, hwr, Bool.true_and, BF.compat, hsl, hσl, hsr, hσr]
    simp only [List.getLast?_append, List.getLast?_singleton, Option.some_or]
    cases r <;> simp
  · simp [BF.sigS, hsl, hsr, hσl, hσr]

theorem splitAt_of_sig (l : BF K) (pre : List Space) (s : Space) (h : l.sigS = pre ++ [s]) : l.splitAt = pre.length := by
  simp [BF.splitAt, h]

theorem contrDim_of_sig (ρ : Env K) (l : BF K) (pre : List Space) (s : Space) (h : l.sigS = pre ++ [s]) :
    l.contrDim ρ = ρ.dim s.id := by
  simp [BF.contrDim, h]

theorem identityReturn_ok (cfg : Cfg) (x b : BF K) (h : identityReturn cfg x = .ok b) : b = x := by
  unfold identityReturn at h
  split at h
  · simp at h
  · simpa using h.symm

/-- zero and identity cases of `Action.__new__` -/
theorem actBase_sound (cfg : Cfg) (ρ : Env K) (l r b : BF K) (σl σr pre post : List Space) (s : Space)
    (hl : OKc σl l) (hr : OKc σr r) (hσl : σl = pre ++ [s]) (hσr : σr = s.dualize :: post)
    (res : Except Err (BF K)) (hb : actBase cfg l r = some res) (hres : res = .ok b) :
    (∀ idx, IdxOK ρ (pre ++ post) idx → denote ρ b idx = denote ρ (.action l r) idx) ∧ Res (pre ++ post) b := by
  subst hres
  unfold actBase at hb
  split at hb
  · -- a zero operand
    rename_i hz
    have hval : ∀ idx, denote ρ (.action l r) idx = 0 := by
      intro idx
      rw [denote_action]
      simp only [Bool.or_eq_true] at hz
      rcases hz with hz | hz
      · exact contr_zero_left _ _ _ _ _ (fun i => denote_of_isZero ρ l hz i)
      · exact contr_zero_right _ _ _ _ _ (fun i => denote_of_isZero ρ r hz i)
    split at hb
    · simp only [Option.some.injEq, Except.ok.injEq] at hb; subst hb
      exact ⟨fun idx _ => by rw [hval]; simp [denote], Or.inl (by simp [BF.isZeroObj])⟩
    · simp only [Option.some.injEq] at hb
      cases ha : (BF.action l r).arguments cfg with
      | error e => simp [ha, ebind_error] at hb
      | ok as =>
        simp only [ha, ebind_ok, Except.ok.injEq] at hb; subst hb
        exact ⟨fun idx _ => by rw [hval]; simp [denote], Or.inl (by simp [BF.isZeroObj])⟩
  · rename_i hz
    simp only [Bool.or_eq_true, not_or, Bool.not_eq_true] at hz
    have htl : Typed σl l := by
      rcases hl with h | h
      · simp [hz.1] at h
      · exact h
    have htr : Typed σr r := by
      rcases hr with h | h
      · simp [hz.2] at h
      · exact h
    split at hb
    · -- identity on the left
      rename_i hal
      simp only [Option.some.injEq] at hb
      have hbr := identityReturn_ok cfg r b hb; subst hbr
      have hsig : ∃ a : Arg, l.sigS = [a.space.dualize, a.space] ∧
          denote ρ l = deltaT := by
        cases l <;> simp [BF.isArgLike] at hal
        case coargument a => exact ⟨a, by simp [BF.sigS], by funext j; simp [denote]⟩
        case argument a => exact ⟨a, by simp [BF.sigS], by funext j; simp [denote]⟩
      obtain ⟨a, hs, hd⟩ := hsig
      have h1 : pre ++ [s] = [a.space.dualize, a.space] := by rw [← hσl, ← htl.2, hs]
      have hpre : pre = [a.space.dualize] ∧ s = a.space := by
        have h2 : pre ++ [s] = [a.space.dualize] ++ [a.space] := by simpa using h1
        have := List.append_inj' h2 rfl
        exact ⟨this.1, by simpa using this.2⟩
      obtain ⟨rfl, rfl⟩ := hpre
      refine ⟨?_, Or.inr ⟨htr.1, by rw [htr.2, hσr]; simp⟩⟩
      intro idx hidx
      rw [denote_action, hd, splitAt_of_sig l [a.space.dualize] a.space (by rw [hs]; rfl),
        contrDim_of_sig ρ l [a.space.dualize] a.space (by rw [hs]; rfl)]
      cases idx with
      | nil => simp [IdxOK] at hidx
      | cons i rest =>
        simp only [List.singleton_append, IdxOK] at hidx
        have hi : i < ρ.dim a.space.id := by simpa [Space.dualize] using hidx.1
        exact (contr_delta_left (ρ.dim a.space.id) (denote ρ b) i rest hi).symm
    · split at hb
      · -- identity on the right
        rename_i hal har
        simp only [Option.some.injEq] at hb
        have hbl := identityReturn_ok cfg l b hb; subst hbl
        have hsig : ∃ a : Arg, r.sigS = [a.space.dualize, a.space] ∧
            denote ρ r = deltaT := by
          cases r <;> simp [BF.isArgLike] at har
          case coargument a => exact ⟨a, by simp [BF.sigS], by funext j; simp [denote]⟩
          case argument a => exact ⟨a, by simp [BF.sigS], by funext j; simp [denote]⟩
        obtain ⟨a, hs, hd⟩ := hsig
        have h1 : s.dualize :: post = [a.space.dualize, a.space] := by rw [← hσr, ← htr.2, hs]
        have hpost : s = a.space ∧ post = [a.space] := by
          simp only [List.cons.injEq] at h1
          exact ⟨dualize_inj h1.1, h1.2⟩
        obtain ⟨rfl, rfl⟩ := hpost
        refine ⟨?_, Or.inr ⟨htl.1, by rw [htl.2, hσl]⟩⟩
        intro idx hidx
        have hsl : b.sigS = pre ++ [a.space] := by rw [htl.2, hσl]
        rw [denote_action, hd, splitAt_of_sig b pre a.space hsl, contrDim_of_sig ρ b pre a.space hsl]
        have hsplit := IdxOK_append ρ pre [a.space] idx hidx
        obtain ⟨j, hj, hjd⟩ := IdxOK_single ρ a.space _ hsplit.2
        have hlen := IdxOK.length_eq ρ pre _ hsplit.1
        have hidx' : idx = idx.take pre.length ++ [j] := by rw [← hj]; simp
        generalize idx.take pre.length = p at hidx' hlen
        subst hidx'
        rw [← hlen]
        exact (contr_delta_right (ρ.dim a.space.id) (denote ρ b) p j hjd).symm
      · simp at hb

/-- statement shared by all Action lemmas -/
def ActionSpec (ρ : Env K) (l r b : BF K) (τ : List Space) : Prop :=
  (∀ idx, IdxOK ρ τ idx → denote ρ b idx = denote ρ (.action l r) idx) ∧ Res τ b

theorem typed_of_okc_nonzero {σ : List Space} {b : BF K} (h : OKc σ b) (hz : b.isZero = false) : Typed σ b := by
  rcases h with h | h
  · simp [hz] at h
  · exact h

theorem actFinal_sound (cfg : Cfg) (ρ : Env K) (l r b : BF K) (σl σr pre post : List Space) (s : Space)
    (hl : OKc σl l) (hr : OKc σr r) (hσl : σl = pre ++ [s]) (hσr : σr = s.dualize :: post)
    (h : actFinal cfg l r = .ok b) :
    ActionSpec ρ l r b (pre ++ post) := by
  unfold actFinal at h
  cases hbase : actBase cfg l r with
  | some res =>
    simp only [hbase] at h
    exact actBase_sound cfg ρ l r b σl σr pre post s hl hr hσl hσr res hbase h
  | none =>
    simp only [hbase] at h
    have hn := actBase_none cfg l r hbase
    cases hc : checkSpaces cfg l r with
    | error e => simp [hc, ebind_error] at h
    | ok u =>
      simp only [hc, ebind_ok, Except.ok.injEq] at h; subst h
      exact ⟨fun idx _ => rfl, Or.inr (typed_action l r σl σr pre post s (typed_of_okc_nonzero hl hn.1)
        (typed_of_okc_nonzero hr hn.2.1) hσl hσr)⟩

theorem reinitAction_spec (cfg : Cfg) (ρ : Env K) (l r res : BF K) (τ : List Space)
    (ht : Typed τ (.action l r)) (hs : ActionSpec ρ l r res τ) : ActionSpec ρ l r (reinitAction cfg l r res) τ := by
  unfold reinitAction
  split
  · exact ⟨fun idx _ => rfl, Or.inr ht⟩
  · exact hs

theorem denote_exprSum_fun (ρ : Env K) (a b : BF K) : denote ρ (.exprSum a b) = fun j => denote ρ a j + denote ρ b j := by
  funext j; simp [denote]

mutual
theorem actR_sound (cfg : Cfg) (ρ : Env K) (l : BF K) (σl pre : List Space) (s : Space)
    (hl : OKc σl l) (hσl : σl = pre ++ [s]) :
    ∀ (r b : BF K) (σr post : List Space), OKc σr r → σr = s.dualize :: post → actR cfg l r = .ok b →
      ActionSpec ρ l r b (pre ++ post)
  | .exprSum x y, b, σr, post, hr, hσr, h => by
    simp only [actR] at h
    cases hbase : actBase cfg l (.exprSum x y) with
    | some res =>
      simp only [hbase] at h
      exact actBase_sound cfg ρ l _ b σl σr pre post s hl hr hσl hσr res hbase h
    | none =>
      simp only [hbase] at h
      have hn := actBase_none cfg l _ hbase
      have htr := typed_of_okc_nonzero hr hn.2.1
      have htl := typed_of_okc_nonzero hl hn.1
      obtain ⟨hwt, hsig⟩ := htr
      simp only [BF.WT, Bool.and_eq_true, beq_iff_eq] at hwt
      simp only [BF.sigS] at hsig
      cases hx : actR cfg l x with
      | error e => simp [hx, ebind_error] at h
      | ok x' =>
        cases hy : actR cfg l y with
        | error e => simp [hx, hy, ebind_ok, ebind_error] at h
        | ok y' =>
          simp only [hx, hy, ebind_ok] at h
          cases hm : mkFormSum cfg [(x', 1), (y', 1)] with
          | error e => simp [hm, ebind_error] at h
          | ok res =>
            simp only [hm, ebind_ok, Except.ok.injEq] at h; subst h
            have hX := actR_sound cfg ρ l σl pre s hl hσl x x' σr post (Or.inr ⟨hwt.1.1, hsig⟩) hσr hx
            have hY := actR_sound cfg ρ l σl pre s hl hσl y y' σr post (Or.inr ⟨hwt.1.2, hwt.2.trans hsig⟩) hσr hy
            apply reinitAction_spec
            · exact typed_action l _ σl σr pre post s htl ⟨by simp [BF.WT, hwt], by simp [BF.sigS, hsig]⟩ hσl hσr
            · refine ⟨?_, ?_⟩
              · intro idx hidx
                rw [denote_mkFormSum cfg ρ _ res hm idx]
                simp only [dsum, one_mul, add_zero, hX.1 idx hidx, hY.1 idx hidx, denote_action, denote_exprSum_fun,
                  contr_add_right]
              · apply mkFormSum_res cfg (pre ++ post) _ res _ hm
                intro p hp
                simp only [List.mem_cons, List.not_mem_nil, or_false] at hp
                rcases hp with rfl | rfl
                · exact hX.2.okc
                · exact hY.2.okc
  | .formSum cs ws, b, σr, post, hr, hσr, h => by
    simp only [actR] at h
    cases hbase : actBase cfg l (.formSum cs ws) with
    | some res =>
      simp only [hbase] at h
      exact actBase_sound cfg ρ l _ b σl σr pre post s hl hr hσl hσr res hbase h
    | none =>
      simp only [hbase] at h
      have hn := actBase_none cfg l _ hbase
      have htr := typed_of_okc_nonzero hr hn.2.1
      have htl := typed_of_okc_nonzero hl hn.1
      have htr' := htr
      obtain ⟨hwt, hsig⟩ := htr
      rw [WT_formSum_iff] at hwt
      cases hx : actRL cfg l cs with
      | error e => simp [hx, ebind_error] at h
      | ok xs =>
        simp only [hx, ebind_ok] at h
        cases hm : mkFormSum cfg (xs.zip ws) with
        | error e => simp [hm, ebind_error] at h
        | ok res =>
          simp only [hm, ebind_ok, Except.ok.injEq] at h; subst h
          have hL := actRL_sound cfg ρ l σl pre s hl hσl cs xs σr post
            (fun c hc => Or.inr ⟨hwt.1 c hc, (hwt.2.1 c hc).trans hsig⟩) hσr hx
          apply reinitAction_spec
          · exact typed_action l _ σl σr pre post s htl htr' hσl hσr
          · refine ⟨?_, ?_⟩
            · intro idx hidx
              rw [denote_mkFormSum cfg ρ _ res hm idx, hL.2 ws idx hidx, dsum_action_right]
            · apply mkFormSum_res cfg (pre ++ post) _ res _ hm
              intro p hp
              exact hL.1 p.1 (List.of_mem_zip hp).1
  | .form itgs, b, σr, post, hr, hσr, h =>
    actFinal_sound cfg ρ l _ b σl σr pre post s hl hr hσl hσr (by simpa only [actR] using h)
  | .cofunction c sp, b, σr, post, hr, hσr, h =>
    actFinal_sound cfg ρ l _ b σl σr pre post s hl hr hσl hσr (by simpa only [actR] using h)
  | .coargument a, b, σr, post, hr, hσr, h =>
    actFinal_sound cfg ρ l _ b σl σr pre post s hl hr hσl hσr (by simpa only [actR] using h)
  | .matrix c r0 k, b, σr, post, hr, hσr, h =>
    actFinal_sound cfg ρ l _ b σl σr pre post s hl hr hσl hσr (by simpa only [actR] using h)
  | .zero as, b, σr, post, hr, hσr, h =>
    actFinal_sound cfg ρ l _ b σl σr pre post s hl hr hσl hσr (by simpa only [actR] using h)
  | .action l0 r0, b, σr, post, hr, hσr, h =>
    actFinal_sound cfg ρ l _ b σl σr pre post s hl hr hσl hσr (by simpa only [actR] using h)
  | .adjoint f, b, σr, post, hr, hσr, h =>
    actFinal_sound cfg ρ l _ b σl σr pre post s hl hr hσl hσr (by simpa only [actR] using h)
  | .coefficient c sp, b, σr, post, hr, hσr, h =>
    actFinal_sound cfg ρ l _ b σl σr pre post s hl hr hσl hσr (by simpa only [actR] using h)
  | .argument a, b, σr, post, hr, hσr, h =>
    actFinal_sound cfg ρ l _ b σl σr pre post s hl hr hσl hσr (by simpa only [actR] using h)
  | .exprZero, b, σr, post, hr, hσr, h =>
    actFinal_sound cfg ρ l _ b σl σr pre post s hl hr hσl hσr (by simpa only [actR] using h)
  | .exprOther n, b, σr, post, hr, hσr, h =>
    actFinal_sound cfg ρ l _ b σl σr pre post s hl hr hσl hσr (by simpa only [actR] using h)
theorem actRL_sound (cfg : Cfg) (ρ : Env K) (l : BF K) (σl pre : List Space) (s : Space)
    (hl : OKc σl l) (hσl : σl = pre ++ [s]) :
    ∀ (cs xs : List (BF K)) (σr post : List Space), (∀ c ∈ cs, OKc σr c) → σr = s.dualize :: post →
      actRL cfg l cs = .ok xs →
      (∀ x ∈ xs, OKc (pre ++ post) x) ∧
      (∀ (ws : List K) idx, IdxOK ρ (pre ++ post) idx →
        dsum ρ (xs.zip ws) idx = dsum ρ ((cs.map (BF.action l)).zip ws) idx)
  | [], xs, σr, post, _, _, h => by
    simp only [actRL, Except.ok.injEq] at h; subst h; simp [dsum]
  | c :: cs, xs, σr, post, hc, hσr, h => by
    simp only [actRL] at h
    cases hx : actR cfg l c with
    | error e => simp [hx, ebind_error] at h
    | ok x =>
      cases hxs : actRL cfg l cs with
      | error e => simp [hx, hxs, ebind_ok, ebind_error] at h
      | ok xs' =>
        simp only [hx, hxs, ebind_ok, Except.ok.injEq] at h; subst h
        have h1 := actR_sound cfg ρ l σl pre s hl hσl c x σr post (hc c (by simp)) hσr hx
        have h2 := actRL_sound cfg ρ l σl pre s hl hσl cs xs' σr post (fun c' hc' => hc c' (by simp [hc'])) hσr hxs
        refine ⟨?_, ?_⟩
        · intro y hy
          simp only [List.mem_cons] at hy
          rcases hy with rfl | hy
          · exact h1.2.okc
          · exact h2.1 y hy
        · intro ws idx hidx
          cases ws with
          | nil => simp [dsum]
          | cons w ws =>
            simp only [List.zip_cons_cons, List.map_cons, dsum, h1.1 idx hidx, h2.2 ws idx hidx]
end

theorem splitAt_congr (a b : BF K) (h : a.sigS = b.sigS) : a.splitAt = b.splitAt := by simp [BF.splitAt, h]
theorem contrDim_congr (ρ : Env K) (a b : BF K) (h : a.sigS = b.sigS) : a.contrDim ρ = b.contrDim ρ := by
  simp [BF.contrDim, h]

mutual
theorem mkAction_sound (cfg : Cfg) (ρ : Env K) (r : BF K) (σr post : List Space) (s : Space)
    (hr : OKc σr r) (hσr : σr = s.dualize :: post) :
    ∀ (l b : BF K) (σl pre : List Space), OKc σl l → σl = pre ++ [s] → mkAction cfg l r = .ok b →
      ActionSpec ρ l r b (pre ++ post)
  | .exprSum x y, b, σl, pre, hl, hσl, h => by
    simp only [mkAction] at h
    cases hbase : actBase cfg (.exprSum x y) r with
    | some res =>
      simp only [hbase] at h
      exact actBase_sound cfg ρ _ r b σl σr pre post s hl hr hσl hσr res hbase h
    | none =>
      simp only [hbase] at h
      have hn := actBase_none cfg _ r hbase
      have htl := typed_of_okc_nonzero hl hn.1
      have htr := typed_of_okc_nonzero hr hn.2.1
      have htl' := htl
      obtain ⟨hwt, hsig⟩ := htl
      simp only [BF.WT, Bool.and_eq_true, beq_iff_eq] at hwt
      simp only [BF.sigS] at hsig
      cases hx : mkAction cfg x r with
      | error e => simp [hx, ebind_error] at h
      | ok x' =>
        cases hy : mkAction cfg y r with
        | error e => simp [hx, hy, ebind_ok, ebind_error] at h
        | ok y' =>
          simp only [hx, hy, ebind_ok] at h
          cases hm : mkFormSum cfg [(x', 1), (y', 1)] with
          | error e => simp [hm, ebind_error] at h
          | ok res =>
            simp only [hm, ebind_ok, Except.ok.injEq] at h; subst h
            have hX := mkAction_sound cfg ρ r σr post s hr hσr x x' σl pre (Or.inr ⟨hwt.1.1, hsig⟩) hσl hx
            have hY := mkAction_sound cfg ρ r σr post s hr hσr y y' σl pre (Or.inr ⟨hwt.1.2, hwt.2.trans hsig⟩) hσl hy
            apply reinitAction_spec
            · exact typed_action _ r σl σr pre post s htl' htr hσl hσr
            · refine ⟨?_, ?_⟩
              · intro idx hidx
                rw [denote_mkFormSum cfg ρ _ res hm idx]
                have e1 : x.splitAt = (BF.exprSum x y).splitAt := splitAt_congr _ _ (by simp [BF.sigS])
                have e2 : y.splitAt = (BF.exprSum x y).splitAt := splitAt_congr _ _ (by simp [BF.sigS, hwt.2])
                have e3 : x.contrDim ρ = (BF.exprSum x y).contrDim ρ := contrDim_congr ρ _ _ (by simp [BF.sigS])
                have e4 : y.contrDim ρ = (BF.exprSum x y).contrDim ρ := contrDim_congr ρ _ _ (by simp [BF.sigS, hwt.2])
                simp only [dsum, one_mul, add_zero, hX.1 idx hidx, hY.1 idx hidx, denote_action, denote_exprSum_fun,
                  contr_add_left, e1, e2, e3, e4]
              · apply mkFormSum_res cfg (pre ++ post) _ res _ hm
                intro p hp
                simp only [List.mem_cons, List.not_mem_nil, or_false] at hp
                rcases hp with rfl | rfl
                · exact hX.2.okc
                · exact hY.2.okc
  | .formSum cs ws, b, σl, pre, hl, hσl, h => by
    simp only [mkAction] at h
    cases hbase : actBase cfg (.formSum cs ws) r with
    | some res =>
      simp only [hbase] at h
      exact actBase_sound cfg ρ _ r b σl σr pre post s hl hr hσl hσr res hbase h
    | none =>
      simp only [hbase] at h
      have hn := actBase_none cfg _ r hbase
      have htl := typed_of_okc_nonzero hl hn.1
      have htr := typed_of_okc_nonzero hr hn.2.1
      have htl' := htl
      obtain ⟨hwt, hsig⟩ := htl
      rw [WT_formSum_iff] at hwt
      cases hx : mkActionL cfg cs r with
      | error e => simp [hx, ebind_error] at h
      | ok xs =>
        simp only [hx, ebind_ok] at h
        cases hm : mkFormSum cfg (xs.zip ws) with
        | error e => simp [hm, ebind_error] at h
        | ok res =>
          simp only [hm, ebind_ok, Except.ok.injEq] at h; subst h
          have hL := mkActionL_sound cfg ρ r σr post s hr hσr cs xs σl pre
            (fun c hc => ⟨hwt.1 c hc, (hwt.2.1 c hc).trans hsig⟩) hσl hx
          apply reinitAction_spec
          · exact typed_action _ r σl σr pre post s htl' htr hσl hσr
          · refine ⟨?_, ?_⟩
            · intro idx hidx
              rw [denote_mkFormSum cfg ρ _ res hm idx, hL.2 ws idx hidx, denote_action]
              exact dsum_action_left ρ r _ _ cs ws idx
                (fun c hc => ⟨splitAt_congr _ _ (hwt.2.1 c hc), contrDim_congr ρ _ _ (hwt.2.1 c hc)⟩)
            · apply mkFormSum_res cfg (pre ++ post) _ res _ hm
              intro p hp
              exact hL.1 p.1 (List.of_mem_zip hp).1
  | .form itgs, b, σl, pre, hl, hσl, h =>
    actR_sound cfg ρ _ σl pre s hl hσl r b σr post hr hσr (by simpa only [mkAction] using h)
  | .cofunction c sp, b, σl, pre, hl, hσl, h =>
    actR_sound cfg ρ _ σl pre s hl hσl r b σr post hr hσr (by simpa only [mkAction] using h)
  | .coargument a, b, σl, pre, hl, hσl, h =>
    actR_sound cfg ρ _ σl pre s hl hσl r b σr post hr hσr (by simpa only [mkAction] using h)
  | .matrix c r0 k, b, σl, pre, hl, hσl, h =>
    actR_sound cfg ρ _ σl pre s hl hσl r b σr post hr hσr (by simpa only [mkAction] using h)
  | .zero as, b, σl, pre, hl, hσl, h =>
    actR_sound cfg ρ _ σl pre s hl hσl r b σr post hr hσr (by simpa only [mkAction] using h)
  | .action l0 r0, b, σl, pre, hl, hσl, h =>
    actR_sound cfg ρ _ σl pre s hl hσl r b σr post hr hσr (by simpa only [mkAction] using h)
  | .adjoint f, b, σl, pre, hl, hσl, h =>
    actR_sound cfg ρ _ σl pre s hl hσl r b σr post hr hσr (by simpa only [mkAction] using h)
  | .coefficient c sp, b, σl, pre, hl, hσl, h =>
    actR_sound cfg ρ _ σl pre s hl hσl r b σr post hr hσr (by simpa only [mkAction] using h)
  | .argument a, b, σl, pre, hl, hσl, h =>
    actR_sound cfg ρ _ σl pre s hl hσl r b σr post hr hσr (by simpa only [mkAction] using h)
  | .exprZero, b, σl, pre, hl, hσl, h =>
    actR_sound cfg ρ _ σl pre s hl hσl r b σr post hr hσr (by simpa only [mkAction] using h)
  | .exprOther n, b, σl, pre, hl, hσl, h =>
    actR_sound cfg ρ _ σl pre s hl hσl r b σr post hr hσr (by simpa only [mkAction] using h)
theorem mkActionL_sound (cfg : Cfg) (ρ : Env K) (r : BF K) (σr post : List Space) (s : Space)
    (hr : OKc σr r) (hσr : σr = s.dualize :: post) :
    ∀ (cs xs : List (BF K)) (σl pre : List Space), (∀ c ∈ cs, Typed σl c) → σl = pre ++ [s] →
      mkActionL cfg cs r = .ok xs →
      (∀ x ∈ xs, OKc (pre ++ post) x) ∧
      (∀ (ws : List K) idx, IdxOK ρ (pre ++ post) idx →
        dsum ρ (xs.zip ws) idx = dsum ρ ((cs.map (fun c => BF.action c r)).zip ws) idx)
  | [], xs, σl, pre, _, _, h => by
    simp only [mkActionL, Except.ok.injEq] at h; subst h; simp [dsum]
  | c :: cs, xs, σl, pre, hc, hσl, h => by
    simp only [mkActionL] at h
    cases hx : mkAction cfg c r with
    | error e => simp [hx, ebind_error] at h
    | ok x =>
      cases hxs : mkActionL cfg cs r with
      | error e => simp [hx, hxs, ebind_ok, ebind_error] at h
      | ok xs' =>
        simp only [hx, hxs, ebind_ok, Except.ok.injEq] at h; subst h
        have h1 := mkAction_sound cfg ρ r σr post s hr hσr c x σl pre (Or.inr (hc c (by simp))) hσl hx
        have h2 := mkActionL_sound cfg ρ r σr post s hr hσr cs xs' σl pre (fun c' hc' => hc c' (by simp [hc'])) hσl hxs
        refine ⟨?_, ?_⟩
        · intro y hy
          simp only [List.mem_cons] at hy
          rcases hy with rfl | hy
          · exact h1.2.okc
          · exact h2.1 y hy
        · intro ws idx hidx
          cases ws with
          | nil => simp [dsum]
          | cons w ws =>
            simp only [List.zip_cons_cons, List.map_cons, dsum, h1.1 idx hidx, h2.2 ws idx hidx]
end

/-! ### the operators -/

theorem okc_baseform_res {σ : List Space} {x : BF K} (h : OKc σ x) (hb : x.isBaseForm = true) : Res σ x := by
  rcases h with h | h
  · left; cases x <;> simp_all [BF.isZero, BF.isBaseForm, BF.isZeroObj]
  · right; exact h

theorem mkFormSum_pair (cfg : Cfg) (ρ : Env K) (σ : List Space) (x y b : BF K) (hx : OKc σ x) (hy : OKc σ y)
    (h : mkFormSum cfg [(x, 1), (y, 1)] = .ok b) :
    (∀ idx, denote ρ b idx = denote ρ x idx + denote ρ y idx) ∧ Res σ b := by
  refine ⟨fun idx => ?_, ?_⟩
  · rw [denote_mkFormSum cfg ρ _ b h idx]; simp [dsum]
  · apply mkFormSum_res cfg σ _ b _ h
    intro p hp
    simp only [List.mem_cons, List.not_mem_nil, or_false] at hp
    rcases hp with rfl | rfl
    · exact hx
    · exact hy

theorem mkFormSum_single (cfg : Cfg) (ρ : Env K) (σ : List Space) (x b : BF K) (w : K) (hx : OKc σ x)
    (h : mkFormSum cfg [(x, w)] = .ok b) :
    (∀ idx, denote ρ b idx = w * denote ρ x idx) ∧ Res σ b := by
  refine ⟨fun idx => ?_, ?_⟩
  · rw [denote_mkFormSum cfg ρ _ b h idx]; simp [dsum]
  · apply mkFormSum_res cfg σ _ b _ h
    intro p hp
    simp only [List.mem_cons, List.not_mem_nil, or_false] at hp
    subst hp; exact hx

theorem opAdd_sound (cfg : Cfg) (ρ : Env K) (σ : List Space) (x y b : BF K) (hx : OKc σ x) (hy : OKc σ y)
    (h : opAdd cfg x y = .ok b) :
    (∀ idx, denote ρ b idx = denote ρ x idx + denote ρ y idx) ∧ Res σ b := by
  unfold opAdd at h
  split at h
  · -- x a Form
    rename_i xi
    have htx : Typed σ (.form xi) := typed_of_okc_nonzero hx (by simp [BF.isZero])
    split at h
    · rename_i yi
      simp only [Except.ok.injEq] at h; subst h
      have hty : Typed σ (.form yi) := typed_of_okc_nonzero hy (by simp [BF.isZero])
      exact ⟨fun idx => by simp [denote, denoteItgs_formAdd],
        Or.inr ((typed_form_iff σ _).2 (formTyped_add σ xi yi ((typed_form_iff σ _).1 htx) ((typed_form_iff σ _).1 hty)))⟩
    · simp only [Except.ok.injEq] at h; subst h
      exact ⟨fun idx => by simp [denote], Or.inr htx⟩
    · simp only [Except.ok.injEq] at h; subst h
      exact ⟨fun idx => by simp [denote], Or.inr htx⟩
    · split at h
      · exact mkFormSum_pair cfg ρ σ _ y b hx hy h
      · simp at h
  · -- Zero + y
    split at h
    · rename_i hyb
      simp only [Except.ok.injEq] at h; subst h
      exact ⟨fun idx => by simp [denote], okc_baseform_res hy hyb⟩
    · simp at h
  · split at h
    · rename_i hxb
      split at h
      · simp only [Except.ok.injEq] at h; subst h
        exact ⟨fun idx => by simp [denote], okc_baseform_res hx hxb⟩
      · simp only [Except.ok.injEq] at h; subst h
        exact ⟨fun idx => by simp [denote], okc_baseform_res hx hxb⟩
      · rename_i hy1 hy2
        split at h
        · rename_i hxz
          simp only [Except.ok.injEq] at h; subst h
          refine ⟨fun idx => by simp [denote_of_isZeroObj ρ x hxz], ?_⟩
          rcases hy with hz | ht
          · exfalso
            cases y <;> simp_all [BF.isZero]
          · exact Or.inr ht
        · split at h
          · exact mkFormSum_pair cfg ρ σ x y b hx hy h
          · simp at h
    · simp at h

theorem opNeg_sound (cfg : Cfg) (ρ : Env K) (σ : List Space) (x b : BF K) (hx : OKc σ x)
    (h : opNeg cfg x = .ok b) :
    (∀ idx, denote ρ b idx = (-1) * denote ρ x idx) ∧ Res σ b := by
  unfold opNeg at h
  split at h
  · simp only [Except.ok.injEq] at h; subst h
    exact ⟨fun idx => by simp [denote], Or.inl (by simp [BF.isZeroObj])⟩
  · rename_i xi
    simp only [Except.ok.injEq] at h; subst h
    have htx : Typed σ (.form xi) := typed_of_okc_nonzero hx (by simp [BF.isZero])
    exact ⟨fun idx => by simp [denote, denoteItgs_formSmul],
      Or.inr ((typed_form_iff σ _).2 (formTyped_smul σ _ xi ((typed_form_iff σ _).1 htx)))⟩
  · split at h
    · exact mkFormSum_single cfg ρ σ x b (-1) hx h
    · simp at h

theorem opSmul_sound (cfg : Cfg) (ρ : Env K) (σ : List Space) (s : K) (x b : BF K) (hx : OKc σ x)
    (h : opSmul cfg s x = .ok b) :
    (∀ idx, denote ρ b idx = s * denote ρ x idx) ∧ Res σ b := by
  unfold opSmul at h
  split at h
  · rename_i xi
    simp only [Except.ok.injEq] at h; subst h
    have htx : Typed σ (.form xi) := typed_of_okc_nonzero hx (by simp [BF.isZero])
    exact ⟨fun idx => by simp [denote, denoteItgs_formSmul],
      Or.inr ((typed_form_iff σ _).2 (formTyped_smul σ _ xi ((typed_form_iff σ _).1 htx)))⟩
  · split at h
    · exact mkFormSum_single cfg ρ σ x b s hx h
    · simp at h

/-! ### descriptions -/

theorem contr_congr (n d : Nat) (L L' R R' : List Nat → K) (idx : List Nat)
    (h : ∀ k, k < d → L (idx.take n ++ [k]) * R (k :: idx.drop n) = L' (idx.take n ++ [k]) * R' (k :: idx.drop n)) :
    contr n d L R idx = contr n d L' R' idx := by
  simp only [contr, sumN_eq_sum]
  apply Finset.sum_congr rfl
  intro k hk
  exact h k (by simpa using hk)

theorem IdxOK_contract (ρ : Env K) (pre post : List Space) (s : Space) (idx : List Nat) (k : Nat)
    (h : IdxOK ρ (pre ++ post) idx) (hk : k < ρ.dim s.id) :
    IdxOK ρ (pre ++ [s]) (idx.take pre.length ++ [k]) ∧ IdxOK ρ (s.dualize :: post) (k :: idx.drop pre.length) := by
  have hs := IdxOK_append ρ pre post idx h
  refine ⟨IdxOK_append_mk ρ pre [s] _ _ hs.1 (by simp [IdxOK, hk]), ?_⟩
  simp only [IdxOK]
  exact ⟨by simpa [Space.dualize] using hk, hs.2⟩

/-- congruence of the contraction: operands that agree with the description at all multi-indices of their signatures -/
theorem action_congr (ρ : Env K) (x y l r : BF K) (σl σr pre post : List Space) (s : Space)
    (hσl : σl = pre ++ [s]) (hσr : σr = s.dualize :: post)
    (hl : l.sigS = σl)
    (hx : ∀ idx, IdxOK ρ σl idx → denote ρ x idx = denote ρ l idx) (hxr : Res σl x)
    (hy : ∀ idx, IdxOK ρ σr idx → denote ρ y idx = denote ρ r idx)
    (idx : List Nat) (hidx : IdxOK ρ (pre ++ post) idx) :
    denote ρ (.action x y) idx = denote ρ (.action l r) idx := by
  rw [denote_action, denote_action]
  have hln : l.splitAt = pre.length := splitAt_of_sig l pre s (by rw [hl, hσl])
  have hld : l.contrDim ρ = ρ.dim s.id := contrDim_of_sig ρ l pre s (by rw [hl, hσl])
  rcases hxr with hz | ht
  · -- x is a ZeroBaseForm: both sides vanish
    rw [contr_zero_left _ _ _ _ _ (fun i => denote_of_isZeroObj ρ x hz i)]
    rw [hln, hld]
    symm
    simp only [contr, sumN_eq_sum]
    apply Finset.sum_eq_zero
    intro k hk
    have hk' : k < ρ.dim s.id := by simpa using hk
    have hc := IdxOK_contract ρ pre post s idx k hidx hk'
    rw [← hx _ (by rw [hσl]; exact hc.1), denote_of_isZeroObj ρ x hz]; simp
  · have hxn : x.splitAt = pre.length := splitAt_of_sig x pre s (by rw [ht.2, hσl])
    have hxd : x.contrDim ρ = ρ.dim s.id := contrDim_of_sig ρ x pre s (by rw [ht.2, hσl])
    rw [hln, hld, hxn, hxd]
    apply contr_congr
    intro k hk
    have hc := IdxOK_contract ρ pre post s idx k hidx hk
    rw [hx _ (by rw [hσl]; exact hc.1), hy _ (by rw [hσr]; exact hc.2)]

theorem IdxOK_two (ρ : Env K) (a b : Space) (idx : List Nat) (h : IdxOK ρ [a, b] idx) :
    ∃ i j, idx = [i, j] ∧ i < ρ.dim a.id ∧ j < ρ.dim b.id := by
  cases idx with
  | nil => simp [IdxOK] at h
  | cons i rest =>
    cases rest with
    | nil => simp [IdxOK] at h
    | cons j rest =>
      cases rest with
      | nil => exact ⟨i, j, rfl, by simpa [IdxOK] using h⟩
      | cons _ _ => simp [IdxOK] at h

theorem raw_exprZero (d : Desc K) (h : d.raw = .exprZero) : d = .leaf .exprZero := by
  cases d <;> simp_all [Desc.raw]

mutual
/-- the object the constructors return denotes what the description denotes, and is a `ZeroBaseForm` or well typed with
the description's signature; `cj` (what the code does to the weights under an Adjoint) must be the conjugation of the
environment: real mode for the code as observed -/
theorem build_sound (cfg : Cfg) (cj : K → K) (ρ : Env K) (hs : StarOK ρ) (hid : ∀ a, cj a = ρ.star a) :
    ∀ (d : Desc K) (b : BF K), d.raw.WT = true → d.build cfg cj = .ok b →
      (∀ idx, IdxOK ρ d.raw.sigS idx → denote ρ b idx = denote ρ d.raw idx) ∧ Res d.raw.sigS b
  | .leaf x, b, hwt, h => by
    simp only [Desc.build, Except.ok.injEq] at h; subst h
    exact ⟨fun idx _ => rfl, Or.inr ⟨hwt, rfl⟩⟩
  | .formSum cs ws, b, hwt, h => by
    simp only [Desc.build] at h
    simp only [Desc.raw] at hwt ⊢
    rw [WT_formSum_iff] at hwt
    cases hx : Desc.buildL cfg cj cs with
    | error e => simp [hx, ebind_error] at h
    | ok xs =>
      simp only [hx, ebind_ok] at h
      have hL := buildL_sound cfg cj ρ hs hid cs xs _ (fun c hc => ⟨hwt.1 c hc, hwt.2.1 c hc⟩) hx
      refine ⟨?_, ?_⟩
      · intro idx hidx
        rw [denote_mkFormSum cfg ρ _ b h idx, hL.2 ws idx hidx]
        simp [denote, denoteSum_zip]
      · exact mkFormSum_res cfg _ _ b (fun p hp => hL.1 p.1 (List.of_mem_zip hp).1) h
  | .action l r, b, hwt, h => by
    simp only [Desc.build] at h
    simp only [Desc.raw] at hwt ⊢
    simp only [BF.WT, Bool.and_eq_true] at hwt
    obtain ⟨⟨hwl, hwr⟩, hc⟩ := hwt
    cases hx : l.build cfg cj with
    | error e => simp [hx, ebind_error] at h
    | ok x =>
      cases hy : r.build cfg cj with
      | error e => simp [hx, hy, ebind_ok, ebind_error] at h
      | ok y =>
        simp only [hx, hy, ebind_ok] at h
        have hX := build_sound cfg cj ρ hs hid l x hwl hx
        have hY := build_sound cfg cj ρ hs hid r y hwr hy
        -- decompose the signatures
        unfold BF.compat at hc
        cases hlast : l.raw.sigS.getLast? with
        | none => simp [hlast] at hc
        | some s =>
          simp only [hlast] at hc
          have hσl : l.raw.sigS = l.raw.sigS.dropLast ++ [s] := by
            have := List.dropLast_append_getLast? s hlast
            exact this.symm
          by_cases hrz : r.raw = .exprZero
          · -- Zero on the right
            have hr := raw_exprZero r hrz; subst hr
            simp only [Desc.build, Except.ok.injEq] at hy; subst hy
            have hS := mkAction_sound cfg ρ (.exprZero : BF K) [s.dualize] [] s (Or.inl (by simp [BF.isZero])) rfl
              x b l.raw.sigS l.raw.sigS.dropLast hX.2.okc hσl h
            simp only [Desc.raw, BF.sigS, List.tail_nil]
            refine ⟨?_, hS.2⟩
            intro idx hidx
            rw [hS.1 idx hidx]
            exact action_congr ρ x .exprZero l.raw .exprZero _ [s.dualize] _ [] s hσl rfl rfl hX.1 hX.2
              (fun _ _ => rfl) idx hidx
          · have hhead : r.raw.sigS.head? = some s.dualize := by
              revert hc hrz
              generalize r.raw = rr
              intro hc hrz
              cases rr <;> first | exact absurd rfl hrz | simpa using hc
            have hσr : r.raw.sigS = s.dualize :: r.raw.sigS.tail := by
              cases hq : r.raw.sigS with
              | nil => simp [hq] at hhead
              | cons a t => simp [hq] at hhead; simp [hhead]
            have hS := mkAction_sound cfg ρ y r.raw.sigS r.raw.sigS.tail s hY.2.okc hσr
              x b l.raw.sigS l.raw.sigS.dropLast hX.2.okc hσl h
            simp only [BF.sigS]
            refine ⟨?_, hS.2⟩
            intro idx hidx
            rw [hS.1 idx hidx]
            exact action_congr ρ x y l.raw r.raw _ _ _ _ s hσl hσr rfl hX.1 hX.2 hY.1 idx hidx
  | .adjoint f, b, hwt, h => by
    simp only [Desc.build] at h
    simp only [Desc.raw] at hwt ⊢
    simp only [BF.WT, Bool.and_eq_true, beq_iff_eq] at hwt
    cases hx : f.build cfg cj with
    | error e => simp [hx, ebind_error] at h
    | ok x =>
      simp only [hx, ebind_ok] at h
      have hX := build_sound cfg cj ρ hs hid f x hwt.1 hx
      have hV := mkAdjoint_value cfg cj ρ hs x b (fun w _ => hid w) h
      have hR := mkAdjoint_res cfg cj x b _ hX.2.okc hwt.2 h
      simp only [BF.sigS]
      refine ⟨?_, hR⟩
      intro idx hidx
      obtain ⟨s1, s2, hsf⟩ : ∃ s1 s2, f.raw.sigS = [s1, s2] := by
        cases hq : f.raw.sigS with
        | nil => simp [hq] at hwt
        | cons a t =>
          cases t with
          | nil => simp [hq] at hwt
          | cons c t' =>
            cases t' with
            | nil => exact ⟨a, c, rfl⟩
            | cons _ _ => simp [hq] at hwt
      rw [hsf] at hidx
      simp only [List.reverse_cons, List.reverse_nil, List.nil_append, List.singleton_append] at hidx
      obtain ⟨i, j, rfl, hi, hj⟩ := IdxOK_two ρ s2 s1 idx hidx
      rw [hV i j]
      simp only [denote]
      rw [hX.1 [j, i] (by rw [hsf]; simp [IdxOK, hi, hj])]
  | .add a c, b, hwt, h => by
    simp only [Desc.build] at h
    simp only [Desc.raw] at hwt ⊢
    rw [WT_formSum_iff] at hwt
    simp only [BF.sigS] at hwt ⊢
    cases hx : a.build cfg cj with
    | error e => simp [hx, ebind_error] at h
    | ok x =>
      cases hy : c.build cfg cj with
      | error e => simp [hx, hy, ebind_ok, ebind_error] at h
      | ok y =>
        simp only [hx, hy, ebind_ok] at h
        have hX := build_sound cfg cj ρ hs hid a x (hwt.1 _ (by simp)) hx
        have hY := build_sound cfg cj ρ hs hid c y (hwt.1 _ (by simp)) hy
        have hsc : c.raw.sigS = a.raw.sigS := hwt.2.1 _ (by simp)
        rw [hsc] at hY
        have hS := opAdd_sound cfg ρ _ x y b hX.2.okc hY.2.okc h
        refine ⟨?_, hS.2⟩
        intro idx hidx
        rw [hS.1 idx, hX.1 idx hidx, hY.1 idx hidx]
        simp [denote, denoteSum]
  | .sub a c, b, hwt, h => by
    simp only [Desc.build] at h
    simp only [Desc.raw] at hwt ⊢
    rw [WT_formSum_iff] at hwt
    simp only [BF.sigS] at hwt ⊢
    cases hx : a.build cfg cj with
    | error e => simp [hx, ebind_error] at h
    | ok x =>
      cases hy : c.build cfg cj with
      | error e => simp [hx, hy, ebind_ok, ebind_error] at h
      | ok y =>
        simp only [hx, hy, ebind_ok] at h
        cases hn : opNeg cfg y with
        | error e => simp [hn, ebind_error] at h
        | ok ny =>
          simp only [hn, ebind_ok] at h
          have hX := build_sound cfg cj ρ hs hid a x (hwt.1 _ (by simp)) hx
          have hY := build_sound cfg cj ρ hs hid c y (hwt.1 _ (by simp)) hy
          have hsc : c.raw.sigS = a.raw.sigS := hwt.2.1 _ (by simp)
          rw [hsc] at hY
          have hN := opNeg_sound cfg ρ _ y ny hY.2.okc hn
          have hS := opAdd_sound cfg ρ _ x ny b hX.2.okc hN.2.okc h
          refine ⟨?_, hS.2⟩
          intro idx hidx
          rw [hS.1 idx, hN.1 idx, hX.1 idx hidx, hY.1 idx hidx]
          simp [denote, denoteSum]
  | .neg a, b, hwt, h => by
    simp only [Desc.build] at h
    simp only [Desc.raw] at hwt ⊢
    rw [WT_formSum_iff] at hwt
    simp only [BF.sigS] at hwt ⊢
    cases hx : a.build cfg cj with
    | error e => simp [hx, ebind_error] at h
    | ok x =>
      simp only [hx, ebind_ok] at h
      have hX := build_sound cfg cj ρ hs hid a x (hwt.1 _ (by simp)) hx
      have hS := opNeg_sound cfg ρ _ x b hX.2.okc h
      refine ⟨?_, hS.2⟩
      intro idx hidx
      rw [hS.1 idx, hX.1 idx hidx]
      simp [denote, denoteSum]
  | .smul s a, b, hwt, h => by
    simp only [Desc.build] at h
    simp only [Desc.raw] at hwt ⊢
    rw [WT_formSum_iff] at hwt
    simp only [BF.sigS] at hwt ⊢
    cases hx : a.build cfg cj with
    | error e => simp [hx, ebind_error] at h
    | ok x =>
      simp only [hx, ebind_ok] at h
      have hX := build_sound cfg cj ρ hs hid a x (hwt.1 _ (by simp)) hx
      have hS := opSmul_sound cfg ρ _ s x b hX.2.okc h
      refine ⟨?_, hS.2⟩
      intro idx hidx
      rw [hS.1 idx, hX.1 idx hidx]
      simp [denote, denoteSum]
theorem buildL_sound (cfg : Cfg) (cj : K → K) (ρ : Env K) (hs : StarOK ρ) (hid : ∀ a, cj a = ρ.star a) :
    ∀ (cs : List (Desc K)) (xs : List (BF K)) (σ : List Space),
      (∀ c ∈ Desc.rawL cs, c.WT = true ∧ c.sigS = σ) → Desc.buildL cfg cj cs = .ok xs →
      (∀ x ∈ xs, OKc σ x) ∧
      (∀ (ws : List K) idx, IdxOK ρ σ idx → dsum ρ (xs.zip ws) idx = dsum ρ ((Desc.rawL cs).zip ws) idx)
  | [], xs, σ, _, h => by
    simp only [Desc.buildL, Except.ok.injEq] at h; subst h; simp [dsum, Desc.rawL]
  | c :: cs, xs, σ, hc, h => by
    simp only [Desc.buildL] at h
    cases hx : c.build cfg cj with
    | error e => simp [hx, ebind_error] at h
    | ok x =>
      cases hxs : Desc.buildL cfg cj cs with
      | error e => simp [hx, hxs, ebind_ok, ebind_error] at h
      | ok xs' =>
        simp only [hx, hxs, ebind_ok, Except.ok.injEq] at h; subst h
        have hc0 := hc c.raw (by simp [Desc.rawL])
        have h1 := build_sound cfg cj ρ hs hid c x hc0.1 hx
        rw [hc0.2] at h1
        have h2 := buildL_sound cfg cj ρ hs hid cs xs' σ (fun c' hc' => hc c' (by simp [Desc.rawL, hc'])) hxs
        refine ⟨?_, ?_⟩
        · intro y hy
          simp only [List.mem_cons] at hy
          rcases hy with rfl | hy
          · exact h1.2.okc
          · exact h2.1 y hy
        · intro ws idx hidx
          cases ws with
          | nil => simp [dsum]
          | cons w ws =>
            simp only [List.zip_cons_cons, Desc.rawL, dsum, h1.1 idx hidx, h2.2 ws idx hidx]
end

/-! ### map_integrands -/

/-- what `function` must satisfy for `map_integrands` to preserve the map: it preserves the value and the argument spaces of
every integrand, the value and the typing of every other leaf, and leaves `Zero` alone -/
structure MapOK (ρ : Env K) (fI : Itg K → Itg K) (fL : BF K → BF K) : Prop where
  itg_val : ∀ i idx, denoteItg ρ (fI i) idx = denoteItg ρ i idx
  itg_sig : ∀ i, (fI i).argSpaces = i.argSpaces
  leaf_val : ∀ x idx, denote ρ (fL x) idx = denote ρ x idx
  leaf_typ : ∀ x σ, Typed σ x → OKc σ (fL x)
  leaf_zero : fL .exprZero = .exprZero

theorem denoteItgs_filter_live (ρ : Env K) (l : List (Itg K)) (idx : List Nat) :
    denoteItgs ρ (l.filter (fun i => !i.zeroed)) idx = denoteItgs ρ l idx := by
  induction l with
  | nil => rfl
  | cons i l ih =>
    by_cases hz : i.zeroed = true
    · simp [List.filter, hz, denoteItgs, ih, denoteItg]
    · simp [List.filter, hz, denoteItgs, ih]

theorem denoteItgs_map (ρ : Env K) (fI : Itg K → Itg K) (h : ∀ i idx, denoteItg ρ (fI i) idx = denoteItg ρ i idx)
    (l : List (Itg K)) (idx : List Nat) : denoteItgs ρ (l.map fI) idx = denoteItgs ρ l idx := by
  induction l with
  | nil => rfl
  | cons i l ih => simp [denoteItgs, ih, h]

theorem action_congr' (ρ : Env K) (x y l r : BF K) (σl σr pre post : List Space) (s : Space)
    (hσl : σl = pre ++ [s]) (hσr : σr = s.dualize :: post)
    (hl : l.sigS = σl)
    (hx : ∀ idx, IdxOK ρ σl idx → denote ρ x idx = denote ρ l idx) (hxr : OKc σl x)
    (hy : ∀ idx, IdxOK ρ σr idx → denote ρ y idx = denote ρ r idx)
    (idx : List Nat) (hidx : IdxOK ρ (pre ++ post) idx) :
    denote ρ (.action x y) idx = denote ρ (.action l r) idx := by
  rw [denote_action, denote_action]
  have hln : l.splitAt = pre.length := splitAt_of_sig l pre s (by rw [hl, hσl])
  have hld : l.contrDim ρ = ρ.dim s.id := contrDim_of_sig ρ l pre s (by rw [hl, hσl])
  rcases hxr with hz | ht
  · rw [contr_zero_left _ _ _ _ _ (fun i => denote_of_isZero ρ x hz i)]
    rw [hln, hld]
    symm
    simp only [contr, sumN_eq_sum]
    apply Finset.sum_eq_zero
    intro k hk
    have hk' : k < ρ.dim s.id := by simpa using hk
    have hc := IdxOK_contract ρ pre post s idx k hidx hk'
    rw [← hx _ (by rw [hσl]; exact hc.1), denote_of_isZero ρ x hz]; simp
  · have hxn : x.splitAt = pre.length := splitAt_of_sig x pre s (by rw [ht.2, hσl])
    have hxd : x.contrDim ρ = ρ.dim s.id := contrDim_of_sig ρ x pre s (by rw [ht.2, hσl])
    rw [hln, hld, hxn, hxd]
    apply contr_congr
    intro k hk
    have hc := IdxOK_contract ρ pre post s idx k hidx hk
    rw [hx _ (by rw [hσl]; exact hc.1), hy _ (by rw [hσr]; exact hc.2)]

/-- an `Action` node whose operands have been replaced by objects that denote the same maps -/
theorem action_node_sound (cfg : Cfg) (ρ : Env K) (l r x y b : BF K) (hwt : (BF.action l r).WT = true)
    (hX : (∀ idx, IdxOK ρ l.sigS idx → denote ρ x idx = denote ρ l idx) ∧ OKc l.sigS x)
    (hY : (∀ idx, IdxOK ρ r.sigS idx → denote ρ y idx = denote ρ r idx) ∧ OKc r.sigS y)
    (hrz : r = .exprZero → y = .exprZero)
    (h : mkAction cfg x y = .ok b) :
    (∀ idx, IdxOK ρ (BF.action l r).sigS idx → denote ρ b idx = denote ρ (.action l r) idx) ∧ Res (BF.action l r).sigS b := by
  simp only [BF.WT, Bool.and_eq_true] at hwt
  obtain ⟨⟨hwl, hwr⟩, hc⟩ := hwt
  unfold BF.compat at hc
  cases hlast : l.sigS.getLast? with
  | none => simp [hlast] at hc
  | some s =>
    simp only [hlast] at hc
    have hσl : l.sigS = l.sigS.dropLast ++ [s] := (List.dropLast_append_getLast? s hlast).symm
    by_cases hrz' : r = .exprZero
    · have hy := hrz hrz'
      subst hrz'; subst hy
      have hS := mkAction_sound cfg ρ (.exprZero : BF K) [s.dualize] [] s (Or.inl (by simp [BF.isZero])) rfl
        x b l.sigS l.sigS.dropLast hX.2 hσl h
      simp only [BF.sigS, List.tail_nil]
      refine ⟨?_, hS.2⟩
      intro idx hidx
      rw [hS.1 idx hidx]
      exact action_congr' ρ x .exprZero l .exprZero _ [s.dualize] _ [] s hσl rfl rfl hX.1 hX.2 (fun _ _ => rfl) idx hidx
    · have hhead : r.sigS.head? = some s.dualize := by
        revert hc hrz'
        generalize r = rr
        intro hc hrz'
        cases rr <;> first | exact absurd rfl hrz' | simpa using hc
      have hσr : r.sigS = s.dualize :: r.sigS.tail := by
        cases hq : r.sigS with
        | nil => simp [hq] at hhead
        | cons a t => simp [hq] at hhead; simp [hhead]
      have hS := mkAction_sound cfg ρ y r.sigS r.sigS.tail s hY.2 hσr x b l.sigS l.sigS.dropLast hX.2 hσl h
      simp only [BF.sigS]
      refine ⟨?_, hS.2⟩
      intro idx hidx
      rw [hS.1 idx hidx]
      exact action_congr' ρ x y l r _ _ _ _ s hσl hσr rfl hX.1 hX.2 hY.1 idx hidx

/-- an `Adjoint` node whose operand has been replaced by an object that denotes the same map -/
theorem adjoint_node_sound (cfg : Cfg) (cj : K → K) (ρ : Env K) (hs : StarOK ρ) (hcj : ∀ a, cj a = ρ.star a)
    (f x b : BF K) (hwt : (BF.adjoint f).WT = true)
    (hX : (∀ idx, IdxOK ρ f.sigS idx → denote ρ x idx = denote ρ f idx) ∧ OKc f.sigS x)
    (h : mkAdjoint cfg cj x = .ok b) :
    (∀ idx, IdxOK ρ (BF.adjoint f).sigS idx → denote ρ b idx = denote ρ (.adjoint f) idx) ∧ Res (BF.adjoint f).sigS b := by
  simp only [BF.WT, Bool.and_eq_true, beq_iff_eq] at hwt
  have hV := mkAdjoint_value cfg cj ρ hs x b (fun w _ => hcj w) h
  have hR := mkAdjoint_res cfg cj x b _ hX.2 hwt.2 h
  simp only [BF.sigS]
  refine ⟨?_, hR⟩
  intro idx hidx
  obtain ⟨s1, s2, hsf⟩ : ∃ s1 s2, f.sigS = [s1, s2] := by
    cases hq : f.sigS with
    | nil => simp [hq] at hwt
    | cons a t =>
      cases t with
      | nil => simp [hq] at hwt
      | cons c t' =>
        cases t' with
        | nil => exact ⟨a, c, rfl⟩
        | cons _ _ => simp [hq] at hwt
  rw [hsf] at hidx
  simp only [List.reverse_cons, List.reverse_nil, List.nil_append, List.singleton_append] at hidx
  obtain ⟨i, j, rfl, hi, hj⟩ := IdxOK_two ρ s2 s1 idx hidx
  rw [hV i j]
  simp only [denote]
  rw [hX.1 [j, i] (by rw [hsf]; simp [IdxOK, hi, hj])]

theorem mapSum_sound (cfg : Cfg) (ρ : Env K) (σ : List Space) (ms : List (BF K)) (ws : List K) (b : BF K)
    (hms : ∀ m ∈ ms, OKc σ m) (h : mapSum cfg ms ws = .ok b) :
    (∀ idx, denote ρ b idx = dsum ρ (ms.zip ws) idx) ∧ Res σ b := by
  unfold mapSum at h
  have hnz : ∀ p ∈ (ms.zip ws).filter (fun p => !p.1.isZero), OKc σ p.1 := by
    intro p hp
    exact hms p.1 (List.of_mem_zip (List.mem_filter.1 hp).1).1
  have hval : ∀ idx, dsum ρ ((ms.zip ws).filter (fun p => !p.1.isZero)) idx = dsum ρ (ms.zip ws) idx :=
    fun idx => dsum_filter_nonzero ρ _ idx
  have hnzero : ∀ p ∈ (ms.zip ws).filter (fun p => !p.1.isZero), p.1.isZero = false := by
    intro p hp
    simpa using (List.mem_filter.1 hp).2
  generalize (ms.zip ws).filter (fun p => !p.1.isZero) = nz at h hnz hval hnzero
  dsimp only at h
  split at h
  · -- everything vanished
    split at h
    · simp at h
    · rename_i m rest
      cases ha : m.arguments cfg with
      | error e => simp [ha, ebind_error] at h
      | ok as =>
        simp only [ha, ebind_ok, Except.ok.injEq] at h; subst h
        exact ⟨fun idx => by rw [← hval idx]; simp [denote, dsum], Or.inl rfl⟩
  · rename_i c w
    split at h
    · rename_i hw
      simp only [Except.ok.injEq] at h; subst h
      refine ⟨fun idx => by rw [← hval idx]; simp [dsum, hw], ?_⟩
      exact Or.inr (typed_of_okc_nonzero (hnz (c, w) (by simp)) (hnzero (c, w) (by simp)))
    · split at h
      · exact ⟨fun idx => by rw [denote_mkFormSum cfg ρ _ b h idx, hval idx], mkFormSum_res cfg σ _ b hnz h⟩
      · simp at h
  · split at h
    · simp at h
    · exact ⟨fun idx => by rw [denote_mkFormSum cfg ρ _ b h idx, hval idx], mkFormSum_res cfg σ _ b hnz h⟩

theorem WT_leaf_typed (x : BF K) (h : x.WT = true) : Typed x.sigS x := ⟨h, rfl⟩

mutual
/-- `map_integrands(function, b)` denotes what `b` denotes (at the multi-indices of the signature of `b`) and is zero or well typed
with the signature of `b`, for a `function` that satisfies `MapOK` and does not empty a form -/
theorem mapIntegrands_sound (cfg : Cfg) (cj : K → K) (ρ : Env K) (hs : StarOK ρ) (hcj : ∀ a, cj a = ρ.star a)
    (fI : Itg K → Itg K) (fL : BF K → BF K) (hm : MapOK ρ fI fL) :
    ∀ (b b' : BF K), b.WT = true → formsKept fI b = true → mapIntegrands cfg cj fI fL b = .ok b' →
      (∀ idx, IdxOK ρ b.sigS idx → denote ρ b' idx = denote ρ b idx) ∧ OKc b.sigS b'
  | .form itgs, b', hwt, hk, h => by
    simp only [mapIntegrands, Except.ok.injEq] at h; subst h
    refine ⟨fun idx _ => ?_, Or.inr ?_⟩
    · simp only [denote, denoteItgs_sortItgs, denoteItgs_filter_live, denoteItgs_map ρ fI hm.itg_val]
    · have ht : FormTyped (BF.form itgs).sigS itgs := (typed_form_iff _ itgs).1 ⟨hwt, rfl⟩
      rw [typed_form_iff]
      apply formTyped_sort
      refine ⟨?_, ?_⟩
      · intro i hi
        obtain ⟨j, hj, rfl⟩ := List.mem_map.1 (List.mem_filter.1 hi).1
        rw [hm.itg_sig]; exact ht.1 j hj
      · intro hnil
        simp only [formsKept, Bool.or_eq_true, List.isEmpty_iff, List.any_eq_true, Bool.not_eq_eq_eq_not, Bool.not_true] at hk
        rcases hk with hk | ⟨i, hi, hz⟩
        · exact ht.2 hk
        · exfalso
          have : fI i ∈ (itgs.map fI).filter (fun i => !i.zeroed) :=
            List.mem_filter.2 ⟨List.mem_map.2 ⟨i, hi, rfl⟩, by simp [hz]⟩
          rw [hnil] at this; simp at this
  | .formSum cs ws, b', hwt, hk, h => by
    simp only [mapIntegrands] at h
    have hwt' := (WT_formSum_iff cs ws).1 hwt
    simp only [formsKept] at hk
    cases hx : mapIntegrandsL cfg cj fI fL cs with
    | error e => simp [hx, ebind_error] at h
    | ok ms =>
      simp only [hx, ebind_ok] at h
      have hL := mapIntegrandsL_sound cfg cj ρ hs hcj fI fL hm cs ms (BF.formSum cs ws).sigS
        (fun c hc => ⟨hwt'.1 c hc, hwt'.2.1 c hc⟩) hk hx
      have hS := mapSum_sound cfg ρ _ ms ws b' hL.1 h
      refine ⟨fun idx hidx => ?_, hS.2.okc⟩
      rw [hS.1 idx, hL.2 ws idx hidx]
      simp [denote, denoteSum_zip]
  | .adjoint f, b', hwt, hk, h => by
    simp only [mapIntegrands] at h
    simp only [formsKept] at hk
    have hwf : f.WT = true := by simp only [BF.WT, Bool.and_eq_true] at hwt; exact hwt.1
    cases hx : mapIntegrands cfg cj fI fL f with
    | error e => simp [hx, ebind_error] at h
    | ok x =>
      simp only [hx, ebind_ok] at h
      have hX := mapIntegrands_sound cfg cj ρ hs hcj fI fL hm f x hwf hk hx
      have := adjoint_node_sound cfg cj ρ hs hcj f x b' hwt hX h
      exact ⟨this.1, this.2.okc⟩
  | .action l r, b', hwt, hk, h => by
    simp only [mapIntegrands] at h
    simp only [formsKept, Bool.and_eq_true] at hk
    have hw2 : l.WT = true ∧ r.WT = true := by
      simp only [BF.WT, Bool.and_eq_true] at hwt; exact ⟨hwt.1.1, hwt.1.2⟩
    cases hx : mapIntegrands cfg cj fI fL l with
    | error e => simp [hx, ebind_error] at h
    | ok x =>
      cases hy : mapIntegrands cfg cj fI fL r with
      | error e => simp [hx, hy, ebind_ok, ebind_error] at h
      | ok y =>
        simp only [hx, hy, ebind_ok] at h
        have hX := mapIntegrands_sound cfg cj ρ hs hcj fI fL hm l x hw2.1 hk.1 hx
        have hY := mapIntegrands_sound cfg cj ρ hs hcj fI fL hm r y hw2.2 hk.2 hy
        have hrz : r = .exprZero → y = .exprZero := by
          intro hr; subst hr
          simp only [mapIntegrands, Except.ok.injEq] at hy
          rw [← hy, hm.leaf_zero]
        have := action_node_sound cfg ρ l r x y b' hwt hX hY hrz h
        exact ⟨this.1, this.2.okc⟩
  | .zero as, b', _, _, h => by
    simp only [mapIntegrands, Except.ok.injEq] at h; subst h
    exact ⟨fun idx _ => rfl, Or.inl rfl⟩
  | .cofunction c s, b', hwt, _, h => by
    simp only [mapIntegrands, Except.ok.injEq] at h; subst h
    exact ⟨fun idx _ => hm.leaf_val _ idx, hm.leaf_typ _ _ (WT_leaf_typed _ hwt)⟩
  | .coargument a, b', hwt, _, h => by
    simp only [mapIntegrands, Except.ok.injEq] at h; subst h
    exact ⟨fun idx _ => hm.leaf_val _ idx, hm.leaf_typ _ _ (WT_leaf_typed _ hwt)⟩
  | .matrix c r k, b', hwt, _, h => by
    simp only [mapIntegrands, Except.ok.injEq] at h; subst h
    exact ⟨fun idx _ => hm.leaf_val _ idx, hm.leaf_typ _ _ (WT_leaf_typed _ hwt)⟩
  | .coefficient c s, b', hwt, _, h => by
    simp only [mapIntegrands, Except.ok.injEq] at h; subst h
    exact ⟨fun idx _ => hm.leaf_val _ idx, hm.leaf_typ _ _ (WT_leaf_typed _ hwt)⟩
  | .argument a, b', hwt, _, h => by
    simp only [mapIntegrands, Except.ok.injEq] at h; subst h
    exact ⟨fun idx _ => hm.leaf_val _ idx, hm.leaf_typ _ _ (WT_leaf_typed _ hwt)⟩
  | .exprSum x y, b', hwt, _, h => by
    simp only [mapIntegrands, Except.ok.injEq] at h; subst h
    exact ⟨fun idx _ => hm.leaf_val _ idx, hm.leaf_typ _ _ (WT_leaf_typed _ hwt)⟩
  | .exprZero, b', hwt, _, h => by
    simp only [mapIntegrands, Except.ok.injEq] at h; subst h
    exact ⟨fun idx _ => hm.leaf_val _ idx, hm.leaf_typ _ _ (WT_leaf_typed _ hwt)⟩
  | .exprOther n, b', hwt, _, h => by simp [BF.WT] at hwt
theorem mapIntegrandsL_sound (cfg : Cfg) (cj : K → K) (ρ : Env K) (hs : StarOK ρ) (hcj : ∀ a, cj a = ρ.star a)
    (fI : Itg K → Itg K) (fL : BF K → BF K) (hm : MapOK ρ fI fL) :
    ∀ (cs ms : List (BF K)) (σ : List Space), (∀ c ∈ cs, c.WT = true ∧ c.sigS = σ) → formsKeptL fI cs = true →
      mapIntegrandsL cfg cj fI fL cs = .ok ms →
      (∀ m ∈ ms, OKc σ m) ∧
      (∀ (ws : List K) idx, IdxOK ρ σ idx → dsum ρ (ms.zip ws) idx = dsum ρ (cs.zip ws) idx)
  | [], ms, σ, _, _, h => by
    simp only [mapIntegrandsL, Except.ok.injEq] at h; subst h; simp [dsum]
  | c :: cs, ms, σ, hc, hk, h => by
    simp only [mapIntegrandsL] at h
    simp only [formsKeptL, Bool.and_eq_true] at hk
    cases hx : mapIntegrands cfg cj fI fL c with
    | error e => simp [hx, ebind_error] at h
    | ok x =>
      cases hxs : mapIntegrandsL cfg cj fI fL cs with
      | error e => simp [hx, hxs, ebind_ok, ebind_error] at h
      | ok xs' =>
        simp only [hx, hxs, ebind_ok, Except.ok.injEq] at h; subst h
        have hc0 := hc c (by simp)
        have h1 := mapIntegrands_sound cfg cj ρ hs hcj fI fL hm c x hc0.1 hk.1 hx
        rw [hc0.2] at h1
        have h2 := mapIntegrandsL_sound cfg cj ρ hs hcj fI fL hm cs xs' σ (fun c' hc' => hc c' (by simp [hc'])) hk.2 hxs
        refine ⟨?_, ?_⟩
        · intro y hy
          simp only [List.mem_cons] at hy
          rcases hy with rfl | hy
          · exact h1.2
          · exact h2.1 y hy
        · intro ws idx hidx
          cases ws with
          | nil => simp [dsum]
          | cons w ws => simp only [List.zip_cons_cons, dsum, h1.1 idx hidx, h2.2 ws idx hidx]
end

end BaseForm
end UflVerif
