/-
Lemmas about the base-form model (C28): algebra of `denote`, typing (`sigS`, `WT`) of the constructors' results.
-/
import Mathlib.Algebra.BigOperators.Ring.Finset
import Mathlib.Algebra.BigOperators.Intervals
import Mathlib.Tactic.Ring
import UflVerif.Model.BaseForm

namespace UflVerif
namespace BaseForm
open Finset

set_option linter.unusedSectionVars false
set_option linter.unusedSimpArgs false

variable {K : Type}

theorem ebind_ok {ε α β : Type} (a : α) (f : α → Except ε β) : (Except.ok a >>= f) = f a := rfl
theorem ebind_error {ε α β : Type} (e : ε) (f : α → Except ε β) :
    ((Except.error e : Except ε α) >>= f) = Except.error e := rfl

theorem sumN_eq_sum [AddCommMonoid K] (n : Nat) (f : Nat → K) :
    sumN n f = ∑ k ∈ Finset.range n, f k := by
  unfold sumN
  induction n with
  | zero => simp
  | succ m ih =>
    rw [List.range_succ, List.foldl_append, Finset.sum_range_succ, ← ih]
    simp

section ring
variable [CommRing K] [DecidableEq K]

/-! ### Forms -/

theorem denoteItgs_append (ρ : Env K) (a b : List (Itg K)) (idx : List Nat) :
    denoteItgs ρ (a ++ b) idx = denoteItgs ρ a idx + denoteItgs ρ b idx := by
  induction a with
  | nil => simp [denoteItgs]
  | cons x l ih => simp [denoteItgs, ih, add_assoc]

theorem denoteItgs_insertItg (ρ : Env K) (x : Itg K) (l : List (Itg K)) (idx : List Nat) :
    denoteItgs ρ (insertItg x l) idx = denoteItg ρ x idx + denoteItgs ρ l idx := by
  induction l with
  | nil => simp [insertItg, denoteItgs]
  | cons y l ih =>
    unfold insertItg
    split
    · simp [denoteItgs]
    · simp [denoteItgs, ih]; ring

theorem denoteItgs_sortItgs (ρ : Env K) (l : List (Itg K)) (idx : List Nat) :
    denoteItgs ρ (sortItgs l) idx = denoteItgs ρ l idx := by
  induction l with
  | nil => simp [sortItgs]
  | cons x l ih => simp [sortItgs, denoteItgs_insertItg, denoteItgs, ih]

theorem denoteItg_smul (ρ : Env K) (w : K) (i : Itg K) (idx : List Nat) :
    denoteItg ρ (Itg.smul w i) idx = w * denoteItg ρ i idx := by
  unfold Itg.smul denoteItg
  by_cases hw : w = 0
  · simp [hw]
  · simp only [hw, if_false]
    split <;> simp [mul_assoc]

theorem denoteItgs_formSmul (ρ : Env K) (w : K) (l : List (Itg K)) (idx : List Nat) :
    denoteItgs ρ (formSmul w l) idx = w * denoteItgs ρ l idx := by
  unfold formSmul
  rw [denoteItgs_sortItgs]
  induction l with
  | nil => simp [denoteItgs]
  | cons x l ih => simp [denoteItgs, denoteItg_smul, ih, mul_add]

theorem denoteItgs_formAdd (ρ : Env K) (a b : List (Itg K)) (idx : List Nat) :
    denoteItgs ρ (formAdd a b) idx = denoteItgs ρ a idx + denoteItgs ρ b idx := by
  unfold formAdd
  rw [denoteItgs_sortItgs, denoteItgs_append]

/-! ### weighted sums -/

/-- the weighted sum of a list of (component, weight) pairs -/
def dsum (ρ : Env K) : List (BF K × K) → List Nat → K
  | [], _ => 0
  | p :: ps, idx => p.2 * denote ρ p.1 idx + dsum ρ ps idx

theorem denoteSum_zip (ρ : Env K) (cs : List (BF K)) (ws : List K) (idx : List Nat) :
    denoteSum ρ cs ws idx = dsum ρ (cs.zip ws) idx := by
  induction cs generalizing ws with
  | nil => simp [denoteSum, dsum]
  | cons c cs ih =>
    cases ws with
    | nil => simp [denoteSum, dsum]
    | cons w ws => simp [denoteSum, dsum, ih]

theorem denoteSum_unzip (ρ : Env K) (ps : List (BF K × K)) (idx : List Nat) :
    denoteSum ρ (ps.map (·.1)) (ps.map (·.2)) idx = dsum ρ ps idx := by
  induction ps with
  | nil => simp [denoteSum, dsum]
  | cons p ps ih => simp [denoteSum, dsum, ih]

theorem dsum_append (ρ : Env K) (a b : List (BF K × K)) (idx : List Nat) :
    dsum ρ (a ++ b) idx = dsum ρ a idx + dsum ρ b idx := by
  induction a with
  | nil => simp [dsum]
  | cons x l ih => simp [dsum, ih, add_assoc]

theorem denote_of_isZero (ρ : Env K) (b : BF K) (h : b.isZero = true) (idx : List Nat) : denote ρ b idx = 0 := by
  cases b <;> simp_all [BF.isZero, denote]

theorem dsum_filter_nonzero (ρ : Env K) (ps : List (BF K × K)) (idx : List Nat) :
    dsum ρ (ps.filter (fun p => !p.1.isZero)) idx = dsum ρ ps idx := by
  induction ps with
  | nil => simp [dsum]
  | cons p ps ih =>
    by_cases h : p.1.isZero = true
    · simp [List.filter, h, dsum, ih, denote_of_isZero ρ p.1 h]
    · simp [List.filter, h, dsum, ih]

theorem dsum_scale (ρ : Env K) (w : K) (cs : List (BF K)) (ws : List K) (idx : List Nat) :
    dsum ρ (cs.zip (ws.map (w * ·))) idx = w * dsum ρ (cs.zip ws) idx := by
  induction cs generalizing ws with
  | nil => simp [dsum]
  | cons c cs ih =>
    cases ws with
    | nil => simp [dsum]
    | cons v ws => simp [dsum, ih, mul_add, mul_assoc]

theorem dsum_flatten (ρ : Env K) (ps : List (BF K × K)) (idx : List Nat) :
    dsum ρ (flattenComps ps) idx = dsum ρ ps idx := by
  induction ps with
  | nil => simp [flattenComps, dsum]
  | cons p ps ih =>
    obtain ⟨c, w⟩ := p
    cases c <;> simp [flattenComps, dsum, ih]
    case formSum cs ws =>
      rw [dsum_append, dsum_scale, ih, denote, denoteSum_zip]

/-- sum of the values of a list of forms -/
def formsVal (ρ : Env K) : List (List (Itg K)) → List Nat → K
  | [], _ => 0
  | f :: fs, idx => denoteItgs ρ f idx + formsVal ρ fs idx

theorem dsum_split (ρ : Env K) (ps : List (BF K × K)) (idx : List Nat) :
    dsum ρ ps idx = formsVal ρ (scaledForms ps) idx + dsum ρ (nonForms ps) idx := by
  induction ps with
  | nil => simp [scaledForms, nonForms, dsum, formsVal]
  | cons p ps ih =>
    obtain ⟨c, w⟩ := p
    cases c
    case form itgs =>
      simp only [scaledForms, nonForms, dsum, formsVal, ih, denoteItgs_formSmul, denote]; ring
    all_goals (simp only [scaledForms, nonForms, dsum, formsVal, ih]; ring)

theorem denoteItgs_foldl_formAdd (ρ : Env K) (fs : List (List (Itg K))) (f : List (Itg K)) (idx : List Nat) :
    denoteItgs ρ (fs.foldl formAdd f) idx = denoteItgs ρ f idx + formsVal ρ fs idx := by
  induction fs generalizing f with
  | nil => simp [formsVal]
  | cons g fs ih => simp [List.foldl, ih, denoteItgs_formAdd, formsVal, add_assoc]

theorem denote_initFormSum (ρ : Env K) (ps : List (BF K × K)) (idx : List Nat) :
    denote ρ (initFormSum ps) idx = dsum ρ ps idx := by
  unfold initFormSum
  rw [← dsum_filter_nonzero ρ ps idx, ← dsum_flatten ρ (ps.filter _) idx, dsum_split]
  dsimp only
  split
  · rename_i h
    simp [h, formsVal, denote, denoteSum_unzip]
  · rename_i f fs h
    simp [h, formsVal, denote, denoteSum, denoteSum_unzip, denoteItgs_foldl_formAdd]

theorem dsum_all_zero (ρ : Env K) (ps : List (BF K × K)) (h : ps.all (fun p => p.1.isZero) = true) (idx : List Nat) :
    dsum ρ ps idx = 0 := by
  induction ps with
  | nil => simp [dsum]
  | cons p ps ih =>
    simp only [List.all_cons, Bool.and_eq_true] at h
    simp [dsum, ih h.2, denote_of_isZero ρ p.1 h.1]

/-- value of `FormSum(*comps)` -/
theorem denote_mkFormSum (cfg : Cfg) (ρ : Env K) (ps : List (BF K × K)) (b : BF K)
    (h : mkFormSum cfg ps = .ok b) (idx : List Nat) : denote ρ b idx = dsum ρ ps idx := by
  unfold mkFormSum at h
  split at h
  · rename_i hz
    rw [dsum_all_zero ρ ps hz]
    split at h
    · simp at h
    · simp only [Except.ok.injEq] at h; subst h; simp [denote]
    · simp at h
  · split at h
    · rename_i a w
      split at h
      · rename_i hw
        split at h
        · simp only [Except.ok.injEq] at h; subst h; rw [denote_initFormSum]
        · simp only [Except.ok.injEq] at h; subst h; simp [dsum, hw]
      · simp only [Except.ok.injEq] at h; subst h; rw [denote_initFormSum]
    · simp only [Except.ok.injEq] at h; subst h; rw [denote_initFormSum]

end ring

/-! ### typing of sums -/

def Typed (σ : List Space) (b : BF K) : Prop := b.WT = true ∧ b.sigS = σ
/-- what a component / operand may be: a zero (whose arguments nobody can rely on) or well-typed with signature `σ` -/
def OKc (σ : List Space) (b : BF K) : Prop := b.isZero = true ∨ Typed σ b
/-- what a constructor returns: a `ZeroBaseForm` or a well-typed object with signature `σ` -/
def Res (σ : List Space) (b : BF K) : Prop := b.isZeroObj = true ∨ Typed σ b

theorem Res.okc {σ : List Space} {b : BF K} (h : Res σ b) : OKc σ b := by
  rcases h with h | h
  · left; cases b <;> simp_all [BF.isZeroObj, BF.isZero]
  · right; exact h

theorem denote_of_isZeroObj [CommRing K] (ρ : Env K) (b : BF K) (h : b.isZeroObj = true) (idx : List Nat) : denote ρ b idx = 0 := by
  cases b <;> simp_all [BF.isZeroObj, denote]

theorem WTL_iff (cs : List (BF K)) : BF.WTL cs = true ↔ ∀ c ∈ cs, c.WT = true := by
  induction cs with
  | nil => simp [BF.WTL]
  | cons c cs ih => simp [BF.WTL, ih]

theorem WT_formSum_iff (cs : List (BF K)) (ws : List K) :
    (BF.formSum cs ws).WT = true ↔
      (∀ c ∈ cs, c.WT = true) ∧ (∀ c ∈ cs, c.sigS = (BF.formSum cs ws).sigS) ∧ cs.length = ws.length := by
  rw [BF.WT]
  simp [WTL_iff, List.all_eq_true, and_assoc]

def FormTyped (σ : List Space) (itgs : List (Itg K)) : Prop :=
  (∀ i ∈ itgs, i.argSpaces = σ) ∧ (itgs = [] → σ = [])

theorem formSig_of_all (σ : List Space) (i : Itg K) (rest : List (Itg K)) (h : ∀ j ∈ i :: rest, j.argSpaces = σ) :
    formSig (i :: rest) = σ := by
  unfold formSig
  split
  · rename_i j tl hj
    have : j ∈ (i :: rest).filter (fun i => !i.zeroed) := by rw [hj]; simp
    exact h j (List.mem_filter.1 this).1
  · exact h i (by simp)

theorem typed_form_iff (σ : List Space) (itgs : List (Itg K)) : Typed σ (.form itgs) ↔ FormTyped σ itgs := by
  unfold Typed FormTyped
  cases itgs with
  | nil => simp [BF.WT, BF.formWT, BF.sigS, formSig, eq_comm]
  | cons i rest =>
    simp only [BF.WT, BF.formWT, BF.sigS, List.all_eq_true, beq_iff_eq, reduceCtorEq, false_imp_iff, and_true]
    constructor
    · rintro ⟨h1, h2⟩
      have hall : ∀ j ∈ i :: rest, j.argSpaces = i.argSpaces := by
        intro j hj
        rcases List.mem_cons.1 hj with rfl | hj
        · rfl
        · exact h1 j hj
      rw [formSig_of_all i.argSpaces i rest hall] at h2
      intro j hj
      exact (hall j hj).trans h2
    · intro h
      refine ⟨fun j hj => (h j (by simp [hj])).trans (h i (by simp)).symm, formSig_of_all σ i rest h⟩

theorem mem_insertItg (x y : Itg K) (l : List (Itg K)) : y ∈ insertItg x l ↔ y = x ∨ y ∈ l := by
  induction l with
  | nil => simp [insertItg]
  | cons z l ih =>
    unfold insertItg
    split
    · simp
    · simp [ih]; tauto

theorem mem_sortItgs (y : Itg K) (l : List (Itg K)) : y ∈ sortItgs l ↔ y ∈ l := by
  induction l with
  | nil => simp [sortItgs]
  | cons z l ih => simp [sortItgs, mem_insertItg, ih]

theorem formTyped_of_mem_iff (σ : List Space) (a b : List (Itg K)) (h : ∀ y, y ∈ b ↔ y ∈ a) :
    FormTyped σ a → FormTyped σ b := by
  rintro ⟨h1, h2⟩
  refine ⟨fun i hi => h1 i ((h i).1 hi), fun hb => h2 ?_⟩
  cases a with
  | nil => rfl
  | cons x l => exact absurd ((h x).2 (by simp)) (by simp [hb])

theorem formTyped_sort (σ : List Space) (a : List (Itg K)) (h : FormTyped σ a) : FormTyped σ (sortItgs a) :=
  formTyped_of_mem_iff σ a _ (fun y => mem_sortItgs y a) h

theorem argSpaces_smul [Mul K] [Zero K] [DecidableEq K] (w : K) (i : Itg K) : (Itg.smul w i).argSpaces = i.argSpaces := by
  unfold Itg.smul Itg.argSpaces
  split <;> rfl

theorem formTyped_smul [Mul K] [Zero K] [DecidableEq K] (σ : List Space) (w : K) (a : List (Itg K)) (h : FormTyped σ a) :
    FormTyped σ (formSmul w a) := by
  unfold formSmul
  apply formTyped_sort
  obtain ⟨h1, h2⟩ := h
  refine ⟨?_, ?_⟩
  · intro i hi
    simp only [List.mem_map] at hi
    obtain ⟨j, hj, rfl⟩ := hi
    rw [argSpaces_smul]; exact h1 j hj
  · intro hm
    apply h2
    simpa using hm

theorem formTyped_add (σ : List Space) (a b : List (Itg K)) (ha : FormTyped σ a) (hb : FormTyped σ b) :
    FormTyped σ (formAdd a b) := by
  unfold formAdd
  apply formTyped_sort
  obtain ⟨a1, a2⟩ := ha
  obtain ⟨b1, b2⟩ := hb
  refine ⟨?_, ?_⟩
  · intro i hi
    rcases List.mem_append.1 hi with h | h
    · exact a1 i h
    · exact b1 i h
  · intro hm
    simp only [List.append_eq_nil_iff] at hm
    exact a2 hm.1

theorem formTyped_foldl (σ : List Space) (fs : List (List (Itg K))) (f : List (Itg K)) (hf : FormTyped σ f)
    (hfs : ∀ g ∈ fs, FormTyped σ g) : FormTyped σ (fs.foldl formAdd f) := by
  induction fs generalizing f with
  | nil => simpa
  | cons g fs ih =>
    simp only [List.foldl]
    apply ih
    · exact formTyped_add σ f g hf (hfs g (by simp))
    · intro g' hg'; exact hfs g' (by simp [hg'])

section typing
variable [Mul K] [Zero K] [One K] [Neg K] [DecidableEq K]

theorem mem_nonForms (q : BF K × K) (l : List (BF K × K)) (h : q ∈ nonForms l) : q ∈ l := by
  induction l with
  | nil => simp [nonForms] at h
  | cons p l ih =>
    obtain ⟨c, w⟩ := p
    cases c <;> simp only [nonForms, List.mem_cons] at h ⊢
    case form itgs => exact Or.inr (ih h)
    all_goals (rcases h with h | h; exact Or.inl h; exact Or.inr (ih h))

theorem mem_scaledForms (g : List (Itg K)) (l : List (BF K × K)) (h : g ∈ scaledForms l) :
    ∃ itgs w, (BF.form itgs, w) ∈ l ∧ g = formSmul w itgs := by
  induction l with
  | nil => simp [scaledForms] at h
  | cons p l ih =>
    obtain ⟨c, w⟩ := p
    cases c
    case form itgs =>
      simp only [scaledForms, List.mem_cons] at h
      rcases h with h | h
      · exact ⟨itgs, w, by simp, h⟩
      · obtain ⟨i', w', hm, he⟩ := ih h
        exact ⟨i', w', by simp [hm], he⟩
    all_goals
      simp only [scaledForms] at h
      obtain ⟨i', w', hm, he⟩ := ih h
      exact ⟨i', w', by simp [hm], he⟩

theorem flat_typed (σ : List Space) (ps : List (BF K × K)) (h : ∀ p ∈ ps, OKc σ p.1) :
    ∀ q ∈ flattenComps (ps.filter (fun p => !p.1.isZero)), Typed σ q.1 := by
  induction ps with
  | nil => simp [flattenComps]
  | cons p ps ih =>
    have ih' := ih (fun q hq => h q (by simp [hq]))
    have hp := h p (by simp)
    obtain ⟨c, w⟩ := p
    by_cases hz : c.isZero = true
    · simpa [List.filter, hz] using ih'
    · have hz' : c.isZero = false := by simpa using hz
      simp only [List.filter, hz', Bool.not_false]
      intro q hq
      cases c
      case formSum cs ws =>
        simp only [flattenComps, List.mem_append] at hq
        rcases hq with hq | hq
        · rcases hp with hn | ht
          · simp [BF.isZero] at hn
          · obtain ⟨hwt, hsig⟩ := ht
            rw [WT_formSum_iff] at hwt
            have hmem : q.1 ∈ cs := (List.of_mem_zip hq).1
            exact ⟨hwt.1 _ hmem, (hwt.2.1 _ hmem).trans hsig⟩
        · exact ih' q hq
      all_goals
        simp only [flattenComps, List.mem_cons] at hq
        rcases hq with hq | hq
        · subst hq
          rcases hp with hn | ht
          · simp_all
          · exact ht
        · exact ih' q hq

theorem flat_eq_nil (l : List (BF K × K)) (h1 : scaledForms l = []) (h2 : nonForms l = []) : l = [] := by
  cases l with
  | nil => rfl
  | cons p l =>
    obtain ⟨c, w⟩ := p
    cases c <;> simp_all [scaledForms, nonForms]

theorem flat_nil_sig (σ : List Space) (ps : List (BF K × K)) (h : ∀ p ∈ ps, OKc σ p.1)
    (hne : ∃ p ∈ ps, p.1.isZero = false)
    (hnil : flattenComps (ps.filter (fun p => !p.1.isZero)) = []) : σ = [] := by
  induction ps with
  | nil => simp at hne
  | cons p ps ih =>
    obtain ⟨c, w⟩ := p
    have hp := h (c, w) (by simp)
    by_cases hz : c.isZero = true
    · have hz2 : (c, w).1.isZero = true := hz
      simp only [List.filter, hz2, Bool.not_true] at hnil
      apply ih (fun q hq => h q (by simp [hq])) _ hnil
      obtain ⟨q, hq, hqz⟩ := hne
      simp only [List.mem_cons] at hq
      rcases hq with rfl | hq
      · simp [hz] at hqz
      · exact ⟨q, hq, hqz⟩
    · have hz' : (c, w).1.isZero = false := by simpa using hz
      simp only [List.filter, hz', Bool.not_false] at hnil
      rcases hp with hn | ht
      · simp_all
      · cases c
        case formSum cs ws =>
          simp only [flattenComps, List.append_eq_nil_iff] at hnil
          obtain ⟨hwt, hsig⟩ := ht
          rw [WT_formSum_iff] at hwt
          have hl := hwt.2.2
          cases cs with
          | nil => simpa [BF.sigS] using hsig.symm
          | cons c0 cs =>
            cases ws with
            | nil => simp at hl
            | cons w0 ws => simp at hnil
        all_goals simp [flattenComps] at hnil

theorem initFormSum_res (σ : List Space) (ps : List (BF K × K)) (h : ∀ p ∈ ps, OKc σ p.1)
    (hne : ∃ p ∈ ps, p.1.isZero = false) : Typed σ (initFormSum ps) := by
  have hflat := flat_typed σ ps h
  have hnil := flat_nil_sig σ ps h hne
  unfold initFormSum
  dsimp only
  generalize flattenComps (ps.filter (fun p => !p.1.isZero)) = flat at hflat hnil
  have hothers : ∀ q ∈ nonForms flat, Typed σ q.1 := fun q hq => hflat q (mem_nonForms q flat hq)
  have hforms : ∀ g ∈ scaledForms flat, FormTyped σ g := by
    intro g hg
    obtain ⟨itgs, w, hm, rfl⟩ := mem_scaledForms g flat hg
    exact formTyped_smul σ w itgs ((typed_form_iff σ itgs).1 (hflat _ hm))
  have hnil2 : scaledForms flat = [] → nonForms flat = [] → σ = [] := fun h1 h2 => hnil (flat_eq_nil flat h1 h2)
  generalize nonForms flat = others at hothers hnil2
  generalize scaledForms flat = forms at hforms hnil2
  cases forms with
  | nil =>
    cases others with
    | nil =>
      have := hnil2 rfl rfl
      subst this
      exact ⟨by simp [BF.WT, BF.WTL], by simp [BF.sigS]⟩
    | cons o os =>
      refine ⟨?_, ?_⟩
      · rw [WT_formSum_iff]
        refine ⟨?_, ?_, by simp⟩
        · intro c hc
          simp only [List.mem_map] at hc
          obtain ⟨q, hq, rfl⟩ := hc
          exact (hothers q hq).1
        · intro c hc
          simp only [List.mem_map] at hc
          obtain ⟨q, hq, rfl⟩ := hc
          simp only [List.map_cons, BF.sigS]
          rw [(hothers q hq).2, (hothers o (by simp)).2]
      · simp only [List.map_cons, BF.sigS]
        exact (hothers o (by simp)).2
  | cons f fs =>
    have hF : Typed σ (BF.form (fs.foldl formAdd f)) :=
      (typed_form_iff σ _).2 (formTyped_foldl σ fs f (hforms f (by simp)) (fun g hg => hforms g (by simp [hg])))
    refine ⟨?_, ?_⟩
    · rw [WT_formSum_iff]
      refine ⟨?_, ?_, by simp⟩
      · intro c hc
        simp only [List.mem_cons, List.mem_map] at hc
        rcases hc with rfl | ⟨q, hq, rfl⟩
        · exact hF.1
        · exact (hothers q hq).1
      · intro c hc
        simp only [BF.sigS]
        simp only [List.mem_cons, List.mem_map] at hc
        rcases hc with rfl | ⟨q, hq, rfl⟩
        · rfl
        · rw [(hothers q hq).2]; exact hF.2.symm
    · simp only [BF.sigS]; exact hF.2

theorem exists_nonzero_of_not_all (ps : List (BF K × K)) (h : ¬ (ps.all (fun p => p.1.isZero) = true)) :
    ∃ p ∈ ps, p.1.isZero = false := by
  simp only [List.all_eq_true, not_forall] at h
  obtain ⟨p, hp, hz⟩ := h
  exact ⟨p, hp, by simpa using hz⟩

theorem mkFormSum_res (cfg : Cfg) (σ : List Space) (ps : List (BF K × K)) (b : BF K)
    (h : ∀ p ∈ ps, OKc σ p.1) (hb : mkFormSum cfg ps = .ok b) : Res σ b := by
  unfold mkFormSum at hb
  split at hb
  · split at hb
    · simp at hb
    · simp only [Except.ok.injEq] at hb; subst hb; left; simp [BF.isZeroObj]
    · simp at hb
  · rename_i hnz
    have hne := exists_nonzero_of_not_all ps hnz
    split at hb
    · rename_i a w
      split at hb
      · split at hb
        · simp only [Except.ok.injEq] at hb; subst hb; exact Or.inr (initFormSum_res σ _ h hne)
        · simp only [Except.ok.injEq] at hb; subst hb
          rcases h (a, w) (by simp) with hn | ht
          · simp [hn] at hnz
          · right; exact ht
      · simp only [Except.ok.injEq] at hb; subst hb; exact Or.inr (initFormSum_res σ _ h hne)
    · simp only [Except.ok.injEq] at hb; subst hb; exact Or.inr (initFormSum_res σ _ h hne)

end typing

end BaseForm
end UflVerif
