/-
Two-sided semantics of interior-facet integrands, and the predicates the C17 theorems are stated with.

`den S s e` is the meaning of `e` when quantities that carry no restriction are read on side `s`.
The interpretation `S` is arbitrary: `V` may be a value at the facet point, or a whole function on
the cell of a side (which is what derivatives and cell averages act on).  The only structure the
semantics fixes is what restrictions mean: `a('+')` is `a` read on the '+' side, whatever the
surrounding side is; every other operator is interpreted compositionally by `S.op`, and terminals by
`S.term side`.
-/
import UflVerif.Model.Restrictions

namespace UflVerif.Restr
open UflVerif Expr

structure Sem (V : Type) where
  /-- literals, Zero, MultiIndex: no side -/
  lit : Expr → V
  /-- a terminal read on a side -/
  term : Side → TermData → V
  /-- every operator other than the two restrictions, on the meanings of its operands -/
  op : Op → List Nat → List V → V

mutual
def den {V : Type} (S : Sem V) (s : Side) : Expr → V
  | .term d => S.term s d
  | .op k aux args =>
    match k, args with
    | .positiveRestricted, [a] => den S .plus a
    | .negativeRestricted, [a] => den S .minus a
    | _, as => S.op k aux (denL S s as)
  | e => S.lit e
def denL {V : Type} (S : Sem V) (s : Side) : List Expr → List V
  | [] => []
  | a :: as => den S s a :: denL S s as
end

/-- componentwise relation of two lists of the same length -/
def RelL {α β : Type} (R : α → β → Prop) : List α → List β → Prop
  | [], [] => True
  | a :: as, b :: bs => R a b ∧ RelL R as bs
  | _, _ => False

/-! ### the continuity classification the property statement refers to -/

inductive Kind
  | sideFree        -- one value, computed without choosing a cell
  | continuous      -- one value on the facet, but computed from the cell of a side
  | discontinuous   -- depends on the side
  deriving DecidableEq, Repr

/-- by class; `Coefficient` is refined by its element below -/
def specCls : String → Kind
  | "ConstantValue" | "ScalarValue" | "RealValue"
  | "IntValue" | "FloatValue" | "ComplexValue" | "Zero" | "Identity" | "PermutationSymbol" | "MultiIndex" | "Label"
  | "Constant" | "QuadratureWeight" | "ReferenceCellVolume" | "ReferenceFacetVolume" | "FacetCoordinate" => .sideFree
  | "SpatialCoordinate" | "FacetJacobian" | "FacetJacobianDeterminant" | "FacetJacobianInverse" | "FacetArea"
  | "MinFacetEdgeLength" | "MaxFacetEdgeLength" | "FacetOrigin" => .continuous
  | _ => .discontinuous

/-- a coefficient is continuous exactly when its element is in H1 -/
def spec (info : String → TInfo) (d : TermData) : Kind :=
  if d.cls = "Coefficient" then (if (info d.key).h1 then .continuous else .discontinuous) else specCls d.cls

/-- affine non-manifold mesh: coordinate element of degree ≤ 1 in H1, geometric = topological dimension -/
def affine (i : TInfo) : Bool := decide (i.cdeg ≤ 1) && i.ch1 && i.gdim == i.tdim

/-- operators whose value at a point is a function of the operand values at that point; derivatives,
    cell / facet averages, reference values and operators the model does not know are not -/
def pointwise : Op → Bool
  | .grad | .referenceGrad | .div | .referenceDiv | .nablaGrad | .nablaDiv | .curl | .referenceCurl
  | .cellAvg | .facetAvg | .coefficientDerivative | .coordinateDerivative | .variableDerivative
  | .referenceValue | .exprList | .exprMapping | .other _ => false
  | _ => true

/-- default side of the domain of a terminal (`none`: no domain, or a domain that is not a key) -/
def termDefault (info : String → TInfo) (table : List (Nat × Side)) (d : TermData) : Option Side :=
  match (info d.key).dom with
  | some m => (table.find? (fun p => p.1 == m)).map (·.2)
  | none => none

/-- the terminal depends on the side in this integral: not side-free, on a domain with two sides -/
def sideDep (info : String → TInfo) (table : List (Nat × Side)) (d : TermData) : Bool :=
  spec info d != .sideFree && (termDefault info table d == some .plus || termDefault info table d == some .minus)

/-! ### what the rule table must satisfy (checked for the regenerated table by `C17_table_sound`) -/

def isNodeRule : Rule → Bool
  | .ignore | .require | .default | .opposite => true
  | _ => false

structure RuleSound (rule : String → Rule) : Prop where
  /-- only side-free classes are left alone -/
  ignore_free : ∀ c, rule c = .ignore → specCls c = .sideFree
  /-- only classes with one value on the facet get the default side -/
  default_cont : ∀ c, rule c = .default → specCls c ≠ .discontinuous
  /-- `_opposite` is reached only through `facet_normal`, which looks at the mesh first -/
  no_opposite : ∀ c, rule c ≠ .opposite
  normal_only : ∀ c, rule c = .facetNormal → c = "FacetNormal"
  coefficient_only : ∀ c, rule c = .coefficient → c = "Coefficient"
  variable_only : ∀ c, rule c = .variable → c = "Variable"
  refvalue_only : ∀ c, rule c = .referenceValue → c = "ReferenceValue"
  restricted_pos : rule "PositiveRestricted" = .restricted
  restricted_neg : rule "NegativeRestricted" = .restricted
  /-- an operator that is restricted as a whole (operands not visited) is not a pointwise one -/
  require_nonlocal : ∀ c, rule c = .require → pointwise (Op.ofName c) = false

/-- the conditions of `RuleSound` on one (class, rule) pair, as one Boolean (evaluated by the kernel on
    every row of the regenerated table) -/
def rowOK (c : String) (r : Rule) : Bool :=
  match r with
  | .ignore => specCls c == .sideFree
  | .default => specCls c != .discontinuous
  | .opposite => false
  | .facetNormal => c == "FacetNormal"
  | .coefficient => c == "Coefficient"
  | .variable => c == "Variable"
  | .referenceValue => c == "ReferenceValue"
  | .require => !pointwise (Op.ofName c)
  | _ => true

/-- rules a terminal may get / an operator may get -/
def termRuleOK : Rule → Bool
  | .reuse | .variable | .referenceValue | .restricted | .cellOperator => false
  | _ => true
def opRuleOK : Rule → Bool
  | .ignore | .default | .opposite | .coefficient | .facetNormal => false
  | _ => true

/- the expression is an image of a UFL expression under the class table: operator nodes carry the
   canonical constructor of their class name and get an operator rule, terminals a terminal rule;
   a reference value is taken of a form argument (never of a facet normal) -/
mutual
def Proper (rule : String → Rule) : Expr → Bool
  | .term d => termRuleOK (rule d.cls)
  | .op k _ args =>
    Op.ofName k.name == k && opRuleOK (rule k.name) &&
    (match k, args with
     | .referenceValue, [.term d] => rule d.cls != .opposite && rule d.cls != .facetNormal
     | _, _ => true) && ProperL rule args
  | _ => true
def ProperL (rule : String → Rule) : List Expr → Bool
  | [] => true
  | a :: as => Proper rule a && ProperL rule as
end

/- no restriction anywhere in the expression -/
mutual
def restrFree : Expr → Bool
  | .op k _ args => k != .positiveRestricted && k != .negativeRestricted && restrFreeL args
  | _ => true
def restrFreeL : List Expr → Bool
  | [] => true
  | a :: as => restrFree a && restrFreeL as
end

/- the operands of nodes the propagator does not descend into (for the shipped table: `Grad`, which
   `apply_derivatives` has moved onto terminals) contain no restriction -/
mutual
def GradsPlain (rule : String → Rule) : Expr → Bool
  | .op k _ args => (if isNodeRule (rule k.name) then restrFreeL args else true) && GradsPlainL rule args
  | _ => true
def GradsPlainL (rule : String → Rule) : List Expr → Bool
  | [] => true
  | a :: as => GradsPlain rule a && GradsPlainL rule as
end

/- every derivative, average or unknown operator sits under a restriction (a reference value taken
   directly of a terminal is treated like the terminal) -/
mutual
def Guarded : Expr → Bool
  | .op k _ args =>
    match k, args with
    | .positiveRestricted, [_] => true
    | .negativeRestricted, [_] => true
    | .referenceValue, [.term _] => true
    | _, as => pointwise k && GuardedL as
  | _ => true
def GuardedL : List Expr → Bool
  | [] => true
  | a :: as => Guarded a && GuardedL as
end

/- "restricted exactly once": `n` = number of enclosing restrictions; a side-dependent terminal must
   sit under exactly one, nothing may sit under two -/
mutual
def Once (sd : TermData → Bool) : Nat → Expr → Bool
  | n, .term d => if sd d then n == 1 else decide (n ≤ 1)
  | n, .op k _ args =>
    match k, args with
    | .positiveRestricted, [a] => n == 0 && Once sd 1 a
    | .negativeRestricted, [a] => n == 0 && Once sd 1 a
    | _, as => OnceL sd n as
  | n, _ => decide (n ≤ 1)
def OnceL (sd : TermData → Bool) : Nat → List Expr → Bool
  | _, [] => true
  | n, a :: as => Once sd n a && OnceL sd n as
end

/- a restriction inside a restriction -/
mutual
def Nested : Bool → Expr → Bool
  | inside, .op k _ args =>
    (inside && (k == .positiveRestricted || k == .negativeRestricted)) ||
    NestedL (inside || k == .positiveRestricted || k == .negativeRestricted) args
  | _, _ => false
def NestedL : Bool → List Expr → Bool
  | _, [] => false
  | inside, a :: as => Nested inside a || NestedL inside as
end

/- a discontinuous terminal of a two-sided domain outside every restriction -/
mutual
def BareDisc (info : String → TInfo) (table : List (Nat × Side)) : Expr → Bool
  | .term d => spec info d == .discontinuous &&
      (termDefault info table d == some .plus || termDefault info table d == some .minus)
  | .op k _ args => k != .positiveRestricted && k != .negativeRestricted && BareDiscL info table args
  | _ => false
def BareDiscL (info : String → TInfo) (table : List (Nat × Side)) : List Expr → Bool
  | [] => false
  | a :: as => BareDisc info table a || BareDiscL info table as
end

/-! ### premises of the value theorem -/

/-- The cell-side values are consistent with continuity.  `E` is "same value on the facet" (an
    equivalence on meanings; equality is the finest choice). -/
structure Continuity {V : Type} (S : Sem V) (E : V → V → Prop) (cfg : Cfg) (table : List (Nat × Side)) : Prop where
  equiv : Equivalence E
  /-- side-free terminals have one meaning -/
  free : ∀ d, spec cfg.info d = .sideFree → ∀ s s', S.term s d = S.term s' d
  /-- terminals of a domain without sides in this integral (default restriction None) have one meaning -/
  onesided : ∀ d, termDefault cfg.info table d = some .none → ∀ s s', S.term s d = S.term s' d
  /-- continuous terminals agree on the facet -/
  cont : ∀ d, spec cfg.info d = .continuous → E (S.term .plus d) (S.term .minus d)
  /-- ... and so do their reference values (the pullback of an H1 element does not involve the cell geometry) -/
  refval : ∀ d aux, spec cfg.info d = .continuous →
    E (S.op .referenceValue aux [S.term .plus d]) (S.op .referenceValue aux [S.term .minus d])
  /-- on an affine non-manifold mesh the facet normal changes sign: `-1 * n(r)` (as the index-notation
      expression the code builds) means `n` on the other side -/
  flip : ∀ d, d.cls = "FacetNormal" → affine (cfg.info d.key) = true → ∀ fresh s,
    den S s (negE fresh (.op .positiveRestricted [] [.term d])) = S.term .minus d ∧
    den S s (negE fresh (.op .negativeRestricted [] [.term d])) = S.term .plus d
  /-- a Variable means its expression -/
  var : ∀ aux v l, S.op .variable aux [v, l] = v
  /-- pointwise operators respect agreement on the facet -/
  pw : ∀ k aux vs vs', pointwise k = true → RelL E vs vs' → E (S.op k aux vs) (S.op k aux vs')

end UflVerif.Restr
