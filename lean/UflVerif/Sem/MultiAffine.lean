/-
Multi-affine decomposition (C16).  For a function `g` of the valuation, `T W occ g` applies the
difference operator `Δ_a g ρ = g ρ − g (ρ with a := 0)` for every `a ∈ W` with `occ a`: the part of `g`
that is of degree one in each of those terminals.  The lemmas say how `T` goes through sums,
products of factors depending on disjoint terminals, additive maps, finite sums and quotients.
-/
import Mathlib.Algebra.Field.Basic
import Mathlib.Tactic.Ring
import Mathlib.Tactic.LinearCombination
import Mathlib.Tactic.Tauto
import UflVerif.Sem.ArgEnv
import UflVerif.Sem.Sum
import UflVerif.Sem.Beq

namespace UflVerif.MA
open UflVerif Expr ArgEnv

variable {K : Type} [Field K]

theorem zeroKeys_comm (ρ : Env K) (A B : List String) : (ρ.zeroKeys A).zeroKeys B = (ρ.zeroKeys B).zeroKeys A := by
  simp only [Env.zeroKeys]
  congr 1
  · funext s key c
    by_cases h1 : key ∈ A <;> by_cases h2 : key ∈ B <;> simp [h1, h2]
  · funext s key c ds
    by_cases h1 : key ∈ A <;> by_cases h2 : key ∈ B <;> simp [h1, h2]

/-- the part of `g` of degree one in every `a ∈ W` with `occ a` -/
def T (W : List String) (occ : String → Bool) (g : Env K → K) : Env K → K :=
  match W with
  | [] => g
  | a :: W' => if occ a then fun ρ => T W' occ g ρ - T W' occ g (ρ.zeroKeys [a]) else T W' occ g

/-- `g` does not depend on the terminal `a` (as far as setting it to zero can tell) -/
def Indep (a : String) (g : Env K → K) : Prop := ∀ ρ, g (ρ.zeroKeys [a]) = g ρ

theorem T_nil (occ : String → Bool) (g : Env K → K) : T [] occ g = g := rfl

theorem T_cons_pos (a : String) (W : List String) (occ : String → Bool) (g : Env K → K) (h : occ a = true) (ρ : Env K) :
    T (a :: W) occ g ρ = T W occ g ρ - T W occ g (ρ.zeroKeys [a]) := by
  simp [T, h]

theorem T_cons_neg (a : String) (W : List String) (occ : String → Bool) (g : Env K → K) (h : occ a = false) :
    T (a :: W) occ g = T W occ g := by
  simp [T, h]

theorem T_congr (W : List String) (occ : String → Bool) (g h : Env K → K) (e : ∀ ρ, g ρ = h ρ) : T W occ g = T W occ h := by
  have : g = h := funext e
  rw [this]

theorem T_ext : ∀ (W : List String) (occ occ' : String → Bool) (g : Env K → K), (∀ a ∈ W, occ a = occ' a) → T W occ g = T W occ' g
  | [], _, _, _, _ => rfl
  | a :: W, occ, occ', g, h => by
    have ih := T_ext W occ occ' g (fun b hb => h b (by simp [hb]))
    have ha := h a (by simp)
    cases hoa : occ a
    · rw [T_cons_neg a W occ g hoa, T_cons_neg a W occ' g (by rw [← ha, hoa]), ih]
    · funext ρ
      rw [T_cons_pos a W occ g hoa, T_cons_pos a W occ' g (by rw [← ha, hoa]), ih]

theorem T_none : ∀ (W : List String) (occ : String → Bool) (g : Env K → K), (∀ a ∈ W, occ a = false) → T W occ g = g
  | [], _, _, _ => rfl
  | a :: W, occ, g, h => by
    rw [T_cons_neg a W occ g (h a (by simp)), T_none W occ g (fun b hb => h b (by simp [hb]))]

theorem T_add : ∀ (W : List String) (occ : String → Bool) (g h : Env K → K) (ρ : Env K),
    T W occ (fun ρ => g ρ + h ρ) ρ = T W occ g ρ + T W occ h ρ
  | [], _, _, _, _ => rfl
  | a :: W, occ, g, h, ρ => by
    cases hoa : occ a
    · rw [T_cons_neg _ _ _ _ hoa, T_cons_neg _ _ _ _ hoa, T_cons_neg _ _ _ _ hoa]; exact T_add W occ g h ρ
    · rw [T_cons_pos _ _ _ _ hoa, T_cons_pos _ _ _ _ hoa, T_cons_pos _ _ _ _ hoa, T_add W occ g h ρ, T_add W occ g h (ρ.zeroKeys [a])]
      ring

theorem T_zero : ∀ (W : List String) (occ : String → Bool) (ρ : Env K), T W occ (fun _ => (0 : K)) ρ = 0
  | [], _, _ => rfl
  | a :: W, occ, ρ => by
    cases hoa : occ a
    · rw [T_cons_neg _ _ _ _ hoa]; exact T_zero W occ ρ
    · rw [T_cons_pos _ _ _ _ hoa, T_zero W occ ρ, T_zero W occ _]; ring

/-- an additive map that reads only the non-terminal fields of the valuation commutes with `T` -/
theorem T_comp (F : Env K → K → K) (hF : ∀ ρ Z, F (ρ.zeroKeys Z) = F ρ) :
    ∀ (W : List String) (occ : String → Bool) (g : Env K → K) (ρ : Env K), (∀ x y, F ρ (x - y) = F ρ x - F ρ y) →
    T W occ (fun ρ => F ρ (g ρ)) ρ = F ρ (T W occ g ρ)
  | [], _, _, _, _ => rfl
  | a :: W, occ, g, ρ, hsub => by
    cases hoa : occ a
    · rw [T_cons_neg _ _ _ _ hoa, T_cons_neg _ _ _ _ hoa]; exact T_comp F hF W occ g ρ hsub
    · rw [T_cons_pos _ _ _ _ hoa, T_cons_pos _ _ _ _ hoa, T_comp F hF W occ g ρ hsub,
        T_comp F hF W occ g (ρ.zeroKeys [a]) (by rw [hF]; exact hsub), hF, hsub]

theorem sumRange_sub (n : Nat) (f g : Nat → K) : sumRange n (fun v => f v - g v) = sumRange n f - sumRange n g := by
  rw [sumRange_eq_sum, sumRange_eq_sum, sumRange_eq_sum, Finset.sum_sub_distrib]

theorem T_sumRange (n : Nat) : ∀ (W : List String) (occ : String → Bool) (g : Nat → Env K → K) (ρ : Env K),
    T W occ (fun ρ => sumRange n (fun v => g v ρ)) ρ = sumRange n (fun v => T W occ (g v) ρ)
  | [], _, _, _ => rfl
  | a :: W, occ, g, ρ => by
    cases hoa : occ a
    · rw [T_cons_neg _ _ _ _ hoa]
      rw [T_sumRange n W occ g ρ]
      congr 1; funext v; rw [T_cons_neg _ _ _ _ hoa]
    · rw [T_cons_pos _ _ _ _ hoa, T_sumRange n W occ g ρ, T_sumRange n W occ g (ρ.zeroKeys [a]), ← sumRange_sub]
      congr 1; funext v; rw [T_cons_pos _ _ _ _ hoa]

theorem T_indep (b : String) : ∀ (W : List String) (occ : String → Bool) (g : Env K → K), Indep b g → Indep b (T W occ g)
  | [], _, _, h => h
  | a :: W, occ, g, h => by
    intro ρ
    have ih := T_indep b W occ g h
    cases hoa : occ a
    · rw [T_cons_neg _ _ _ _ hoa]; exact ih ρ
    · rw [T_cons_pos _ _ _ _ hoa, T_cons_pos _ _ _ _ hoa, ih ρ, zeroKeys_comm ρ [b] [a], ih (ρ.zeroKeys [a])]

/-- a terminal in `W` that is marked but on which `g` does not depend kills the part -/
theorem T_zero_of_indep (b : String) : ∀ (W : List String) (occ : String → Bool) (g : Env K → K),
    b ∈ W → occ b = true → Indep b g → ∀ ρ, T W occ g ρ = 0
  | [], _, _, hb, _, _, _ => by simp at hb
  | a :: W, occ, g, hb, hob, hi, ρ => by
    by_cases hab : a = b
    · subst hab
      rw [T_cons_pos _ _ _ _ hob, T_indep a W occ g hi ρ]; ring
    · have hbW : b ∈ W := by
        cases List.mem_cons.mp hb with
        | inl e => exact absurd e.symm hab
        | inr e => exact e
      have ih := T_zero_of_indep b W occ g hbW hob hi
      cases hoa : occ a
      · rw [T_cons_neg _ _ _ _ hoa]; exact ih ρ
      · rw [T_cons_pos _ _ _ _ hoa, ih ρ, ih _]; ring

/-- product of two factors that depend on disjoint sets of the marked terminals -/
theorem T_mul : ∀ (W : List String) (occ1 occ2 : String → Bool) (g h : Env K → K),
    (∀ a ∈ W, occ1 a = true → Indep a h) → (∀ a ∈ W, occ2 a = true → Indep a g) →
    (∀ a ∈ W, ¬(occ1 a = true ∧ occ2 a = true)) → ∀ ρ,
    T W (fun a => occ1 a || occ2 a) (fun ρ => g ρ * h ρ) ρ = T W occ1 g ρ * T W occ2 h ρ
  | [], _, _, _, _, _, _, _, _ => rfl
  | a :: W, occ1, occ2, g, h, h1, h2, hd, ρ => by
    have ih := T_mul W occ1 occ2 g h (fun b hb => h1 b (by simp [hb])) (fun b hb => h2 b (by simp [hb])) (fun b hb => hd b (by simp [hb]))
    have hda := hd a (by simp)
    cases ho1 : occ1 a <;> cases ho2 : occ2 a
    · rw [T_cons_neg _ _ _ _ (by simp [ho1, ho2]), T_cons_neg _ _ _ _ ho1, T_cons_neg _ _ _ _ ho2]; exact ih ρ
    · have hig := T_indep a W occ1 g (h2 a (by simp) ho2)
      rw [T_cons_pos _ _ _ _ (by simp [ho1, ho2]), T_cons_neg _ _ _ _ ho1, T_cons_pos _ _ _ _ ho2, ih ρ, ih _, hig ρ]; ring
    · have hih := T_indep a W occ2 h (h1 a (by simp) ho1)
      rw [T_cons_pos _ _ _ _ (by simp [ho1, ho2]), T_cons_pos _ _ _ _ ho1, T_cons_neg _ _ _ _ ho2, ih ρ, ih _, hih ρ]; ring
    · exact absurd ⟨ho1, ho2⟩ hda

/-- quotient by a function that does not depend on the marked terminals -/
theorem T_div : ∀ (W : List String) (occ : String → Bool) (g h : Env K → K),
    (∀ a ∈ W, occ a = true → Indep a h) → ∀ ρ, T W occ (fun ρ => g ρ / h ρ) ρ = T W occ g ρ / h ρ
  | [], _, _, _, _, _ => rfl
  | a :: W, occ, g, h, hi, ρ => by
    have ih := T_div W occ g h (fun b hb => hi b (by simp [hb]))
    cases hoa : occ a
    · rw [T_cons_neg _ _ _ _ hoa, T_cons_neg _ _ _ _ hoa]; exact ih ρ
    · rw [T_cons_pos _ _ _ _ hoa, T_cons_pos _ _ _ _ hoa, ih ρ, ih _, hi a (by simp) hoa ρ, sub_div]

/-- exactly one marked terminal: `g ρ − g (ρ with a := 0)` -/
theorem T_single (b : String) : ∀ (W : List String) (occ : String → Bool) (g : Env K → K),
    W.Nodup → b ∈ W → (∀ a ∈ W, occ a = decide (a = b)) → ∀ ρ, T W occ g ρ = g ρ - g (ρ.zeroKeys [b])
  | [], _, _, _, hb, _, _ => by simp at hb
  | a :: W, occ, g, hn, hb, ho, ρ => by
    rw [List.nodup_cons] at hn
    by_cases hab : a = b
    · subst hab
      have hoa : occ a = true := by rw [ho a (by simp)]; simp
      have : T W occ g = g := T_none W occ g (fun c hc => by
        rw [ho c (by simp [hc])]
        simp only [decide_eq_false_iff_not]
        intro e; subst e; exact hn.1 hc)
      rw [T_cons_pos _ _ _ _ hoa, this]
    · have hbW : b ∈ W := by
        cases List.mem_cons.mp hb with
        | inl e => exact absurd e.symm hab
        | inr e => exact e
      have hoa : occ a = false := by rw [ho a (by simp)]; simp [hab]
      rw [T_cons_neg _ _ _ _ hoa]
      exact T_single b W occ g hn.2 hbW (fun c hc => ho c (by simp [hc])) ρ

/-! ### syntactic side conditions -/

/-- does the Argument with key `a` occur -/
def occ (e : Expr) (a : String) : Bool := (argsOf e).any (fun d => d.key == a)
def occL (xs : List Expr) (a : String) : Bool := (argsOfL xs).any (fun d => d.key == a)

theorem occ_op (k : Op) (aux : List Nat) (args : List Expr) (a : String) : occ (.op k aux args) a = occL args a := by
  simp [occ, occL, argsOf]

theorem occL_nil (a : String) : occL [] a = false := by simp [occL, argsOfL]

theorem occL_cons (x : Expr) (xs : List Expr) (a : String) : occL (x :: xs) a = (occ x a || occL xs a) := by
  simp [occ, occL, argsOfL, List.any_append]

theorem occ_atom (e : Expr) (h : ∀ k aux args, e ≠ .op k aux args) (h' : ∀ d, e ≠ .term d) (a : String) : occ e a = false := by
  cases e <;> simp_all [occ, argsOf]

mutual
theorem argsOf_of_not_hasArg : ∀ e : Expr, hasArg e = false → argsOf e = []
  | .int _, _ | .real _ _, _ | .cplx _ _ _ _, _ | .zero _ _, _ | .mi _, _ => by simp [argsOf]
  | .term d, h => by simp only [hasArg] at h; simp [argsOf, h]
  | .op k x as, h => by simp only [hasArg] at h; simp [argsOf, argsOfL_of_not_hasArgL as h]
theorem argsOfL_of_not_hasArgL : ∀ as : List Expr, hasArgL as = false → argsOfL as = []
  | [], _ => rfl
  | a :: as, h => by
    simp only [hasArgL, Bool.or_eq_false_iff] at h
    simp [argsOfL, argsOf_of_not_hasArg a h.1, argsOfL_of_not_hasArgL as h.2]
end

theorem occ_of_not_hasArg (e : Expr) (h : hasArg e = false) (a : String) : occ e a = false := by
  simp [occ, argsOf_of_not_hasArg e h]

theorem occL_of_not_hasArgL (as : List Expr) (h : hasArgL as = false) (a : String) : occL as a = false := by
  simp [occL, argsOfL_of_not_hasArgL as h]

/- every terminal whose key is in `A` is an Argument (keys are reprs: an Argument's key is no other terminal's) -/
mutual
def argKeysOK (A : List String) : Expr → Bool
  | .term d => !A.contains d.key || d.cls == "Argument"
  | .op _ _ args => argKeysOKL A args
  | _ => true
def argKeysOKL (A : List String) : List Expr → Bool
  | [] => true
  | a :: as => argKeysOK A a && argKeysOKL A as
end

mutual
theorem not_key_of_not_occ (A : List String) (a : String) (ha : a ∈ A) : ∀ e : Expr, argKeysOK A e = true → occ e a = false → a ∉ keysOf e
  | .int _, _, _ | .real _ _, _, _ | .cplx _ _ _ _, _, _ | .zero _ _, _, _ | .mi _, _, _ => by simp [keysOf]
  | .term d, hk, ho => by
    simp only [keysOf, List.mem_singleton]
    intro e
    subst e
    simp only [argKeysOK, Bool.or_eq_true, Bool.not_eq_true', beq_iff_eq] at hk
    cases hk with
    | inl h => simp [ha] at h
    | inr h => simp [occ, argsOf, h] at ho
  | .op k x as, hk, ho => by
    simp only [argKeysOK] at hk
    rw [occ_op] at ho
    simpa [keysOf] using not_keyL_of_not_occL A a ha as hk ho
theorem not_keyL_of_not_occL (A : List String) (a : String) (ha : a ∈ A) : ∀ as : List Expr, argKeysOKL A as = true → occL as a = false → a ∉ keysOfL as
  | [], _, _ => by simp [keysOfL]
  | x :: xs, hk, ho => by
    simp only [argKeysOKL, Bool.and_eq_true] at hk
    rw [occL_cons, Bool.or_eq_false_iff] at ho
    simp only [keysOfL, List.mem_append, not_or]
    exact ⟨not_key_of_not_occ A a ha x hk.1 ho.1, not_keyL_of_not_occL A a ha xs hk.2 ho.2⟩
end

/-- every Argument that occurs is wanted or unwanted -/
def Covered (A : List String) (e : Expr) : Prop := ∀ a, occ e a = true → a ∈ A

def disjointArgs (a b : Expr) : Bool := (argsOf a).all (fun d => !(argsOf b).any (fun d' => d'.key == d.key))

theorem disjointArgs_spec (a b : Expr) (h : disjointArgs a b = true) (x : String) : ¬(occ a x = true ∧ occ b x = true) := by
  intro ⟨h1, h2⟩
  simp only [occ, List.any_eq_true, beq_iff_eq] at h1 h2
  obtain ⟨d, hd, rfl⟩ := h1
  obtain ⟨d', hd', he⟩ := h2
  simp only [disjointArgs, List.all_eq_true, Bool.not_eq_true', List.any_eq_false, beq_iff_eq] at h
  exact h d hd d' hd' he

/-- the operators through which PartExtracter follows Arguments (everything else is `expr`) -/
def handled (k : Op) (args : List Expr) : Bool :=
  match k, args with
  | .variable, [_, _] | .sum, [_, _] | .division, [_, _] | .listTensor, _
  | .product, [_, _] | .inner, [_, _] | .outer, [_, _] | .dot, [_, _]
  | .positiveRestricted, [_] | .negativeRestricted, [_] | .cellAvg, [_] | .facetAvg, [_] | .grad, [_]
  | .conj, [_] | .real, [_] | .imag, [_]
  | .indexed, [_, _] | .indexSum, [_, _] | .componentTensor, [_, _] => true
  | _, _ => false

/- multi-affine by construction: the two factors of every product have no Argument in common, no Argument
   in a denominator, in the label of a variable or under an operator that is not linear -/
mutual
def MA : Expr → Bool
  | .op k _ args => (match k, args with
      | .product, [a, b] => disjointArgs a b
      | .variable, [_, l] => !hasArg l
      | .division, [_, b] => !hasArg b
      | _, _ => handled k args || !hasArgL args) && MAL args
  | _ => true
def MAL : List Expr → Bool
  | [] => true
  | a :: as => MA a && MAL as
end

/-! ### the invariant of PartExtracter -/

/-- conj / real / imag of the valuation are additive -/
structure AddEnv (ρ : Env K) : Prop where
  conj : ∀ x y, ρ.conj (x - y) = ρ.conj x - ρ.conj y
  re : ∀ x y, ρ.re (x - y) = ρ.re x - ρ.re y
  im : ∀ x y, ρ.im (x - y) = ρ.im x - ρ.im y

/-- the value of `e` with the unwanted Arguments `U` set to zero, as a function of the valuation -/
def G (U : List String) (e : Expr) (s : Side) (ι : IdxEnv) (c : List Nat) : Env K → K :=
  fun ρ => eval (ρ.zeroKeys U) s ι e c

/-- `P` is the set of wanted Arguments marked by `oc` -/
def PeqM (W : List String) (oc : String → Bool) (P : ASet) : Prop := ∀ a, a ∈ P ↔ (a ∈ W ∧ oc a = true)

/-- what `visit` returns for `e`, relative to the marking `oc ⊇ occ e` of the enclosing node:
    the part provides only wanted Arguments that occur; if it provides all the marked wanted Arguments its
    value is the part of `e` of degree one in each of them, otherwise that part of `e` vanishes -/
structure InvAt (W U : List String) (oc : String → Bool) (e p : Expr) (P : ASet) : Prop where
  sh : shape p = shape e
  fi_ : fi p = fi e
  sub : ∀ a ∈ P, a ∈ W ∧ occ e a = true
  val : ∀ s ι c, (PeqM W oc P → ∀ ρ : Env K, AddEnv ρ → eval ρ s ι p c = T W oc (G U e s ι c) ρ) ∧
                 (¬ PeqM W oc P → ∀ ρ : Env K, AddEnv ρ → T W oc (G U e s ι c) ρ = 0)

abbrev Inv (W U : List String) (e p : Expr) (P : ASet) : Prop := InvAt (K := K) W U (occ e) e p P

/-- the hypotheses every node of the traversal carries -/
structure Ctx (W U : List String) (e : Expr) : Prop where
  wf : WF e = true
  ma : MA e = true
  keys : argKeysOK (W ++ U) e = true
  cov : Covered (W ++ U) e

theorem indep_of_not_occ (W U : List String) (e : Expr) (hw : WF e = true) (hk : argKeysOK (W ++ U) e = true)
    (a : String) (ha : a ∈ W) (ho : occ e a = false) (s : Side) (ι : IdxEnv) (c : List Nat) : Indep a (G (K := K) U e s ι c) := by
  intro ρ
  simp only [G]
  rw [zeroKeys_comm]
  apply eval_zeroKeys_irrelevant _ _ s ι e c hw
  intro k hk' hin
  simp only [List.mem_singleton] at hin
  subst hin
  exact not_key_of_not_occ (W ++ U) k (by simp [ha]) e hk ho hk'

/-- an invariant relative to the node's own marking transfers to any larger marking -/
theorem InvAt.mono (W U : List String) (oc : String → Bool) (e p : Expr) (P : ASet)
    (hw : WF e = true) (hk : argKeysOK (W ++ U) e = true) (hoc : ∀ a, occ e a = true → oc a = true)
    (h : Inv (K := K) W U e p P) : InvAt (K := K) W U oc e p P := by
  refine ⟨h.sh, h.fi_, h.sub, fun s ι c => ?_⟩
  by_cases hsame : ∀ a ∈ W, oc a = occ e a
  · have hT : T W oc (G (K := K) U e s ι c) = T W (occ e) (G U e s ι c) := T_ext W oc (occ e) _ hsame
    have hP : PeqM W oc P ↔ PeqM W (occ e) P := by
      constructor
      · intro hp a; rw [hp a]; constructor
        · intro ⟨h1, h2⟩; exact ⟨h1, by rw [← hsame a h1]; exact h2⟩
        · intro ⟨h1, h2⟩; exact ⟨h1, by rw [hsame a h1]; exact h2⟩
      · intro hp a; rw [hp a]; constructor
        · intro ⟨h1, h2⟩; exact ⟨h1, by rw [hsame a h1]; exact h2⟩
        · intro ⟨h1, h2⟩; exact ⟨h1, by rw [← hsame a h1]; exact h2⟩
    rw [hT, hP]
    exact h.val s ι c
  · -- some wanted Argument is marked but does not occur in `e`
    have : ∃ a ∈ W, oc a = true ∧ occ e a = false := by
      simp only [not_forall] at hsame
      obtain ⟨a, ha, hne⟩ := hsame
      refine ⟨a, ha, ?_⟩
      cases h1 : oc a <;> cases h2 : occ e a <;> simp_all
    obtain ⟨a, ha, hoa, hea⟩ := this
    have hz : ∀ ρ, T W oc (G (K := K) U e s ι c) ρ = 0 :=
      T_zero_of_indep a W oc _ ha hoa (indep_of_not_occ W U e hw hk a ha hea s ι c)
    constructor
    · intro hp
      exfalso
      have : a ∈ P := (hp a).mpr ⟨ha, hoa⟩
      have := (h.sub a this).2
      rw [hea] at this; exact Bool.false_ne_true this
    · intro _ ρ _; exact hz ρ

/-! ### reconstruction -/

/-- `rb k aux args` builds a node with the shape, free indices and value of `op k aux args` -/
def RbSound (K : Type) [Field K] (rb : Rb) : Prop := ∀ k aux args r, rb k aux args = some r →
  shape r = shape (.op k aux args) ∧ fi r = fi (.op k aux args) ∧
  ∀ (ρ : Env K) s ι c, eval ρ s ι r c = eval ρ s ι (.op k aux args) c

theorem rbPlain_sound : RbSound K rbPlain := by
  intro k aux args r h
  simp only [rbPlain, Option.some.injEq] at h
  subst h
  exact ⟨rfl, rfl, fun _ _ _ _ => rfl⟩

theorem reuse_sound (rb : Rb) (hrb : RbSound K rb) (k : Op) (aux : List Nat) (args ops : List Expr) (x : Expr)
    (h : reuseIf rb k aux args ops = some x) :
    shape x = shape (.op k aux ops) ∧ fi x = fi (.op k aux ops) ∧ ∀ (ρ : Env K) s ι c, eval ρ s ι x c = eval ρ s ι (.op k aux ops) c := by
  unfold reuseIf at h
  split at h
  · rename_i hb
    have := beqL_eq ops args hb
    simp only [Option.some.injEq] at h
    subst h; subst this
    exact ⟨rfl, rfl, fun _ _ _ _ => rfl⟩
  · exact hrb k aux ops x h

theorem eval_isZero (ρ : Env K) (s : Side) (ι : IdxEnv) (p : Expr) (c : List Nat) (h : isZero p = true) : eval ρ s ι p c = 0 := by
  cases p <;> simp [isZero] at h
  simp [eval]

/-- a child whose part is (syntactically) zero contributes nothing to the marked part -/
theorem top_zero_of_isZero (W U : List String) (oc : String → Bool) (x p : Expr) (P : ASet)
    (h : InvAt (K := K) W U oc x p P) (hz : isZero p = true) (s : Side) (ι : IdxEnv) (c : List Nat) (ρ : Env K) (hρ : AddEnv ρ) :
    T W oc (G U x s ι c) ρ = 0 := by
  by_cases hp : PeqM W oc P
  · rw [← (h.val s ι c).1 hp ρ hρ, eval_isZero ρ s ι p c hz]
  · exact (h.val s ι c).2 hp ρ hρ

theorem inv_zero (W U : List String) (e : Expr)
    (h : ∀ s ι c (ρ : Env K), AddEnv ρ → T W (occ e) (G U e s ι c) ρ = 0) : Inv (K := K) W U e (zeroLike e) [] := by
  refine ⟨by simp [zeroLike, shape], by simp [zeroLike, fi], by simp, fun s ι c => ⟨fun _ ρ hρ => ?_, fun _ ρ hρ => h s ι c ρ hρ⟩⟩
  rw [h s ι c ρ hρ]
  simp [zeroLike, eval]

abbrev EvF (K : Type) := Side → IdxEnv → List Nat → K

/-- Generic step for a node `op k aux (x :: rest)` that is linear in its first operand `x` and whose other
    operands carry no Argument: `Φ` expresses the node's value through the operand's evaluation function. -/
theorem inv_linear (rb : Rb) (hrb : RbSound K rb) (W U : List String) (k : Op) (aux : List Nat) (x : Expr) (rest : List Expr)
    (Φ : Env K → EvF K → EvF K)
    (hoc : ∀ a, occ (.op k aux (x :: rest)) a = occ x a)
    (hΦeval : ∀ q : Expr, shape q = shape x → fi q = fi x → ∀ (ρ : Env K) s ι c,
        eval ρ s ι (.op k aux (q :: rest)) c = Φ ρ (fun s' ι' c' => eval ρ s' ι' q c') s ι c)
    (hΦU : ∀ ρ : Env K, Φ (ρ.zeroKeys U) = Φ ρ)
    (hΦT : ∀ (ρ : Env K), AddEnv ρ → ∀ (g : Side → IdxEnv → List Nat → Env K → K) s ι c,
        T W (occ x) (fun ρ' => Φ ρ' (fun s' ι' c' => g s' ι' c' ρ') s ι c) ρ = Φ ρ (fun s' ι' c' => T W (occ x) (g s' ι' c') ρ) s ι c)
    (hΦ0 : ∀ (ρ : Env K), AddEnv ρ → ∀ s ι c, Φ ρ (fun _ _ _ => 0) s ι c = 0)
    (hsh : ∀ q : Expr, shape q = shape x → fi q = fi x →
        shape (.op k aux (q :: rest)) = shape (.op k aux (x :: rest)) ∧ fi (.op k aux (q :: rest)) = fi (.op k aux (x :: rest)))
    (r : Option (Expr × ASet)) (hx : ∀ p P, r = some (p, P) → Inv (K := K) W U x p P)
    (p : Expr) (P : ASet) (h : finishLinear rb k aux (x :: rest) rest r = some (p, P)) :
    Inv (K := K) W U (.op k aux (x :: rest)) p P := by
  have hocf : occ (.op k aux (x :: rest)) = occ x := funext hoc
  -- the marked part of the node through Φ
  have htop : ∀ (ρ : Env K), AddEnv ρ → ∀ s ι c,
      T W (occ (.op k aux (x :: rest))) (G U (.op k aux (x :: rest)) s ι c) ρ = Φ ρ (fun s' ι' c' => T W (occ x) (G U x s' ι' c') ρ) s ι c := by
    intro ρ hρ s ι c
    rw [hocf, ← hΦT ρ hρ (fun s' ι' c' => G U x s' ι' c') s ι c]
    congr 1
    funext ρ'
    simp only [G]
    rw [hΦeval x rfl rfl, hΦU]
  cases r with
  | none => simp [finishLinear] at h
  | some r0 =>
    obtain ⟨px, Px⟩ := r0
    have hi := hx px Px rfl
    simp only [finishLinear] at h
    split at h
    · rename_i hz
      simp only [Option.some.injEq, Prod.mk.injEq] at h
      obtain ⟨rfl, rfl⟩ := h
      apply inv_zero
      intro s ι c ρ hρ
      rw [htop ρ hρ]
      have : (fun s' ι' c' => T W (occ x) (G U x s' ι' c') ρ) = (fun _ _ _ => (0 : K)) := by
        funext s' ι' c'
        exact top_zero_of_isZero W U (occ x) x px Px hi hz s' ι' c' ρ hρ
      rw [this, hΦ0 ρ hρ]
    · simp only [Option.map_eq_some_iff, Prod.mk.injEq] at h
      obtain ⟨x', hx', rfl, rfl⟩ := h
      obtain ⟨s1, s2, s3⟩ := reuse_sound rb hrb k aux (x :: rest) (px :: rest) x' hx'
      obtain ⟨t1, t2⟩ := hsh px hi.sh hi.fi_
      refine ⟨by rw [s1, t1], by rw [s2, t2], fun a ha => ⟨(hi.sub a ha).1, by rw [hoc]; exact (hi.sub a ha).2⟩, fun s ι c => ?_⟩
      have hP : PeqM W (occ (.op k aux (x :: rest))) Px ↔ PeqM W (occ x) Px := by rw [hocf]
      rw [hP]
      constructor
      · intro hp ρ hρ
        rw [s3, hΦeval px hi.sh hi.fi_, htop ρ hρ]
        congr 1
        funext s' ι' c'
        exact (hi.val s' ι' c').1 hp ρ hρ
      · intro hp ρ hρ
        rw [htop ρ hρ]
        have : (fun s' ι' c' => T W (occ x) (G U x s' ι' c') ρ) = (fun _ _ _ => (0 : K)) := by
          funext s' ι' c'
          exact (hi.val s' ι' c').2 hp ρ hρ
        rw [this, hΦ0 ρ hρ]

/-! ### sets of Arguments as lists -/

theorem subset_iff (a b : ASet) : ASet.subset a b = true ↔ ∀ x ∈ a, x ∈ b := by
  simp [ASet.subset, List.all_eq_true]

theorem mem_union (a b : ASet) (x : String) : x ∈ ASet.union a b ↔ x ∈ a ∨ x ∈ b := by
  simp only [ASet.union, List.mem_append, List.mem_filter, List.contains_eq_mem, Bool.not_eq_true', decide_eq_false_iff_not]
  constructor
  · rintro (h | ⟨h, _⟩)
    · exact Or.inl h
    · exact Or.inr h
  · rintro (h | h)
    · exact Or.inl h
    · by_cases hx : x ∈ a
      · exact Or.inl hx
      · exact Or.inr ⟨h, hx⟩

theorem eqv_iff (a b : ASet) : ASet.eqv a b = true ↔ ∀ x, x ∈ a ↔ x ∈ b := by
  simp only [ASet.eqv, Bool.and_eq_true, subset_iff]
  constructor
  · intro ⟨h1, h2⟩ x; exact ⟨h1 x, h2 x⟩
  · intro h; exact ⟨fun x hx => (h x).1 hx, fun x hx => (h x).2 hx⟩

theorem PeqM_congr (W : List String) (oc : String → Bool) (P Q : ASet) (h : ∀ x, x ∈ P ↔ x ∈ Q) : PeqM W oc P ↔ PeqM W oc Q := by
  constructor
  · intro hp a; rw [← h a]; exact hp a
  · intro hp a; rw [h a]; exact hp a

/-! ### nodes without Arguments, terminals, gradient chains -/

theorem inv_argfree (W U : List String) (e : Expr) (hw : WF e = true) (hk : argKeysOK (W ++ U) e = true)
    (hn : ∀ a, occ e a = false) : Inv (K := K) W U e e [] := by
  refine ⟨rfl, rfl, by simp, fun s ι c => ?_⟩
  have hP : PeqM W (occ e) [] := by
    intro a; simp [hn a]
  have hT : T W (occ e) (G (K := K) U e s ι c) = G U e s ι c := T_none W (occ e) _ (fun a _ => hn a)
  refine ⟨fun _ ρ _ => ?_, fun h => absurd hP h⟩
  rw [hT]
  simp only [G]
  symm
  apply eval_zeroKeys_irrelevant _ _ s ι e c hw
  intro k hk' hin
  exact not_key_of_not_occ (W ++ U) k (by simp [hin]) e hk (hn k) hk'

theorem occ_term (d : TermData) (a : String) : occ (.term d) a = (d.cls == "Argument" && d.key == a) := by
  simp only [occ, argsOf]
  split <;> simp_all

theorem eval_arg_term (ρ : Env K) (s : Side) (ι : IdxEnv) (d : TermData) (c : List Nat) (h : (d.cls == "Argument") = true) :
    eval ρ s ι (.term d) c = ρ.term s d.key c := by
  have h' : d.cls = "Argument" := by simpa using h
  simp [eval, h']

theorem inv_arg_wanted (W U : List String) (hW : W.Nodup) (hWU : ∀ a ∈ W, a ∉ U) (d : TermData)
    (hd : (d.cls == "Argument") = true) (hin : d.key ∈ W) : Inv (K := K) W U (.term d) (.term d) [d.key] := by
  have hoc : ∀ a, occ (.term d) a = decide (a = d.key) := by
    intro a; rw [occ_term, hd]
    by_cases h : a = d.key
    · subst h; simp
    · have : ¬ d.key = a := fun e => h e.symm
      simp [h, this]
  have hP : PeqM W (occ (.term d)) [d.key] := by
    intro a
    simp only [List.mem_singleton, hoc, decide_eq_true_eq]
    constructor
    · intro h; subst h; exact ⟨hin, rfl⟩
    · intro h; exact h.2
  refine ⟨rfl, rfl, fun a ha => ?_, fun s ι c => ⟨fun _ ρ _ => ?_, fun h => absurd hP h⟩⟩
  · simp only [List.mem_singleton] at ha; subst ha; exact ⟨hin, by rw [hoc]; simp⟩
  · rw [T_single d.key W _ _ hW hin (fun a _ => hoc a)]
    simp only [G]
    rw [eval_arg_term _ _ _ _ _ hd, eval_arg_term _ _ _ _ _ hd, eval_arg_term _ _ _ _ _ hd]
    simp [Env.zeroKeys, hWU d.key hin]

theorem inv_arg_unwanted (W U : List String) (d : TermData)
    (hd : (d.cls == "Argument") = true) (hin : d.key ∉ W) (hU : d.key ∈ U) : Inv (K := K) W U (.term d) (.zero d.shape []) [] := by
  have : (.zero d.shape [] : Expr) = zeroLike (.term d) := by simp [zeroLike, shape, fi]
  rw [this]
  apply inv_zero
  intro s ι c ρ _
  have hn : ∀ a ∈ W, occ (.term d) a = false := by
    intro a ha
    rw [occ_term, hd]
    simp only [Bool.true_and, beq_eq_false_iff_ne, ne_eq]
    intro e; subst e; exact hin ha
  rw [T_none W _ _ hn]
  simp only [G]
  rw [eval_arg_term _ _ _ _ _ hd]
  simp [Env.zeroKeys, hU]

mutual
theorem beq_refl' : ∀ a : Expr, beq a a = true
  | .int _ | .real _ _ | .cplx _ _ _ _ | .zero _ _ | .mi _ | .term _ => by simp [beq]
  | .op k x as => by simp [beq, beqL_refl' as]
theorem beqL_refl' : ∀ as : List Expr, beqL as as = true
  | [] => rfl
  | a :: as => by simp [beqL, beq_refl' a, beqL_refl' as]
end

theorem chain_not_zero : ∀ (a : Expr) (p : TermData × Nat), gradChain a = some p → isZero a = false := by
  intro a
  fun_induction gradChain a <;> simp_all [isZero]

theorem argsOf_chain : ∀ (a : Expr) (p : TermData × Nat), gradChain a = some p →
    argsOf a = if p.1.cls == "Argument" then [p.1] else [] := by
  intro a
  fun_induction gradChain a with
  | case1 d => intro p hp; simp only [Option.some.injEq] at hp; subst hp; simp [argsOf]
  | case2 aux a d k hk ih =>
    intro p hp; simp only [Option.some.injEq] at hp; subst hp
    simp [argsOf, argsOfL, ih _ hk]
  | case3 aux a hk ih => intro p h; simp at h
  | case4 e h1 h2 => intro p h; simp at h

/-- `visit` on `grad^k(terminal)`: the chain itself, or zero when the terminal is an unwanted Argument -/
theorem extract_chain (rb : Rb) (W : ASet) : ∀ (a : Expr) (p : TermData × Nat), gradChain a = some p →
    extract rb W a = some (if p.1.cls == "Argument" && !W.contains p.1.key then (zeroLike a, [])
                           else (a, if p.1.cls == "Argument" then [p.1.key] else [])) := by
  intro a
  fun_induction gradChain a with
  | case1 d =>
    intro p hp; simp only [Option.some.injEq] at hp; subst hp
    simp only [extract]
    by_cases h1 : d.cls = "Argument" <;> by_cases h2 : d.key ∈ W <;> simp [h1, h2, zeroLike, shape, fi]
  | case2 aux a d k hk ih =>
    intro p hp; simp only [Option.some.injEq] at hp; subst hp
    simp only [extract, ih _ hk]
    by_cases h : d.cls = "Argument" ∧ d.key ∉ W
    · simp [h, finishLinear, zeroLike, isZero]
    · simp [h, finishLinear, chain_not_zero a _ hk, reuseIf, beqL_refl']
  | case3 aux a hk ih => intro p h; simp at h
  | case4 e h1 h2 => intro p h; simp at h

/-! ### sums -/

/-- the node's part is one child's part when the other child contributes nothing to the marked part -/
theorem inv_of_child (W U : List String) (e child p : Expr) (P : ASet)
    (Ic : InvAt (K := K) W U (occ e) child p P) (hsh : shape child = shape e) (hfi : fi child = fi e)
    (hsub : ∀ x, occ child x = true → occ e x = true)
    (htop : ∀ s ι c (ρ : Env K), AddEnv ρ → T W (occ e) (G U e s ι c) ρ = T W (occ e) (G U child s ι c) ρ) :
    Inv (K := K) W U e p P := by
  refine ⟨Ic.sh.trans hsh, Ic.fi_.trans hfi, fun a ha => ⟨(Ic.sub a ha).1, hsub a (Ic.sub a ha).2⟩, fun s ι c => ⟨fun hp ρ hρ => ?_, fun hp ρ hρ => ?_⟩⟩
  · rw [htop s ι c ρ hρ]; exact (Ic.val s ι c).1 hp ρ hρ
  · rw [htop s ι c ρ hρ]; exact (Ic.val s ι c).2 hp ρ hρ

theorem inv_sum (rb : Rb) (hrb : RbSound K rb) (W U : List String) (aux : List Nat) (a b : Expr)
    (hwe : WF (.op .sum aux [a, b]) = true) (hka : argKeysOK (W ++ U) a = true) (hkb : argKeysOK (W ++ U) b = true)
    (ra rb' : Expr × ASet) (ha : Inv (K := K) W U a ra.1 ra.2) (hb : Inv (K := K) W U b rb'.1 rb'.2)
    (p : Expr) (P : ASet) (h : sumCombine rb W .sum aux [a, b] ra rb' = some (p, P)) :
    Inv (K := K) W U (.op .sum aux [a, b]) p P := by
  obtain ⟨pa, Pa⟩ := ra
  obtain ⟨pb, Pb⟩ := rb'
  simp only at ha hb
  simp only [WF, Bool.and_eq_true, beq_iff_eq] at hwe
  obtain ⟨⟨⟨wa, wb⟩, hs⟩, hf⟩ := hwe
  have hoe : ∀ x, occ (.op .sum aux [a, b]) x = (occ a x || occ b x) := by
    intro x; rw [occ_op, occL_cons, occL_cons, occL_nil]; simp
  have hoa : ∀ x, occ a x = true → occ (.op .sum aux [a, b]) x = true := by intro x hx; rw [hoe, hx]; rfl
  have hob : ∀ x, occ b x = true → occ (.op .sum aux [a, b]) x = true := by intro x hx; rw [hoe, hx]; simp
  have Ia := InvAt.mono W U (occ (.op .sum aux [a, b])) a pa Pa wa hka hoa ha
  have Ib := InvAt.mono W U (occ (.op .sum aux [a, b])) b pb Pb wb hkb hob hb
  have hshe : shape (.op .sum aux [a, b]) = shape a := by simp [shape]
  have hfie : fi (.op .sum aux [a, b]) = fi a := by simp [fi]
  have hTop : ∀ s ι c (ρ : Env K), T W (occ (.op .sum aux [a, b])) (G U (.op .sum aux [a, b]) s ι c) ρ =
      T W (occ (.op .sum aux [a, b])) (G U a s ι c) ρ + T W (occ (.op .sum aux [a, b])) (G U b s ι c) ρ := by
    intro s ι c ρ
    rw [← T_add]
    congr 1
  have subA : ASet.subset Pa W = true := (subset_iff Pa W).mpr (fun x hx => (ha.sub x hx).1)
  have subB : ASet.subset Pb W = true := (subset_iff Pb W).mpr (fun x hx => (hb.sub x hx).1)
  -- every provided Argument is wanted and marked
  have inA : ∀ x ∈ Pa, x ∈ W ∧ occ (.op .sum aux [a, b]) x = true := fun x hx => ⟨(ha.sub x hx).1, hoa x (ha.sub x hx).2⟩
  have inB : ∀ x ∈ Pb, x ∈ W ∧ occ (.op .sum aux [a, b]) x = true := fun x hx => ⟨(hb.sub x hx).1, hob x (hb.sub x hx).2⟩
  have keepA : ∀ s ι c (ρ : Env K), AddEnv ρ → isZero pb = true →
      T W (occ (.op .sum aux [a, b])) (G U (.op .sum aux [a, b]) s ι c) ρ = T W (occ (.op .sum aux [a, b])) (G U a s ι c) ρ := by
    intro s ι c ρ hρ hz
    rw [hTop, top_zero_of_isZero W U _ b pb Pb Ib hz s ι c ρ hρ, add_zero]
  have keepB : ∀ s ι c (ρ : Env K), AddEnv ρ → isZero pa = true →
      T W (occ (.op .sum aux [a, b])) (G U (.op .sum aux [a, b]) s ι c) ρ = T W (occ (.op .sum aux [a, b])) (G U b s ι c) ρ := by
    intro s ι c ρ hρ hz
    rw [hTop, top_zero_of_isZero W U _ a pa Pa Ia hz s ι c ρ hρ, zero_add]
  -- when the other term cannot provide the whole marked set
  have dropB : ¬ PeqM W (occ (.op .sum aux [a, b])) Pb → ∀ s ι c (ρ : Env K), AddEnv ρ →
      T W (occ (.op .sum aux [a, b])) (G U (.op .sum aux [a, b]) s ι c) ρ = T W (occ (.op .sum aux [a, b])) (G U a s ι c) ρ := by
    intro hn s ι c ρ hρ
    rw [hTop, (Ib.val s ι c).2 hn ρ hρ, add_zero]
  have dropA : ¬ PeqM W (occ (.op .sum aux [a, b])) Pa → ∀ s ι c (ρ : Env K), AddEnv ρ →
      T W (occ (.op .sum aux [a, b])) (G U (.op .sum aux [a, b]) s ι c) ρ = T W (occ (.op .sum aux [a, b])) (G U b s ι c) ρ := by
    intro hn s ι c ρ hρ
    rw [hTop, (Ia.val s ι c).2 hn ρ hρ, zero_add]
  unfold sumCombine at h
  simp only [subA, subB, Bool.not_true, Bool.or_false] at h
  cases hza : isZero pa <;> cases hzb : isZero pb <;> simp only [hza, hzb, Bool.not_false, Bool.not_true] at h
  · -- both terms kept
    split at h
    · -- the same Arguments: the sum of the parts
      rename_i heq
      have heq' := (eqv_iff Pa Pb).mp heq
      simp only [Option.map_eq_some_iff, Prod.mk.injEq] at h
      obtain ⟨x', hx', rfl, rfl⟩ := h
      obtain ⟨s1, s2, s3⟩ := reuse_sound rb hrb .sum aux [a, b] [pa, pb] x' hx'
      refine ⟨by rw [s1, hshe]; simp [shape, ha.sh], by rw [s2, hfie]; simp [fi, ha.fi_], inA, fun s ι c => ⟨fun hp ρ hρ => ?_, fun hp ρ hρ => ?_⟩⟩
      · have hpb : PeqM W (occ (.op .sum aux [a, b])) Pb := (PeqM_congr W _ Pa Pb heq').mp hp
        rw [s3, hTop, ← (Ia.val s ι c).1 hp ρ hρ, ← (Ib.val s ι c).1 hpb ρ hρ]
        simp [eval]
      · have hpb : ¬ PeqM W (occ (.op .sum aux [a, b])) Pb := fun hq => hp ((PeqM_congr W _ Pa Pb heq').mpr hq)
        rw [hTop, (Ia.val s ι c).2 hp ρ hρ, (Ib.val s ι c).2 hpb ρ hρ, add_zero]
    · rename_i hne
      have hne' : ¬ ∀ x, x ∈ Pa ↔ x ∈ Pb := fun hq => hne ((eqv_iff Pa Pb).mpr hq)
      split at h
      · -- the first term provides nothing: the second is returned
        rename_i hemp
        have hPa : Pa = [] := by simpa using hemp
        simp only [Option.some.injEq, Prod.mk.injEq] at h
        obtain ⟨rfl, rfl⟩ := h
        have hnA : ¬ PeqM W (occ (.op .sum aux [a, b])) Pa := by
          intro hq
          apply hne'
          intro x
          subst hPa
          constructor
          · intro hx; simp at hx
          · intro hx; exact (hq x).mpr (inB x hx)
        exact inv_of_child W U _ b _ _ Ib (by rw [hshe, hs]) (by rw [hfie, hf]) hob (dropA hnA)
      · split at h
        · simp at h
        · split at h
          · -- the second term provides strictly more
            rename_i hss
            simp only [Option.some.injEq, Prod.mk.injEq] at h
            obtain ⟨rfl, rfl⟩ := h
            simp only [ASet.ssup, Bool.and_eq_true, Bool.not_eq_true'] at hss
            have hnA : ¬ PeqM W (occ (.op .sum aux [a, b])) Pa := by
              intro hq
              have : ASet.subset Pb Pa = true := (subset_iff Pb Pa).mpr (fun x hx => (hq x).mpr (inB x hx))
              rw [this] at hss
              exact Bool.noConfusion hss.2
            exact inv_of_child W U _ b _ _ Ib (by rw [hshe, hs]) (by rw [hfie, hf]) hob (dropA hnA)
          · -- the first term is kept
            rename_i hss
            simp only [Option.some.injEq, Prod.mk.injEq] at h
            obtain ⟨rfl, rfl⟩ := h
            have hnB : ¬ PeqM W (occ (.op .sum aux [a, b])) Pb := by
              intro hq
              have h1 : ASet.subset Pa Pb = true := (subset_iff Pa Pb).mpr (fun x hx => (hq x).mpr (inA x hx))
              have h2 : ASet.subset Pb Pa = false := by
                cases h2 : ASet.subset Pb Pa
                · rfl
                · exfalso
                  apply hne'
                  intro x
                  exact ⟨(subset_iff Pa Pb).mp h1 x, (subset_iff Pb Pa).mp h2 x⟩
              apply hss
              simp [ASet.ssup, h1, h2]
            exact inv_of_child W U _ a _ _ Ia hshe.symm hfie.symm hoa (dropB hnB)
  · -- the second term vanishes
    simp only [Option.some.injEq, Prod.mk.injEq] at h
    obtain ⟨rfl, rfl⟩ := h
    exact inv_of_child W U _ a _ _ Ia hshe.symm hfie.symm hoa (fun s ι c ρ hρ => keepA s ι c ρ hρ hzb)
  · -- the first term vanishes
    simp only [Option.some.injEq, Prod.mk.injEq] at h
    obtain ⟨rfl, rfl⟩ := h
    exact inv_of_child W U _ b _ _ Ib (by rw [hshe, hs]) (by rw [hfie, hf]) hob (fun s ι c ρ hρ => keepB s ι c ρ hρ hza)
  · -- both vanish
    simp only [Option.some.injEq, Prod.mk.injEq] at h
    obtain ⟨rfl, rfl⟩ := h
    apply inv_zero
    intro s ι c ρ hρ
    rw [keepA s ι c ρ hρ hzb, top_zero_of_isZero W U _ a pa Pa Ia hza s ι c ρ hρ]

/-! ### products -/

theorem inv_product (rb : Rb) (hrb : RbSound K rb) (W U : List String) (aux : List Nat) (a b : Expr)
    (hwe : WF (.op .product aux [a, b]) = true) (hka : argKeysOK (W ++ U) a = true) (hkb : argKeysOK (W ++ U) b = true)
    (hdis : disjointArgs a b = true)
    (ra rb' : Expr × ASet) (ha : Inv (K := K) W U a ra.1 ra.2) (hb : Inv (K := K) W U b rb'.1 rb'.2)
    (p : Expr) (P : ASet) (h : finishProduct rb W .product aux [a, b] (some ra) (some rb') = some (p, P)) :
    Inv (K := K) W U (.op .product aux [a, b]) p P := by
  obtain ⟨pa, Pa⟩ := ra
  obtain ⟨pb, Pb⟩ := rb'
  simp only at ha hb
  simp only [WF, Bool.and_eq_true] at hwe
  obtain ⟨⟨⟨⟨wa, wb⟩, _⟩, _⟩, _⟩ := hwe
  have hoe : occ (.op .product aux [a, b]) = fun x => occ a x || occ b x := by
    funext x; rw [occ_op, occL_cons, occL_cons, occL_nil]; simp
  have hdj := disjointArgs_spec a b hdis
  have hTop : ∀ s ι c (ρ : Env K), T W (occ (.op .product aux [a, b])) (G U (.op .product aux [a, b]) s ι c) ρ =
      T W (occ a) (G U a s ι []) ρ * T W (occ b) (G U b s ι []) ρ := by
    intro s ι c ρ
    rw [hoe, ← T_mul W (occ a) (occ b) (G U a s ι []) (G U b s ι [])]
    · congr 1
    · intro x hx hox
      have : occ b x = false := by
        cases hb' : occ b x
        · rfl
        · exact absurd ⟨hox, hb'⟩ (hdj x)
      exact indep_of_not_occ W U b wb hkb x hx this s ι []
    · intro x hx hox
      have : occ a x = false := by
        cases ha' : occ a x
        · rfl
        · exact absurd ⟨ha', hox⟩ (hdj x)
      exact indep_of_not_occ W U a wa hka x hx this s ι []
    · intro x _; exact hdj x
  have memP : ∀ x, x ∈ ASet.union (ASet.union [] Pa) Pb ↔ x ∈ Pa ∨ x ∈ Pb := by
    intro x; rw [mem_union, mem_union]; simp
  have sub1 : ASet.subset (ASet.union [] Pa) W = true := by
    rw [subset_iff]; intro x hx; rw [mem_union] at hx
    cases hx with
    | inl h => simp at h
    | inr h => exact (ha.sub x h).1
  have sub2 : ASet.subset (ASet.union (ASet.union [] Pa) Pb) W = true := by
    rw [subset_iff]; intro x hx; rw [memP] at hx
    cases hx with
    | inl h => exact (ha.sub x h).1
    | inr h => exact (hb.sub x h).1
  simp only [finishProduct, prodLoop] at h
  cases hza : isZero pa
  · cases hzb : isZero pb
    · simp only [hza, hzb, sub1, sub2, Bool.false_eq_true, ↓reduceIte, Bool.not_true, List.reverse_cons, List.reverse_nil,
        List.nil_append, List.cons_append, Option.map_eq_some_iff, Prod.mk.injEq] at h
      obtain ⟨x', hx', rfl, rfl⟩ := h
      obtain ⟨s1, s2, s3⟩ := reuse_sound rb hrb .product aux [a, b] [pa, pb] x' hx'
      have hPM : PeqM W (occ (.op .product aux [a, b])) (ASet.union (ASet.union [] Pa) Pb) ↔ (PeqM W (occ a) Pa ∧ PeqM W (occ b) Pb) := by
        rw [hoe]
        constructor
        · intro hq
          constructor
          · intro x
            constructor
            · intro hx; exact ha.sub x hx
            · intro ⟨hw, ho⟩
              have := (hq x).mpr ⟨hw, by simp [ho]⟩
              rw [memP] at this
              cases this with
              | inl h => exact h
              | inr h => exact absurd ⟨ho, (hb.sub x h).2⟩ (hdj x)
          · intro x
            constructor
            · intro hx; exact hb.sub x hx
            · intro ⟨hw, ho⟩
              have := (hq x).mpr ⟨hw, by simp [ho]⟩
              rw [memP] at this
              cases this with
              | inl h => exact absurd ⟨(ha.sub x h).2, ho⟩ (hdj x)
              | inr h => exact h
        · intro ⟨hqa, hqb⟩ x
          rw [memP, hqa x, hqb x]
          simp only [Bool.or_eq_true]
          tauto
      refine ⟨by rw [s1]; simp [shape], by rw [s2]; simp [fi, ha.fi_, hb.fi_], fun x hx => ?_, fun s ι c => ⟨fun hp ρ hρ => ?_, fun hp ρ hρ => ?_⟩⟩
      · rw [memP] at hx
        rw [hoe]
        cases hx with
        | inl h => exact ⟨(ha.sub x h).1, by simp [(ha.sub x h).2]⟩
        | inr h => exact ⟨(hb.sub x h).1, by simp [(hb.sub x h).2]⟩
      · obtain ⟨hqa, hqb⟩ := hPM.mp hp
        rw [s3, hTop, ← (ha.val s ι []).1 hqa ρ hρ, ← (hb.val s ι []).1 hqb ρ hρ]
        simp [eval]
      · rw [hTop]
        by_cases hqa : PeqM W (occ a) Pa
        · have hqb : ¬ PeqM W (occ b) Pb := fun hq => hp (hPM.mpr ⟨hqa, hq⟩)
          rw [(hb.val s ι []).2 hqb ρ hρ, mul_zero]
        · rw [(ha.val s ι []).2 hqa ρ hρ, zero_mul]
    · simp only [hza, hzb, sub1, Bool.false_eq_true, ↓reduceIte, Bool.not_true, Option.some.injEq, Prod.mk.injEq] at h
      obtain ⟨rfl, rfl⟩ := h
      apply inv_zero
      intro s ι c ρ hρ
      rw [hTop, top_zero_of_isZero W U _ b pb Pb hb hzb s ι [] ρ hρ, mul_zero]
  · simp only [hza, ↓reduceIte, Option.some.injEq, Prod.mk.injEq] at h
    obtain ⟨rfl, rfl⟩ := h
    apply inv_zero
    intro s ι c ρ hρ
    rw [hTop, top_zero_of_isZero W U _ a pa Pa ha hza s ι [] ρ hρ, zero_mul]

/-! ### list tensors -/

theorem occL_mem : ∀ (xs : List Expr) (x : Expr), x ∈ xs → ∀ a, occ x a = true → occL xs a = true
  | [], _, h, _, _ => by simp at h
  | y :: ys, x, h, a, ho => by
    rw [occL_cons]
    cases List.mem_cons.mp h with
    | inl e => subst e; simp [ho]
    | inr e => simp [occL_mem ys x e a ho]

theorem mostProvides_mem : ∀ (ops : List (Expr × ASet)) (m : ASet), mostProvides ops m = m ∨ ∃ r ∈ ops, mostProvides ops m = r.2
  | [], m => Or.inl rfl
  | (q, P) :: rest, m => by
    simp only [mostProvides]
    split
    · cases mostProvides_mem rest P with
      | inl h => exact Or.inr ⟨(q, P), by simp, h⟩
      | inr h => obtain ⟨r, hr, he⟩ := h; exact Or.inr ⟨r, by simp [hr], he⟩
    · cases mostProvides_mem rest m with
      | inl h => exact Or.inl h
      | inr h => obtain ⟨r, hr, he⟩ := h; exact Or.inr ⟨r, by simp [hr], he⟩

theorem forall₂_mem_right {α β : Type} (R : α → β → Prop) : ∀ (xs : List α) (rs : List β), List.Forall₂ R xs rs →
    ∀ r ∈ rs, ∃ x ∈ xs, R x r
  | _, _, .nil, r, h => by simp at h
  | _, _, .cons (a := a) (b := b) (l₁ := l1) (l₂ := l2) hab hrest, r, h => by
    cases List.mem_cons.mp h with
    | inl e => subst e; exact ⟨a, by simp, hab⟩
    | inr e =>
      obtain ⟨x, hx, hr⟩ := forall₂_mem_right R l1 l2 hrest r e
      exact ⟨x, by simp [hx], hr⟩

/-- component selection: every component's part has the component's marked part as value -/
theorem evalNth_parts (W U : List String) (oc : String → Bool) (s : Side) (ι : IdxEnv) (ρ : Env K) :
    ∀ (xs : List Expr) (rs : List (Expr × ASet)),
    List.Forall₂ (fun x r => ∀ c, eval ρ s ι r.1 c = T W oc (G U x s ι c) ρ) xs rs →
    ∀ v c, evalNth ρ s ι (rs.map (·.1)) v c = T W oc (fun ρ' => evalNth (ρ'.zeroKeys U) s ι xs v c) ρ
  | _, _, .nil, v, c => by simp [evalNth, T_zero]
  | _, _, .cons (a := x) (b := r) (l₁ := xs) (l₂ := rs) h hrest, v, c => by
    cases v with
    | zero => simp only [List.map_cons, evalNth]; exact h c
    | succ n => simp only [List.map_cons, evalNth]; exact evalNth_parts W U oc s ι ρ xs rs hrest n c

theorem evalNth_top_zero (W U : List String) (oc : String → Bool) (s : Side) (ι : IdxEnv) (ρ : Env K) :
    ∀ (xs : List Expr), (∀ x ∈ xs, ∀ c, T W oc (G U x s ι c) ρ = 0) →
    ∀ v c, T W oc (fun ρ' => evalNth (ρ'.zeroKeys U) s ι xs v c) ρ = 0
  | [], _, v, c => by simp [evalNth, T_zero]
  | x :: xs, h, v, c => by
    cases v with
    | zero => simp only [evalNth]; exact h x (by simp) c
    | succ n => simp only [evalNth]; exact evalNth_top_zero W U oc s ι ρ xs (fun y hy => h y (by simp [hy])) n c

theorem inv_list (rb : Rb) (hrb : RbSound K rb) (W U : List String) (aux : List Nat) (xs : List Expr)
    (hwe : WF (.op .listTensor aux xs) = true) (hk : ∀ x ∈ xs, argKeysOK (W ++ U) x = true)
    (rs : List (Expr × ASet)) (hI : List.Forall₂ (fun x r => Inv (K := K) W U x r.1 r.2) xs rs)
    (p : Expr) (P : ASet) (h : finishList rb .listTensor aux xs (some rs) = some (p, P)) :
    Inv (K := K) W U (.op .listTensor aux xs) p P := by
  have hoe : occ (.op .listTensor aux xs) = occL xs := by funext a; rw [occ_op]
  -- well-formedness of the components
  have hwx : ∀ x ∈ xs, WF x = true := by
    cases xs with
    | nil => simp [WF] at hwe
    | cons x0 rest =>
      simp only [WF, Bool.and_eq_true] at hwe
      intro x hx
      cases List.mem_cons.mp hx with
      | inl e => subst e; exact hwe.1.1
      | inr e =>
        have : ∀ (ys : List Expr), WFL ys = true → ∀ y ∈ ys, WF y = true := by
          intro ys
          induction ys with
          | nil => intro _ y hy; simp at hy
          | cons z zs ih =>
            intro hz y hy
            simp only [WFL, Bool.and_eq_true] at hz
            cases List.mem_cons.mp hy with
            | inl e => subst e; exact hz.1
            | inr e => exact ih hz.2 y e
        exact this rest hwe.1.2 x e
  -- every component's invariant relative to the node's marking
  have hIA : List.Forall₂ (fun x r => x ∈ xs ∧ InvAt (K := K) W U (occL xs) x r.1 r.2) xs rs := by
    have : ∀ (ys : List Expr) (qs : List (Expr × ASet)), List.Forall₂ (fun x r => Inv (K := K) W U x r.1 r.2) ys qs → (∀ y ∈ ys, y ∈ xs) →
        List.Forall₂ (fun x r => x ∈ xs ∧ InvAt (K := K) W U (occL xs) x r.1 r.2) ys qs := by
      intro ys qs hf
      induction hf with
      | nil => intro _; exact .nil
      | @cons y q ys' qs' hab _ ih =>
        intro hm
        refine .cons ⟨hm y (by simp), ?_⟩ (ih (fun z hz => hm z (by simp [hz])))
        exact InvAt.mono W U (occL xs) y q.1 q.2 (hwx y (hm y (by simp))) (hk y (hm y (by simp))) (occL_mem xs y (hm y (by simp))) hab
    exact this xs rs hI (fun y hy => hy)
  cases rs with
  | nil => simp [finishList] at h
  | cons r0 rest =>
    simp only [finishList] at h
    split at h
    · simp at h
    · rename_i hany
      simp only [Option.map_eq_some_iff, Prod.mk.injEq] at h
      obtain ⟨x', hx', rfl, rfl⟩ := h
      obtain ⟨s1, s2, s3⟩ := reuse_sound rb hrb .listTensor aux xs ((r0 :: rest).map (·.1)) x' hx'
      -- all non-zero parts provide `most`
      have hall : ∀ r ∈ r0 :: rest, isZero r.1 = true ∨ ∀ a, a ∈ r.2 ↔ a ∈ mostProvides (r0 :: rest) r0.2 := by
        intro r hr
        simp only [List.any_eq_true, not_exists, not_and, Bool.and_eq_true, Bool.not_eq_true'] at hany
        have := hany r hr
        cases hz : isZero r.1
        · right
          have hq : ASet.eqv r.2 (mostProvides (r0 :: rest) r0.2) = true := by
            cases hq : ASet.eqv r.2 (mostProvides (r0 :: rest) r0.2)
            · exact absurd hz (by simpa using this hq)
            · rfl
          exact (eqv_iff _ _).mp hq
        · left; rfl
      -- `most` is what one of the components provides
      have hmost : ∃ r ∈ r0 :: rest, mostProvides (r0 :: rest) r0.2 = r.2 := by
        cases mostProvides_mem (r0 :: rest) r0.2 with
        | inl h => exact ⟨r0, by simp, h⟩
        | inr h => exact h
      cases xs with
      | nil => simp [WF] at hwe
      | cons x0 xrest =>
        cases hI with
        | cons h0 hrestI =>
          have hlen : xrest.length = rest.length := List.Forall₂.length_eq hrestI
          refine ⟨?_, ?_, ?_, fun s ι c => ⟨fun hp ρ hρ => ?_, fun hp ρ hρ => ?_⟩⟩
          · rw [s1]; simp [shape, h0.sh, hlen]
          · rw [s2]; simp [fi, h0.fi_]
          · intro a ha
            obtain ⟨r, hr, he⟩ := hmost
            rw [he] at ha
            obtain ⟨x, hx, _, hi⟩ := forall₂_mem_right _ _ _ hIA r hr
            rw [hoe]
            exact ⟨(hi.sub a ha).1, occL_mem _ x hx a (hi.sub a ha).2⟩
          · rw [s3, hoe]
            cases c with
            | nil =>
              have : G (K := K) U (.op .listTensor aux (x0 :: xrest)) s ι [] = fun _ => (0 : K) := by funext ρ'; simp [G, eval]
              rw [this, T_zero]; simp [eval]
            | cons v c' =>
              have hT : T W (occL (x0 :: xrest)) (G U (.op .listTensor aux (x0 :: xrest)) s ι (v :: c')) ρ =
                  T W (occL (x0 :: xrest)) (fun ρ' => evalNth (ρ'.zeroKeys U) s ι (x0 :: xrest) v c') ρ := by
                congr 1
              rw [hT]
              simp only [eval]
              apply evalNth_parts W U (occL (x0 :: xrest)) s ι ρ
              rw [hoe] at hp
              have : ∀ (ys : List Expr) (qs : List (Expr × ASet)),
                  List.Forall₂ (fun x r => x ∈ (x0 :: xrest) ∧ InvAt (K := K) W U (occL (x0 :: xrest)) x r.1 r.2) ys qs → (∀ q ∈ qs, q ∈ r0 :: rest) →
                  List.Forall₂ (fun x r => ∀ c, eval ρ s ι r.1 c = T W (occL (x0 :: xrest)) (G U x s ι c) ρ) ys qs := by
                intro ys qs hf
                induction hf with
                | nil => intro _; exact .nil
                | @cons y q ys' qs' hab _ ih =>
                  intro hm
                  refine .cons (fun c => ?_) (ih (fun z hz => hm z (by simp [hz])))
                  cases hall q (hm q (by simp)) with
                  | inl hz => rw [eval_isZero ρ s ι q.1 c hz, top_zero_of_isZero W U _ y q.1 q.2 hab.2 hz s ι c ρ hρ]
                  | inr he => exact (hab.2.val s ι c).1 ((PeqM_congr W _ _ _ he).mpr hp) ρ hρ
              exact this _ _ hIA (fun q hq => hq)
          · rw [hoe]
            cases c with
            | nil =>
              have : G (K := K) U (.op .listTensor aux (x0 :: xrest)) s ι [] = fun _ => (0 : K) := by funext ρ'; simp [G, eval]
              rw [this, T_zero]
            | cons v c' =>
              have hT : T W (occL (x0 :: xrest)) (G U (.op .listTensor aux (x0 :: xrest)) s ι (v :: c')) ρ =
                  T W (occL (x0 :: xrest)) (fun ρ' => evalNth (ρ'.zeroKeys U) s ι (x0 :: xrest) v c') ρ := by
                congr 1
              rw [hT]
              apply evalNth_top_zero
              rw [hoe] at hp
              -- every component's marked part vanishes
              have : ∀ (ys : List Expr) (qs : List (Expr × ASet)),
                  List.Forall₂ (fun x r => x ∈ (x0 :: xrest) ∧ InvAt (K := K) W U (occL (x0 :: xrest)) x r.1 r.2) ys qs → (∀ q ∈ qs, q ∈ r0 :: rest) →
                  ∀ y ∈ ys, ∀ c, T W (occL (x0 :: xrest)) (G U y s ι c) ρ = 0 := by
                intro ys qs hf
                induction hf with
                | nil => intro _ y hy; simp at hy
                | @cons y0 q ys' qs' hab _ ih =>
                  intro hm y hy c
                  cases List.mem_cons.mp hy with
                  | inl e =>
                    subst e
                    cases hall q (hm q (by simp)) with
                    | inl hz => exact top_zero_of_isZero W U _ y q.1 q.2 hab.2 hz s ι c ρ hρ
                    | inr he => exact (hab.2.val s ι c).2 (fun hq => hp ((PeqM_congr W _ _ _ he).mp hq)) ρ hρ
                  | inr e => exact ih (fun z hz => hm z (by simp [hz])) y e c
              exact this _ _ hIA (fun q hq => hq)

/-! ### instances of the linear step -/

theorem occ_single (k : Op) (aux : List Nat) (x : Expr) (rest : List Expr) (hr : ∀ a, occL rest a = false) (a : String) :
    occ (.op k aux (x :: rest)) a = occ x a := by
  rw [occ_op, occL_cons, hr]; simp

theorem sumRange_zero (n : Nat) : sumRange n (fun _ => (0 : K)) = 0 := by
  rw [sumRange_eq_sum]; simp

theorem addenv_zero (ρ : Env K) (hρ : AddEnv ρ) : ρ.conj 0 = 0 ∧ ρ.re 0 = 0 ∧ ρ.im 0 = 0 := by
  have h1 := hρ.conj 0 0
  have h2 := hρ.re 0 0
  have h3 := hρ.im 0 0
  simp only [sub_self] at h1 h2 h3
  exact ⟨h1, h2, h3⟩

/-- restrictions: the operand is evaluated on the given side -/
theorem inv_restricted (rb : Rb) (hrb : RbSound K rb) (W U : List String) (k : Op) (side : Side)
    (hk : (k = .positiveRestricted ∧ side = .plus) ∨ (k = .negativeRestricted ∧ side = .minus))
    (aux : List Nat) (x : Expr) (r : Option (Expr × ASet)) (hx : ∀ p P, r = some (p, P) → Inv (K := K) W U x p P)
    (p : Expr) (P : ASet) (h : finishLinear rb k aux [x] [] r = some (p, P)) : Inv (K := K) W U (.op k aux [x]) p P := by
  apply inv_linear rb hrb W U k aux x [] (fun _ f _ ι c => f side ι c) (occ_single k aux x [] (fun a => occL_nil a)) ?_ (fun _ => rfl)
    (fun _ _ _ _ _ _ => rfl) (fun _ _ _ _ _ => rfl) ?_ r hx p P h
  · intro q _ _ ρ s ι c
    rcases hk with ⟨rfl, rfl⟩ | ⟨rfl, rfl⟩ <;> simp [eval]
  · intro q hs hf
    rcases hk with ⟨rfl, _⟩ | ⟨rfl, _⟩ <;> simp [shape, fi, hs, hf]

/-- conj / real / imag -/
theorem inv_fieldop (rb : Rb) (hrb : RbSound K rb) (W U : List String) (k : Op) (F : Env K → K → K)
    (hk : (k = .conj ∧ F = fun ρ => ρ.conj) ∨ (k = .real ∧ F = fun ρ => ρ.re) ∨ (k = .imag ∧ F = fun ρ => ρ.im))
    (aux : List Nat) (x : Expr) (r : Option (Expr × ASet)) (hx : ∀ p P, r = some (p, P) → Inv (K := K) W U x p P)
    (p : Expr) (P : ASet) (h : finishLinear rb k aux [x] [] r = some (p, P)) : Inv (K := K) W U (.op k aux [x]) p P := by
  have hFz : ∀ ρ Z, F (ρ.zeroKeys Z) = F ρ := by
    intro ρ Z; rcases hk with ⟨_, rfl⟩ | ⟨_, rfl⟩ | ⟨_, rfl⟩ <;> rfl
  have hFs : ∀ ρ, AddEnv ρ → ∀ x y, F ρ (x - y) = F ρ x - F ρ y := by
    intro ρ hρ; rcases hk with ⟨_, rfl⟩ | ⟨_, rfl⟩ | ⟨_, rfl⟩
    · exact hρ.conj
    · exact hρ.re
    · exact hρ.im
  apply inv_linear rb hrb W U k aux x [] (fun ρ f s ι c => F ρ (f s ι c)) (occ_single k aux x [] (fun a => occL_nil a)) ?_ ?_ ?_ ?_ ?_ r hx p P h
  · intro q _ _ ρ s ι c
    rcases hk with ⟨rfl, rfl⟩ | ⟨rfl, rfl⟩ | ⟨rfl, rfl⟩ <;> simp [eval]
  · intro ρ; funext f s ι c; rw [hFz]
  · intro ρ hρ g s ι c
    exact T_comp F hFz W (occ x) (g s ι c) ρ (hFs ρ hρ)
  · intro ρ hρ s ι c
    have := hFs ρ hρ 0 0
    simpa using this
  · intro q hs hf
    rcases hk with ⟨rfl, _⟩ | ⟨rfl, _⟩ | ⟨rfl, _⟩ <;> simp [shape, fi, hs, hf]

theorem inv_indexed (rb : Rb) (hrb : RbSound K rb) (W U : List String)
    (aux : List Nat) (x : Expr) (is : List Idx) (r : Option (Expr × ASet)) (hx : ∀ p P, r = some (p, P) → Inv (K := K) W U x p P)
    (p : Expr) (P : ASet) (h : finishLinear rb .indexed aux [x, .mi is] [.mi is] r = some (p, P)) :
    Inv (K := K) W U (.op .indexed aux [x, .mi is]) p P := by
  apply inv_linear rb hrb W U .indexed aux x [.mi is] (fun _ f s ι _ => f s ι (is.map (Idx.resolve ι)))
    (occ_single _ aux x _ (fun a => by simp [occL, argsOfL, argsOf])) ?_ (fun _ => rfl)
    (fun _ _ _ _ _ _ => rfl) (fun _ _ _ _ _ => rfl) ?_ r hx p P h
  · intro q _ _ ρ s ι c; simp [eval]
  · intro q hs hf; simp [shape, fi, hs, hf]

theorem inv_componentTensor (rb : Rb) (hrb : RbSound K rb) (W U : List String)
    (aux : List Nat) (x : Expr) (is : List Idx) (r : Option (Expr × ASet)) (hx : ∀ p P, r = some (p, P) → Inv (K := K) W U x p P)
    (p : Expr) (P : ASet) (h : finishLinear rb .componentTensor aux [x, .mi is] [.mi is] r = some (p, P)) :
    Inv (K := K) W U (.op .componentTensor aux [x, .mi is]) p P := by
  apply inv_linear rb hrb W U .componentTensor aux x [.mi is] (fun _ f s ι c => f s (ι.bind is c) [])
    (occ_single _ aux x _ (fun a => by simp [occL, argsOfL, argsOf])) ?_ (fun _ => rfl)
    (fun _ _ _ _ _ _ => rfl) (fun _ _ _ _ _ => rfl) ?_ r hx p P h
  · intro q _ _ ρ s ι c; simp [eval]
  · intro q hs hf; simp [shape, fi, hs, hf]

theorem inv_indexSum (rb : Rb) (hrb : RbSound K rb) (W U : List String)
    (aux : List Nat) (x : Expr) (j : Nat) (r : Option (Expr × ASet)) (hx : ∀ p P, r = some (p, P) → Inv (K := K) W U x p P)
    (p : Expr) (P : ASet) (h : finishLinear rb .indexSum aux [x, .mi [.free j]] [.mi [.free j]] r = some (p, P)) :
    Inv (K := K) W U (.op .indexSum aux [x, .mi [.free j]]) p P := by
  apply inv_linear rb hrb W U .indexSum aux x [.mi [.free j]]
    (fun _ f s ι c => sumRange (FI.dimOf j (fi x)) (fun v => f s (ι.set j v) c))
    (occ_single _ aux x _ (fun a => by simp [occL, argsOfL, argsOf])) ?_ (fun _ => rfl) ?_ ?_ ?_ r hx p P h
  · intro q _ hf ρ s ι c; simp [eval, hf]
  · intro ρ _ g s ι c
    exact T_sumRange _ W (occ x) (fun v => g s (ι.set j v) c) ρ
  · intro ρ _ s ι c; exact sumRange_zero _
  · intro q hs hf; simp [shape, fi, hs, hf]

theorem inv_variable (rb : Rb) (hrb : RbSound K rb) (W U : List String)
    (aux : List Nat) (x l : Expr) (hl : ∀ a, occ l a = false) (r : Option (Expr × ASet)) (hx : ∀ p P, r = some (p, P) → Inv (K := K) W U x p P)
    (p : Expr) (P : ASet) (h : finishVariable rb W .variable aux [x, l] l r = some (p, P)) :
    Inv (K := K) W U (.op .variable aux [x, l]) p P := by
  have h' : finishLinear rb .variable aux [x, l] [l] r = some (p, P) := by
    cases r with
    | none => simp [finishVariable] at h
    | some r0 =>
      obtain ⟨px, Px⟩ := r0
      have hsub : ASet.subset Px W = true := (subset_iff Px W).mpr (fun a ha => ((hx px Px rfl).sub a ha).1)
      simpa [finishVariable, finishLinear, hsub] using h
  apply inv_linear rb hrb W U .variable aux x [l] (fun _ f s ι c => f s ι c)
    (occ_single _ aux x _ (fun a => by rw [occL_cons, occL_nil, hl]; rfl)) ?_ (fun _ => rfl)
    (fun _ _ _ _ _ _ => rfl) (fun _ _ _ _ _ => rfl) ?_ r hx p P h'
  · intro q _ _ ρ s ι c; simp [eval]
  · intro q hs hf; simp [shape, fi, hs, hf]

theorem inv_division (rb : Rb) (hrb : RbSound K rb) (W U : List String)
    (aux : List Nat) (x b : Expr) (hwb : WF b = true) (hkb : argKeysOK (W ++ U) b = true) (hb : hasArg b = false)
    (r : Option (Expr × ASet)) (hx : ∀ p P, r = some (p, P) → Inv (K := K) W U x p P)
    (p : Expr) (P : ASet) (h : finishLinear rb .division aux [x, b] [b] r = some (p, P)) :
    Inv (K := K) W U (.op .division aux [x, b]) p P := by
  have hob : ∀ a, occ b a = false := occ_of_not_hasArg b hb
  have hirr : ∀ (ρ : Env K) (Z : List String), (∀ a ∈ Z, a ∈ W ++ U) → ∀ s ι c, eval (ρ.zeroKeys Z) s ι b c = eval ρ s ι b c := by
    intro ρ Z hZ s ι c
    apply eval_zeroKeys_irrelevant _ _ s ι b c hwb
    intro k hk hin
    exact not_key_of_not_occ (W ++ U) k (hZ k hin) b hkb (hob k) hk
  apply inv_linear rb hrb W U .division aux x [b] (fun ρ f s ι c => f s ι c / eval ρ s ι b c)
    (occ_single _ aux x _ (fun a => by rw [occL_cons, occL_nil, hob]; rfl)) ?_ ?_ ?_ ?_ ?_ r hx p P h
  · intro q _ _ ρ s ι c; simp [eval]
  · intro ρ; funext f s ι c; rw [hirr ρ U (fun a ha => by simp [ha])]
  · intro ρ _ g s ι c
    apply T_div W (occ x) (g s ι c) (fun ρ' => eval ρ' s ι b c)
    intro a ha _ ρ'
    exact hirr ρ' [a] (fun a' ha' => by simp only [List.mem_singleton] at ha'; subst ha'; simp [ha]) s ι c
  · intro ρ _ s ι c; simp
  · intro q hs hf; simp [shape, fi, hs, hf]

/-! ### gradients of terminals -/

theorem occ_chain (a : Expr) (d : TermData) (k : Nat) (hk : gradChain a = some (d, k)) (x : String) :
    occ a x = (d.cls == "Argument" && d.key == x) := by
  simp only [occ, argsOf_chain a (d, k) hk]
  split <;> simp_all

theorem eval_grad_chain (ρ : Env K) (s : Side) (ι : IdxEnv) (aux : List Nat) (a : Expr) (d : TermData) (k : Nat)
    (hk : gradChain a = some (d, k)) (c : List Nat) :
    eval ρ s ι (.op .grad aux [a]) c = ρ.jet s d.key (c.take d.shape.length) (c.drop d.shape.length) := by
  simp [eval, hk]

theorem inv_grad (rb : Rb) (W U : List String) (hW : W.Nodup) (hWU : ∀ a ∈ W, a ∉ U)
    (aux : List Nat) (a : Expr) (hc : Ctx W U (.op .grad aux [a]))
    (p : Expr) (P : ASet) (h : finishLinear rb .grad aux [a] [] (extract rb W a) = some (p, P)) :
    Inv (K := K) W U (.op .grad aux [a]) p P := by
  have hw := hc.wf
  simp only [WF, Option.isSome_iff_exists] at hw
  obtain ⟨⟨d, k⟩, hk⟩ := hw
  have hoe : ∀ x, occ (.op .grad aux [a]) x = (d.cls == "Argument" && d.key == x) := by
    intro x; rw [occ_single .grad aux a [] (fun a => occL_nil a), occ_chain a d k hk]
  rw [extract_chain rb W a (d, k) hk] at h
  by_cases harg : d.cls = "Argument"
  · have hd : (d.cls == "Argument") = true := by simp [harg]
    by_cases hin : d.key ∈ W
    · -- a wanted Argument: the node itself, of degree one in it
      have hext : (if ((d, k).1.cls == "Argument" && !W.contains (d, k).1.key) = true then (zeroLike a, ([] : ASet))
          else (a, if ((d, k).1.cls == "Argument") = true then [(d, k).1.key] else [])) = (a, [d.key]) := by simp [harg, hin]
      rw [hext] at h
      simp only [finishLinear, chain_not_zero a _ hk, Bool.false_eq_true, ↓reduceIte, reuseIf, beqL_refl',
        Option.map_some, Option.some.injEq, Prod.mk.injEq] at h
      obtain ⟨rfl, rfl⟩ := h
      have hoc : ∀ x, occ (.op .grad aux [a]) x = decide (x = d.key) := by
        intro x; rw [hoe, hd]
        by_cases hx : x = d.key
        · subst hx; simp
        · have : ¬ d.key = x := fun e => hx e.symm
          simp [hx, this]
      have hP : PeqM W (occ (.op .grad aux [a])) [d.key] := by
        intro x
        simp only [List.mem_singleton, hoc, decide_eq_true_eq]
        constructor
        · intro hx; subst hx; exact ⟨hin, rfl⟩
        · intro hx; exact hx.2
      refine ⟨rfl, rfl, fun x hx => ?_, fun s ι c => ⟨fun _ ρ _ => ?_, fun hn => absurd hP hn⟩⟩
      · simp only [List.mem_singleton] at hx; subst hx; exact ⟨hin, by rw [hoc]; simp⟩
      · rw [T_single d.key W _ _ hW hin (fun x _ => hoc x)]
        simp only [G]
        rw [eval_grad_chain _ _ _ _ _ _ _ hk, eval_grad_chain _ _ _ _ _ _ _ hk, eval_grad_chain _ _ _ _ _ _ _ hk]
        simp [Env.zeroKeys, hWU d.key hin]
    · -- an unwanted Argument
      have hext : (if ((d, k).1.cls == "Argument" && !W.contains (d, k).1.key) = true then (zeroLike a, ([] : ASet))
          else (a, if ((d, k).1.cls == "Argument") = true then [(d, k).1.key] else [])) = (zeroLike a, []) := by simp [harg, hin]
      rw [hext] at h
      have hz : isZero (zeroLike a) = true := by simp [zeroLike, isZero]
      simp only [finishLinear, hz, ↓reduceIte, Option.some.injEq, Prod.mk.injEq] at h
      obtain ⟨rfl, rfl⟩ := h
      have hU : d.key ∈ U := by
        have := hc.cov d.key (by rw [hoe]; simp [harg])
        rw [List.mem_append] at this
        cases this with
        | inl h => exact absurd h hin
        | inr h => exact h
      apply inv_zero
      intro s ι c ρ _
      have hn : ∀ x ∈ W, occ (.op .grad aux [a]) x = false := by
        intro x hx
        rw [hoe, hd]
        simp only [Bool.true_and, beq_eq_false_iff_ne, ne_eq]
        intro e; subst e; exact hin hx
      rw [T_none W _ _ hn]
      simp only [G]
      rw [eval_grad_chain _ _ _ _ _ _ _ hk]
      simp [Env.zeroKeys, hU]
  · -- not an Argument at all
    have hd : (d.cls == "Argument") = false := by simp [harg]
    have hext : (if ((d, k).1.cls == "Argument" && !W.contains (d, k).1.key) = true then (zeroLike a, ([] : ASet))
        else (a, if ((d, k).1.cls == "Argument") = true then [(d, k).1.key] else [])) = (a, []) := by simp [harg]
    rw [hext] at h
    simp only [finishLinear, chain_not_zero a _ hk, Bool.false_eq_true, ↓reduceIte, reuseIf, beqL_refl',
      Option.map_some, Option.some.injEq, Prod.mk.injEq] at h
    obtain ⟨rfl, rfl⟩ := h
    exact inv_argfree W U _ hc.wf hc.keys (fun x => by rw [hoe, hd]; rfl)

/-! ### the traversal -/

theorem MAL_mem : ∀ (xs : List Expr), MAL xs = true → ∀ x ∈ xs, MA x = true
  | [], _, x, h => by simp at h
  | y :: ys, hm, x, h => by
    simp only [MAL, Bool.and_eq_true] at hm
    cases List.mem_cons.mp h with
    | inl e => subst e; exact hm.1
    | inr e => exact MAL_mem ys hm.2 x e

theorem argKeysOKL_mem (A : List String) : ∀ (xs : List Expr), argKeysOKL A xs = true → ∀ x ∈ xs, argKeysOK A x = true
  | [], _, x, h => by simp at h
  | y :: ys, hm, x, h => by
    simp only [argKeysOKL, Bool.and_eq_true] at hm
    cases List.mem_cons.mp h with
    | inl e => subst e; exact hm.1
    | inr e => exact argKeysOKL_mem A ys hm.2 x e

theorem ctx_child (W U : List String) (k : Op) (aux : List Nat) (args : List Expr) (h : Ctx W U (.op k aux args))
    (x : Expr) (hx : x ∈ args) (hw : WF x = true) : Ctx W U x := by
  refine ⟨hw, ?_, ?_, ?_⟩
  · have := h.ma
    simp only [MA, Bool.and_eq_true] at this
    exact MAL_mem args this.2 x hx
  · have := h.keys
    simp only [argKeysOK] at this
    exact argKeysOKL_mem _ args this x hx
  · intro a ha
    apply h.cov a
    rw [occ_op]
    exact occL_mem args x hx a ha

theorem extract_inv (rb : Rb) (hrb : RbSound K rb) (W U : List String) (hW : W.Nodup) (hWU : ∀ a ∈ W, a ∉ U) :
    (∀ e : Expr, Ctx W U e → ∀ p P, extract rb W e = some (p, P) → Inv (K := K) W U e p P) ∧
    (∀ xs : List Expr, (∀ x ∈ xs, Ctx W U x) → ∀ rs, extractL rb W xs = some rs →
      List.Forall₂ (fun x r => Inv (K := K) W U x r.1 r.2) xs rs) := by
  apply extract.mutual_induct rb W
    (motive_1 := fun e => Ctx W U e → ∀ p P, extract rb W e = some (p, P) → Inv (K := K) W U e p P)
    (motive_2 := fun xs => (∀ x ∈ xs, Ctx W U x) → ∀ rs, extractL rb W xs = some rs →
      List.Forall₂ (fun x r => Inv (K := K) W U x r.1 r.2) xs rs)
  -- a wanted Argument
  · intro d hd hin _ p P h
    simp only [extract, hd, hin, ↓reduceIte, Option.some.injEq, Prod.mk.injEq] at h
    obtain ⟨rfl, rfl⟩ := h
    exact inv_arg_wanted W U hW hWU d hd (by simpa using hin)
  -- an unwanted Argument
  · intro d hd hin hc p P h
    simp only [extract, hd, hin, ↓reduceIte, Bool.false_eq_true, Option.some.injEq, Prod.mk.injEq] at h
    obtain ⟨rfl, rfl⟩ := h
    have hnin : d.key ∉ W := by simpa using hin
    have hU : d.key ∈ U := by
      have := hc.cov d.key (by rw [occ_term, hd]; simp)
      rw [List.mem_append] at this
      cases this with
      | inl h => exact absurd h hnin
      | inr h => exact h
    exact inv_arg_unwanted W U d hd hnin hU
  -- any other terminal
  · intro d hd hc p P h
    simp only [extract, hd, Bool.false_eq_true, ↓reduceIte, Option.some.injEq, Prod.mk.injEq] at h
    obtain ⟨rfl, rfl⟩ := h
    exact inv_argfree W U _ hc.wf hc.keys (fun a => by rw [occ_term]; simp at hd; simp [hd])
  -- variable
  · intro aux a l ih hc p P h
    simp only [extract] at h
    have hw := hc.wf
    have hl : hasArg l = false := by
      have := hc.ma
      simp only [MA, Bool.and_eq_true, Bool.not_eq_true'] at this
      exact this.1
    cases l <;> simp only [WF, Bool.false_eq_true] at hw
    have ca := ctx_child W U _ aux _ hc a (by simp) hw
    exact inv_variable rb hrb W U aux a _ (occ_of_not_hasArg _ hl) _ (fun p' P' e => ih ca p' P' e) p P h
  -- sum
  · intro aux a b iha ihb hc p P h
    simp only [extract] at h
    have hw := hc.wf
    have hw' := hw
    simp only [WF, Bool.and_eq_true] at hw'
    have ca := ctx_child W U _ aux _ hc a (by simp) hw'.1.1.1
    have cb := ctx_child W U _ aux _ hc b (by simp) hw'.1.1.2
    cases hea : extract rb W a with
    | none => simp [hea, finishSum] at h
    | some ra =>
      cases heb : extract rb W b with
      | none => simp [hea, heb, finishSum] at h
      | some rb' =>
        simp only [hea, heb, finishSum] at h
        exact inv_sum rb hrb W U aux a b hw ca.keys cb.keys ra rb' (iha ca ra.1 ra.2 hea) (ihb cb rb'.1 rb'.2 heb) p P h
  -- division with an Argument in the denominator: refused
  · intro aux a b hb _ p P h
    simp [extract, hb] at h
  -- division
  · intro aux a b hb ih hc p P h
    simp only [extract, hb, Bool.false_eq_true, ↓reduceIte] at h
    have hw := hc.wf
    simp only [WF, Bool.and_eq_true] at hw
    have ca := ctx_child W U _ aux _ hc a (by simp) hw.1.1.1
    have cb := ctx_child W U _ aux _ hc b (by simp) hw.1.1.2
    exact inv_division rb hrb W U aux a b cb.wf cb.keys (by simpa using hb) _ (fun p' P' e => ih ca p' P' e) p P h
  -- list tensor
  · intro aux xs ih hc p P h
    simp only [extract] at h
    have hwx : ∀ x ∈ xs, WF x = true := by
      have hw := hc.wf
      cases xs with
      | nil => simp [WF] at hw
      | cons x0 rest =>
        simp only [WF, Bool.and_eq_true] at hw
        intro x hx
        cases List.mem_cons.mp hx with
        | inl e => subst e; exact hw.1.1
        | inr e =>
          have : ∀ (ys : List Expr), WFL ys = true → ∀ y ∈ ys, WF y = true := by
            intro ys
            induction ys with
            | nil => intro _ y hy; simp at hy
            | cons z zs ih =>
              intro hz y hy
              simp only [WFL, Bool.and_eq_true] at hz
              cases List.mem_cons.mp hy with
              | inl e => subst e; exact hz.1
              | inr e => exact ih hz.2 y e
          exact this rest hw.1.2 x e
    have hcx : ∀ x ∈ xs, Ctx W U x := fun x hx => ctx_child W U _ aux _ hc x hx (hwx x hx)
    cases hel : extractL rb W xs with
    | none => simp [hel, finishList] at h
    | some rs =>
      rw [hel] at h
      exact inv_list rb hrb W U aux xs hc.wf (fun x hx => (hcx x hx).keys) rs (ih hcx rs hel) p P h
  -- product
  · intro aux a b iha ihb hc p P h
    simp only [extract] at h
    have hw := hc.wf
    have hw' := hw
    simp only [WF, Bool.and_eq_true] at hw'
    have ca := ctx_child W U _ aux _ hc a (by simp) hw'.1.1.1.1
    have cb := ctx_child W U _ aux _ hc b (by simp) hw'.1.1.1.2
    have hdis : disjointArgs a b = true := by
      have := hc.ma
      simp only [MA, Bool.and_eq_true] at this
      exact this.1
    cases hea : extract rb W a with
    | none => simp [hea, finishProduct] at h
    | some ra =>
      cases heb : extract rb W b with
      | none => simp [hea, heb, finishProduct] at h
      | some rb' =>
        rw [hea, heb] at h
        exact inv_product rb hrb W U aux a b hw ca.keys cb.keys hdis ra rb' (iha ca ra.1 ra.2 hea) (ihb cb rb'.1 rb'.2 heb) p P h
  -- inner, outer, dot: outside the evaluated fragment
  · intro aux a b _ _ hc; have := hc.wf; simp [WF, mathName] at this
  · intro aux a b _ _ hc; have := hc.wf; simp [WF, mathName] at this
  · intro aux a b _ _ hc; have := hc.wf; simp [WF, mathName] at this
  -- restrictions
  · intro aux a ih hc p P h
    simp only [extract] at h
    have hw := hc.wf
    simp only [WF] at hw
    have ca := ctx_child W U _ aux _ hc a (by simp) hw
    exact inv_restricted rb hrb W U _ .plus (Or.inl ⟨rfl, rfl⟩) aux a _ (fun p' P' e => ih ca p' P' e) p P h
  · intro aux a ih hc p P h
    simp only [extract] at h
    have hw := hc.wf
    simp only [WF] at hw
    have ca := ctx_child W U _ aux _ hc a (by simp) hw
    exact inv_restricted rb hrb W U _ .minus (Or.inr ⟨rfl, rfl⟩) aux a _ (fun p' P' e => ih ca p' P' e) p P h
  -- cell / facet averages: outside the evaluated fragment
  · intro aux a _ hc; have := hc.wf; simp [WF, mathName] at this
  · intro aux a _ hc; have := hc.wf; simp [WF, mathName] at this
  -- grad
  · intro aux a _ hc p P h
    simp only [extract] at h
    exact inv_grad rb W U hW hWU aux a hc p P h
  -- conj real imag
  · intro aux a ih hc p P h
    simp only [extract] at h
    have hw := hc.wf
    simp only [WF] at hw
    have ca := ctx_child W U _ aux _ hc a (by simp) hw
    exact inv_fieldop rb hrb W U _ (fun ρ => ρ.conj) (Or.inl ⟨rfl, rfl⟩) aux a _ (fun p' P' e => ih ca p' P' e) p P h
  · intro aux a ih hc p P h
    simp only [extract] at h
    have hw := hc.wf
    simp only [WF] at hw
    have ca := ctx_child W U _ aux _ hc a (by simp) hw
    exact inv_fieldop rb hrb W U _ (fun ρ => ρ.re) (Or.inr (Or.inl ⟨rfl, rfl⟩)) aux a _ (fun p' P' e => ih ca p' P' e) p P h
  · intro aux a ih hc p P h
    simp only [extract] at h
    have hw := hc.wf
    simp only [WF] at hw
    have ca := ctx_child W U _ aux _ hc a (by simp) hw
    exact inv_fieldop rb hrb W U _ (fun ρ => ρ.im) (Or.inr (Or.inr ⟨rfl, rfl⟩)) aux a _ (fun p' P' e => ih ca p' P' e) p P h
  -- indexed
  · intro aux a i ih hc p P h
    simp only [extract] at h
    have hw := hc.wf
    cases i <;> simp only [WF, Bool.false_eq_true] at hw
    simp only [Bool.and_eq_true] at hw
    have ca := ctx_child W U _ aux _ hc a (by simp) hw.1.1.1
    exact inv_indexed rb hrb W U aux a _ _ (fun p' P' e => ih ca p' P' e) p P h
  -- index sum
  · intro aux a i ih hc p P h
    simp only [extract] at h
    have hw := hc.wf
    cases i with
    | mi is =>
      cases is with
      | nil => simp [WF] at hw
      | cons j js =>
        cases j with
        | fixed v => simp [WF] at hw
        | free j =>
          cases js with
          | cons _ _ => simp [WF] at hw
          | nil =>
            simp only [WF, Bool.and_eq_true] at hw
            have ca := ctx_child W U _ aux _ hc a (by simp) hw.1
            exact inv_indexSum rb hrb W U aux a j _ (fun p' P' e => ih ca p' P' e) p P h
    | _ => simp [WF] at hw
  -- component tensor
  · intro aux a i ih hc p P h
    simp only [extract] at h
    have hw := hc.wf
    cases i <;> simp only [WF, Bool.false_eq_true] at hw
    simp only [Bool.and_eq_true] at hw
    have ca := ctx_child W U _ aux _ hc a (by simp) hw.1.1
    exact inv_componentTensor rb hrb W U aux a _ _ (fun p' P' e => ih ca p' P' e) p P h
  -- any other operator over an Argument: refused
  · intro aux args k
    intros
    rename_i h
    unfold extract at h
    split at h <;> simp_all
  -- any other operator without Arguments
  · intro aux args k _ hna
    intros
    rename_i hc p P h
    have hna' : hasArgL args = false := by simpa using hna
    have hres : p = .op k aux args ∧ P = [] := by
      unfold extract at h
      split at h <;> simp_all
    obtain ⟨rfl, rfl⟩ := hres
    exact inv_argfree W U _ hc.wf hc.keys (fun a => by rw [occ_op]; exact occL_of_not_hasArgL args hna' a)
  -- literals, zeros, multi-indices
  · intro t h1 h2 hc p P h
    have hres : p = t ∧ P = [] := by
      cases t <;> simp_all [extract]
    obtain ⟨rfl, rfl⟩ := hres
    exact inv_argfree W U _ hc.wf hc.keys (occ_atom _ (fun k aux args e => h2 k aux args e) (fun d e => h1 d e))
  -- lists
  · intro _ rs h
    simp only [extractL, Option.some.injEq] at h
    subst h
    exact .nil
  · intro a as r rs' hes hea iha ihas hc rs h
    simp only [extractL, hea, hes, Option.some.injEq] at h
    subst h
    exact .cons (iha (hc a (by simp)) r.1 r.2 hea) (ihas (fun x hx => hc x (by simp [hx])) rs' hes)
  · intro a as hn _ _ _ rs h
    exfalso
    cases hea : extract rb W a with
    | none => simp [extractL, hea] at h
    | some r =>
      cases hes : extractL rb W as with
      | none => simp [extractL, hea, hes] at h
      | some rs' => exact hn r rs' hea hes

/-! ### a multi-affine expression is affine in every Argument -/

instance : Add (ArgVal K) := ⟨fun x y => ⟨fun s c => x.t s c + y.t s c, fun s c ds => x.j s c ds + y.j s c ds⟩⟩
instance : Zero (ArgVal K) := ⟨⟨fun _ _ => 0, fun _ _ _ => 0⟩⟩

theorem argval_add_t (x y : ArgVal K) (s : Side) (c : List Nat) : (x + y).t s c = x.t s c + y.t s c := rfl
theorem argval_add_j (x y : ArgVal K) (s : Side) (c ds : List Nat) : (x + y).j s c ds = x.j s c ds + y.j s c ds := rfl
theorem argval_zero_t (s : Side) (c : List Nat) : (0 : ArgVal K).t s c = 0 := rfl
theorem argval_zero_j (s : Side) (c ds : List Nat) : (0 : ArgVal K).j s c ds = 0 := rfl

theorem AddEnv.add {ρ : Env K} (h : AddEnv ρ) : (∀ x y, ρ.conj (x + y) = ρ.conj x + ρ.conj y) ∧
    (∀ x y, ρ.re (x + y) = ρ.re x + ρ.re y) ∧ (∀ x y, ρ.im (x + y) = ρ.im x + ρ.im y) := by
  refine ⟨fun x y => ?_, fun x y => ?_, fun x y => ?_⟩
  · have := h.conj (x + y) y; simp only [add_sub_cancel_right] at this; rw [this]; ring
  · have := h.re (x + y) y; simp only [add_sub_cancel_right] at this; rw [this]; ring
  · have := h.im (x + y) y; simp only [add_sub_cancel_right] at this; rw [this]; ring

/-- the value is affine in the terminal `a`:  f(x + y) + f(0) = f(x) + f(y) -/
def Aff (a : String) (e : Expr) : Prop := ∀ (ρ : Env K), AddEnv ρ → ∀ (x y : ArgVal K) s ι c,
  eval (ρ.setKey a (x + y)) s ι e c + eval (ρ.setKey a 0) s ι e c = eval (ρ.setKey a x) s ι e c + eval (ρ.setKey a y) s ι e c

def AffL (a : String) (xs : List Expr) : Prop := ∀ (ρ : Env K), AddEnv ρ → ∀ (x y : ArgVal K) s ι n c,
  evalNth (ρ.setKey a (x + y)) s ι xs n c + evalNth (ρ.setKey a 0) s ι xs n c =
    evalNth (ρ.setKey a x) s ι xs n c + evalNth (ρ.setKey a y) s ι xs n c

theorem set_irrelevant (A : List String) (a : String) (ha : a ∈ A) (e : Expr) (hw : WF e = true) (hk : argKeysOK A e = true)
    (ho : occ e a = false) (ρ : Env K) (x : ArgVal K) (s : Side) (ι : IdxEnv) (c : List Nat) :
    eval (ρ.setKey a x) s ι e c = eval ρ s ι e c :=
  eval_setKey_irrelevant ρ a x s ι e c hw (not_key_of_not_occ A a ha e hk ho)

theorem aff_of_indep (a : String) (e : Expr) (h : ∀ (ρ : Env K) (x : ArgVal K) s ι c, eval (ρ.setKey a x) s ι e c = eval ρ s ι e c) :
    Aff (K := K) a e := by
  intro ρ _ x y s ι c
  rw [h, h, h, h]

theorem sumRange_add (n : Nat) (f g : Nat → K) : sumRange n (fun v => f v + g v) = sumRange n f + sumRange n g := by
  rw [sumRange_eq_sum, sumRange_eq_sum, sumRange_eq_sum, Finset.sum_add_distrib]

/-- the hypotheses carried along the traversal for the affinity lemma -/
structure Ctx' (A : List String) (e : Expr) : Prop where
  wf : WF e = true
  ma : MA e = true
  keys : argKeysOK A e = true

theorem ctx'_child (A : List String) (k : Op) (aux : List Nat) (args : List Expr) (h : Ctx' A (.op k aux args))
    (x : Expr) (hx : x ∈ args) (hw : WF x = true) : Ctx' A x := by
  refine ⟨hw, ?_, ?_⟩
  · have := h.ma
    simp only [MA, Bool.and_eq_true] at this
    exact MAL_mem args this.2 x hx
  · have := h.keys
    simp only [argKeysOK] at this
    exact argKeysOKL_mem _ args this x hx

theorem aff_all (A : List String) (a : String) (ha : a ∈ A) :
    (∀ e : Expr, Ctx' A e → Aff (K := K) a e) ∧ (∀ xs : List Expr, (∀ x ∈ xs, Ctx' A x) → AffL (K := K) a xs) := by
  apply extract.mutual_induct rbPlain []
    (motive_1 := fun e => Ctx' A e → Aff (K := K) a e)
    (motive_2 := fun xs => (∀ x ∈ xs, Ctx' A x) → AffL (K := K) a xs)
  -- terminals
  · intro d _ _ _ ρ _ x y s ι c
    simp only [eval, Env.setKey]
    split
    · rfl
    · split
      · rfl
      · by_cases h : d.key = a <;> simp [h, argval_add_t, argval_zero_t]
  · intro d _ _ _ ρ _ x y s ι c
    simp only [eval, Env.setKey]
    split
    · rfl
    · split
      · rfl
      · by_cases h : d.key = a <;> simp [h, argval_add_t, argval_zero_t]
  · intro d _ _ ρ _ x y s ι c
    simp only [eval, Env.setKey]
    split
    · rfl
    · split
      · rfl
      · by_cases h : d.key = a <;> simp [h, argval_add_t, argval_zero_t]
  -- variable
  · intro aux e l ih hc ρ hρ x y s ι c
    have hw := hc.wf
    cases l <;> simp only [WF, Bool.false_eq_true] at hw
    have := ih (ctx'_child A _ aux _ hc e (by simp) hw) ρ hρ x y s ι c
    simpa [eval] using this
  -- sum
  · intro aux e1 e2 ih1 ih2 hc ρ hρ x y s ι c
    have hw := hc.wf
    simp only [WF, Bool.and_eq_true] at hw
    have h1 := ih1 (ctx'_child A _ aux _ hc e1 (by simp) hw.1.1.1) ρ hρ x y s ι c
    have h2 := ih2 (ctx'_child A _ aux _ hc e2 (by simp) hw.1.1.2) ρ hρ x y s ι c
    simp only [eval]
    linear_combination h1 + h2
  -- division
  · intro aux e1 e2 hb hc
    exfalso
    have := hc.ma
    simp only [MA, Bool.and_eq_true, Bool.not_eq_true'] at this
    rw [this.1] at hb
    exact Bool.false_ne_true hb
  · intro aux e1 e2 hb ih hc ρ hρ x y s ι c
    have hw := hc.wf
    simp only [WF, Bool.and_eq_true] at hw
    have c2 := ctx'_child A _ aux _ hc e2 (by simp) hw.1.1.2
    have h1 := ih (ctx'_child A _ aux _ hc e1 (by simp) hw.1.1.1) ρ hρ x y s ι c
    have hi := fun z => set_irrelevant A a ha e2 c2.wf c2.keys (occ_of_not_hasArg e2 (by simpa using hb) a) ρ z s ι c
    simp only [eval, hi]
    rw [← add_div, ← add_div, h1]
  -- list tensor
  · intro aux xs ih hc ρ hρ x y s ι c
    have hwx : ∀ z ∈ xs, WF z = true := by
      have hw := hc.wf
      cases xs with
      | nil => simp [WF] at hw
      | cons x0 rest =>
        simp only [WF, Bool.and_eq_true] at hw
        intro z hz
        cases List.mem_cons.mp hz with
        | inl e => subst e; exact hw.1.1
        | inr e =>
          have : ∀ (ys : List Expr), WFL ys = true → ∀ y ∈ ys, WF y = true := by
            intro ys
            induction ys with
            | nil => intro _ y hy; simp at hy
            | cons z zs ih =>
              intro hz y hy
              simp only [WFL, Bool.and_eq_true] at hz
              cases List.mem_cons.mp hy with
              | inl e => subst e; exact hz.1
              | inr e => exact ih hz.2 y e
          exact this rest hw.1.2 z e
    have hl := ih (fun z hz => ctx'_child A _ aux _ hc z hz (hwx z hz)) ρ hρ x y s ι
    cases c with
    | nil => simp [eval]
    | cons v c' => simpa [eval] using hl v c'
  -- product
  · intro aux e1 e2 ih1 ih2 hc ρ hρ x y s ι c
    have hw := hc.wf
    simp only [WF, Bool.and_eq_true] at hw
    have c1 := ctx'_child A _ aux _ hc e1 (by simp) hw.1.1.1.1
    have c2 := ctx'_child A _ aux _ hc e2 (by simp) hw.1.1.1.2
    have hdis : disjointArgs e1 e2 = true := by
      have := hc.ma
      simp only [MA, Bool.and_eq_true] at this
      exact this.1
    have h1 := ih1 c1 ρ hρ x y s ι []
    have h2 := ih2 c2 ρ hρ x y s ι []
    simp only [eval]
    cases ho2 : occ e2 a
    · have hi := fun z => set_irrelevant A a ha e2 c2.wf c2.keys ho2 ρ z s ι []
      rw [hi, hi, hi, hi]
      linear_combination (eval ρ s ι e2 []) * h1
    · have ho1 : occ e1 a = false := by
        cases ho1 : occ e1 a
        · rfl
        · exact absurd ⟨ho1, ho2⟩ (disjointArgs_spec e1 e2 hdis a)
      have hi := fun z => set_irrelevant A a ha e1 c1.wf c1.keys ho1 ρ z s ι []
      rw [hi, hi, hi, hi]
      linear_combination (eval ρ s ι e1 []) * h2
  -- inner, outer, dot
  · intro aux e1 e2 _ _ hc; have := hc.wf; simp [WF] at this
  · intro aux e1 e2 _ _ hc; have := hc.wf; simp [WF] at this
  · intro aux e1 e2 _ _ hc; have := hc.wf; simp [WF] at this
  -- restrictions
  · intro aux e ih hc ρ hρ x y s ι c
    have hw := hc.wf
    simp only [WF] at hw
    have := ih (ctx'_child A _ aux _ hc e (by simp) hw) ρ hρ x y .plus ι c
    simpa [eval] using this
  · intro aux e ih hc ρ hρ x y s ι c
    have hw := hc.wf
    simp only [WF] at hw
    have := ih (ctx'_child A _ aux _ hc e (by simp) hw) ρ hρ x y .minus ι c
    simpa [eval] using this
  -- cell / facet averages
  · intro aux e _ hc; have := hc.wf; simp [WF, mathName] at this
  · intro aux e _ hc; have := hc.wf; simp [WF, mathName] at this
  -- grad
  · intro aux e _ hc ρ _ x y s ι c
    have hw := hc.wf
    simp only [WF, Option.isSome_iff_exists] at hw
    obtain ⟨⟨d, k⟩, hk⟩ := hw
    simp only [eval_grad_chain _ _ _ _ _ _ _ hk, Env.setKey]
    by_cases h : d.key = a <;> simp [h, argval_add_j, argval_zero_j]
  -- conj real imag
  · intro aux e ih hc ρ hρ x y s ι c
    have hw := hc.wf
    simp only [WF] at hw
    have := ih (ctx'_child A _ aux _ hc e (by simp) hw) ρ hρ x y s ι c
    simp only [eval]
    show ρ.conj _ + ρ.conj _ = ρ.conj _ + ρ.conj _
    rw [← hρ.add.1, ← hρ.add.1, this]
  · intro aux e ih hc ρ hρ x y s ι c
    have hw := hc.wf
    simp only [WF] at hw
    have := ih (ctx'_child A _ aux _ hc e (by simp) hw) ρ hρ x y s ι c
    simp only [eval]
    show ρ.re _ + ρ.re _ = ρ.re _ + ρ.re _
    rw [← hρ.add.2.1, ← hρ.add.2.1, this]
  · intro aux e ih hc ρ hρ x y s ι c
    have hw := hc.wf
    simp only [WF] at hw
    have := ih (ctx'_child A _ aux _ hc e (by simp) hw) ρ hρ x y s ι c
    simp only [eval]
    show ρ.im _ + ρ.im _ = ρ.im _ + ρ.im _
    rw [← hρ.add.2.2, ← hρ.add.2.2, this]
  -- indexed
  · intro aux e i ih hc ρ hρ x y s ι c
    have hw := hc.wf
    cases i <;> simp only [WF, Bool.false_eq_true] at hw
    simp only [Bool.and_eq_true] at hw
    have := ih (ctx'_child A _ aux _ hc e (by simp) hw.1.1.1) ρ hρ x y s ι
    simp only [eval]
    exact this _
  -- index sum
  · intro aux e i ih hc ρ hρ x y s ι c
    have hw := hc.wf
    cases i with
    | mi is =>
      cases is with
      | nil => simp [WF] at hw
      | cons j js =>
        cases j with
        | fixed v => simp [WF] at hw
        | free j =>
          cases js with
          | cons _ _ => simp [WF] at hw
          | nil =>
            simp only [WF, Bool.and_eq_true] at hw
            have := ih (ctx'_child A _ aux _ hc e (by simp) hw.1) ρ hρ x y s
            simp only [eval]
            rw [← sumRange_add, ← sumRange_add]
            congr 1
            funext v
            exact this _ c
    | _ => simp [WF] at hw
  -- component tensor
  · intro aux e i ih hc ρ hρ x y s ι c
    have hw := hc.wf
    cases i <;> simp only [WF, Bool.false_eq_true] at hw
    simp only [Bool.and_eq_true] at hw
    have := ih (ctx'_child A _ aux _ hc e (by simp) hw.1.1) ρ hρ x y s
    simp only [eval]
    exact this _ _
  -- any other operator over an Argument: not multi-affine
  · intro aux args k hnl hna
    intros
    rename_i hc
    exfalso
    have := hc.ma
    simp only [MA, Bool.and_eq_true] at this
    have h1 := this.1
    have hh : handled k args = false := by
      unfold handled
      split <;> simp_all
    simp [hh, hna] at h1
  -- any other operator without Arguments
  · intro aux args k _ hna
    intros
    rename_i hc
    have hna' : hasArgL args = false := by simpa using hna
    apply aff_of_indep
    intro ρ x s ι c
    exact set_irrelevant A a ha _ hc.wf hc.keys (by rw [occ_op]; exact occL_of_not_hasArgL args hna' a) ρ x s ι c
  -- literals, zeros, multi-indices
  · intro t h1 h2 hc
    apply aff_of_indep
    intro ρ x s ι c
    exact set_irrelevant A a ha _ hc.wf hc.keys (occ_atom _ (fun k aux args e => h2 k aux args e) (fun d e => h1 d e) a) ρ x s ι c
  -- lists
  · intro _ ρ _ x y s ι n c
    simp [evalNth]
  · intro e es r rs' _ _ ihe ihes hc ρ hρ x y s ι n c
    cases n with
    | zero => simpa [evalNth] using ihe (hc e (by simp)) ρ hρ x y s ι c
    | succ m => simpa [evalNth] using ihes (fun z hz => hc z (by simp [hz])) ρ hρ x y s ι m c
  · intro e es _ ihe ihes hc ρ hρ x y s ι n c
    cases n with
    | zero => simpa [evalNth] using ihe (hc e (by simp)) ρ hρ x y s ι c
    | succ m => simpa [evalNth] using ihes (fun z hz => hc z (by simp [hz])) ρ hρ x y s ι m c

end UflVerif.MA
