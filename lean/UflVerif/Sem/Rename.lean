/-
Free-index lists under an injective renaming of index counts: `Ren σ f g` says that `g` is `f`
with every count `i` replaced by `σ i` (same extents, nothing else).  The relation is preserved by
insert / merge / remove, is realised by `renameFI`, and determines `g` among sorted lists.
Also: the consistency check of `Indexed.__init__` (`indexedFI`) is invariant under renaming.
-/
import Mathlib.Logic.Function.Basic
import UflVerif.Props.C05
import UflVerif.Props.C21
import UflVerif.Model.IndexPasses

namespace UflVerif
namespace Expr
namespace Rename
open FIlemmas

/-- `g` is `f` renamed by `σ` -/
structure Ren (σ : Nat → Nat) (f g : FI) : Prop where
  has : ∀ i, FI.has (σ i) g = FI.has i f
  dim : ∀ i, FI.dimOf (σ i) g = FI.dimOf i f
  img : ∀ k, FI.has k g = true → ∃ i, k = σ i

variable {σ : Nat → Nat}

theorem beq_inj (hσ : Function.Injective σ) (a b : Nat) : (σ a == σ b) = (a == b) := by
  by_cases h : a = b
  · subst h; simp
  · have : ¬ σ a = σ b := fun e => h (hσ e)
    simp [h, this]

theorem decide_inj (hσ : Function.Injective σ) (a b : Nat) : decide (σ a = σ b) = decide (a = b) := by
  by_cases h : a = b
  · subst h; simp
  · have : ¬ σ a = σ b := fun e => h (hσ e)
    simp [h, this]

@[simp] theorem renameIdxI_free (σ : Nat → Nat) (c : Nat) : renameIdxI σ (.free c) = .free (σ c) := rfl
@[simp] theorem renameIdxI_fixed (σ : Nat → Nat) (v : Nat) : renameIdxI σ (.fixed v) = .fixed v := rfl

theorem has_nil (k : Nat) : FI.has k [] = false := rfl

theorem ren_nil : Ren σ [] [] := ⟨fun _ => rfl, fun _ => rfl, fun k hk => by simp [FI.has] at hk⟩

theorem ren_nil_eq {g : FI} (h : Ren σ [] g) : g = [] := by
  cases g with
  | nil => rfl
  | cons q qs =>
    have hq : FI.has q.1 (q :: qs) = true := by simp [FI.has]
    obtain ⟨i, hi⟩ := h.img q.1 hq
    rw [hi, h.has i] at hq
    cases hq

theorem ren_insert (hσ : Function.Injective σ) {f g : FI} (sf : Sorted f) (sg : Sorted g) (h : Ren σ f g)
    (p : Nat × Nat) : Ren σ (FI.insert p f) (FI.insert (σ p.1, p.2) g) := by
  refine ⟨fun i => ?_, fun i => ?_, fun k hk => ?_⟩
  · rw [has_insert, has_insert, h.has]
    simp only [decide_inj hσ]
  · rw [dimOf_insert _ _ _ sg, dimOf_insert _ _ _ sf, h.has, h.dim]
    simp only [hσ.eq_iff]
  · rw [has_insert] at hk
    simp only [Bool.or_eq_true, decide_eq_true_eq] at hk
    rcases hk with hk | hk
    · exact ⟨p.1, hk⟩
    · exact h.img k hk

theorem ren_foldl_insert (hσ : Function.Injective σ) : ∀ (ps : List (Nat × Nat)) {f g : FI}, Sorted f → Sorted g → Ren σ f g →
    Ren σ (ps.foldl (fun acc p => FI.insert p acc) f)
      ((ps.map fun p => (σ p.1, p.2)).foldl (fun acc p => FI.insert p acc) g)
  | [], _, _, _, _, h => h
  | p :: ps, _, _, sf, sg, h => by
    simp only [List.map_cons, List.foldl_cons]
    exact ren_foldl_insert hσ ps (insert_sorted p _ sf) (insert_sorted _ _ sg) (ren_insert hσ sf sg h p)

theorem ren_merge {fa fb ga gb : FI} (sfa : Sorted fa) (sga : Sorted ga) (ha : Ren σ fa ga) (hb : Ren σ fb gb) :
    Ren σ (FI.merge fa fb) (FI.merge ga gb) := by
  refine ⟨fun i => ?_, fun i => ?_, fun k hk => ?_⟩
  · rw [has_merge, has_merge, ha.has, hb.has]
  · rw [C05.merge_dim _ _ sga, C05.merge_dim _ _ sfa, ha.has, ha.dim, hb.dim]
  · rw [has_merge] at hk
    simp only [Bool.or_eq_true] at hk
    rcases hk with hk | hk
    · exact ha.img k hk
    · exact hb.img k hk

theorem ren_remove (hσ : Function.Injective σ) {f g : FI} (h : Ren σ f g) (j : Nat) :
    Ren σ (FI.remove j f) (FI.remove (σ j) g) := by
  refine ⟨fun i => ?_, fun i => ?_, fun k hk => ?_⟩
  · rw [has_remove, has_remove, h.has]
    simp only [ne_eq, hσ.eq_iff]
  · by_cases hij : i = j
    · subst hij; rw [C05.dimOf_remove_self, C05.dimOf_remove_self]
    · rw [dimOf_remove _ _ (fun e => hij (hσ e)), dimOf_remove _ _ hij, h.dim]
  · rw [has_remove] at hk
    simp only [Bool.and_eq_true] at hk
    exact h.img k hk.1

theorem ren_foldl_remove (hσ : Function.Injective σ) : ∀ (cs : List Nat) {f g : FI}, Ren σ f g →
    Ren σ (cs.foldl (fun acc c => FI.remove c acc) f) ((cs.map σ).foldl (fun acc c => FI.remove c acc) g)
  | [], _, _, h => h
  | c :: cs, _, _, h => by
    simp only [List.map_cons, List.foldl_cons]
    exact ren_foldl_remove hσ cs (ren_remove hσ h c)

theorem dimOf_map (hσ : Function.Injective σ) (i : Nat) : ∀ f : FI,
    FI.dimOf (σ i) (f.map fun p => (σ p.1, p.2)) = FI.dimOf i f
  | [] => rfl
  | p :: ps => by
    simp only [List.map_cons, dimOf_cons, hσ.eq_iff, dimOf_map hσ i ps]

theorem renameFI_sorted (σ : Nat → Nat) (f : FI) : Sorted (renameFI σ f) :=
  foldl_insert_sorted _ _ sorted_nil

theorem ren_renameFI (hσ : Function.Injective σ) (f : FI) : Ren σ f (renameFI σ f) := by
  refine ⟨fun i => ?_, fun i => ?_, fun k hk => ?_⟩
  · unfold renameFI
    rw [has_foldl_insert]
    simp only [FI.has, List.any_nil, Bool.false_or, List.any_map]
    congr 1
    funext p
    simp only [Function.comp, beq_inj hσ]
  · unfold renameFI
    rw [dimOf_foldl_insert_nothas _ _ _ sorted_nil (has_nil _), dimOf_map hσ]
  · unfold renameFI at hk
    rw [has_foldl_insert] at hk
    simp only [has_nil, Bool.false_or, List.any_map, List.any_eq_true, Function.comp, beq_iff_eq] at hk
    obtain ⟨p, _, hp⟩ := hk
    exact ⟨p.1, hp.symm⟩

/-- sorted free-index lists are determined by membership and extents -/
theorem sorted_ext : ∀ (f g : FI), Sorted f → Sorted g → (∀ k, FI.has k f = FI.has k g) →
    (∀ k, FI.dimOf k f = FI.dimOf k g) → f = g
  | [], [], _, _, _, _ => rfl
  | [], q :: qs, _, _, hh, _ => by
    have := hh q.1
    simp [FI.has] at this
  | p :: ps, [], _, _, hh, _ => by
    have := hh p.1
    simp [FI.has] at this
  | p :: ps, q :: qs, sf, sg, hh, hd => by
    have hf := List.pairwise_cons.mp sf
    have hg := List.pairwise_cons.mp sg
    have hp_ps : FI.has p.1 ps = false := not_has_of_lt p.1 ps hf.1
    have hq_qs : FI.has q.1 qs = false := not_has_of_lt q.1 qs hg.1
    have e1 : p.1 = q.1 := by
      rcases Nat.lt_trichotomy p.1 q.1 with h | h | h
      · have h1 : FI.has p.1 (q :: qs) = false :=
          not_has_of_lt p.1 (q :: qs) (fun r hr => by
            cases List.mem_cons.mp hr with
            | inl e => rw [e]; exact h
            | inr e => exact Nat.lt_trans h (hg.1 r e))
        have h2 : FI.has p.1 (p :: ps) = true := by simp [FI.has]
        rw [hh, h1] at h2; cases h2
      · exact h
      · have h1 : FI.has q.1 (p :: ps) = false :=
          not_has_of_lt q.1 (p :: ps) (fun r hr => by
            cases List.mem_cons.mp hr with
            | inl e => rw [e]; exact h
            | inr e => exact Nat.lt_trans h (hf.1 r e))
        have h2 : FI.has q.1 (q :: qs) = true := by simp [FI.has]
        rw [← hh, h1] at h2; cases h2
    have e2 : p.2 = q.2 := by
      have := hd p.1
      rw [dimOf_cons, dimOf_cons] at this
      simpa [e1] using this
    have epq : p = q := Prod.ext e1 e2
    subst epq
    have htail : ps = qs := by
      apply sorted_ext ps qs hf.2 hg.2
      · intro k
        by_cases hk : k = p.1
        · subst hk; rw [hp_ps, hq_qs]
        · have := hh k
          have hne : (p.1 == k) = false := by simp; exact fun e => hk e.symm
          simpa [FI.has, hne] using this
      · intro k
        by_cases hk : k = p.1
        · subst hk; rw [C05.dim_nothas _ _ hp_ps, C05.dim_nothas _ _ hq_qs]
        · have := hd k
          have hne : ¬ p.1 = k := fun e => hk e.symm
          rw [dimOf_cons, dimOf_cons] at this
          simpa [hne] using this
    rw [htail]

/-- two sorted renamings of one list coincide -/
theorem ren_unique {f g g' : FI} (h : Ren σ f g) (h' : Ren σ f g') (sg : Sorted g) (sg' : Sorted g') : g = g' := by
  have key : ∀ {a b : FI}, Ren σ f a → Ren σ f b → ∀ k, FI.has k a = true → FI.has k b = true ∧ FI.dimOf k a = FI.dimOf k b := by
    intro a b ha hb k hk
    obtain ⟨i, rfl⟩ := ha.img k hk
    rw [ha.has] at hk
    exact ⟨by rw [hb.has]; exact hk, by rw [ha.dim, hb.dim]⟩
  apply sorted_ext g g' sg sg'
  · intro k
    cases hk : FI.has k g with
    | true => exact ((key h h' k hk).1).symm
    | false =>
      cases hk' : FI.has k g' with
      | false => rfl
      | true => rw [(key h' h k hk').1] at hk; cases hk
  · intro k
    cases hk : FI.has k g with
    | true => exact (key h h' k hk).2
    | false =>
      cases hk' : FI.has k g' with
      | false => rw [C05.dim_nothas _ _ hk, C05.dim_nothas _ _ hk']
      | true => rw [(key h' h k hk').1] at hk; cases hk

theorem ren_dimsAgree {fa fb ga gb : FI} (ha : Ren σ fa ga) (hb : Ren σ fb gb) (h : DimsAgree fa fb) : DimsAgree ga gb := by
  intro k hka hkb
  obtain ⟨i, rfl⟩ := ha.img k hka
  rw [ha.has] at hka
  rw [hb.has] at hkb
  rw [ha.dim, hb.dim]
  exact h i hka hkb

/-! ### the consistency check of `Indexed.__init__` -/

theorem insertChecked_isSome (p : Nat × Nat) : ∀ (f : FI), Sorted f →
    (FI'.insertChecked p f).isSome = (!FI.has p.1 f || FI.dimOf p.1 f == p.2)
  | [], _ => by simp [FI'.insertChecked, FI.has]
  | q :: qs, hs => by
    have hh := List.pairwise_cons.mp hs
    unfold FI'.insertChecked
    split
    · rename_i hlt
      have : FI.has p.1 (q :: qs) = false := by
        apply not_has_of_lt
        intro r hr
        cases List.mem_cons.mp hr with
        | inl e => rw [e]; exact hlt
        | inr e => exact Nat.lt_trans hlt (hh.1 r e)
      simp [this]
    · split
      · rename_i h1 h2
        have : FI.has p.1 (q :: qs) = true := by simp [FI.has, h2]
        rw [this, dimOf_cons]
        by_cases h3 : p.2 = q.2
        · simp [h2, h3]
        · have h4 : ¬ q.2 = p.2 := fun e => h3 e.symm
          simp [h2, h3, h4]
      · rename_i h1 h2
        have hne : ¬ q.1 = p.1 := fun e => h2 e.symm
        have hb : (q.1 == p.1) = false := by simp [hne]
        rw [Option.isSome_map, insertChecked_isSome p qs hh.2, dimOf_cons]
        simp [FI.has, hb, hne]

/-- one step of the fold in `indexedFI` -/
def ixStep (sh : List Nat) (acc : Option FI) (p : Idx × Nat) : Option FI :=
  match acc, p.1 with
  | none, _ => none
  | some f, .free c => (match sh[p.2]? with
      | some d => FI'.insertChecked (c, d) f
      | none => none)
  | some f, .fixed _ => some f

theorem indexedFI_fold (base : FI) (sh : List Nat) (is : List Idx) :
    indexedFI base sh is = (is.zipIdx).foldl (ixStep sh) (some base) := rfl

theorem ixFold_none (sh : List Nat) : ∀ ps : List (Idx × Nat), ps.foldl (ixStep sh) none = none
  | [] => rfl
  | p :: ps => by simp only [List.foldl_cons, ixStep]; exact ixFold_none sh ps

theorem ixFold_ren (hσ : Function.Injective σ) (sh : List Nat) : ∀ (ps : List (Idx × Nat)) (f g : FI),
    Sorted f → Sorted g → Ren σ f g → (ps.foldl (ixStep sh) (some f)).isSome = true →
    ((ps.map fun p => (renameIdxI σ p.1, p.2)).foldl (ixStep sh) (some g)).isSome = true
  | [], _, _, _, _, _, _ => rfl
  | (.fixed v, k) :: ps, f, g, sf, sg, h, hs => by
    simp only [List.map_cons, List.foldl_cons, ixStep, renameIdxI_fixed] at hs ⊢
    exact ixFold_ren hσ sh ps f g sf sg h hs
  | (.free c, k) :: ps, f, g, sf, sg, h, hs => by
    simp only [List.map_cons, List.foldl_cons, ixStep, renameIdxI_free] at hs ⊢
    cases hk : sh[k]? with
    | none => rw [hk] at hs; simp only [ixFold_none] at hs; cases hs
    | some d =>
      rw [hk] at hs
      simp only at hs ⊢
      cases hi : FI'.insertChecked (c, d) f with
      | none => rw [hi] at hs; simp only [ixFold_none] at hs; cases hs
      | some f' =>
        rw [hi] at hs
        have hsome : (FI'.insertChecked (σ c, d) g).isSome = true := by
          rw [insertChecked_isSome _ _ sg]
          have := insertChecked_isSome (c, d) f sf
          rw [hi] at this
          simp only [Option.isSome_some] at this
          simp only [h.has, h.dim]
          exact this.symm
        obtain ⟨g', hg'⟩ := Option.isSome_iff_exists.mp hsome
        rw [hg']
        have e1 := C05.insertChecked_eq _ _ _ hi
        have e2 := C05.insertChecked_eq _ _ _ hg'
        subst e1 e2
        exact ixFold_ren hσ sh ps _ _ (insert_sorted _ _ sf) (insert_sorted _ _ sg) (ren_insert hσ sf sg h (c, d)) hs

theorem zipIdx_rename (σ : Nat → Nat) (is : List Idx) :
    (is.map (renameIdxI σ)).zipIdx = is.zipIdx.map fun p => (renameIdxI σ p.1, p.2) := by
  rw [List.zipIdx_map]
  rfl

theorem indexedFI_ren (hσ : Function.Injective σ) (sh : List Nat) (is : List Idx) {f g : FI} (sf : Sorted f) (sg : Sorted g)
    (h : Ren σ f g) (hs : (indexedFI f sh is).isSome = true) : (indexedFI g sh (is.map (renameIdxI σ))).isSome = true := by
  rw [indexedFI_fold] at hs ⊢
  rw [zipIdx_rename]
  exact ixFold_ren hσ sh _ f g sf sg h hs

/-! ### multi-indices -/

theorem idxPairs_rename (σ : Nat → Nat) (sh : List Nat) : ∀ ps : List (Idx × Nat),
    idxPairs sh (ps.map fun p => (renameIdxI σ p.1, p.2)) = (idxPairs sh ps).map fun p => (σ p.1, p.2)
  | [] => rfl
  | (.fixed v, k) :: ps => by simp only [List.map_cons, renameIdxI_fixed, idxPairs]; exact idxPairs_rename σ sh ps
  | (.free c, k) :: ps => by simp only [List.map_cons, renameIdxI_free, idxPairs, idxPairs_rename σ sh ps]

theorem fixedInRange_rename (σ : Nat → Nat) (sh : List Nat) (is : List Idx) :
    fixedInRange sh (is.map (renameIdxI σ)) = fixedInRange sh is := by
  unfold fixedInRange
  rw [zipIdx_rename, List.all_map]
  congr 1
  funext p
  obtain ⟨i, k⟩ := p
  cases i <;> rfl

theorem allFree_rename (σ : Nat → Nat) : ∀ is : List Idx,
    allFree (is.map (renameIdxI σ)) = (allFree is).map (List.map σ)
  | [] => rfl
  | .fixed v :: is => by simp [allFree]
  | .free c :: is => by
    simp only [List.map_cons, renameIdxI_free, allFree, allFree_rename σ is, Option.map_map]
    congr 1

theorem freeCounts_rename (σ : Nat → Nat) : ∀ is : List Idx,
    freeCounts (is.map (renameIdxI σ)) = (freeCounts is).map σ
  | [] => rfl
  | .fixed v :: is => by
    have := freeCounts_rename σ is
    simp only [freeCounts, List.map_cons, renameIdxI_fixed, List.filterMap_cons] at this ⊢
    exact this
  | .free c :: is => by
    have := freeCounts_rename σ is
    simp only [freeCounts, List.map_cons, renameIdxI_free, List.filterMap_cons] at this ⊢
    rw [this]

theorem nodupNat_map (hσ : Function.Injective σ) : ∀ cs : List Nat, nodupNat (cs.map σ) = nodupNat cs
  | [] => rfl
  | c :: cs => by
    simp only [List.map_cons, nodupNat, nodupNat_map hσ cs]
    congr 2
    induction cs with
    | nil => rfl
    | cons d ds ih => simp only [List.map_cons, List.contains_cons, ih, beq_inj hσ]

theorem resolve_rename (σ : Nat → Nat) (ι ι' : IdxEnv) (h : ∀ i, ι' (σ i) = ι i) : ∀ is : List Idx,
    (is.map (renameIdxI σ)).map (Idx.resolve ι') = is.map (Idx.resolve ι)
  | [] => rfl
  | .fixed v :: is => by simp only [List.map_cons, renameIdxI_fixed, Idx.resolve, resolve_rename σ ι ι' h is]
  | .free c :: is => by simp only [List.map_cons, renameIdxI_free, Idx.resolve, resolve_rename σ ι ι' h is, h c]

theorem bind_rename (hσ : Function.Injective σ) : ∀ (is : List Idx) (c : List Nat) (ι ι' : IdxEnv), (∀ i, ι' (σ i) = ι i) →
    ∀ i, (ι'.bind (is.map (renameIdxI σ)) c) (σ i) = (ι.bind is c) i
  | [], _, _, _, h, i => by simp only [List.map_nil, IdxEnv.bind]; exact h i
  | .fixed v :: is, [], _, _, h, i => by simp only [List.map_cons, renameIdxI_fixed, IdxEnv.bind]; exact h i
  | .free j :: is, [], _, _, h, i => by simp only [List.map_cons, renameIdxI_free, IdxEnv.bind]; exact h i
  | .fixed v :: is, x :: c, ι, ι', h, i => by
    simp only [List.map_cons, renameIdxI_fixed, IdxEnv.bind]
    exact bind_rename hσ is c ι ι' h i
  | .free j :: is, x :: c, ι, ι', h, i => by
    simp only [List.map_cons, renameIdxI_free, IdxEnv.bind]
    apply bind_rename hσ is c
    intro k
    simp only [IdxEnv.set, hσ.eq_iff, h k]

theorem set_rename (hσ : Function.Injective σ) (ι ι' : IdxEnv) (h : ∀ i, ι' (σ i) = ι i) (j v : Nat) :
    ∀ i, (ι'.set (σ j) v) (σ i) = (ι.set j v) i := by
  intro i
  simp only [IdxEnv.set, hσ.eq_iff, h i]

end Rename
end Expr
end UflVerif
