/-
Soundness of the arity abstraction (C14): if `arity e = ok A` then the value of `e` is additive and
(conjugate-)homogeneous in the data of every argument number listed in `A`.
Lemmas only; the property theorems are in Props/C14.lean.
-/
import UflVerif.Sem.ArityLemmas

namespace UflVerif
namespace Arity
open Expr

variable {K : Type} [Field K]

/-- conjugation of the environment is an involutive ring homomorphism (identity in a real field, `star` in ℂ) -/
structure ConjOK (ρ : Env K) : Prop where
  add : ∀ x y, ρ.conj (x + y) = ρ.conj x + ρ.conj y
  mul : ∀ x y, ρ.conj (x * y) = ρ.conj x * ρ.conj y
  inv : ∀ x, ρ.conj (ρ.conj x) = x

/-- the data of one linearity test: which keys are varied (`N`, the keys of the Argument terminals with
    number `n`), the scalar, and two assignments of values and derivative jets to those keys -/
structure LinTest (K : Type) where
  N : String → Bool
  n : Int
  s : K
  t1 : Side → String → List Nat → K
  j1 : Side → String → List Nat → List Nat → K
  t2 : Side → String → List Nat → K
  j2 : Side → String → List Nat → List Nat → K

namespace LinTest
/-- argument `n` := first data -/
def r1 (T : LinTest K) (ρ : Env K) : Env K := override ρ T.N T.t1 T.j1
/-- argument `n` := second data -/
def r2 (T : LinTest K) (ρ : Env K) : Env K := override ρ T.N T.t2 T.j2
/-- argument `n` := s • first + second -/
def r12 (T : LinTest K) (ρ : Env K) : Env K :=
  override ρ T.N (fun sd k c => T.s * T.t1 sd k c + T.t2 sd k c) (fun sd k c ds => T.s * T.j1 sd k c ds + T.j2 sd k c ds)
end LinTest

/-- `e` is additive and σ-homogeneous in the varied data -/
def Lin (ρ : Env K) (T : LinTest K) (σ : K) (e : Expr) : Prop :=
  ∀ side ι c, eval (T.r12 ρ) side ι e c = σ * eval (T.r1 ρ) side ι e c + eval (T.r2 ρ) side ι e c

/-- the scalar that comes out: conjugated iff the argument occurs conjugated -/
def flag (ρ : Env K) (b : Bool) (s : K) : K := if b then ρ.conj s else s

/-- the invariant: if the arity mentions number `n`, then `e` is linear in it with every scalar that
    is consistent with the conjugation flags of the entries with that number -/
def Good (ρ : Env K) (T : LinTest K) (e : Expr) (A : Ar) : Prop :=
  T.n ∈ numbers A → ∀ σ, (∀ p ∈ A, p.1.count = T.n → σ = flag ρ p.2 T.s) → Lin ρ T σ e

/-- what is known about an operand -/
def Opd (st : Bool) (ρ : Env K) (T : LinTest K) (a : Expr) (r : Ar) : Prop :=
  arity st a = .ok r ∧ shaped a = true ∧ tied T.N T.n a = true ∧ Good ρ T a r

theorem indep (ρ : Env K) (T : LinTest K) (e : Expr) (h : avoids T.N e = true) (side : Side) (ι : IdxEnv) (c : List Nat) :
    eval (T.r12 ρ) side ι e c = eval ρ side ι e c ∧ eval (T.r1 ρ) side ι e c = eval ρ side ι e c ∧
    eval (T.r2 ρ) side ι e c = eval ρ side ι e c :=
  ⟨eval_override ρ _ _ _ side ι e c h, eval_override ρ _ _ _ side ι e c h, eval_override ρ _ _ _ side ι e c h⟩

theorem indepB (ρ : Env K) (T : LinTest K) (p : Expr) (h : avoids T.N p = true) (side : Side) (ι : IdxEnv) :
    evalB (T.r12 ρ) side ι p = evalB ρ side ι p ∧ evalB (T.r1 ρ) side ι p = evalB ρ side ι p ∧
    evalB (T.r2 ρ) side ι p = evalB ρ side ι p :=
  ⟨evalB_override ρ _ _ _ side ι p h, evalB_override ρ _ _ _ side ι p h, evalB_override ρ _ _ _ side ι p h⟩

theorem Opd.avoids {st : Bool} {ρ : Env K} {T : LinTest K} {a : Expr} {r : Ar} (h : Opd st ρ T a r)
    (hn : T.n ∉ numbers r) : avoids T.N a = true :=
  avoids_of_arity st T.N T.n a r h.1 h.2.1 h.2.2.1 hn

/-! ### operators without interpretation in the semantics have value 0 -/

theorem eval_uninterp (ρ : Env K) (side : Side) (ι : IdxEnv) (k : Op) (aux : List Nat) (args : List Expr) (c : List Nat)
    (hk : k = .inner ∨ k = .dot ∨ k = .outer ∨ k = .cellAvg ∨ k = .facetAvg ∨ k = .referenceGrad ∨ k = .referenceValue) :
    eval ρ side ι (.op k aux args) c = 0 := by
  rcases hk with rfl | rfl | rfl | rfl | rfl | rfl | rfl <;> (unfold eval; split <;> simp_all [mathName])

theorem lin_uninterp (ρ : Env K) (T : LinTest K) (σ : K) (k : Op) (aux : List Nat) (args : List Expr)
    (hk : k = .inner ∨ k = .dot ∨ k = .outer ∨ k = .cellAvg ∨ k = .facetAvg ∨ k = .referenceGrad ∨ k = .referenceValue) :
    Lin ρ T σ (.op k aux args) := by
  intro side ι c
  rw [eval_uninterp _ _ _ _ _ _ _ hk, eval_uninterp _ _ _ _ _ _ _ hk, eval_uninterp _ _ _ _ _ _ _ hk]
  ring

/-! ### which operator types a handler serves -/

theorem handlerOf_sum {k : Op} (h : handlerOf k = .sum) : k = .sum := by
  cases k <;> simp [handlerOf] at h ⊢
theorem handlerOf_product {k : Op} (h : handlerOf k = .product) : k = .product := by
  cases k <;> simp [handlerOf] at h ⊢
theorem handlerOf_division {k : Op} (h : handlerOf k = .division) : k = .division := by
  cases k <;> simp [handlerOf] at h ⊢
theorem handlerOf_inner {k : Op} (h : handlerOf k = .inner) : k = .inner ∨ k = .dot := by
  cases k <;> simp [handlerOf] at h ⊢
theorem handlerOf_outer {k : Op} (h : handlerOf k = .outer) : k = .outer := by
  cases k <;> simp [handlerOf] at h ⊢
theorem handlerOf_conj {k : Op} (h : handlerOf k = .conj) : k = .conj := by
  cases k <;> simp [handlerOf] at h ⊢
theorem handlerOf_variable {k : Op} (h : handlerOf k = .variable) : k = .variable := by
  cases k <;> simp [handlerOf] at h ⊢
theorem handlerOf_conditional {k : Op} (h : handlerOf k = .conditional) : k = .conditional := by
  cases k <;> simp [handlerOf] at h ⊢
theorem handlerOf_listTensor {k : Op} (h : handlerOf k = .listTensor) : k = .listTensor := by
  cases k <;> simp [handlerOf] at h ⊢
theorem handlerOf_linearIndexed {k : Op} (h : handlerOf k = .linearIndexed) :
    k = .indexed ∨ k = .indexSum ∨ k = .componentTensor := by
  cases k <;> simp [handlerOf] at h ⊢
theorem handlerOf_linearOperator {k : Op} (h : handlerOf k = .linearOperator) :
    k = .positiveRestricted ∨ k = .negativeRestricted ∨ k = .grad ∨
    (k = .inner ∨ k = .dot ∨ k = .outer ∨ k = .cellAvg ∨ k = .facetAvg ∨ k = .referenceGrad ∨ k = .referenceValue) := by
  cases k <;> simp [handlerOf] at h ⊢
theorem handlerOf_not_terminal (k : Op) : handlerOf k ≠ .terminal ∧ handlerOf k ≠ .argument := by
  cases k <;> simp [handlerOf]

/-! ### gradients of terminals -/

theorem gradChain_arity (st : Bool) : ∀ (a : Expr) (p : TermData × Nat), gradChain a = some p →
    arity st a = .ok (if p.1.cls = "Argument" then [(p.1, false)] else []) := by
  intro a
  fun_induction gradChain a with
  | case1 d =>
    intro p h; simp at h; subst h
    by_cases hd : d.cls = "Argument" <;> simp [arity, termHandler, hd]
  | case2 aux a d k hk ih =>
    intro p h; simp at h; subst h
    have := ih (d, k) hk
    simp only [arity, handlerOf, Handler.cutoff, Bool.false_eq_true, ↓reduceIte, arityL, this, runHandler]
  | case3 aux a hk ih => intro p h; simp at h
  | case4 e h1 h2 => intro p h; simp at h

theorem gradChain_tied (N : String → Bool) (n : Int) : ∀ (a : Expr) (p : TermData × Nat), gradChain a = some p →
    tied N n a = true → N p.1.key = (p.1.cls == "Argument" && p.1.count == n) := by
  intro a
  fun_induction gradChain a with
  | case1 d => intro p h ht; simp at h; subst h; simpa [tied] using ht
  | case2 aux a d k hk ih =>
    intro p h ht; simp at h; subst h
    exact ih (d, k) hk (by simpa [tied, tiedL] using ht)
  | case3 aux a hk ih => intro p h; simp at h
  | case4 e h1 h2 => intro p h; simp at h

/-! ### index sums and list tensors of linear things are linear -/

theorem sumRange_lin (n : Nat) (σ : K) (f g : Nat → K) :
    sumRange n (fun v => σ * f v + g v) = σ * sumRange n f + sumRange n g := by
  simp only [sumRange_eq_sum, Finset.sum_add_distrib, Finset.mul_sum]

theorem evalNth_lin (ρ : Env K) (T : LinTest K) (σ : K) : ∀ (xs : List Expr), (∀ x ∈ xs, Lin ρ T σ x) →
    ∀ (side : Side) (ι : IdxEnv) (v : Nat) (c : List Nat),
    evalNth (T.r12 ρ) side ι xs v c = σ * evalNth (T.r1 ρ) side ι xs v c + evalNth (T.r2 ρ) side ι xs v c
  | [], _, side, ι, v, c => by simp [evalNth]
  | x :: xs, h, side, ι, 0, c => by simp only [evalNth]; exact h x (by simp) side ι c
  | x :: xs, h, side, ι, v + 1, c => by
    simp only [evalNth]
    exact evalNth_lin ρ T σ xs (fun y hy => h y (by simp [hy])) side ι v c

theorem forall2_mem_left {α β : Type} {R : α → β → Prop} : ∀ {xs : List α} {rs : List β}, List.Forall₂ R xs rs →
    ∀ x ∈ xs, ∃ r ∈ rs, R x r
  | _, _, .nil, x, hx => by cases hx
  | _, _, .cons h t, x, hx => by
    rcases List.mem_cons.1 hx with rfl | hx
    · exact ⟨_, by simp, h⟩
    · obtain ⟨r, hr, hR⟩ := forall2_mem_left t x hx
      exact ⟨r, by simp [hr], hR⟩

theorem forall2_and_left {α β : Type} {R : α → β → Prop} {P : α → Prop} : ∀ {xs : List α} {rs : List β},
    List.Forall₂ R xs rs → (∀ x ∈ xs, P x) → List.Forall₂ (fun x r => R x r ∧ P x) xs rs
  | _, _, .nil, _ => .nil
  | _, _, .cons h t, hp => .cons ⟨h, hp _ (by simp)⟩ (forall2_and_left t (fun x hx => hp x (by simp [hx])))

theorem zeroFilled_forall2 {R : Expr → Ar → Prop} : ∀ {xs : List Expr} {rs : List Ar}, List.Forall₂ R xs rs →
    zeroFilled xs rs = true → List.Forall₂ (fun x r => R x r ∧ (r = [] → isZero x = true)) xs rs
  | _, _, .nil, _ => .nil
  | _, _, .cons (a := x) (b := r) h t, hz => by
    simp only [zeroFilled, Bool.and_eq_true, Bool.or_eq_true, Bool.not_eq_eq_eq_not, Bool.not_true] at hz
    refine .cons ⟨h, fun hr => ?_⟩ (zeroFilled_forall2 t hz.2)
    rcases hz.1 with h1 | h1
    · subst hr; simp at h1
    · exact h1

theorem eval_isZero (ρ : Env K) (side : Side) (ι : IdxEnv) (x : Expr) (c : List Nat) (h : isZero x = true) :
    eval ρ side ι x c = 0 := by
  cases x <;> simp_all [isZero, eval]

/-! ### one node -/

theorem zero_components {st : Bool} {ρ : Env K} {T : LinTest K} {xs : List Expr} {rs : List Ar}
    (hops : List.Forall₂ (Opd st ρ T) xs rs) (hall : ∀ x ∈ xs, hasArg x = true ∨ isZero x = true) :
    List.Forall₂ (fun x r => Opd st ρ T x r ∧ (r = [] → isZero x = true)) xs rs := by
  refine (forall2_and_left hops hall).imp ?_
  rintro x r ⟨ho, hx⟩
  refine ⟨ho, fun hr => ?_⟩
  rcases hx with h | h
  · have h1 := cov st x r ho.1 ho.2.1
    subst hr
    have h2 := (hasArg_false x).2 (covL_nil_right h1)
    rw [h2] at h; cases h
  · exact h

theorem Opd.lin {st : Bool} {ρ : Env K} {T : LinTest K} {a : Expr} {r A : Ar} {σ : K} (h : Opd st ρ T a r)
    (hn : T.n ∈ numbers r) (hsub : ∀ p ∈ r, p ∈ A) (hσ : ∀ p ∈ A, p.1.count = T.n → σ = flag ρ p.2 T.s) : Lin ρ T σ a :=
  h.2.2.2 hn σ (fun p hp hc => hσ p (hsub p hp) hc)

theorem sound_step (st : Bool) (ρ : Env K) (hρ : ConjOK ρ) (T : LinTest K) (k : Op) (aux : List Nat) (args : List Expr)
    (rs : List Ar) (A : Ar) (hrun : runHandler st (handlerOf k) args rs = .ok A)
    (hops : List.Forall₂ (Opd st ρ T) args rs) (hsh : shapedAt (handlerOf k) args = true)
    (hzf : st = true ∨ zeroFill (.op k aux args) = true) : Good ρ T (.op k aux args) A := by
  intro hn σ hσ
  generalize hh : handlerOf k = h at hrun hsh
  cases h
  case terminal => exact absurd hh (handlerOf_not_terminal k).1
  case argument => exact absurd hh (handlerOf_not_terminal k).2
  case nonlinear => simp [runHandler] at hrun
  case sum =>
    obtain rfl := handlerOf_sum hh
    simp only [runHandler] at hrun
    split at hrun
    · obtain ⟨a, b, rfl, ha, hb⟩ := forall2_two hops
      obtain ⟨rfl, rfl⟩ := hSum_ok hrun
      have la := ha.lin hn (fun p hp => hp) hσ
      have lb := hb.lin hn (fun p hp => hp) hσ
      intro side ι c
      simp only [eval]
      rw [la side ι c, lb side ι c]; ring
    · cases hrun
  case division =>
    obtain rfl := handlerOf_division hh
    simp only [runHandler] at hrun
    split at hrun
    · obtain ⟨a, b, rfl, ha, hb⟩ := forall2_two hops
      obtain ⟨rfl, rfl⟩ := hDivision_ok hrun
      have la := ha.lin hn (fun p hp => hp) hσ
      have ib := indep ρ T b (hb.avoids (by simp [numbers]))
      intro side ι c
      simp only [eval]
      rw [la side ι c, (ib side ι c).1, (ib side ι c).2.1, (ib side ι c).2.2]; ring
    · cases hrun
  case product =>
    obtain rfl := handlerOf_product hh
    simp only [runHandler] at hrun
    split at hrun
    · obtain ⟨a, b, rfl, ha, hb⟩ := forall2_two hops
      rename_i ra rb
      rcases hProduct_ok hrun with ⟨_, _, hdis, hm⟩ | ⟨_, rfl, rfl⟩ | ⟨rfl, rfl⟩
      · obtain ⟨p, hp, hpc⟩ := (mem_numbers _ _).1 hn
        rcases (hm p).1 hp with hpa | hpb
        · have hna : T.n ∈ numbers ra := (mem_numbers _ _).2 ⟨p, hpa, hpc⟩
          have hnb : T.n ∉ numbers rb := by
            intro hb'
            obtain ⟨q, hq, hqc⟩ := (mem_numbers _ _).1 hb'
            exact hdis q hq (hqc ▸ hna)
          have la := ha.lin hna (fun q hq => (hm q).2 (Or.inl hq)) hσ
          have ib := indep ρ T b (hb.avoids hnb)
          intro side ι c
          simp only [eval]
          rw [la side ι [], (ib side ι []).1, (ib side ι []).2.1, (ib side ι []).2.2]; ring
        · have hnb : T.n ∈ numbers rb := (mem_numbers _ _).2 ⟨p, hpb, hpc⟩
          have hna : T.n ∉ numbers ra := fun hna => hdis p hpb (hpc ▸ hna)
          have lb := hb.lin hnb (fun q hq => (hm q).2 (Or.inr hq)) hσ
          have ia := indep ρ T a (ha.avoids hna)
          intro side ι c
          simp only [eval]
          rw [lb side ι [], (ia side ι []).1, (ia side ι []).2.1, (ia side ι []).2.2]; ring
      · have la := ha.lin hn (fun p hp => hp) hσ
        have ib := indep ρ T b (hb.avoids (by simp [numbers]))
        intro side ι c
        simp only [eval]
        rw [la side ι [], (ib side ι []).1, (ib side ι []).2.1, (ib side ι []).2.2]; ring
      · have lb := hb.lin hn (fun p hp => hp) hσ
        have ia := indep ρ T a (ha.avoids (by simp [numbers]))
        intro side ι c
        simp only [eval]
        rw [lb side ι [], (ia side ι []).1, (ia side ι []).2.1, (ia side ι []).2.2]; ring
    · cases hrun
  case inner =>
    exact lin_uninterp ρ T σ k aux args (by rcases handlerOf_inner hh with h | h <;> simp [h])
  case outer =>
    exact lin_uninterp ρ T σ k aux args (by simp [handlerOf_outer hh])
  case linearOperator =>
    simp only [runHandler] at hrun
    split at hrun
    · obtain ⟨a, rfl, ha⟩ := forall2_one hops
      cases hrun
      have la := ha.lin hn (fun p hp => hp) hσ
      rcases handlerOf_linearOperator hh with rfl | rfl | rfl | hu
      · intro side ι c; simp only [eval]; exact la .plus ι c
      · intro side ι c; simp only [eval]; exact la .minus ι c
      · -- grad
        intro side ι c
        simp only [eval]
        cases hgc : gradChain a with
        | none => simp
        | some p =>
          obtain ⟨d, k'⟩ := p
          have har := gradChain_arity st a (d, k') hgc
          rw [ha.1] at har
          simp only [Except.ok.injEq] at har
          have hN := gradChain_tied T.N T.n a (d, k') hgc ha.2.2.1
          simp only at har hN
          by_cases hd : d.cls = "Argument"
          · simp only [hd, ↓reduceIte] at har
            subst har
            have hc : d.count = T.n := by
              have h0 := hn
              simp [numbers] at h0
              exact h0.symm
            have hσ' : σ = T.s := by simpa [flag] using hσ (d, false) (by simp) hc
            have hN' : T.N d.key = true := by simp [hN, hd, hc]
            simp [LinTest.r12, LinTest.r1, LinTest.r2, override, hN', hσ']
          · simp only [hd, ↓reduceIte] at har
            subst har
            simp [numbers] at hn
      · exact lin_uninterp ρ T σ k aux [a] hu
    · cases hrun
  case conj =>
    obtain rfl := handlerOf_conj hh
    simp only [runHandler] at hrun
    split at hrun
    · obtain ⟨a, rfl, ha⟩ := forall2_one hops
      rename_i ra
      cases hrun
      have hn' : T.n ∈ numbers ra := by simpa [numbers_conjAr] using hn
      have la : Lin ρ T (ρ.conj σ) a := by
        apply ha.2.2.2 hn'
        intro p hp hc
        have h1 := hσ (p.1, !p.2) ((mem_conjAr p.1 (!p.2) ra).2 (by simpa using hp)) hc
        rw [h1]
        cases p.2 <;> simp [flag, hρ.inv]
      intro side ι c
      simp only [eval]
      have e12 : (T.r12 ρ).conj = ρ.conj := rfl
      have e1 : (T.r1 ρ).conj = ρ.conj := rfl
      have e2 : (T.r2 ρ).conj = ρ.conj := rfl
      rw [e12, e1, e2, la side ι c, hρ.add, hρ.mul, hρ.inv]
    · cases hrun
  case «variable» =>
    obtain rfl := handlerOf_variable hh
    simp only [runHandler] at hrun
    split at hrun
    · obtain ⟨a, l, rfl, ha, hl⟩ := forall2_two hops
      cases hrun
      have la := ha.lin hn (fun p hp => hp) hσ
      intro side ι c
      simp only [eval]
      exact la side ι c
    · cases hrun
  case conditional =>
    obtain rfl := handlerOf_conditional hh
    simp only [runHandler] at hrun
    split at hrun
    · obtain ⟨p, t, f, hargs, hp, ht, hf⟩ := forall2_three hops
      cases hargs
      obtain ⟨rfl, hcase⟩ := hConditional_ok hrun
      have ip := indepB ρ T _ (hp.avoids (by simp [numbers]))
      rcases hcase with ⟨_, hz, rfl⟩ | ⟨_, hz, rfl⟩ | ⟨rfl, rfl⟩
      · have lt := ht.lin hn (fun p hp => hp) hσ
        intro side ι c
        simp only [eval]
        rw [(ip side ι).1, (ip side ι).2.1, (ip side ι).2.2, lt side ι c, eval_isZero _ _ _ _ _ hz,
          eval_isZero _ _ _ _ _ hz, eval_isZero _ _ _ _ _ hz]
        split <;> ring
      · have lf := hf.lin hn (fun p hp => hp) hσ
        intro side ι c
        simp only [eval]
        rw [(ip side ι).1, (ip side ι).2.1, (ip side ι).2.2, lf side ι c, eval_isZero _ _ _ _ _ hz,
          eval_isZero _ _ _ _ _ hz, eval_isZero _ _ _ _ _ hz]
        split <;> ring
      · have lt := ht.lin hn (fun p hp => hp) hσ
        have lf := hf.lin hn (fun p hp => hp) hσ
        intro side ι c
        simp only [eval]
        rw [(ip side ι).1, (ip side ι).2.1, (ip side ι).2.2, lt side ι c, lf side ι c]
        split <;> rfl
    · cases hrun
  case linearIndexed =>
    simp only [runHandler] at hrun
    split at hrun
    · obtain ⟨a, i, rfl, ha, hi⟩ := forall2_two hops
      cases hrun
      have la := ha.lin hn (fun p hp => hp) hσ
      rcases handlerOf_linearIndexed hh with rfl | rfl | rfl
      · intro side ι c
        cases i <;> simp only [eval, mul_zero, add_zero]
        exact la side ι _
      · intro side ι c
        cases i with
        | mi is =>
          match is with
          | [.free j] =>
            have la' : ∀ side ι c, eval (T.r12 ρ) side ι a c = σ * eval (T.r1 ρ) side ι a c + eval (T.r2 ρ) side ι a c := la
            simp only [eval, la']
            exact sumRange_lin _ _ _ _
          | [] => simp [eval]
          | [.fixed _] => simp [eval]
          | _ :: _ :: _ => simp [eval]
        | _ => simp [eval]
      · intro side ι c
        cases i <;> simp only [eval, mul_zero, add_zero]
        exact la side _ []
    · cases hrun
  case listTensor =>
    obtain rfl := handlerOf_listTensor hh
    simp only [runHandler] at hrun
    rcases hListTensor_ok hrun with ⟨h0, rfl⟩ | ⟨hne, hstrict, hkeys, hm⟩
    · simp [numbers] at hn
    · -- a component with n in its arity
      obtain ⟨p, hp, hpc⟩ := (mem_numbers _ _).1 hn
      obtain ⟨r0, hr0, hpr0⟩ := List.mem_flatten.1 ((hm p).1 hp)
      have hr0n : T.n ∈ numbers r0 := (mem_numbers _ _).2 ⟨p, hpr0, hpc⟩
      have hr0ne : r0 ≠ [] := by intro e; subst e; cases hpr0
      -- argument-free components are Zero
      have hcov : List.Forall₂ (fun a r => CovL (argTerms a) r) args rs :=
        hops.imp (fun a r h => cov st a r h.1 h.2.1)
      have hz : List.Forall₂ (fun x r => Opd st ρ T x r ∧ (r = [] → isZero x = true)) args rs := by
        rcases hzf with hs | hzf
        · exact zeroFilled_forall2 hops (hstrict hs)
        · simp only [zeroFill, Bool.and_eq_true, Bool.or_eq_true, Bool.not_eq_eq_eq_not, Bool.not_true,
            List.all_eq_true] at hzf
          have hall : ∀ x ∈ args, (hasArg x = true ∨ isZero x = true) := by
            rcases hzf.2 with hno | hall
            · exfalso
              have h1 := covL_flatten hcov
              rw [(hasArgL_false args).1 hno] at h1
              exact hne (covL_nil_left h1)
            · exact hall
          exact zero_components hops hall
      have hlin : ∀ x ∈ args, Lin ρ T σ x := by
        intro x hx
        obtain ⟨r, hr, hxr, hzero⟩ := forall2_mem_left hz x hx
        by_cases hre : r = []
        · intro side ι c
          rw [eval_isZero _ _ _ _ _ (hzero hre), eval_isZero _ _ _ _ _ (hzero hre), eval_isZero _ _ _ _ _ (hzero hre)]
          ring
        · have hk := hkeys r hr r0 hr0 hre hr0ne
          have hnr : T.n ∈ numbers r := (mem_numberKey _ _).1 (hk ▸ (mem_numberKey _ _).2 hr0n)
          exact hxr.lin hnr (fun q hq => (hm q).2 (List.mem_flatten.2 ⟨r, hr, hq⟩)) hσ
      intro side ι c
      simp only [eval]
      cases c with
      | nil => simp
      | cons v c' => exact evalNth_lin ρ T σ args hlin side ι v c'

/-! ### all nodes -/

mutual
theorem sound (st : Bool) (ρ : Env K) (hρ : ConjOK ρ) (T : LinTest K) : ∀ (e : Expr) (A : Ar), arity st e = .ok A →
    shaped e = true → tied T.N T.n e = true → (st = true ∨ zeroFill e = true) → Good ρ T e A
  | .term d, A, h, _, ht, _ => by
    intro hn σ hσ side ι c
    unfold arity at h
    by_cases hd : d.cls = "Argument"
    · simp [termHandler, hd] at h
      subst h
      have hc : d.count = T.n := by
        have h0 := hn
        simp [numbers] at h0
        exact h0.symm
      have hσ' : σ = T.s := by simpa [flag] using hσ (d, false) (by simp) hc
      have hN : T.N d.key = true := by
        simp only [tied, beq_iff_eq] at ht
        simp [ht, hd, hc]
      simp [eval, hd, LinTest.r12, LinTest.r1, LinTest.r2, override, hN, hσ']
    · simp [termHandler, hd] at h
      subst h
      simp [numbers] at hn
  | .op k aux args, A, h, hs, ht, hz => by
    unfold arity at h
    simp only [shaped, Bool.and_eq_true] at hs
    simp only [tied] at ht
    split at h
    · split at h
      · cases h
      · cases h
        intro hn
        simp [numbers] at hn
    · split at h
      · cases h
      · rename_i rs hrs
        have hz' : st = true ∨ zeroFillL args = true :=
          hz.imp id (fun h => by simp only [zeroFill, Bool.and_eq_true] at h; exact h.1)
        exact sound_step st ρ hρ T k aux args rs A h (soundList st ρ hρ T args rs hrs hs.1 ht hz') hs.2 hz
  | .int _, A, h, _, _, _ => by simp [arity] at h; subst h; intro hn; simp [numbers] at hn
  | .real _ _, A, h, _, _, _ => by simp [arity] at h; subst h; intro hn; simp [numbers] at hn
  | .cplx _ _ _ _, A, h, _, _, _ => by simp [arity] at h; subst h; intro hn; simp [numbers] at hn
  | .zero _ _, A, h, _, _, _ => by simp [arity] at h; subst h; intro hn; simp [numbers] at hn
  | .mi _, A, h, _, _, _ => by simp [arity] at h; subst h; intro hn; simp [numbers] at hn
theorem soundList (st : Bool) (ρ : Env K) (hρ : ConjOK ρ) (T : LinTest K) : ∀ (as : List Expr) (rs : List Ar),
    arityL st as = .ok rs → shapedL as = true → tiedL T.N T.n as = true → (st = true ∨ zeroFillL as = true) →
    List.Forall₂ (Opd st ρ T) as rs
  | [], rs, h, _, _, _ => by simp [arityL] at h; subst h; exact .nil
  | a :: as, rs, h, hs, ht, hz => by
    simp only [shapedL, Bool.and_eq_true] at hs
    simp only [tiedL, Bool.and_eq_true] at ht
    have hz1 : st = true ∨ zeroFill a = true :=
      hz.imp id (fun h => by simp only [zeroFillL, Bool.and_eq_true] at h; exact h.1)
    have hz2 : st = true ∨ zeroFillL as = true :=
      hz.imp id (fun h => by simp only [zeroFillL, Bool.and_eq_true] at h; exact h.2)
    unfold arityL at h
    split at h
    · cases h
    · rename_i rs' hrs
      split at h
      · cases h
      · rename_i r hr
        cases h
        exact .cons ⟨hr, hs.1, ht.1, sound st ρ hρ T a r hr hs.1 ht.1 hz1⟩ (soundList st ρ hρ T as rs' hrs hs.2 ht.2 hz2)
end

end Arity
end UflVerif
