/-
Lemmas about the two-sided semantics and the rule bodies of the restriction propagator, used by the
C17 property theorems (kept apart from them).
-/
import UflVerif.Sem.TwoSided
import UflVerif.Sem.Beq

set_option linter.unusedSectionVars false

namespace UflVerif.Restr
open UflVerif Expr

variable {V : Type}

/-! ### unfolding `den` -/

@[simp] theorem den_term (S : Sem V) (s : Side) (d : TermData) : den S s (.term d) = S.term s d := by
  simp [den]

@[simp] theorem den_pos (S : Sem V) (s : Side) (aux : List Nat) (a : Expr) :
    den S s (.op .positiveRestricted aux [a]) = den S .plus a := by
  simp [den]

@[simp] theorem den_neg (S : Sem V) (s : Side) (aux : List Nat) (a : Expr) :
    den S s (.op .negativeRestricted aux [a]) = den S .minus a := by
  simp [den]

theorem den_op (S : Sem V) (s : Side) (k : Op) (aux : List Nat) (args : List Expr)
    (h1 : k ≠ .positiveRestricted) (h2 : k ≠ .negativeRestricted) :
    den S s (.op k aux args) = S.op k aux (denL S s args) := by
  unfold den
  split <;> simp_all

@[simp] theorem den_int (S : Sem V) (s : Side) (v : Int) : den S s (.int v) = S.lit (.int v) := by simp [den]
@[simp] theorem den_real (S : Sem V) (s : Side) (n : Int) (d : Nat) : den S s (.real n d) = S.lit (.real n d) := by simp [den]
@[simp] theorem den_cplx (S : Sem V) (s : Side) (a : Int) (b : Nat) (c : Int) (d : Nat) :
    den S s (.cplx a b c d) = S.lit (.cplx a b c d) := by simp [den]
@[simp] theorem den_zero (S : Sem V) (s : Side) (sh : List Nat) (f : List (Nat × Nat)) :
    den S s (.zero sh f) = S.lit (.zero sh f) := by simp [den]
@[simp] theorem den_mi (S : Sem V) (s : Side) (is : List Idx) : den S s (.mi is) = S.lit (.mi is) := by simp [den]

@[simp] theorem denL_nil (S : Sem V) (s : Side) : denL S s [] = [] := by simp [denL]
@[simp] theorem denL_cons (S : Sem V) (s : Side) (a : Expr) (as : List Expr) :
    denL S s (a :: as) = den S s a :: denL S s as := by simp [denL]

/-- neither a terminal (in the sense of `.term`) nor an operator: literal, Zero, MultiIndex -/
def isLit : Expr → Bool
  | .term _ | .op _ _ _ => false
  | _ => true

theorem den_lit (S : Sem V) (s : Side) (e : Expr) (h : isLit e = true) : den S s e = S.lit e := by
  cases e <;> simp_all [isLit]

/-! ### lists -/

theorem applyL_spec (cfg : Cfg) (rb : Rebuild) (cur : Side) :
    ∀ (as bs : List Expr), applyL cfg rb cur as = some bs → RelL (fun a b => applyE cfg rb cur a = some b) as bs
  | [], bs, h => by
    simp only [applyL, Option.some.injEq] at h
    subst h; trivial
  | a :: as, bs, h => by
    simp only [applyL] at h
    cases ha : applyE cfg rb cur a with
    | none => simp [ha] at h
    | some x =>
      cases hl : applyL cfg rb cur as with
      | none => simp [ha, hl] at h
      | some xs =>
        simp only [ha, hl, Option.some.injEq] at h
        subst h
        exact ⟨ha, applyL_spec cfg rb cur as xs hl⟩

theorem applyL_none_of_mem (cfg : Cfg) (rb : Rebuild) (cur : Side) :
    ∀ (as : List Expr) (a : Expr), a ∈ as → applyE cfg rb cur a = none → applyL cfg rb cur as = none
  | [], _, h, _ => by cases h
  | b :: bs, a, h, hn => by
    simp only [applyL]
    cases List.mem_cons.mp h with
    | inl e => subst e; simp [hn]
    | inr e =>
      have := applyL_none_of_mem cfg rb cur bs a e hn
      cases applyE cfg rb cur b <;> simp [this]

theorem RelL.imp {α β : Type} {R Q : α → β → Prop} : ∀ (as : List α) (bs : List β),
    (∀ a ∈ as, ∀ b, R a b → Q a b) → RelL R as bs → RelL Q as bs
  | [], [], _, _ => trivial
  | a :: as, b :: bs, h, ⟨r, rs⟩ =>
    ⟨h a (by simp) b r, RelL.imp as bs (fun x hx y => h x (by simp [hx]) y) rs⟩
  | [], _ :: _, _, h => by cases h
  | _ :: _, [], _, h => by cases h

theorem denL_congr (S : Sem V) (s s' : Side) : ∀ (as bs : List Expr),
    RelL (fun a b => den S s' b = den S s a) as bs → denL S s' bs = denL S s as
  | [], [], _ => rfl
  | a :: as, b :: bs, ⟨h, hs⟩ => by simp [h, denL_congr S s s' as bs hs]
  | [], _ :: _, h => by cases h
  | _ :: _, [], h => by cases h

theorem denL_rel (S : Sem V) (E : V → V → Prop) (s s' : Side) : ∀ (as bs : List Expr),
    RelL (fun a b => E (den S s' b) (den S s a)) as bs → RelL E (denL S s' bs) (denL S s as)
  | [], [], _ => trivial
  | a :: as, b :: bs, ⟨h, hs⟩ => by
    simp only [denL_cons]
    exact ⟨h, denL_rel S E s s' as bs hs⟩
  | [], _ :: _, h => by cases h
  | _ :: _, [], h => by cases h

/-! ### sides -/

theorem side_cases (s : Side) : s = .none ∨ s = .plus ∨ s = .minus := by cases s <;> simp

/-! ### `restrict` -/

theorem restrict_none (o : Expr) : restrict .none o = o := rfl

theorem den_restrict_op (S : Sem V) (s r : Side) (k : Op) (aux : List Nat) (args : List Expr) (hr : r ≠ .none) :
    den S s (restrict r (.op k aux args)) = den S r (.op k aux args) := by
  cases r <;> simp_all [restrict, isConstantValue]

theorem restrictedSide_restrict_op (r : Side) (k : Op) (aux : List Nat) (args : List Expr) :
    restrict r (.op k aux args) = (match r with
      | .none => .op k aux args
      | .plus => .op .positiveRestricted [] [.op k aux args]
      | .minus => .op .negativeRestricted [] [.op k aux args]) := by
  cases r <;> simp [restrict, isConstantValue]

/-! ### classification -/

theorem spec_of_cls_ne_coeff (info : String → TInfo) (d : TermData) (h : d.cls ≠ "Coefficient") :
    spec info d = specCls d.cls := by
  simp [spec, h]

theorem specCls_coeff : specCls "Coefficient" = .discontinuous := by decide

theorem spec_of_not_disc (info : String → TInfo) (d : TermData) (h : specCls d.cls ≠ .discontinuous) :
    spec info d = specCls d.cls := by
  apply spec_of_cls_ne_coeff
  intro e
  rw [e] at h
  exact h specCls_coeff

theorem constantValue_term_free (info : String → TInfo) (d : TermData) (h : isConstantValue (.term d) = true) :
    spec info d = .sideFree := by
  simp only [isConstantValue, Bool.or_eq_true, beq_iff_eq] at h
  cases h with
  | inl h => simp [spec, h, specCls]
  | inr h => simp [spec, h, specCls]

/-! ### domains -/

theorem defaultOf_term (cfg : Cfg) (table : List (Nat × Side)) (d : TermData) :
    defaultOf cfg table (.term d) = termDefault cfg.info table d := by
  simp only [defaultOf, uniqueDomain, doms, termDefault]
  cases (cfg.info d.key).dom <;> simp

end UflVerif.Restr

namespace UflVerif.Restr
open UflVerif Expr

variable {V : Type}

/-! ### what a terminal rule returns, and why it is sound -/

/-- the three ways a terminal leaves `termRule` -/
inductive TermOut (S : Sem V) (cfg : Cfg) (cur : Side) (d : TermData) (g : Expr) : Prop
  /-- the terminal has one meaning (side-free, or of a one-sided domain); wrapped or not -/
  | same (x : Side) (hg : g = restrict x (.term d)) (h : ∀ s s', S.term s d = S.term s' d)
  /-- wrapped in a restriction to side `x`: the current side, or the default side of a continuous terminal -/
  | sided (x : Side) (hx : x ≠ .none) (hc : isConstantValue (.term d) = false) (hg : g = restrict x (.term d))
      (hcur : cur ≠ .none → x = cur) (hspec : cur = .none → spec cfg.info d = .continuous)
  /-- the facet normal of an affine mesh read on the non-default side: minus the default side -/
  | flipped (r : Side) (fresh : Nat) (hr : r ≠ .none) (hcur : cur ≠ .none) (hne : cur ≠ r)
      (hg : g = negE fresh (restrict r (.term d))) (hcls : d.cls = "FacetNormal")
      (haff : affine (cfg.info d.key) = true) (hrule : cfg.rule d.cls = .facetNormal)

/-- meaning of a possibly wrapped terminal -/
theorem den_restrict_term (S : Sem V) (x s : Side) (d : TermData) :
    den S s (restrict x (.term d)) = S.term (if isConstantValue (.term d) = true ∨ x = .none then s else x) d := by
  cases x <;> by_cases hk : isConstantValue (.term d) = true <;> simp [restrict, hk]

section
variable (S : Sem V) (E : V → V → Prop) (cfg : Cfg) (table : List (Nat × Side))
variable (hdr : cfg.dr = some table) (hc : Continuity S E cfg table)
include hdr hc

theorem require_out (cur : Side) (d : TermData) (g : Expr) (h : requireRule cfg cur (.term d) = some g) :
    TermOut S cfg cur d g := by
  simp only [requireRule, hdr, defaultOf_term] at h
  cases hd : termDefault cfg.info table d with
  | none => simp [hd] at h
  | some r =>
    simp only [hd] at h
    by_cases hcur : cur = .none
    · subst hcur
      by_cases hr : r = .none
      · subst hr
        simp only [↓reduceIte, Option.some.injEq] at h
        exact .same .none (by rw [← h]; rfl) (hc.onesided d hd)
      · simp [hr] at h
    · by_cases hr : r = .none
      · simp [hcur, hr] at h
      · simp only [hcur, hr, ↓reduceIte, Option.some.injEq] at h
        by_cases hk : isConstantValue (.term d) = true
        · exact .same cur h.symm (hc.free d (constantValue_term_free cfg.info d hk))
        · exact .sided cur hcur (by simpa using hk) h.symm (fun _ => rfl) (fun e => absurd e hcur)

theorem default_out (cur : Side) (d : TermData) (g : Expr) (hs : spec cfg.info d ≠ .discontinuous)
    (h : defaultRule cfg cur (.term d) = some g) : TermOut S cfg cur d g := by
  simp only [defaultRule, hdr, defaultOf_term] at h
  cases hd : termDefault cfg.info table d with
  | none => simp [hd] at h
  | some r =>
    simp only [hd] at h
    by_cases hcur : cur = .none
    · subst hcur
      simp only [↓reduceIte, Option.some.injEq] at h
      by_cases hr : r = .none
      · subst hr
        exact .same .none h.symm (hc.onesided d hd)
      · cases hsp : spec cfg.info d with
        | sideFree => exact .same r h.symm (hc.free d hsp)
        | continuous =>
          have hk : isConstantValue (.term d) = false := by
            cases hk : isConstantValue (.term d) with
            | false => rfl
            | true => have := constantValue_term_free cfg.info d hk; rw [hsp] at this; cases this
          exact .sided r hr hk h.symm (fun e => absurd rfl e) (fun _ => hsp)
        | discontinuous => exact absurd hsp hs
    · by_cases hr : r = .none
      · simp [hcur, hr] at h
      · simp only [hcur, hr, ↓reduceIte, Option.some.injEq] at h
        by_cases hk : isConstantValue (.term d) = true
        · exact .same cur h.symm (hc.free d (constantValue_term_free cfg.info d hk))
        · exact .sided cur hcur (by simpa using hk) h.symm (fun _ => rfl) (fun e => absurd e hcur)

theorem opposite_out (cur : Side) (d : TermData) (g : Expr) (fresh : Nat) (hcls : d.cls = "FacetNormal")
    (haff : affine (cfg.info d.key) = true) (hrule : cfg.rule d.cls = .facetNormal)
    (h : oppositeRule cfg cur fresh (.term d) = some g) : TermOut S cfg cur d g := by
  have hk : isConstantValue (.term d) = false := by simp [isConstantValue, hcls]
  simp only [oppositeRule, hdr, defaultOf_term] at h
  cases hd : termDefault cfg.info table d with
  | none => simp [hd] at h
  | some r =>
    simp only [hd] at h
    by_cases hcur : cur = .none
    · subst hcur
      by_cases hr : r = .none
      · subst hr
        simp only [↓reduceIte, Option.some.injEq] at h
        exact .same .none (by rw [← h]; rfl) (hc.onesided d hd)
      · simp [hr] at h
    · by_cases hr : r = .none
      · simp [hcur, hr] at h
      · by_cases he : cur = r
        · simp only [hcur, hr, he, ↓reduceIte, Option.some.injEq] at h
          exact .sided r hr hk h.symm (fun _ => he.symm) (fun e => absurd e hcur)
        · simp only [hcur, hr, he, ↓reduceIte, Option.some.injEq] at h
          exact .flipped r fresh hr hcur he h.symm hcls haff hrule

theorem term_out (hr : RuleSound cfg.rule) (cur : Side) (d : TermData) (g : Expr)
    (hok : termRuleOK (cfg.rule d.cls) = true) (h : termRule cfg cur d = some g) : TermOut S cfg cur d g := by
  simp only [termRule] at h
  cases hrule : cfg.rule d.cls with
  | coefficient =>
    simp only [hrule] at h
    have hcls := hr.coefficient_only d.cls hrule
    by_cases hh : (cfg.info d.key).h1 = true
    · simp only [hh, ↓reduceIte] at h
      exact default_out S E cfg table hdr hc cur d g (by simp [spec, hcls, hh]) h
    · simp only [hh, Bool.false_eq_true, ↓reduceIte] at h
      exact require_out S E cfg table hdr hc cur d g h
  | facetNormal =>
    simp only [hrule] at h
    have hcls := hr.normal_only d.cls hrule
    by_cases ha : (decide ((cfg.info d.key).cdeg ≤ 1) && (cfg.info d.key).ch1 && (cfg.info d.key).gdim == (cfg.info d.key).tdim) = true
    · simp only [ha, ↓reduceIte] at h
      exact opposite_out S E cfg table hdr hc cur d g _ hcls ha hrule h
    · simp only [ha, Bool.false_eq_true, ↓reduceIte] at h
      exact require_out S E cfg table hdr hc cur d g h
  | reuse => simp [hrule, termRuleOK] at hok
  | ignore =>
    simp only [hrule, nodeRule, Option.some.injEq] at h
    have := hr.ignore_free d.cls hrule
    exact .same .none (by rw [← h]; rfl) (hc.free d (by rw [spec_of_not_disc cfg.info d (by rw [this]; simp), this]))
  | require =>
    simp only [hrule, nodeRule] at h
    exact require_out S E cfg table hdr hc cur d g h
  | default =>
    simp only [hrule, nodeRule] at h
    have := hr.default_cont d.cls hrule
    exact default_out S E cfg table hdr hc cur d g (by rw [spec_of_not_disc cfg.info d this]; exact this) h
  | opposite => exact absurd hrule (hr.no_opposite d.cls)
  | missing => simp [hrule, nodeRule] at h
  | referenceValue => simp [hrule, nodeRule] at h
  | «variable» => simp [hrule, nodeRule] at h
  | restricted => simp [hrule, nodeRule] at h
  | cellOperator => simp [hrule, nodeRule] at h
  | unknown => simp [hrule, nodeRule] at h

omit hdr in
theorem cont_sides (d : TermData) (hsp : spec cfg.info d = .continuous) (x s : Side) (hx : x ≠ .none) (hs : s ≠ .none) :
    E (S.term x d) (S.term s d) := by
  have := hc.cont d hsp
  cases x <;> cases s <;> first | (exact absurd rfl hx) | (exact absurd rfl hs) | exact hc.equiv.refl _ | exact this | exact hc.equiv.symm this

/-- under a restriction to `cur` the result means the terminal on side `cur`, whatever the ambient side -/
theorem TermOut.value_cur {cur : Side} {d : TermData} {g : Expr} (o : TermOut S cfg cur d g) (hcur : cur ≠ .none) (s : Side) :
    den S s g = S.term cur d := by
  cases o with
  | same x hg h => rw [hg, den_restrict_term]; exact h _ _
  | sided x hx hk hg hcx _ =>
    rw [hg, den_restrict_term, hcx hcur]
    simp [hk, hcur]
  | flipped r fresh hr _ hne hg hcls haff _ =>
    have hk : isConstantValue (.term d) = false := by simp [isConstantValue, hcls]
    have hf := hc.flip d hcls haff fresh s
    rw [hg]
    cases r with
    | none => exact absurd rfl hr
    | plus =>
      have : cur = .minus := by cases cur <;> simp_all
      simp only [restrict, hk, Bool.false_eq_true, ↓reduceIte, this]
      exact hf.1
    | minus =>
      have : cur = .plus := by cases cur <;> simp_all
      simp only [restrict, hk, Bool.false_eq_true, ↓reduceIte, this]
      exact hf.2

/-- outside every restriction the result agrees on the facet with the terminal read on either side -/
theorem TermOut.value_none {d : TermData} {g : Expr} (o : TermOut S cfg .none d g) (s s' : Side) (hs : s ≠ .none) (hs' : s' ≠ .none) :
    E (den S s' g) (S.term s d) := by
  cases o with
  | same x hg h => rw [hg, den_restrict_term, h _ s]; exact hc.equiv.refl _
  | sided x hx hk hg _ hsp =>
    rw [hg, den_restrict_term]
    simp only [hk, Bool.false_eq_true, hx, or_self, ↓reduceIte]
    exact cont_sides S E cfg table hc d (hsp rfl) x s hx hs
  | flipped r fresh hr hcur _ _ _ _ _ => exact absurd rfl hcur

end

end UflVerif.Restr

namespace UflVerif.Restr
open UflVerif Expr

variable {V : Type}

/-! ### membership in the list predicates -/

theorem ProperL_mem (rule : String → Rule) : ∀ (as : List Expr) (a : Expr), ProperL rule as = true → a ∈ as → Proper rule a = true
  | [], _, _, h => by cases h
  | b :: bs, a, hp, h => by
    simp only [ProperL, Bool.and_eq_true] at hp
    cases List.mem_cons.mp h with
    | inl e => rw [e]; exact hp.1
    | inr e => exact ProperL_mem rule bs a hp.2 e

theorem GuardedL_mem : ∀ (as : List Expr) (a : Expr), GuardedL as = true → a ∈ as → Guarded a = true
  | [], _, _, h => by cases h
  | b :: bs, a, hp, h => by
    simp only [GuardedL, Bool.and_eq_true] at hp
    cases List.mem_cons.mp h with
    | inl e => rw [e]; exact hp.1
    | inr e => exact GuardedL_mem bs a hp.2 e

theorem GradsPlainL_mem (rule : String → Rule) : ∀ (as : List Expr) (a : Expr), GradsPlainL rule as = true → a ∈ as → GradsPlain rule a = true
  | [], _, _, h => by cases h
  | b :: bs, a, hp, h => by
    simp only [GradsPlainL, Bool.and_eq_true] at hp
    cases List.mem_cons.mp h with
    | inl e => rw [e]; exact hp.1
    | inr e => exact GradsPlainL_mem rule bs a hp.2 e

theorem RelL.of_mem {α β : Type} {R Q : α → β → Prop} : ∀ (as : List α) (bs : List β),
    (∀ a ∈ as, ∀ b, R a b → Q a b) → RelL R as bs → RelL Q as bs := RelL.imp

/-! ### operator names -/

theorem op_of_name {k : Op} {n : String} (hcanon : Op.ofName k.name = k) (hn : k.name = n) : k = Op.ofName n := by
  rw [← hcanon, hn]

theorem name_pos : Op.positiveRestricted.name = "PositiveRestricted" := rfl
theorem name_neg : Op.negativeRestricted.name = "NegativeRestricted" := rfl

/-! ### reference values -/

theorem den_rv_of_restrict (S : Sem V) (s x : Side) (k : Op) (aux : List Nat) (d : TermData) (g : Expr)
    (hk1 : k ≠ .positiveRestricted) (hk2 : k ≠ .negativeRestricted) (hg : g = restrict x (.term d)) :
    den S s (restrict (restrictedSide g) (.op k aux [.term d])) = S.op k aux [den S s g] := by
  subst hg
  have hop : isConstantValue (.op k aux [.term d]) = false := rfl
  by_cases hc : isConstantValue (.term d) = true
  · have h1 : ∀ x, restrict x (.term d) = .term d := by intro x; cases x <;> simp only [restrict, hc, ↓reduceIte]
    rw [h1]
    simp only [restrictedSide, restrict, den_term]
    rw [den_op S _ k aux _ hk1 hk2]
    simp
  · have hc' : isConstantValue (.term d) = false := by simpa using hc
    cases x with
    | none =>
      simp only [restrict, restrictedSide, den_term]
      rw [den_op S _ k aux _ hk1 hk2]
      simp
    | plus =>
      simp only [restrict, hc', Bool.false_eq_true, ↓reduceIte, restrictedSide, hop, den_pos, den_term]
      rw [den_op S _ k aux _ hk1 hk2]
      simp
    | minus =>
      simp only [restrict, hc', Bool.false_eq_true, ↓reduceIte, restrictedSide, hop, den_neg, den_term]
      rw [den_op S _ k aux _ hk1 hk2]
      simp

theorem doms_unary_term (info : String → TInfo) (k : Op) (aux : List Nat) (d : TermData) :
    doms info (.op k aux [.term d]) = doms info (.term d) := by
  simp [doms, domsL]

theorem defaultOf_unary_term (cfg : Cfg) (table : List (Nat × Side)) (k : Op) (aux : List Nat) (d : TermData) :
    defaultOf cfg table (.op k aux [.term d]) = termDefault cfg.info table d := by
  rw [← defaultOf_term]
  simp only [defaultOf, uniqueDomain, doms_unary_term]

end UflVerif.Restr

namespace UflVerif.Restr
open UflVerif Expr

/-- decidable comparison of propagation results (expressions have no `DecidableEq` instance) -/
def optBeq : Option Expr → Option Expr → Bool
  | some a, some b => Expr.beq a b
  | none, none => true
  | _, _ => false

theorem optBeq_sound {a b : Option Expr} (h : optBeq a b = true) : a = b := by
  cases a <;> cases b <;> simp_all [optBeq]
  exact Expr.beq_eq _ _ h

end UflVerif.Restr
