/-
Linearity of the denotational semantics in a family of terminals.

`LinIn P e`   : `e` is (syntactically) homogeneous linear in the terminals whose key satisfies `P`
                (sums, scalings by `P`-free factors, index notation, list tensors, conditionals on
                `P`-free conditions, variables, restrictions, conjugation, gradients of `P`-terminals);
`FreeOf P e`  : no terminal with a `P`-key occurs in `e`.
`withP ρ P t j`: the valuation `ρ` in which the `P`-terminals take the values `t` (and derivatives `j`).

`eval_additive`: for `LinIn P e`, the value under `t₁ + t₂` is the sum of the values under `t₁` and `t₂`;
for `FreeOf P e` the value does not depend on `t` at all.  `eval_sum`: the same for finite families.
-/
import Mathlib.Tactic.Ring
import UflVerif.Sem.Sum
import UflVerif.Sem.Congr
import UflVerif.Sem.FI
import UflVerif.Model.Linear

namespace UflVerif
namespace Expr

variable {K : Type} [Field K]

/-- `ρ` with the values (and derivatives) of the `P`-terminals replaced -/
def withP (ρ : Env K) (P : KeyP) (t : Side → String → List Nat → K) (j : Side → String → List Nat → List Nat → K) : Env K :=
  { ρ with term := fun s key c => if P key then t s key c else ρ.term s key c,
           jet := fun s key c ds => if P key then j s key c ds else ρ.jet s key c ds }

section simps
variable (ρ : Env K) (P : KeyP) (t : Side → String → List Nat → K) (j : Side → String → List Nat → List Nat → K)
@[simp] theorem withP_fn : (withP ρ P t j).fn = ρ.fn := rfl
@[simp] theorem withP_fn2 : (withP ρ P t j).fn2 = ρ.fn2 := rfl
@[simp] theorem withP_abs : (withP ρ P t j).abs = ρ.abs := rfl
@[simp] theorem withP_conj : (withP ρ P t j).conj = ρ.conj := rfl
@[simp] theorem withP_re : (withP ρ P t j).re = ρ.re := rfl
@[simp] theorem withP_im : (withP ρ P t j).im = ρ.im := rfl
@[simp] theorem withP_i : (withP ρ P t j).i = ρ.i := rfl
@[simp] theorem withP_lt : (withP ρ P t j).lt = ρ.lt := rfl
@[simp] theorem withP_eq : (withP ρ P t j).eq = ρ.eq := rfl
theorem withP_term (s : Side) (key : String) (c : List Nat) :
    (withP ρ P t j).term s key c = if P key then t s key c else ρ.term s key c := rfl
theorem withP_jet (s : Side) (key : String) (c ds : List Nat) :
    (withP ρ P t j).jet s key c ds = if P key then j s key c ds else ρ.jet s key c ds := rfl
end simps

/-- the real/complex structure maps of the valuation are additive (they are the identity, the real
    part, ... in every intended instance) -/
structure AdditiveOps (ρ : Env K) : Prop where
  conj : ∀ x y, ρ.conj (x + y) = ρ.conj x + ρ.conj y
  re : ∀ x y, ρ.re (x + y) = ρ.re x + ρ.re y
  im : ∀ x y, ρ.im (x + y) = ρ.im x + ρ.im y

theorem sumRange_add (n : Nat) (f g : Nat → K) : sumRange n (fun k => f k + g k) = sumRange n f + sumRange n g := by
  simp only [sumRange_eq_sum, Finset.sum_add_distrib]

theorem gradChain_free (P : KeyP) : ∀ (a : Expr) (d : TermData) (k : Nat), gradChain a = some (d, k) → FreeOf P a = !P d.key := by
  intro a
  fun_induction gradChain a with
  | case1 d => intro d' k h; simp only [Option.some.injEq, Prod.mk.injEq] at h; simp [FreeOf, h.1]
  | case2 aux a d k hk ih =>
    intro d' k' h
    simp only [Option.some.injEq, Prod.mk.injEq] at h
    simp only [FreeOf, FreeOfL, Bool.and_true]
    rw [ih d k hk, h.1]
  | case3 aux a hk ih => intro d' k h; simp at h
  | case4 e h1 h2 => intro d' k h; simp at h

section additive
variable (ρ : Env K) (P : KeyP) (hρ : AdditiveOps ρ)
variable (t₁ t₂ : Side → String → List Nat → K) (j₁ j₂ : Side → String → List Nat → List Nat → K)

local notation "ρ₀" => withP ρ P (fun s k c => t₁ s k c + t₂ s k c) (fun s k c ds => j₁ s k c ds + j₂ s k c ds)
local notation "ρ₁" => withP ρ P t₁ j₁
local notation "ρ₂" => withP ρ P t₂ j₂

def A1 (side : Side) (ι : IdxEnv) (e : Expr) (c : List Nat) : Prop :=
  (LinIn P e = true → eval ρ₀ side ι e c = eval ρ₁ side ι e c + eval ρ₂ side ι e c) ∧
  (FreeOf P e = true → eval ρ₀ side ι e c = eval ρ side ι e c ∧ eval ρ₁ side ι e c = eval ρ side ι e c ∧ eval ρ₂ side ι e c = eval ρ side ι e c)

def A2 (side : Side) (ι : IdxEnv) (p : Expr) : Prop :=
  FreeOf P p = true → evalB ρ₀ side ι p = evalB ρ side ι p ∧ evalB ρ₁ side ι p = evalB ρ side ι p ∧ evalB ρ₂ side ι p = evalB ρ side ι p

def A3 (side : Side) (ι : IdxEnv) (xs : List Expr) (n : Nat) (c : List Nat) : Prop :=
  (LinInL P xs = true → evalNth ρ₀ side ι xs n c = evalNth ρ₁ side ι xs n c + evalNth ρ₂ side ι xs n c) ∧
  (FreeOfL P xs = true → evalNth ρ₀ side ι xs n c = evalNth ρ side ι xs n c ∧ evalNth ρ₁ side ι xs n c = evalNth ρ side ι xs n c ∧ evalNth ρ₂ side ι xs n c = evalNth ρ side ι xs n c)

include hρ in
theorem additive_aux :
    (∀ side ι e c, A1 ρ P t₁ t₂ j₁ j₂ side ι e c) ∧ (∀ side ι p, A2 ρ P t₁ t₂ j₁ j₂ side ι p) ∧
    (∀ side ι xs n c, A3 ρ P t₁ t₂ j₁ j₂ side ι xs n c) := by
  apply eval.mutual_induct ρ₀ (motive_1 := A1 ρ P t₁ t₂ j₁ j₂) (motive_2 := A2 ρ P t₁ t₂ j₁ j₂) (motive_3 := A3 ρ P t₁ t₂ j₁ j₂)
  -- 1-5 literals, zero, multi-index
  · intro side ι v c; exact ⟨by simp [LinIn], fun _ => by simp [eval]⟩
  · intro side ι n d c; exact ⟨by simp [LinIn], fun _ => by simp [eval]⟩
  · intro side ι a b c d x; exact ⟨by simp [LinIn], fun _ => by simp [eval]⟩
  · intro side ι sh f c; exact ⟨fun _ => by simp [eval], fun _ => by simp [eval]⟩
  · intro side ι is c; exact ⟨by simp [LinIn], fun _ => by simp [eval]⟩
  -- 6-10 terminals
  · intro side ι d hd j; exact ⟨by simp [LinIn, hd], fun _ => by simp [eval, hd]⟩
  · intro side ι d hd i j hij; exact ⟨by simp [LinIn, hd], fun _ => by simp [eval, hd, hij]⟩
  · intro side ι d c hd hc; exact ⟨by simp [LinIn, hd], fun _ => by simp [eval, hd]⟩
  · intro side ι d c hd hl; exact ⟨by simp [LinIn, hl], fun _ => by simp [eval, hd, hl]⟩
  · intro side ι d c hd hl
    refine ⟨fun h => ?_, fun h => ?_⟩
    · simp only [LinIn, Bool.and_eq_true] at h
      simp [eval, hd, hl, withP_term, h.1.1]
    · simp only [FreeOf, Bool.not_eq_true'] at h
      simp [eval, hd, hl, withP_term, h]
  -- 11 sum
  · intro side ι aux c a b iha ihb
    refine ⟨fun h => ?_, fun h => ?_⟩
    · simp only [LinIn, Bool.and_eq_true] at h
      simp only [eval, iha.1 h.1, ihb.1 h.2]; ring
    · simp only [FreeOf, FreeOfL, Bool.and_true, Bool.and_eq_true] at h
      obtain ⟨a0, a1, a2⟩ := iha.2 h.1
      obtain ⟨b0, b1, b2⟩ := ihb.2 h.2
      simp only [eval, a0, a1, a2, b0, b1, b2, and_self]
  -- 12 product
  · intro side ι aux c a b iha ihb
    refine ⟨fun h => ?_, fun h => ?_⟩
    · simp only [LinIn, Bool.or_eq_true, Bool.and_eq_true] at h
      rcases h with h | h
      · obtain ⟨b0, b1, b2⟩ := ihb.2 h.2
        simp only [eval, iha.1 h.1, b0, b1, b2]; ring
      · obtain ⟨a0, a1, a2⟩ := iha.2 h.1
        simp only [eval, ihb.1 h.2, a0, a1, a2]; ring
    · simp only [FreeOf, FreeOfL, Bool.and_true, Bool.and_eq_true] at h
      obtain ⟨a0, a1, a2⟩ := iha.2 h.1
      obtain ⟨b0, b1, b2⟩ := ihb.2 h.2
      simp only [eval, a0, a1, a2, b0, b1, b2, and_self]
  -- 13 division
  · intro side ι aux c a b iha ihb
    refine ⟨fun h => ?_, fun h => ?_⟩
    · simp only [LinIn, Bool.and_eq_true] at h
      obtain ⟨b0, b1, b2⟩ := ihb.2 h.2
      simp only [eval, iha.1 h.1, b0, b1, b2]; rw [add_div]
    · simp only [FreeOf, FreeOfL, Bool.and_true, Bool.and_eq_true] at h
      obtain ⟨a0, a1, a2⟩ := iha.2 h.1
      obtain ⟨b0, b1, b2⟩ := ihb.2 h.2
      simp only [eval, a0, a1, a2, b0, b1, b2, and_self]
  -- 14 power
  · intro side ι aux c a b iha ihb
    refine ⟨by simp [LinIn], fun h => ?_⟩
    simp only [FreeOf, FreeOfL, Bool.and_true, Bool.and_eq_true] at h
    obtain ⟨a0, a1, a2⟩ := iha.2 h.1
    obtain ⟨b0, b1, b2⟩ := ihb.2 h.2
    simp only [eval, a0, a1, a2, b0, b1, b2, withP_fn2, and_self]
  -- 15 abs
  · intro side ι aux c a iha
    refine ⟨by simp [LinIn], fun h => ?_⟩
    simp only [FreeOf, FreeOfL, Bool.and_true] at h
    obtain ⟨a0, a1, a2⟩ := iha.2 h
    simp only [eval, a0, a1, a2, withP_abs, and_self]
  -- 16-18 conj real imag
  · intro side ι aux c a iha
    refine ⟨fun h => ?_, fun h => ?_⟩
    · simp only [LinIn] at h
      simp only [eval, iha.1 h, withP_conj, hρ.conj]
    · simp only [FreeOf, FreeOfL, Bool.and_true] at h
      obtain ⟨a0, a1, a2⟩ := iha.2 h
      simp only [eval, a0, a1, a2, withP_conj, and_self]
  · intro side ι aux c a iha
    refine ⟨fun h => ?_, fun h => ?_⟩
    · simp only [LinIn] at h
      simp only [eval, iha.1 h, withP_re, hρ.re]
    · simp only [FreeOf, FreeOfL, Bool.and_true] at h
      obtain ⟨a0, a1, a2⟩ := iha.2 h
      simp only [eval, a0, a1, a2, withP_re, and_self]
  · intro side ι aux c a iha
    refine ⟨fun h => ?_, fun h => ?_⟩
    · simp only [LinIn] at h
      simp only [eval, iha.1 h, withP_im, hρ.im]
    · simp only [FreeOf, FreeOfL, Bool.and_true] at h
      obtain ⟨a0, a1, a2⟩ := iha.2 h
      simp only [eval, a0, a1, a2, withP_im, and_self]
  -- 19 indexed
  · intro side ι aux c a is iha
    refine ⟨fun h => ?_, fun h => ?_⟩
    · simp only [LinIn] at h
      simp only [eval, iha.1 h]
    · simp only [FreeOf, FreeOfL, Bool.and_true] at h
      obtain ⟨a0, a1, a2⟩ := iha.2 h
      simp only [eval, a0, a1, a2, and_self]
  -- 20 index sum
  · intro side ι aux c a j iha
    refine ⟨fun h => ?_, fun h => ?_⟩
    · simp only [LinIn] at h
      simp only [eval]
      rw [← sumRange_add]
      congr 1; funext v; exact (iha v).1 h
    · simp only [FreeOf, FreeOfL, Bool.and_true] at h
      simp only [eval]
      refine ⟨?_, ?_, ?_⟩ <;> (congr 1; funext v)
      · exact ((iha v).2 h).1
      · exact ((iha v).2 h).2.1
      · exact ((iha v).2 h).2.2
  -- 21 component tensor
  · intro side ι aux c a is iha
    refine ⟨fun h => ?_, fun h => ?_⟩
    · simp only [LinIn] at h
      simp only [eval, iha.1 h]
    · simp only [FreeOf, FreeOfL, Bool.and_true] at h
      obtain ⟨a0, a1, a2⟩ := iha.2 h
      simp only [eval, a0, a1, a2, and_self]
  -- 22-23 list tensor
  · intro side ι aux xs v c' ih
    refine ⟨fun h => ?_, fun h => ?_⟩
    · simp only [LinIn] at h
      simp only [eval, ih.1 h]
    · simp only [FreeOf] at h
      obtain ⟨a0, a1, a2⟩ := ih.2 h
      simp only [eval, a0, a1, a2, and_self]
  · intro side ι aux xs
    exact ⟨fun _ => by simp [eval], fun _ => by simp [eval]⟩
  -- 24-25 conditional
  · intro side ι aux c p t f hb ihp iht
    refine ⟨fun h => ?_, fun h => ?_⟩
    · simp only [LinIn, Bool.and_eq_true] at h
      obtain ⟨p0, p1, p2⟩ := ihp h.1.1
      have hb' := hb; rw [p0] at hb'
      simp only [eval, hb, p1, p2, hb', ↓reduceIte, iht.1 h.1.2]
    · simp only [FreeOf, FreeOfL, Bool.and_true, Bool.and_eq_true] at h
      obtain ⟨p0, p1, p2⟩ := ihp h.1
      obtain ⟨a0, a1, a2⟩ := iht.2 h.2.1
      have hb' := hb; rw [p0] at hb'
      simp only [eval, hb, p1, p2, hb', ↓reduceIte, a0, a1, a2, and_self]
  · intro side ι aux c p t f hb ihp ihf
    refine ⟨fun h => ?_, fun h => ?_⟩
    · simp only [LinIn, Bool.and_eq_true] at h
      obtain ⟨p0, p1, p2⟩ := ihp h.1.1
      have hb' := hb; rw [p0] at hb'
      simp only [eval, hb, p1, p2, hb', Bool.false_eq_true, ↓reduceIte, ihf.1 h.2]
    · simp only [FreeOf, FreeOfL, Bool.and_true, Bool.and_eq_true] at h
      obtain ⟨p0, p1, p2⟩ := ihp h.1
      obtain ⟨a0, a1, a2⟩ := ihf.2 h.2.2
      have hb' := hb; rw [p0] at hb'
      simp only [eval, hb, p1, p2, hb', Bool.false_eq_true, ↓reduceIte, a0, a1, a2, and_self]
  -- 26-29 min / max
  · intro side ι aux c a b x y _ iha ihb
    refine ⟨by simp [LinIn], fun h => ?_⟩
    simp only [FreeOf, FreeOfL, Bool.and_true, Bool.and_eq_true] at h
    obtain ⟨a0, a1, a2⟩ := iha.2 h.1
    obtain ⟨b0, b1, b2⟩ := ihb.2 h.2
    simp only [eval, a0, a1, a2, b0, b1, b2, withP_lt, and_self]
  · intro side ι aux c a b x y _ iha ihb
    refine ⟨by simp [LinIn], fun h => ?_⟩
    simp only [FreeOf, FreeOfL, Bool.and_true, Bool.and_eq_true] at h
    obtain ⟨a0, a1, a2⟩ := iha.2 h.1
    obtain ⟨b0, b1, b2⟩ := ihb.2 h.2
    simp only [eval, a0, a1, a2, b0, b1, b2, withP_lt, and_self]
  · intro side ι aux c a b x y _ iha ihb
    refine ⟨by simp [LinIn], fun h => ?_⟩
    simp only [FreeOf, FreeOfL, Bool.and_true, Bool.and_eq_true] at h
    obtain ⟨a0, a1, a2⟩ := iha.2 h.1
    obtain ⟨b0, b1, b2⟩ := ihb.2 h.2
    simp only [eval, a0, a1, a2, b0, b1, b2, withP_lt, and_self]
  · intro side ι aux c a b x y _ iha ihb
    refine ⟨by simp [LinIn], fun h => ?_⟩
    simp only [FreeOf, FreeOfL, Bool.and_true, Bool.and_eq_true] at h
    obtain ⟨a0, a1, a2⟩ := iha.2 h.1
    obtain ⟨b0, b1, b2⟩ := ihb.2 h.2
    simp only [eval, a0, a1, a2, b0, b1, b2, withP_lt, and_self]
  -- 30 variable
  · intro side ι aux c a l iha
    refine ⟨fun h => ?_, fun h => ?_⟩
    · simp only [LinIn] at h
      simp only [eval, iha.1 h]
    · simp only [FreeOf, FreeOfL, Bool.and_true, Bool.and_eq_true] at h
      obtain ⟨a0, a1, a2⟩ := iha.2 h.1
      simp only [eval, a0, a1, a2, and_self]
  -- 31-32 restrictions
  · intro side ι aux c a iha
    refine ⟨fun h => ?_, fun h => ?_⟩
    · simp only [LinIn] at h
      simp only [eval, iha.1 h]
    · simp only [FreeOf, FreeOfL, Bool.and_true] at h
      obtain ⟨a0, a1, a2⟩ := iha.2 h
      simp only [eval, a0, a1, a2, and_self]
  · intro side ι aux c a iha
    refine ⟨fun h => ?_, fun h => ?_⟩
    · simp only [LinIn] at h
      simp only [eval, iha.1 h]
    · simp only [FreeOf, FreeOfL, Bool.and_true] at h
      obtain ⟨a0, a1, a2⟩ := iha.2 h
      simp only [eval, a0, a1, a2, and_self]
  -- 33 atan2
  · intro side ι aux c a b iha ihb
    refine ⟨by simp [LinIn], fun h => ?_⟩
    simp only [FreeOf, FreeOfL, Bool.and_true, Bool.and_eq_true] at h
    obtain ⟨a0, a1, a2⟩ := iha.2 h.1
    obtain ⟨b0, b1, b2⟩ := ihb.2 h.2
    simp only [eval, a0, a1, a2, b0, b1, b2, withP_fn2, and_self]
  -- 34-37 Bessel
  · intro side ι aux c a b iha ihb
    refine ⟨by simp [LinIn], fun h => ?_⟩
    simp only [FreeOf, FreeOfL, Bool.and_true, Bool.and_eq_true] at h
    obtain ⟨a0, a1, a2⟩ := iha.2 h.1
    obtain ⟨b0, b1, b2⟩ := ihb.2 h.2
    simp only [eval, a0, a1, a2, b0, b1, b2, withP_fn2, and_self]
  · intro side ι aux c a b iha ihb
    refine ⟨by simp [LinIn], fun h => ?_⟩
    simp only [FreeOf, FreeOfL, Bool.and_true, Bool.and_eq_true] at h
    obtain ⟨a0, a1, a2⟩ := iha.2 h.1
    obtain ⟨b0, b1, b2⟩ := ihb.2 h.2
    simp only [eval, a0, a1, a2, b0, b1, b2, withP_fn2, and_self]
  · intro side ι aux c a b iha ihb
    refine ⟨by simp [LinIn], fun h => ?_⟩
    simp only [FreeOf, FreeOfL, Bool.and_true, Bool.and_eq_true] at h
    obtain ⟨a0, a1, a2⟩ := iha.2 h.1
    obtain ⟨b0, b1, b2⟩ := ihb.2 h.2
    simp only [eval, a0, a1, a2, b0, b1, b2, withP_fn2, and_self]
  · intro side ι aux c a b iha ihb
    refine ⟨by simp [LinIn], fun h => ?_⟩
    simp only [FreeOf, FreeOfL, Bool.and_true, Bool.and_eq_true] at h
    obtain ⟨a0, a1, a2⟩ := iha.2 h.1
    obtain ⟨b0, b1, b2⟩ := ihb.2 h.2
    simp only [eval, a0, a1, a2, b0, b1, b2, withP_fn2, and_self]
  -- 38-39 grad
  · intro side ι aux c a d k hk
    refine ⟨fun h => ?_, fun h => ?_⟩
    · simp only [LinIn, hk] at h
      simp [eval, hk, withP_jet, h]
    · simp only [FreeOf, FreeOfL, Bool.and_true] at h
      rw [gradChain_free P a d k hk] at h
      simp only [Bool.not_eq_true'] at h
      simp [eval, hk, withP_jet, h]
  · intro side ι aux c a hk
    exact ⟨by simp [LinIn, hk], fun _ => by simp [eval, hk]⟩
  -- 40-41 math functions
  · intro side ι aux c fnk a h1 h2 h3 h4 h5 h6 h7 h8 n hn iha
    have hlin : LinIn P (.op fnk aux [a]) = false := by
      cases fnk <;> simp_all [LinIn, mathName]
    have hfree : FreeOf P (.op fnk aux [a]) = FreeOf P a := by simp [FreeOf, FreeOfL]
    have hev : ∀ (ρ' : Env K), eval ρ' side ι (.op fnk aux [a]) c = ρ'.fn n (eval ρ' side ι a c) := by
      intro ρ'; cases fnk <;> simp_all [eval, mathName]
    refine ⟨by simp [hlin], fun h => ?_⟩
    rw [hfree] at h
    obtain ⟨a0, a1, a2⟩ := iha.2 h
    simp only [hev, a0, a1, a2, withP_fn, and_self]
  · intro side ι aux c fnk a h1 h2 h3 h4 h5 h6 h7 h8 hn
    have hlin : LinIn P (.op fnk aux [a]) = false := by
      cases fnk <;> simp_all [LinIn, mathName]
    have hev : ∀ (ρ' : Env K), eval ρ' side ι (.op fnk aux [a]) c = 0 := by
      intro ρ'; cases fnk <;> simp_all [eval, mathName]
    exact ⟨by simp [hlin], fun _ => by simp [hev]⟩
  -- 42 anything else evaluates to 0
  · intro side ι k aux args c
    intros
    have hev : ∀ (ρ' : Env K), eval ρ' side ι (.op k aux args) c = 0 := by
      intro ρ'; unfold eval; split <;> first | rfl | (exfalso; simp_all)
    have hlin : LinIn P (.op k aux args) = false := by
      unfold LinIn; split <;> first | rfl | (exfalso; simp_all)
    exact ⟨by simp [hlin], fun _ => by simp [hev]⟩
  -- 43-48 comparisons
  · intro side ι aux a b iha ihb h
    simp only [FreeOf, FreeOfL, Bool.and_true, Bool.and_eq_true] at h
    obtain ⟨a0, a1, a2⟩ := iha.2 h.1
    obtain ⟨b0, b1, b2⟩ := ihb.2 h.2
    simp only [evalB, a0, a1, a2, b0, b1, b2, withP_lt, withP_eq, and_self]
  · intro side ι aux a b iha ihb h
    simp only [FreeOf, FreeOfL, Bool.and_true, Bool.and_eq_true] at h
    obtain ⟨a0, a1, a2⟩ := iha.2 h.1
    obtain ⟨b0, b1, b2⟩ := ihb.2 h.2
    simp only [evalB, a0, a1, a2, b0, b1, b2, withP_lt, withP_eq, and_self]
  · intro side ι aux a b iha ihb h
    simp only [FreeOf, FreeOfL, Bool.and_true, Bool.and_eq_true] at h
    obtain ⟨a0, a1, a2⟩ := iha.2 h.1
    obtain ⟨b0, b1, b2⟩ := ihb.2 h.2
    simp only [evalB, a0, a1, a2, b0, b1, b2, withP_lt, withP_eq, and_self]
  · intro side ι aux a b ihb iha h
    simp only [FreeOf, FreeOfL, Bool.and_true, Bool.and_eq_true] at h
    obtain ⟨a0, a1, a2⟩ := iha.2 h.1
    obtain ⟨b0, b1, b2⟩ := ihb.2 h.2
    simp only [evalB, a0, a1, a2, b0, b1, b2, withP_lt, withP_eq, and_self]
  · intro side ι aux a b ihb iha h
    simp only [FreeOf, FreeOfL, Bool.and_true, Bool.and_eq_true] at h
    obtain ⟨a0, a1, a2⟩ := iha.2 h.1
    obtain ⟨b0, b1, b2⟩ := ihb.2 h.2
    simp only [evalB, a0, a1, a2, b0, b1, b2, withP_lt, withP_eq, and_self]
  · intro side ι aux a b iha ihb h
    simp only [FreeOf, FreeOfL, Bool.and_true, Bool.and_eq_true] at h
    obtain ⟨a0, a1, a2⟩ := iha.2 h.1
    obtain ⟨b0, b1, b2⟩ := ihb.2 h.2
    simp only [evalB, a0, a1, a2, b0, b1, b2, withP_lt, withP_eq, and_self]
  -- 49-51 and / or / not
  · intro side ι aux a b iha ihb h
    simp only [FreeOf, FreeOfL, Bool.and_true, Bool.and_eq_true] at h
    obtain ⟨a0, a1, a2⟩ := iha h.1
    obtain ⟨b0, b1, b2⟩ := ihb h.2
    simp only [evalB, a0, a1, a2, b0, b1, b2, and_self]
  · intro side ι aux a b iha ihb h
    simp only [FreeOf, FreeOfL, Bool.and_true, Bool.and_eq_true] at h
    obtain ⟨a0, a1, a2⟩ := iha h.1
    obtain ⟨b0, b1, b2⟩ := ihb h.2
    simp only [evalB, a0, a1, a2, b0, b1, b2, and_self]
  · intro side ι aux a iha h
    simp only [FreeOf, FreeOfL, Bool.and_true] at h
    obtain ⟨a0, a1, a2⟩ := iha h
    simp only [evalB, a0, a1, a2, and_self]
  -- 52-53 not a condition
  · intro side ι k aux args
    intros
    have hev : ∀ (ρ' : Env K), evalB ρ' side ι (.op k aux args) = false := by
      intro ρ'; unfold evalB; split <;> first | rfl | (exfalso; simp_all)
    intro _; simp [hev]
  · intro t side ι ht
    have hev : ∀ (ρ' : Env K), evalB ρ' side ι t = false := by
      intro ρ'; unfold evalB; split <;> first | rfl | (exfalso; simp_all)
    intro _; simp [hev]
  -- 54-56 component selection in a list tensor
  · intro side ι n c; exact ⟨fun _ => by simp [evalNth], fun _ => by simp [evalNth]⟩
  · intro side ι x tail c ih
    refine ⟨fun h => ?_, fun h => ?_⟩
    · simp only [LinInL, Bool.and_eq_true] at h
      simp only [evalNth, ih.1 h.1]
    · simp only [FreeOfL, Bool.and_eq_true] at h
      obtain ⟨a0, a1, a2⟩ := ih.2 h.1
      simp only [evalNth, a0, a1, a2, and_self]
  · intro side ι x xs n c ih
    refine ⟨fun h => ?_, fun h => ?_⟩
    · simp only [LinInL, Bool.and_eq_true] at h
      simp only [evalNth, ih.1 h.2]
    · simp only [FreeOfL, Bool.and_eq_true] at h
      obtain ⟨a0, a1, a2⟩ := ih.2 h.2
      simp only [evalNth, a0, a1, a2, and_self]
end additive

open Finset

/-- **additivity**: for an expression that is linear in the `P`-terminals, the value under the sum of
    two valuations of those terminals is the sum of the values -/
theorem eval_additive (ρ : Env K) (P : KeyP) (hρ : AdditiveOps ρ) (t₁ t₂ : Side → String → List Nat → K)
    (j₁ j₂ : Side → String → List Nat → List Nat → K) (side : Side) (ι : IdxEnv) (e : Expr) (c : List Nat) (h : LinIn P e = true) :
    eval (withP ρ P (fun s k c => t₁ s k c + t₂ s k c) (fun s k c ds => j₁ s k c ds + j₂ s k c ds)) side ι e c
      = eval (withP ρ P t₁ j₁) side ι e c + eval (withP ρ P t₂ j₂) side ι e c :=
  ((additive_aux ρ P hρ t₁ t₂ j₁ j₂).1 side ι e c).1 h

/-- an expression in which no `P`-terminal occurs does not see their values -/
theorem eval_free (ρ : Env K) (P : KeyP) (hρ : AdditiveOps ρ) (t : Side → String → List Nat → K)
    (j : Side → String → List Nat → List Nat → K) (side : Side) (ι : IdxEnv) (e : Expr) (c : List Nat) (h : FreeOf P e = true) :
    eval (withP ρ P t j) side ι e c = eval ρ side ι e c :=
  (((additive_aux ρ P hρ t t j j).1 side ι e c).2 h).2.1

/-- homogeneity: with the `P`-terminals (and their derivatives) set to zero a linear expression vanishes -/
theorem eval_zero_of_lin (ρ : Env K) (P : KeyP) (hρ : AdditiveOps ρ) (side : Side) (ι : IdxEnv) (e : Expr) (c : List Nat)
    (h : LinIn P e = true) : eval (withP ρ P (fun _ _ _ => 0) (fun _ _ _ _ => 0)) side ι e c = 0 := by
  have := eval_additive ρ P hρ (fun _ _ _ => 0) (fun _ _ _ => 0) (fun _ _ _ _ => 0) (fun _ _ _ _ => 0) side ι e c h
  simp only [add_zero] at this
  have h2 : ∀ x : K, x = x + x → x = 0 := by
    intro x hx
    have : x + 0 = x + x := by rw [add_zero]; exact hx
    exact (add_left_cancel this).symm
  exact h2 _ this

/-- **finite additivity**: the values under a finite family of valuations of the `P`-terminals add up to the
    value under the sum of the family -/
theorem eval_sum (ρ : Env K) (P : KeyP) (hρ : AdditiveOps ρ) (side : Side) (ι : IdxEnv) (e : Expr) (c : List Nat)
    (h : LinIn P e = true) (T : Nat → Side → String → List Nat → K) (J : Nat → Side → String → List Nat → List Nat → K) :
    ∀ n : Nat, ∑ i ∈ range n, eval (withP ρ P (T i) (J i)) side ι e c
      = eval (withP ρ P (fun s k c => ∑ i ∈ range n, T i s k c) (fun s k c ds => ∑ i ∈ range n, J i s k c ds)) side ι e c := by
  intro n
  induction n with
  | zero => simp only [range_zero, sum_empty]; exact (eval_zero_of_lin ρ P hρ side ι e c h).symm
  | succ m ih =>
    rw [sum_range_succ, ih]
    have := eval_additive ρ P hρ (fun s k c => ∑ i ∈ range m, T i s k c) (T m) (fun s k c ds => ∑ i ∈ range m, J i s k c ds) (J m) side ι e c h
    rw [← this]
    simp only [sum_range_succ]

end Expr
end UflVerif
