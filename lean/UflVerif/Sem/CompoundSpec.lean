/-
Specification side of C06: what each compound operator means on operand values, and the
bookkeeping to state "for every instance of the regenerated family and every component".
-/
import Mathlib.Tactic.Ring
import Mathlib.Tactic.FieldSimp
import Mathlib.Tactic.LinearCombination
import Mathlib.Algebra.Field.Basic
import UflVerif.Model.WF
import UflVerif.Model.CompoundCase

namespace UflVerif.C06
open UflVerif Expr

/-- conjunction over a list (unfolds to a plain conjunction on literal lists) -/
def ForAll {α : Type} : List α → (α → Prop) → Prop
  | [], _ => True
  | x :: xs, P => P x ∧ ForAll xs P

theorem forAll_iff {α : Type} (l : List α) (P : α → Prop) : ForAll l P ↔ ∀ x ∈ l, P x := by
  induction l with
  | nil => simp [ForAll]
  | cons x xs ih => simp [ForAll, ih]

/-- all component tuples of a shape, row-major -/
def allComps : List Nat → List (List Nat)
  | [] => [[]]
  | n :: sh => (List.range n).flatMap (fun i => (allComps sh).map (i :: ·))

variable {K : Type} [Field K]

/-- Σ_{k<n} f k -/
def S (n : Nat) (f : Nat → K) : K := sumRange n f

def kron (i j : Nat) : K := if i = j then 1 else 0

end UflVerif.C06

namespace UflVerif.C06
open UflVerif Expr

/-- evaluate a regenerated instance: unfold the semantics on the literal tree -/
macro "c06_eval" "[" extra:Lean.Parser.Tactic.simpLemma,* "]" : tactic =>
  `(tactic| simp [ForAll, allComps, S, kron, eval, evalNth, gradChain, mathName, fi, shape, sumRange, FI.dimOf, FI.insert, FI.merge, FI.remove,
      idxPairs, freeCounts, List.range, List.range.loop, IdxEnv.bind, IdxEnv.set, Idx.resolve, List.zipIdx, $extra,*])

/-- split the conjunction over the instances of a family -/
macro "c06_cases" : tactic => `(tactic| (simp only [ForAll]; repeat' constructor))

end UflVerif.C06

namespace UflVerif.C06

theorem forAll_zip_right {α β : Type} {P : β → Prop} : ∀ (l1 : List α) (l2 : List β), ForAll l2 P → ForAll (l1.zip l2) (fun p => P p.2)
  | [], _, _ => by simp [ForAll]
  | _ :: _, [], _ => by simp [ForAll]
  | _ :: xs, _ :: ys, h => ⟨h.1, forAll_zip_right xs ys h.2⟩

theorem forAll_mp {α : Type} {P Q : α → Prop} : ∀ (l : List α), ForAll l P → ForAll l (fun x => P x → Q x) → ForAll l Q
  | [], _, _ => trivial
  | _ :: xs, h1, h2 => ⟨h2.1 h1.1, forAll_mp xs h1.2 h2.2⟩

open Lean Elab Tactic Meta in
/-- `gen_denom hd d`: find a division `_ / D` in the goal whose denominator `D` is neither a variable nor a
    numeral, and generalize it: `d : K`, `hd : D = d`. -/
elab "gen_denom" h:ident d:ident : tactic => withMainContext do
  let g ← getMainGoal
  let t ← instantiateMVars (← g.getType)
  let ok (e : Lean.Expr) : Bool :=
    e.isAppOfArity ``HDiv.hDiv 6 &&
      (let D : Lean.Expr := e.getArg! 5
       !D.isFVar && !D.hasLooseBVars && !D.isAppOf ``OfNat.ofNat && !D.isAppOf ``Nat.cast && !D.isAppOf `Real.sqrt)
  let some e := t.find? ok | throwError "gen_denom: no denominator to generalize"
  let D := e.getArg! 5
  let (_, g') ← g.generalize #[{ expr := D, xName? := some d.getId, hName? := some h.getId }]
  replaceMainGoal [g']

end UflVerif.C06
