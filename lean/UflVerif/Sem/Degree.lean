/-
Lemmas for C18 (Props/C18.lean): polynomial semantics of the expression language
(`eval` instantiated at `MvPolynomial σ F`), total-degree bounds of the ring operations, of
partial derivatives and of index sums, and the element-tree lemmas (the degree of a node bounds the
degree of every physical component; the sub-element walk of the `indexed` handler against the
physical layout).
-/
import UflVerif.Model.Degree
import UflVerif.Sem.Congr
import UflVerif.Sem.FI
import Mathlib.Algebra.MvPolynomial.Degrees
import Mathlib.Algebra.MvPolynomial.PDeriv

namespace UflVerif.DegreeSem
open UflVerif Expr Degree MvPolynomial

variable {σ : Type} {F : Type} [Field F]

/-- division of polynomials as it occurs in the fragment: by a constant (the constant coefficient of the divisor) -/
noncomputable instance polyDiv : Div (MvPolynomial σ F) := ⟨fun p q => p * C ((coeff 0 q)⁻¹)⟩

theorem div_def (p q : MvPolynomial σ F) : p / q = p * C ((coeff 0 q)⁻¹) := rfl

theorem td_div_le (p q : MvPolynomial σ F) : (p / q).totalDegree ≤ p.totalDegree := by
  rw [div_def]
  exact (totalDegree_mul _ _).trans (by simp)

theorem td_intCast (v : ℤ) : ((v : MvPolynomial σ F)).totalDegree = 0 := by
  rw [← map_intCast (C : F →+* MvPolynomial σ F) v]; exact totalDegree_C _

theorem td_natCast (v : ℕ) : ((v : MvPolynomial σ F)).totalDegree = 0 := by
  rw [← map_natCast (C : F →+* MvPolynomial σ F) v]; exact totalDegree_C _

theorem td_foldl_le (m : ℕ) (f : ℕ → MvPolynomial σ F) (h : ∀ k, (f k).totalDegree ≤ m) :
    ∀ (l : List ℕ) (acc : MvPolynomial σ F), acc.totalDegree ≤ m →
      (l.foldl (fun acc k => acc + f k) acc).totalDegree ≤ m
  | [], _, ha => ha
  | k :: l, acc, ha => td_foldl_le m f h l (acc + f k) ((totalDegree_add _ _).trans (max_le ha (h k)))

theorem td_sumRange_le (n m : ℕ) (f : ℕ → MvPolynomial σ F) (h : ∀ k, (f k).totalDegree ≤ m) :
    (sumRange n f).totalDegree ≤ m :=
  td_foldl_le m f h _ 0 (by simp)

/-- differentiation lowers the total degree by one (truncated at 0) -/
theorem totalDegree_pderiv_le (i : σ) (p : MvPolynomial σ F) :
    (pderiv i p).totalDegree ≤ p.totalDegree - 1 := by
  classical
  conv_lhs => rw [← support_sum_monomial_coeff p]
  rw [map_sum]
  refine (totalDegree_finsetSum _ _).trans (Finset.sup_le fun s hs => ?_)
  rw [pderiv_monomial]
  by_cases hsi : s i = 0
  · simp [hsi]
  · refine (totalDegree_monomial_le _ _).trans ?_
    have h1 : Finsupp.single i 1 ≤ s := by
      intro j
      by_cases hj : j = i
      · subst hj; simp; omega
      · simp [Ne.symm hj]
    have h2 : ((s - Finsupp.single i 1).sum fun _ e => e) + 1 = s.sum fun _ e => e := by
      conv_rhs => rw [← tsub_add_cancel_of_le h1]
      rw [Finsupp.sum_add_index' (fun _ => rfl) (fun _ _ _ => rfl), Finsupp.sum_single_index rfl]
    have h3 := le_totalDegree hs
    have h4 : ((s - Finsupp.single i 1).sum fun _ => id) + 1 = s.sum fun _ e => e := h2
    omega


/-! ### element trees: the degree of a node bounds the degree of every physical component -/

theorem degLe_some {a b : Option Nat} (h : degLe a b = true) : ∃ x y, a = some x ∧ b = some y ∧ x ≤ y := by
  cases a <;> cases b <;> simp_all [degLe]

mutual
theorem compDeg_le : ∀ (e : Elem), elemOK e = true → ∀ c t, compDeg e c = some t → ∃ D, e.deg = some D ∧ t ≤ D
  | .mk d r p .leaf subs, h, c, t, ht => by
    simp only [compDeg] at ht
    exact ⟨t, by simp [Elem.deg, ht], le_refl _⟩
  | .mk d r p .concat subs, h, c, t, ht => by
    simp only [compDeg] at ht
    simp only [elemOK, Bool.and_eq_true] at h
    have := walk_le subs d h.1.2 c t ht
    simpa [Elem.deg] using this
  | .mk d r p (.sym sp m) subs, h, c, t, ht => by
    simp only [compDeg] at ht
    simp only [elemOK, Bool.and_eq_true] at h
    split at ht
    · simp at ht
    · split at ht
      · have := nth_le subs d h.1.1.1.1.2 _ _ t ht
        simpa [Elem.deg] using this
      · simp at ht
theorem walk_le : ∀ (subs : List Elem) (d : Option Nat), elemOKL d subs = true → ∀ c t, compDegWalk subs c = some t →
    ∃ D, d = some D ∧ t ≤ D
  | [], d, h, c, t, ht => by simp [compDegWalk] at ht
  | s :: rest, d, h, c, t, ht => by
    simp only [elemOKL, Bool.and_eq_true] at h
    simp only [compDegWalk] at ht
    split at ht
    · obtain ⟨D, hD, hle⟩ := compDeg_le s h.1.1 c t ht
      obtain ⟨x, y, hx, hy, hxy⟩ := degLe_some h.1.2
      rw [hD] at hx; cases hx
      exact ⟨y, hy, le_trans hle hxy⟩
    · exact walk_le rest d h.2 _ t ht
theorem nth_le : ∀ (subs : List Elem) (d : Option Nat), elemOKL d subs = true → ∀ k c t, compDegNth subs k c = some t →
    ∃ D, d = some D ∧ t ≤ D
  | [], d, h, k, c, t, ht => by simp [compDegNth] at ht
  | s :: rest, d, h, 0, c, t, ht => by
    simp only [elemOKL, Bool.and_eq_true] at h
    simp only [compDegNth] at ht
    obtain ⟨D, hD, hle⟩ := compDeg_le s h.1.1 c t ht
    obtain ⟨x, y, hx, hy, hxy⟩ := degLe_some h.1.2
    rw [hD] at hx; cases hx
    exact ⟨y, hy, le_trans hle hxy⟩
  | s :: rest, d, h, k + 1, c, t, ht => by
    simp only [elemOKL, Bool.and_eq_true] at h
    simp only [compDegNth] at ht
    exact nth_le rest d h.2 k c t ht
end


/-- the offset-accumulating walk of the handler (with physical sizes) finds the sub-element that owns the
    physical component: its degree bounds the component's degree -/
theorem walk_phys_sound (dflt : Nat) : ∀ (subs : List Elem) (d : Option Nat), elemOKL d subs = true →
    ∀ (off c r t : Nat), walk false dflt subs (off + c) off = some r → compDegWalk subs c = some t → t ≤ r
  | [], d, h, off, c, r, t, hw, ht => by simp [compDegWalk] at ht
  | s :: rest, d, h, off, c, r, t, hw, ht => by
    simp only [elemOKL, Bool.and_eq_true] at h
    simp only [walk, Bool.false_eq_true, ↓reduceIte] at hw
    simp only [compDegWalk] at ht
    by_cases hc : c < s.physSize
    · have h1 : off + c < off + s.physSize := by omega
      simp only [h1, ↓reduceIte, Option.some.injEq] at hw
      simp only [hc, ↓reduceIte] at ht
      obtain ⟨D, hD, hle⟩ := compDeg_le s h.1.1 c t ht
      rw [hD] at hw
      simp only at hw
      omega
    · have h1 : ¬ (off + c < off + s.physSize) := by omega
      simp only [h1, ↓reduceIte] at hw
      simp only [hc, ↓reduceIte] at ht
      have h2 : off + c = (off + s.physSize) + (c - s.physSize) := by omega
      rw [h2] at hw
      exact walk_phys_sound dflt rest d h.2 _ _ r t hw ht

theorem walk_ref_eq_phys (dflt : Nat) : ∀ (subs : List Elem), subs.all (fun s => s.refSize == s.physSize) = true →
    ∀ comp off, walk true dflt subs comp off = walk false dflt subs comp off
  | [], _, comp, off => rfl
  | s :: rest, h, comp, off => by
    simp only [List.all_cons, Bool.and_eq_true, beq_iff_eq] at h
    simp only [walk, ↓reduceIte, Bool.false_eq_true, h.1, walk_ref_eq_phys dflt rest h.2]

theorem termFrag_formArg {ctx : Ctx} {d : TermData} {el : Elem} (hf : termFrag ctx d = true)
    (hfa : isFormArg d = true) (hel : (ctx.get d.key).elem = some el) : elemOK el = true := by
  simp only [termFrag, hfa, ↓reduceIte, hel, Bool.and_eq_true] at hf
  exact hf.2.1

/-- the refinement of the `indexed` handler is sound at a node: whenever it fires, its answer bounds the
    true degree of the selected component -/
def RefineSound (ctx : Ctx) (safe : Expr → List Idx → Bool) : Prop :=
  ∀ (d : TermData) (is : List Idx) (r : Nat), termFrag ctx d = true → safe (.term d) is = true →
    refine ctx (.term d) is = some r → trueBound ctx d (fixedVals is) ≤ r

theorem trueBound_formArg (ctx : Ctx) (d : TermData) (c : List Nat) (hf : isFormArg d = true) (el : Elem)
    (he : (ctx.get d.key).elem = some el) :
    trueBound ctx d c = (compDeg el (flat d.shape c)).getD 0 := by
  simp [trueBound, hf, he]

theorem refineSound_phys (ctx : Ctx) (hv : ctx.variant = .physSize) : RefineSound ctx noCond := by
  intro d is r hf _ hr
  simp only [refine, hv] at hr
  split at hr
  · rename_i hcond
    split at hr
    · rename_i el hel
      simp only [Bool.and_eq_true] at hcond
      have hfa : isFormArg d = true := by simpa [isFormArg] using hcond.1
      have hok := termFrag_formArg hf hfa hel
      rw [trueBound_formArg ctx d _ hfa el hel]
      split at hr
      · split at hr
        · simp at hr
        · cases hc : compDeg el (flat d.shape (fixedVals is)) with
          | none => simp
          | some t =>
            simp only [Option.getD_some]
            obtain ⟨dg, rs, ps, lay, subs⟩ := el
            cases lay with
            | leaf => simp [elemOK] at hok; simp_all [Elem.subs]
            | sym sp m => simp [Layout.isSym, Elem.layout] at *
            | concat =>
              simp only [compDeg] at hc
              simp only [elemOK, Bool.and_eq_true] at hok
              have := walk_phys_sound ctx.default subs dg hok.1.2 0 _ r t (by simpa [Elem.subs] using hr) hc
              exact this
      · simp at hr
    · simp at hr
  · simp at hr


theorem refineSound_off (ctx : Ctx) (hv : ctx.variant = .off) : RefineSound ctx noCond := by
  intro d is r _ _ hr
  simp only [refine, hv] at hr
  split at hr
  · split at hr
    · split at hr <;> simp at hr
    · simp at hr
  · simp at hr

theorem refineSound_ref (ctx : Ctx) (hv : ctx.variant = .refSize) : RefineSound ctx (layoutSafe ctx) := by
  intro d is r hf hs hr
  simp only [refine, hv] at hr
  split at hr
  · rename_i hcond
    simp only [Bool.and_eq_true] at hcond
    have hfa : isFormArg d = true := by simpa [isFormArg] using hcond.1
    split at hr
    · rename_i el hel
      have hok := termFrag_formArg hf hfa hel
      simp only [layoutSafe, hfa, hcond.2, Bool.and_self, ↓reduceIte, hel, Bool.or_eq_true, Bool.and_eq_true] at hs
      rw [trueBound_formArg ctx d _ hfa el hel]
      split at hr
      · rename_i hne
        simp only [Bool.and_eq_true, Bool.not_eq_true'] at hne
        cases hc : compDeg el (flat d.shape (fixedVals is)) with
        | none => simp
        | some t =>
          simp only [Option.getD_some]
          rcases hs with hs | ⟨hl, hall⟩
          · simp [hne.1] at hs
          · obtain ⟨dg, rs, ps, lay, subs⟩ := el
            simp only [Elem.layout, beq_iff_eq] at hl
            subst hl
            simp only [compDeg] at hc
            simp only [elemOK, Bool.and_eq_true] at hok
            simp only [Elem.subs] at hall hr
            rw [walk_ref_eq_phys ctx.default subs hall] at hr
            exact walk_phys_sound ctx.default subs dg hok.1.2 0 _ r t (by simpa using hr) hc
      · simp at hr
    · simp at hr
  · simp at hr




/-- Polynomial valuations: every terminal of the fragment denotes, per component, a polynomial in the
    spatial coordinates whose total degree is at most the degree of the sub-element owning that
    component (`trueBound`); derivative jets lose one degree per derivative; integer powers are
    powers; conj / real / imag do not raise the degree; the imaginary unit is a constant. -/
structure PolyEnv (ctx : Ctx) (ρ : Env (MvPolynomial σ F)) : Prop where
  term_le : ∀ side (d : TermData) c, termFrag ctx d = true → (ρ.term side d.key c).totalDegree ≤ trueBound ctx d c
  jet_le : ∀ side (d : TermData) c ds, termFrag ctx d = true →
    (ρ.jet side d.key c ds).totalDegree ≤ trueBound ctx d c - ds.length
  pow_nat : ∀ (p : MvPolynomial σ F) (n : ℕ), ρ.fn2 "Power" p (((n : ℤ) : ℤ) : MvPolynomial σ F) = p ^ n
  conj_le : ∀ p, (ρ.conj p).totalDegree ≤ p.totalDegree
  re_le : ∀ p, (ρ.re p).totalDegree ≤ p.totalDegree
  im_le : ∀ p, (ρ.im p).totalDegree ≤ p.totalDegree
  i_const : ρ.i.totalDegree = 0

/-! ### inversion of the estimator on the fragment's operators -/

theorem estimate_op (ctx : Ctx) (k : Op) (aux : List Nat) (args : List Expr) :
    estimate ctx (.op k aux args) = (estimateL ctx args).bind (applyOp ctx k args) := by
  simp only [estimate]

theorem estimateL_one (ctx : Ctx) (a : Expr) (ds : List Deg) (h : estimateL ctx [a] = some ds) :
    ∃ da, estimate ctx a = some da ∧ ds = [da] := by
  simp only [estimateL] at h
  cases ha : estimate ctx a with
  | none => simp [ha] at h
  | some da => simp [ha] at h; exact ⟨da, rfl, h.symm⟩

theorem estimateL_two (ctx : Ctx) (a b : Expr) (ds : List Deg) (h : estimateL ctx [a, b] = some ds) :
    ∃ da db, estimate ctx a = some da ∧ estimate ctx b = some db ∧ ds = [da, db] := by
  simp only [estimateL] at h
  cases ha : estimate ctx a with
  | none => simp [ha] at h
  | some da =>
    cases hb : estimate ctx b with
    | none => simp [ha, hb] at h
    | some db => simp [ha, hb] at h; exact ⟨da, db, rfl, rfl, h.symm⟩

theorem est_one {ctx : Ctx} {k : Op} {aux : List Nat} {a : Expr} {r : Option Deg}
    (h : estimate ctx (.op k aux [a]) = r) (hr : r ≠ none) :
    ∃ da, estimate ctx a = some da ∧ applyOp ctx k [a] [da] = r := by
  rw [estimate_op] at h
  cases hl : estimateL ctx [a] with
  | none => simp [hl] at h; exact absurd h.symm hr
  | some ds =>
    obtain ⟨da, h1, h2⟩ := estimateL_one ctx a ds hl
    subst h2
    simp only [hl, Option.bind_some] at h
    exact ⟨da, h1, h⟩

theorem est_two {ctx : Ctx} {k : Op} {aux : List Nat} {a b : Expr} {r : Option Deg}
    (h : estimate ctx (.op k aux [a, b]) = r) (hr : r ≠ none) :
    ∃ da db, estimate ctx a = some da ∧ estimate ctx b = some db ∧ applyOp ctx k [a, b] [da, db] = r := by
  rw [estimate_op] at h
  cases hl : estimateL ctx [a, b] with
  | none => simp [hl] at h; exact absurd h.symm hr
  | some ds =>
    obtain ⟨da, db, h1, h2, h3⟩ := estimateL_two ctx a b ds hl
    subst h3
    simp only [hl, Option.bind_some] at h
    exact ⟨da, db, h1, h2, h⟩


/-! ### the handlers on the fragment's operators (by computation) -/

theorem applyOp_sum (ctx : Ctx) (args : List Expr) (ds : List Deg) : applyOp ctx .sum args ds = pyMax ds := rfl
theorem applyOp_listTensor (ctx : Ctx) (args : List Expr) (ds : List Deg) : applyOp ctx .listTensor args ds = pyMax ds := rfl
theorem applyOp_product (ctx : Ctx) (args : List Expr) (ds : List Deg) : applyOp ctx .product args ds = pySum ds := rfl
theorem applyOp_division (ctx : Ctx) (args : List Expr) (ds : List Deg) : applyOp ctx .division args ds = pySum ds := rfl
theorem applyOp_grad (ctx : Ctx) (args : List Expr) (f : Deg) :
    applyOp ctx .grad args [f] = some (reduceDeg (quadAnyL ctx args) f) := rfl
theorem applyOp_conj (ctx : Ctx) (args : List Expr) (a : Deg) : applyOp ctx .conj args [a] = some a := rfl
theorem applyOp_real (ctx : Ctx) (args : List Expr) (a : Deg) : applyOp ctx .real args [a] = some a := rfl
theorem applyOp_imag (ctx : Ctx) (args : List Expr) (a : Deg) : applyOp ctx .imag args [a] = some a := rfl
theorem applyOp_pos (ctx : Ctx) (args : List Expr) (a : Deg) : applyOp ctx .positiveRestricted args [a] = some a := rfl
theorem applyOp_neg (ctx : Ctx) (args : List Expr) (a : Deg) : applyOp ctx .negativeRestricted args [a] = some a := rfl
theorem applyOp_variable (ctx : Ctx) (args : List Expr) (a b : Deg) : applyOp ctx .variable args [a, b] = some a := rfl
theorem applyOp_indexSum (ctx : Ctx) (args : List Expr) (a b : Deg) : applyOp ctx .indexSum args [a, b] = some a := rfl
theorem applyOp_componentTensor (ctx : Ctx) (args : List Expr) (a b : Deg) :
    applyOp ctx .componentTensor args [a, b] = some a := rfl
theorem applyOp_indexed (ctx : Ctx) (x : Expr) (is : List Idx) (a b : Deg) :
    applyOp ctx .indexed [x, .mi is] [a, b] = (match refine ctx x is with
      | some r => some (some r)
      | none => some a) := rfl
theorem applyOp_power (ctx : Ctx) (x : Expr) (g : Int) (a b : Deg) :
    applyOp ctx .power [x, .int g] [a, b] =
      (if g ≥ 0 then (match a with
         | some n => some (some (n * g.toNat))
         | none => none)
       else pySum [a, some 2]) := rfl

/-! ### gradient chains -/

theorem chain_shape : ∀ (a : Expr) (d : TermData) (k : Nat), gradChain a = some (d, k) → chainAux a = true →
    (shape a).length = d.shape.length + k := by
  intro a
  fun_induction gradChain a with
  | case1 d0 => intro d k h _; simp only [Option.some.injEq, Prod.mk.injEq] at h; obtain ⟨rfl, rfl⟩ := h; simp [shape]
  | case2 aux a d0 k0 hk ih =>
    intro d k h hc
    simp only [Option.some.injEq, Prod.mk.injEq] at h
    obtain ⟨rfl, rfl⟩ := h
    simp only [chainAux, Bool.and_eq_true, beq_iff_eq] at hc
    have := ih d0 k0 hk hc.2
    simp only [shape, List.length_append, this, hc.1]
    omega
  | case3 aux a hk ih => intro d k h; simp at h
  | case4 e h1 h2 => intro d k h; simp at h

/-- along a gradient chain the estimate drops by at most one per gradient -/
theorem chain_estimate (ctx : Ctx) : ∀ (a : Expr) (d : TermData) (k : Nat), gradChain a = some (d, k) →
    ∀ m, estimate ctx a = some (some m) → ∃ m0, termEstimate ctx d = some (some m0) ∧ m0 - k ≤ m := by
  intro a
  fun_induction gradChain a with
  | case1 d0 =>
    intro d k h m hm; simp only [Option.some.injEq, Prod.mk.injEq] at h; obtain ⟨rfl, rfl⟩ := h
    exact ⟨m, by simpa [estimate] using hm, by omega⟩
  | case2 aux a d0 k0 hk ih =>
    intro d k h m hm
    simp only [Option.some.injEq, Prod.mk.injEq] at h
    obtain ⟨rfl, rfl⟩ := h
    obtain ⟨da, h1, h2⟩ := est_one hm (by simp)
    rw [applyOp_grad] at h2
    cases da with
    | none => simp [reduceDeg] at h2
    | some ma =>
      obtain ⟨m0, h3, h4⟩ := ih d0 k0 hk ma h1
      refine ⟨m0, h3, ?_⟩
      simp only [reduceDeg] at h2
      split at h2 <;> simp at h2 <;> omega
  | case3 aux a hk ih => intro d k h; simp at h
  | case4 e h1 h2 => intro d k h; simp at h



/-- the estimate of a terminal of the fragment bounds the true degree of each of its components -/
theorem term_bound (ctx : Ctx) (d : TermData) (hf : termFrag ctx d = true) (n : Nat)
    (he : termEstimate ctx d = some (some n)) (c : List Nat) : trueBound ctx d c ≤ n := by
  by_cases hfa : isFormArg d = true
  · cases hel : (ctx.get d.key).elem with
    | none => simp [termFrag, hfa, hel] at hf
    | some el =>
      have hok := termFrag_formArg hf hfa hel
      rw [trueBound_formArg ctx d c hfa el hel]
      cases hc : compDeg el (flat d.shape c) with
      | none => simp
      | some t =>
        obtain ⟨D, hD, hle⟩ := compDeg_le el hok _ t hc
        simp only [Option.getD_some]
        simp only [isFormArg, Bool.or_eq_true, beq_iff_eq] at hfa
        rcases hfa with h | h
        · simp [termEstimate, termHandler, h, hel, hD] at he; omega
        · simp [termEstimate, termHandler, h, hel, hD] at he; omega
  · simp only [Bool.not_eq_true] at hfa
    simp only [trueBound, hfa, Bool.false_eq_true, ↓reduceIte]
    by_cases h1 : d.cls = "SpatialCoordinate"
    · simp [termEstimate, termHandler, h1] at he ⊢; omega
    · by_cases h2 : d.cls = "CellCoordinate"
      · simp [termEstimate, termHandler, h2] at he ⊢; omega
      · simp [h1, h2]


theorem resolve_fixed (ι : IdxEnv) : ∀ (is : List Idx), allFixed is = true → is.map (Idx.resolve ι) = fixedVals is
  | [], _ => rfl
  | .fixed v :: is, h => by
    simp only [allFixed] at h
    simp [fixedVals, Idx.resolve, resolve_fixed ι is h]
  | .free _ :: _, h => by simp [allFixed] at h

theorem pyMax_some {ds : List Deg} {n : Nat} (h : pyMax ds = some (some n)) :
    ∃ ns, Degree.allSome ds = some ns ∧ n = maxL ns := by
  unfold pyMax at h
  cases ha : Degree.allSome ds with
  | none => rw [ha] at h; simp at h
  | some ns => rw [ha] at h; simp at h; exact ⟨ns, rfl, h.symm⟩

theorem pySum_some {ds : List Deg} {n : Nat} (h : pySum ds = some (some n)) :
    ∃ ns, Degree.allSome ds = some ns ∧ n = sumL ns := by
  unfold pySum at h
  cases ha : Degree.allSome ds with
  | none => rw [ha] at h; simp at h
  | some ns => rw [ha] at h; simp at h; exact ⟨ns, rfl, h.symm⟩

theorem allSome_two {a b : Deg} {ns : List Nat} (h : Degree.allSome [a, b] = some ns) :
    ∃ x y, a = some x ∧ b = some y ∧ ns = [x, y] := by
  cases a <;> cases b <;> simp_all [Degree.allSome]

section main
variable (ctx : Ctx) (safe : Expr → List Idx → Bool) (ρ : Env (MvPolynomial σ F))

def P1 (e : Expr) : Prop :=
  WF e = true → Frag ctx safe e = true → ∀ n, estimate ctx e = some (some n) →
    ∀ side ι c, c.length = (shape e).length → (Expr.eval ρ side ι e c).totalDegree ≤ n

def P2 (xs : List Expr) : Prop :=
  WFL xs = true → FragL ctx safe xs = true → ∀ ds ns, estimateL ctx xs = some ds → Degree.allSome ds = some ns →
    ∀ side ι k c, (∀ x ∈ xs, c.length = (shape x).length) → (evalNth ρ side ι xs k c).totalDegree ≤ maxL ns

theorem bound_aux (hρ : PolyEnv ctx ρ) (hs : RefineSound ctx safe) :
    (∀ e, P1 ctx safe ρ e) ∧ (∀ xs, P2 ctx safe ρ xs) := by
  apply Frag.mutual_induct (motive_1 := P1 ctx safe ρ) (motive_2 := P2 ctx safe ρ)
  -- literals
  · intro v _ _ n _ side ι c _
    simp only [Expr.eval, td_intCast]; omega
  · intro num den _ _ n _ side ι c _
    simp only [Expr.eval]
    exact (td_div_le _ _).trans (by simp [td_intCast])
  · intro a b c' d _ _ n _ side ι c _
    simp only [Expr.eval]
    refine (totalDegree_add _ _).trans (max_le ((td_div_le _ _).trans (by simp [td_intCast])) ?_)
    refine (totalDegree_mul _ _).trans ?_
    have := td_div_le (σ := σ) (F := F) (c' : MvPolynomial σ F) (d : MvPolynomial σ F)
    simp only [td_intCast] at this
    rw [hρ.i_const]; omega
  · intro sh fi _ _ n _ side ι c _
    simp [Expr.eval]
  · intro is hw; simp [WF] at hw
  -- terminals
  · intro d _ hf n he side ι c _
    simp only [Frag] at hf
    simp only [estimate] at he
    simp only [Expr.eval]
    split
    · split <;> (try split) <;> simp
    · split
      · simp
      · exact (hρ.term_le side d c hf).trans (term_bound ctx d hf n he c)
  -- sum
  · intro aux a b iha ihb hw hf n he side ι c hc
    simp only [WF, Bool.and_eq_true, beq_iff_eq] at hw
    obtain ⟨⟨⟨wa, wb⟩, hsh⟩, _⟩ := hw
    simp only [Frag, Bool.and_eq_true] at hf
    obtain ⟨da, db, h1, h2, h3⟩ := est_two he (by simp)
    rw [applyOp_sum] at h3
    obtain ⟨ns, h4, h5⟩ := pyMax_some h3
    obtain ⟨x, y, rfl, rfl, rfl⟩ := allSome_two h4
    simp only [shape] at hc
    simp only [Expr.eval]
    refine (totalDegree_add _ _).trans (max_le ?_ ?_)
    · exact (iha wa hf.1 x h1 side ι c hc).trans (by simp [h5, maxL])
    · exact (ihb wb hf.2 y h2 side ι c (by rw [← hsh]; exact hc)).trans (by simp [h5, maxL])
  -- product
  · intro aux a b iha ihb hw hf n he side ι c hc
    simp only [WF, Bool.and_eq_true, List.isEmpty_iff] at hw
    obtain ⟨⟨⟨⟨wa, wb⟩, sa⟩, sb⟩, _⟩ := hw
    simp only [Frag, Bool.and_eq_true] at hf
    obtain ⟨da, db, h1, h2, h3⟩ := est_two he (by simp)
    rw [applyOp_product] at h3
    obtain ⟨ns, h4, h5⟩ := pySum_some h3
    obtain ⟨x, y, rfl, rfl, rfl⟩ := allSome_two h4
    simp only [Expr.eval]
    refine (totalDegree_mul _ _).trans ?_
    have ha := iha wa hf.1 x h1 side ι [] (by simp [sa])
    have hb := ihb wb hf.2 y h2 side ι [] (by simp [sb])
    simp only [sumL] at h5
    omega
  -- division
  · intro aux a b iha ihb hw hf n he side ι c hc
    simp only [WF, Bool.and_eq_true, List.isEmpty_iff, trueScalar] at hw
    obtain ⟨⟨⟨wa, wb⟩, sa⟩, sb, _⟩ := hw
    simp only [Frag, Bool.and_eq_true] at hf
    obtain ⟨da, db, h1, h2, h3⟩ := est_two he (by simp)
    rw [applyOp_division] at h3
    obtain ⟨ns, h4, h5⟩ := pySum_some h3
    obtain ⟨x, y, rfl, rfl, rfl⟩ := allSome_two h4
    simp only [shape, List.length_nil] at hc
    simp only [Expr.eval]
    refine (td_div_le _ _).trans ?_
    have ha := iha wa hf.1.1 x h1 side ι c (by simp [sa, hc])
    simp only [sumL] at h5
    omega
  -- power
  · intro aux a g iha hw hf n he side ι c hc
    simp only [WF, Bool.and_eq_true, List.isEmpty_iff, trueScalar] at hw
    obtain ⟨⟨⟨wa, _⟩, sa, _⟩, _⟩ := hw
    simp only [Frag, Bool.and_eq_true, decide_eq_true_eq] at hf
    obtain ⟨da, db, h1, h2, h3⟩ := est_two he (by simp)
    rw [applyOp_power] at h3
    have hg : g ≥ 0 := hf.2
    simp only [hg, ↓reduceIte] at h3
    cases da with
    | none => simp at h3
    | some x =>
      simp only [Option.some.injEq] at h3
      simp only [shape, List.length_nil] at hc
      simp only [Expr.eval]
      have hgn : g = ((g.toNat : ℕ) : ℤ) := by omega
      rw [hgn, hρ.pow_nat]
      refine (totalDegree_pow _ _).trans ?_
      have ha := iha wa hf.1 x h1 side ι c (by simp [sa, hc])
      rw [← h3, Nat.mul_comm]
      exact Nat.mul_le_mul_right _ ha
  -- conj real imag
  · intro aux a iha hw hf n he side ι c hc
    simp only [WF] at hw; simp only [Frag] at hf; simp only [shape] at hc
    obtain ⟨da, h1, h2⟩ := est_one he (by simp)
    rw [applyOp_conj] at h2
    simp only [Option.some.injEq] at h2; subst h2
    simp only [Expr.eval]
    exact (hρ.conj_le _).trans (iha hw hf n h1 side ι c hc)
  · intro aux a iha hw hf n he side ι c hc
    simp only [WF] at hw; simp only [Frag] at hf; simp only [shape] at hc
    obtain ⟨da, h1, h2⟩ := est_one he (by simp)
    rw [applyOp_real] at h2
    simp only [Option.some.injEq] at h2; subst h2
    simp only [Expr.eval]
    exact (hρ.re_le _).trans (iha hw hf n h1 side ι c hc)
  · intro aux a iha hw hf n he side ι c hc
    simp only [WF] at hw; simp only [Frag] at hf; simp only [shape] at hc
    obtain ⟨da, h1, h2⟩ := est_one he (by simp)
    rw [applyOp_imag] at h2
    simp only [Option.some.injEq] at h2; subst h2
    simp only [Expr.eval]
    exact (hρ.im_le _).trans (iha hw hf n h1 side ι c hc)
  -- indexed
  · intro aux a is iha hw hf n he side ι c hc
    simp only [WF, Bool.and_eq_true, beq_iff_eq] at hw
    obtain ⟨⟨⟨wa, hl⟩, _⟩, _⟩ := hw
    simp only [Frag, Bool.and_eq_true] at hf
    obtain ⟨da, db, h1, h2, h3⟩ := est_two he (by simp)
    rw [applyOp_indexed] at h3
    simp only [Expr.eval]
    cases hr : refine ctx a is with
    | none =>
      simp only [hr, Option.some.injEq] at h3
      subst h3
      exact iha wa hf.1 n h1 side ι _ (by simp [hl])
    | some r =>
      simp only [hr, Option.some.injEq] at h3
      subst h3
      -- the refinement fired: `a` is a form argument indexed by fixed indices
      cases a with
      | term d =>
        have hcond : (d.cls == "Coefficient" || d.cls == "Argument") = true ∧ allFixed is = true := by
          simp only [refine] at hr
          split at hr
          · rename_i h; simpa [Bool.and_eq_true] using h
          · simp at hr
        have hfd : termFrag ctx d = true := by simpa [Frag] using hf.1
        have hb := hs d is r hfd hf.2 hr
        have hcls1 : ¬ d.cls = "Identity" := by
          intro h; simp [h] at hcond
        have hcls2 : ¬ d.cls = "Label" := by
          intro h; simp [h] at hcond
        simp only [Expr.eval, hcls1, hcls2, ↓reduceIte, resolve_fixed ι is hcond.2]
        exact (hρ.term_le side d _ hfd).trans hb
      | _ => simp [refine] at hr
  -- index sum
  · intro aux a j iha hw hf n he side ι c hc
    simp only [WF, Bool.and_eq_true] at hw
    simp only [Frag] at hf
    obtain ⟨da, db, h1, h2, h3⟩ := est_two he (by simp)
    rw [applyOp_indexSum] at h3
    simp only [Option.some.injEq] at h3; subst h3
    simp only [shape] at hc
    simp only [Expr.eval]
    exact td_sumRange_le _ _ _ (fun v => iha hw.1 hf n h1 side _ c hc)
  -- component tensor
  · intro aux a is iha hw hf n he side ι c hc
    simp only [WF, Bool.and_eq_true, List.isEmpty_iff] at hw
    simp only [Frag] at hf
    obtain ⟨da, db, h1, h2, h3⟩ := est_two he (by simp)
    rw [applyOp_componentTensor] at h3
    simp only [Option.some.injEq] at h3; subst h3
    simp only [Expr.eval]
    exact iha hw.1.1 hf n h1 side _ [] (by simp [hw.1.2])
  -- list tensor
  · intro aux xs ih hw hf n he side ι c hc
    simp only [Frag] at hf
    rw [estimate_op] at he
    cases hl : estimateL ctx xs with
    | none => simp [hl] at he
    | some ds =>
      simp only [hl, Option.bind_some, applyOp_listTensor] at he
      obtain ⟨ns, h4, h5⟩ := pyMax_some he
      cases xs with
      | nil => simp [WF] at hw
      | cons x0 rest =>
        simp only [WF, Bool.and_eq_true, List.all_eq_true, beq_iff_eq] at hw
        obtain ⟨⟨w0, wr⟩, hsame⟩ := hw
        simp only [shape, List.length_cons] at hc
        cases c with
        | nil => simp at hc
        | cons v c' =>
          simp only [List.length_cons, Nat.add_right_cancel_iff] at hc
          simp only [Expr.eval]
          rw [h5]
          apply ih (by simp [WFL, w0, wr]) hf ds ns hl h4 side ι v c'
          intro x hx
          cases List.mem_cons.mp hx with
          | inl h => rw [h]; exact hc
          | inr h => rw [(hsame x h).1]; exact hc
  -- variable
  · intro aux a d iha hw hf n he side ι c hc
    simp only [WF] at hw; simp only [Frag] at hf; simp only [shape] at hc
    obtain ⟨da, db, h1, h2, h3⟩ := est_two he (by simp)
    rw [applyOp_variable] at h3
    simp only [Option.some.injEq] at h3; subst h3
    simp only [Expr.eval]
    exact iha hw hf n h1 side ι c hc
  -- restrictions
  · intro aux a iha hw hf n he side ι c hc
    simp only [WF] at hw; simp only [Frag] at hf; simp only [shape] at hc
    obtain ⟨da, h1, h2⟩ := est_one he (by simp)
    rw [applyOp_pos] at h2
    simp only [Option.some.injEq] at h2; subst h2
    simp only [Expr.eval]
    exact iha hw hf n h1 _ ι c hc
  · intro aux a iha hw hf n he side ι c hc
    simp only [WF] at hw; simp only [Frag] at hf; simp only [shape] at hc
    obtain ⟨da, h1, h2⟩ := est_one he (by simp)
    rw [applyOp_neg] at h2
    simp only [Option.some.injEq] at h2; subst h2
    simp only [Expr.eval]
    exact iha hw hf n h1 _ ι c hc
  -- grad of a terminal chain
  · intro aux a d k hk hw hf n he side ι c hc
    simp only [Frag, hk, Bool.and_eq_true] at hf
    obtain ⟨hfd, hca⟩ := hf
    obtain ⟨da, h1, h2⟩ := est_one he (by simp)
    rw [applyOp_grad] at h2
    cases da with
    | none => simp [reduceDeg] at h2
    | some m =>
      obtain ⟨m0, h3, h4⟩ := chain_estimate ctx a d k hk m h1
      have hlen := chain_shape (.op .grad aux [a]) d (k + 1) (by simp [gradChain, hk]) hca
      simp only [Expr.eval, hk]
      have hdrop : (c.drop d.shape.length).length = k + 1 := by
        rw [List.length_drop, hc, hlen]; omega
      refine (hρ.jet_le side d _ _ hfd).trans ?_
      rw [hdrop]
      have hb := term_bound ctx d hfd m0 h3 (c.take d.shape.length)
      simp only [reduceDeg] at h2
      split at h2 <;> simp at h2 <;> omega
  · intro aux a hk hw
    simp [WF, hk] at hw
  -- anything else is outside the fragment
  · intro k aux args h0 h1 h2 h3 h4 h5 h6 h7 h8 h9 h10 h11 h12 h13 h14 _ hf
    unfold Frag at hf
    split at hf <;> simp_all
  -- lists
  · intro _ _ ds ns _ _ side ι k c _
    simp [Expr.evalNth]
  · intro a as iha ihas hw hf ds ns hl hn side ι k c hc
    simp only [WFL, Bool.and_eq_true] at hw
    simp only [FragL, Bool.and_eq_true] at hf
    simp only [estimateL] at hl
    cases h1 : estimate ctx a with
    | none => simp [h1] at hl
    | some da =>
      cases h2 : estimateL ctx as with
      | none => simp [h1, h2] at hl
      | some ds' =>
        simp only [h1, h2, Option.some.injEq] at hl
        subst hl
        cases da with
        | none => simp [Degree.allSome] at hn
        | some x =>
          cases h3 : Degree.allSome ds' with
          | none => simp [Degree.allSome, h3] at hn
          | some ns' =>
            simp only [Degree.allSome, h3, Option.some.injEq] at hn
            subst hn
            cases k with
            | zero =>
              simp only [Expr.evalNth]
              exact (iha hw.1 hf.1 x h1 side ι c (hc a (by simp))).trans (by simp [maxL])
            | succ k' =>
              simp only [Expr.evalNth]
              exact (ihas hw.2 hf.2 ds' ns' h2 h3 side ι k' c (fun y hy => hc y (by simp [hy]))).trans (by simp [maxL])

end main

/-! ### the canonical polynomial valuation -/

/-- the natural number a constant polynomial denotes (0 if it is none) -/
noncomputable def expOf (q : MvPolynomial σ F) : ℕ := by
  classical exact if h : ∃ n : ℕ, q = (n : MvPolynomial σ F) then Classical.choose h else 0

theorem expOf_natCast [CharZero F] (n : ℕ) : expOf ((n : MvPolynomial σ F)) = n := by
  classical
  unfold expOf
  have h : ∃ m : ℕ, (n : MvPolynomial σ F) = (m : MvPolynomial σ F) := ⟨n, rfl⟩
  rw [dif_pos h]
  have hs := Classical.choose_spec h
  generalize Classical.choose h = k at hs
  have h1 : (C (n : F) : MvPolynomial σ F) = C (k : F) := by
    rw [map_natCast, map_natCast]; exact hs
  exact (Nat.cast_injective (R := F) (C_injective σ F h1)).symm

/-- derivative in direction `i` of a polynomial in `m` variables (0 for a direction outside the space) -/
noncomputable def dirDeriv {m : ℕ} (i : ℕ) (p : MvPolynomial (Fin m) F) : MvPolynomial (Fin m) F :=
  if h : i < m then pderiv ⟨i, h⟩ p else 0

theorem dirDeriv_le {m : ℕ} (i : ℕ) (p : MvPolynomial (Fin m) F) : (dirDeriv i p).totalDegree ≤ p.totalDegree - 1 := by
  unfold dirDeriv
  split
  · exact totalDegree_pderiv_le _ _
  · simp

theorem foldl_dirDeriv_le {m : ℕ} : ∀ (ds : List ℕ) (p : MvPolynomial (Fin m) F) (b : ℕ), p.totalDegree ≤ b →
    (ds.foldl (fun q i => dirDeriv i q) p).totalDegree ≤ b - ds.length
  | [], p, b, h => by simpa using h
  | i :: ds, p, b, h => by
    have h1 : (dirDeriv i p).totalDegree ≤ b - 1 := (dirDeriv_le i p).trans (by omega)
    have := foldl_dirDeriv_le ds (dirDeriv i p) (b - 1) h1
    simp only [List.foldl_cons, List.length_cons]
    omega

/-- the valuation given by polynomial fields `fld` in `m` spatial coordinates: jets are the iterated partial
    derivatives, integer powers are powers, real mode (conj = re = id, im = 0) -/
noncomputable def polyEnv {m : ℕ} (fld : Side → String → List ℕ → MvPolynomial (Fin m) F) : Env (MvPolynomial (Fin m) F) where
  term := fld
  jet := fun s key c ds => ds.foldl (fun q i => dirDeriv i q) (fld s key c)
  fn := fun _ p => p
  fn2 := fun name p q => if name = "Power" then p ^ expOf q else 0
  abs := id
  conj := id
  re := id
  im := fun _ => 0
  i := 0
  lt := fun _ _ => false
  eq := fun _ _ => false


theorem allSome_mem : ∀ (es : List Expr) (ctx : Ctx) (ds : List Deg) (ns : List Nat), estimateL ctx es = some ds →
    Degree.allSome ds = some ns → ∀ e ∈ es, ∃ n, estimate ctx e = some (some n) ∧ n ≤ maxL ns
  | [], _, _, _, _, _, e, he => by simp at he
  | a :: as, ctx, ds, ns, hl, hn, e, he => by
    simp only [estimateL] at hl
    cases h1 : estimate ctx a with
    | none => simp [h1] at hl
    | some da =>
      cases h2 : estimateL ctx as with
      | none => simp [h1, h2] at hl
      | some ds' =>
        simp only [h1, h2, Option.some.injEq] at hl
        subst hl
        cases da with
        | none => simp [Degree.allSome] at hn
        | some x =>
          cases h3 : Degree.allSome ds' with
          | none => simp [Degree.allSome, h3] at hn
          | some ns' =>
            simp only [Degree.allSome, h3, Option.some.injEq] at hn
            subst hn
            cases List.mem_cons.mp he with
            | inl h => subst h; exact ⟨x, h1, by simp [maxL]⟩
            | inr h =>
              obtain ⟨n, hn1, hn2⟩ := allSome_mem as ctx ds' ns' h2 h3 e h
              exact ⟨n, hn1, hn2.trans (by simp [maxL])⟩


end UflVerif.DegreeSem
