/-
Forms as lists of tagged integrands: the value of a form under arbitrary additive integration
functionals, how `map_integrands` acts on it, and what `form.arguments()` returns.
-/
import UflVerif.Sem.MultiAffine

namespace UflVerif.MA
open UflVerif Expr ArgEnv

variable {K : Type} [Field K]

/-- value of an integrand at a point (scalar, no free indices, unrestricted side) -/
def itg (ρ : Env K) (e : Expr) : K := eval ρ .none (fun _ => 0) e []

/-- a form under one integration functional per integral (tag): each `μ t` maps the integrand, as a
    function of the pointwise valuation, to a number -/
def formVal (μ : Nat → (Env K → K) → K) (F : FormM) : K := (F.map (fun p => μ p.1 (fun ρ => itg ρ p.2))).sum

/-- what is assumed of integration: additive, and it only looks at valuations with additive conj/real/imag -/
structure Integration (μ : Nat → (Env K → K) → K) : Prop where
  zero : ∀ t, μ t (fun _ => 0) = 0
  add : ∀ t f g, μ t (fun ρ => f ρ + g ρ) = μ t f + μ t g
  neg : ∀ t f, μ t (fun ρ => - f ρ) = - μ t f
  congr : ∀ t f g, (∀ ρ, AddEnv ρ → f ρ = g ρ) → μ t f = μ t g

theorem formVal_nil (μ : Nat → (Env K → K) → K) : formVal μ [] = 0 := by simp [formVal]

theorem formVal_cons (μ : Nat → (Env K → K) → K) (p : Nat × Expr) (F : FormM) :
    formVal μ (p :: F) = μ p.1 (fun ρ => itg ρ p.2) + formVal μ F := by simp [formVal]

theorem formVal_append (μ : Nat → (Env K → K) → K) (F G : FormM) : formVal μ (F ++ G) = formVal μ F + formVal μ G := by
  simp [formVal]

/-- `map_integrands`: the value of the mapped form is the sum over the *original* integrals of the
    functional applied to the mapped integrand's value `g`; integrals dropped as zero contribute nothing -/
theorem formVal_mapItg (μ : Nat → (Env K → K) → K) (hμ : Integration μ) (f : Expr → Option Expr) (g : Expr → Env K → K) :
    ∀ (F F' : FormM), mapItg f F = some F' →
    (∀ p ∈ F, ∀ e', f p.2 = some e' → ∀ ρ, AddEnv ρ → itg ρ e' = g p.2 ρ) →
    formVal μ F' = (F.map (fun p => μ p.1 (g p.2))).sum
  | [], F', h, _ => by
    simp only [mapItg, Option.some.injEq] at h
    subst h; simp [formVal]
  | (t, e) :: rest, F', h, hfg => by
    simp only [mapItg] at h
    cases hfe : f e with
    | none => simp [hfe] at h
    | some e' =>
      cases hr : mapItg f rest with
      | none => simp [hfe, hr] at h
      | some rest' =>
        simp only [hfe, hr] at h
        have ih := formVal_mapItg μ hμ f g rest rest' hr (fun p hp => hfg p (by simp [hp]))
        have he := hfg (t, e) (by simp) e' hfe
        simp only [List.map_cons, List.sum_cons]
        split at h
        · rename_i hz
          simp only [Option.some.injEq] at h; subst h
          rw [ih]
          have : μ t (g e) = 0 := by
            rw [← hμ.zero t]
            apply hμ.congr
            intro ρ hρ
            rw [← he ρ hρ]
            exact eval_isZero ρ _ _ e' [] hz
          rw [this, zero_add]
        · simp only [Option.some.injEq] at h; subst h
          rw [formVal_cons, ih]
          congr 1
          exact hμ.congr t _ _ (fun ρ hρ => he ρ hρ)

theorem mem_mapItg (f : Expr → Option Expr) : ∀ (F F' : FormM), mapItg f F = some F' →
    ∀ q ∈ F', ∃ p ∈ F, p.1 = q.1 ∧ f p.2 = some q.2
  | [], F', h, q, hq => by
    simp only [mapItg, Option.some.injEq] at h
    subst h; simp at hq
  | (t, e) :: rest, F', h, q, hq => by
    simp only [mapItg] at h
    cases hfe : f e with
    | none => simp [hfe] at h
    | some e' =>
      cases hr : mapItg f rest with
      | none => simp [hfe, hr] at h
      | some rest' =>
        simp only [hfe, hr] at h
        split at h
        · simp only [Option.some.injEq] at h; subst h
          obtain ⟨p, hp, h1, h2⟩ := mem_mapItg f rest rest' hr q hq
          exact ⟨p, by simp [hp], h1, h2⟩
        · simp only [Option.some.injEq] at h; subst h
          cases List.mem_cons.mp hq with
          | inl e1 => subst e1; exact ⟨(t, e), by simp, rfl, hfe⟩
          | inr e1 =>
            obtain ⟨p, hp, h1, h2⟩ := mem_mapItg f rest rest' hr q e1
            exact ⟨p, by simp [hp], h1, h2⟩

/-! ### valuations -/

theorem setKey_zeroKeys_same (ρ : Env K) (v : String) (z : ArgVal K) : (ρ.setKey v z).zeroKeys [v] = ρ.zeroKeys [v] := by
  simp only [Env.setKey, Env.zeroKeys, List.mem_singleton]
  congr 1
  · funext s key c; by_cases h : key = v <;> simp [h]
  · funext s key c ds; by_cases h : key = v <;> simp [h]

theorem setKey_zeroKeys_other (ρ : Env K) (v u : String) (h : v ≠ u) (z : ArgVal K) :
    (ρ.setKey v z).zeroKeys [u] = (ρ.zeroKeys [u]).setKey v z := by
  simp only [Env.setKey, Env.zeroKeys, List.mem_singleton]
  congr 1
  · funext s key c
    by_cases h1 : key = v <;> by_cases h2 : key = u <;> simp [h1, h2]
    · subst h1; exact absurd h2 h
    · intro e; exact absurd e h
    · intro e; exact absurd e.symm h
  · funext s key c ds
    by_cases h1 : key = v <;> by_cases h2 : key = u <;> simp [h1, h2]
    · subst h1; exact absurd h2 h
    · intro e; exact absurd e h
    · intro e; exact absurd e.symm h

theorem setKey_zero (ρ : Env K) (v : String) : ρ.setKey v 0 = ρ.zeroKeys [v] := by
  simp only [Env.setKey, Env.zeroKeys, List.mem_singleton]
  congr 1

theorem AddEnv.setKey {ρ : Env K} (h : AddEnv ρ) (v : String) (z : ArgVal K) : AddEnv (ρ.setKey v z) := ⟨h.conj, h.re, h.im⟩
theorem AddEnv.zeroKeys {ρ : Env K} (h : AddEnv ρ) (Z : List String) : AddEnv (ρ.zeroKeys Z) := ⟨h.conj, h.re, h.im⟩

/-! ### `form.arguments()` -/

theorem dedupKeys_mem : ∀ (l acc : List TermData) (k : String),
    k ∈ (dedupKeys l acc).map (·.key) ↔ (k ∈ acc.map (·.key) ∨ k ∈ l.map (·.key))
  | [], acc, k => by simp [dedupKeys]
  | d :: ds, acc, k => by
    simp only [dedupKeys]
    split
    · rename_i h
      rw [dedupKeys_mem ds acc k]
      simp only [List.any_eq_true, beq_iff_eq] at h
      obtain ⟨x, hx, he⟩ := h
      simp only [List.map_cons, List.mem_cons, List.mem_map]
      constructor
      · rintro (h | h)
        · exact Or.inl h
        · exact Or.inr (Or.inr h)
      · rintro (h | h | h)
        · exact Or.inl h
        · exact Or.inl ⟨x, hx, by rw [he, h]⟩
        · exact Or.inr h
    · rw [dedupKeys_mem ds (d :: acc) k]
      simp only [List.map_cons, List.mem_cons]
      tauto

theorem dedupKeys_nodup : ∀ (l acc : List TermData), (acc.map (·.key)).Nodup → ((dedupKeys l acc).map (·.key)).Nodup
  | [], acc, h => by
    simp only [dedupKeys, List.map_reverse]
    exact List.nodup_reverse.mpr h
  | d :: ds, acc, h => by
    simp only [dedupKeys]
    split
    · exact dedupKeys_nodup ds acc h
    · rename_i hn
      apply dedupKeys_nodup ds (d :: acc)
      simp only [List.map_cons, List.nodup_cons]
      refine ⟨?_, h⟩
      simp only [List.any_eq_true, beq_iff_eq, not_exists, not_and] at hn
      simp only [List.mem_map, not_exists, not_and]
      intro x hx he
      exact hn x hx he

theorem insertArg_perm (d : TermData) : ∀ l : List TermData, (insertArg d l).Perm (d :: l)
  | [] => by simp [insertArg]
  | x :: xs => by
    simp only [insertArg]
    split
    · exact List.Perm.refl _
    · exact ((insertArg_perm d xs).cons x).trans (List.Perm.swap d x xs)

theorem foldl_insertArg_perm : ∀ (ds acc : List TermData), (ds.foldl (fun acc d => insertArg d acc) acc).Perm (ds ++ acc)
  | [], acc => by simp
  | d :: ds, acc => by
    simp only [List.foldl_cons]
    refine (foldl_insertArg_perm ds (insertArg d acc)).trans ?_
    refine (List.Perm.append_left ds (insertArg_perm d acc)).trans ?_
    simp only [List.cons_append]
    exact List.perm_middle

theorem sortArgs_perm (ds : List TermData) : (sortArgs ds).Perm ds := by
  have := foldl_insertArg_perm ds []
  simpa [sortArgs] using this

theorem occ_iff_mem (e : Expr) (a : String) : occ e a = true ↔ a ∈ (argsOf e).map (·.key) := by
  simp only [occ, List.any_eq_true, beq_iff_eq, List.mem_map]

/-- `form.arguments()`: distinct keys, and every Argument of every integrand is listed -/
theorem formArgs_spec (F : FormM) (as : List TermData) (h : formArgs F = some as) :
    (as.map (·.key)).Nodup ∧ ∀ p ∈ F, ∀ a, occ p.2 a = true → a ∈ as.map (·.key) := by
  unfold formArgs at h
  simp only at h
  split at h
  · simp at h
  · simp only [Option.some.injEq] at h
    subst h
    have hp := sortArgs_perm (dedupKeys (List.flatMap (fun p => argsOf p.2) F) [])
    have hpk := hp.map (·.key)
    constructor
    · exact hpk.nodup_iff.mpr (dedupKeys_nodup _ [] (by simp))
    · intro p hpF a ha
      rw [hpk.mem_iff, dedupKeys_mem]
      right
      rw [occ_iff_mem] at ha
      simp only [List.mem_map, List.mem_flatMap] at ha ⊢
      obtain ⟨d, hd, he⟩ := ha
      exact ⟨d, ⟨p, hpF, hd⟩, he⟩

/-! ### `replace` with the plain constructors is plain substitution -/

/- no marker terminal, no image that is the marker, no unapplied coefficient derivative -/
mutual
def plainOK (φ : TermData → Option Expr) : Expr → Bool
  | .term d => d.cls != "@unsupported" && (match φ d with | some img => !isUnsupported img | none => true)
  | .op k _ args => k != .coefficientDerivative && plainOKL φ args
  | _ => true
def plainOKL (φ : TermData → Option Expr) : List Expr → Bool
  | [] => true
  | a :: as => plainOK φ a && plainOKL φ as
end

theorem not_unsupported_map (φ : TermData → Option Expr) (a : Expr) (h : plainOK φ a = true) : isUnsupported (mapTermP φ a) = false := by
  cases a with
  | term d =>
    simp only [plainOK, Bool.and_eq_true, bne_iff_ne, ne_eq] at h
    simp only [mapTermP]
    cases hφ : φ d with
    | none => simp [isUnsupported, h.1]
    | some img => simp only [hφ, Bool.not_eq_true'] at h; simpa using h.2
  | _ => simp [mapTermP, isUnsupported]

theorem any_unsupported_mapL (φ : TermData → Option Expr) : ∀ as : List Expr, plainOKL φ as = true → (mapTermPL φ as).any isUnsupported = false
  | [], _ => rfl
  | a :: as, h => by
    simp only [plainOKL, Bool.and_eq_true] at h
    simp [mapTermPL, not_unsupported_map φ a h.1, any_unsupported_mapL φ as h.2]

mutual
theorem mapTermR_plain (rc : Bool) (φ : TermData → Option Expr) : ∀ e : Expr, plainOK φ e = true → mapTermR rbPlain rc φ e = some (mapTermP φ e)
  | .int _, _ | .real _ _, _ | .cplx _ _ _ _, _ | .zero _ _, _ | .mi _, _ => by simp [mapTermR, mapTermP]
  | .term d, _ => by
    simp only [mapTermR, mapTermP]
    cases φ d <;> rfl
  | .op k x as, h => by
    simp only [plainOK, Bool.and_eq_true, bne_iff_ne, ne_eq] at h
    have hk : (k == Op.coefficientDerivative) = false := by simpa using h.1
    simp only [mapTermR, mapTermRL_plain rc φ as h.2, hk, Bool.and_false, Bool.false_eq_true, ↓reduceIte,
      any_unsupported_mapL φ as h.2, mapTermP]
    split
    · rename_i hb
      rw [beqL_eq _ _ hb]
    · rfl
theorem mapTermRL_plain (rc : Bool) (φ : TermData → Option Expr) : ∀ as : List Expr, plainOKL φ as = true → mapTermRL rbPlain rc φ as = some (mapTermPL φ as)
  | [], _ => rfl
  | a :: as, h => by
    simp only [plainOKL, Bool.and_eq_true] at h
    simp [mapTermRL, mapTermR_plain rc φ a h.1, mapTermRL_plain rc φ as h.2, mapTermPL]
end

/-! ### renaming terminals -/

/-- the mapping `replace` is given for a renaming `(src, dst)*` -/
def renMap (ren : List (TermData × TermData)) : Mapping := ren.map (fun p => (p.1.key, .term p.2))

def renFind (ren : List (TermData × TermData)) (key : String) : Option TermData :=
  (ren.find? (fun p => p.1.key == key)).map (·.2)

theorem renMap_get (ren : List (TermData × TermData)) (key : String) :
    (renMap ren).get key = (renFind ren key).map Expr.term := by
  unfold renMap renFind Mapping.get
  induction ren with
  | nil => simp
  | cons p rest ih =>
    simp only [List.map_cons, List.find?_cons]
    by_cases h : p.1.key == key
    · simp [h]
    · simp only [h, Bool.false_eq_true, ↓reduceIte]
      simpa using ih

/-- the valuation in which every renamed terminal has the value (and jets) of its image -/
def renKey (ren : List (TermData × TermData)) (key : String) : String :=
  match renFind ren key with
  | some d' => d'.key
  | none => key

def _root_.UflVerif.Env.ren (ρ : Env K) (ren : List (TermData × TermData)) : Env K :=
  { ρ with term := fun s key c => ρ.term s (renKey ren key) c,
           jet := fun s key c ds => ρ.jet s (renKey ren key) c ds }

theorem AddEnv.ren {ρ : Env K} (h : AddEnv ρ) (r : List (TermData × TermData)) : AddEnv (ρ.ren r) := ⟨h.conj, h.re, h.im⟩

/- every terminal of the expression whose key is renamed *is* the renamed terminal, and images are proper
   value-carrying terminals of the same shape -/
mutual
def renOK (ren : List (TermData × TermData)) : Expr → Bool
  | .term d => match ren.find? (fun p => p.1.key == d.key) with
    | some p => p.1 == d && p.2.shape == d.shape && d.cls != "Identity" && d.cls != "Label" && p.2.cls != "Identity" && p.2.cls != "Label"
    | none => true
  | .op _ _ args => renOKL ren args
  | _ => true
def renOKL (ren : List (TermData × TermData)) : List Expr → Bool
  | [] => true
  | a :: as => renOK ren a && renOKL ren as
end

mutual
theorem compat_ren (ρ : Env K) (ren : List (TermData × TermData)) : ∀ e : Expr, renOK ren e = true →
    CompatE (fun d => (renMap ren).get d.key) ρ (ρ.ren ren).term (ρ.ren ren).jet e
  | .int _, _ | .real _ _, _ | .cplx _ _ _ _, _ | .zero _ _, _ | .mi _, _ => by simp [CompatE]
  | .term d, h => by
    simp only [CompatE, Compat, renMap_get]
    simp only [renOK] at h
    unfold renFind
    cases hf : ren.find? (fun p => p.1.key == d.key) with
    | none => simp [Env.ren, renKey, renFind, hf]
    | some p =>
      simp only [hf, Bool.and_eq_true, beq_iff_eq, bne_iff_ne, ne_eq] at h
      obtain ⟨⟨⟨⟨⟨_, h2⟩, h3⟩, h4⟩, h5⟩, h6⟩ := h
      simp only [Option.map_some]
      exact ⟨h3, h4, h5, h6, h2, fun s c => by simp [Env.ren, renKey, renFind, hf], fun s c ds => by simp [Env.ren, renKey, renFind, hf]⟩
  | .op k x as, h => by
    simp only [CompatE]
    simp only [renOK] at h
    exact compatL_ren ρ ren as h
theorem compatL_ren (ρ : Env K) (ren : List (TermData × TermData)) : ∀ as : List Expr, renOKL ren as = true →
    CompatL (fun d => (renMap ren).get d.key) ρ (ρ.ren ren).term (ρ.ren ren).jet as
  | [], _ => by simp [CompatL]
  | a :: as, h => by
    simp only [renOKL, Bool.and_eq_true] at h
    simp only [CompatL]
    exact ⟨compat_ren ρ ren a h.1, compatL_ren ρ ren as h.2⟩
end

/-- renaming terminals: the renamed integrand has the value of the original under the renamed valuation -/
theorem ren_sem (ρ : Env K) (ren : List (TermData × TermData)) (e : Expr) (hw : WF e = true) (hr : renOK ren e = true) :
    itg ρ (mapTermP (fun d => (renMap ren).get d.key) e) = itg (ρ.ren ren) e := by
  have := map_sem (fun d => (renMap ren).get d.key) ρ (ρ.ren ren).term (ρ.ren ren).jet .none (fun _ => 0) e [] hw (compat_ren ρ ren e hr)
  simpa [itg, Env.ren] using this

/-! ### FormSplitter for MixedFunctionSpace parts: the other parts are set to zero -/

/-- the substitution `FormSplitter.split(form, ix, iy)` performs on terminals -/
def splitφ (ix iy : Option Int) : TermData → Option Expr :=
  fun d => match splitImg ix iy d with | some (some img) => some img | _ => none

/- `Z` is exactly the set of keys of the terminals the splitter replaces, and it replaces them by zeros -/
mutual
def splitZ (ix iy : Option Int) (Z : List String) : Expr → Bool
  | .term d => match splitφ ix iy d with
    | some img => Z.contains d.key && img == .zero d.shape [] && d.cls == "Argument"
    | none => !Z.contains d.key
  | .op _ _ args => splitZL ix iy Z args
  | _ => true
def splitZL (ix iy : Option Int) (Z : List String) : List Expr → Bool
  | [] => true
  | a :: as => splitZ ix iy Z a && splitZL ix iy Z as
end

mutual
theorem compat_split (ρ : Env K) (ix iy : Option Int) (Z : List String) : ∀ e : Expr, splitZ ix iy Z e = true →
    CompatE (splitφ ix iy) ρ (ρ.zeroKeys Z).term (ρ.zeroKeys Z).jet e
  | .int _, _ | .real _ _, _ | .cplx _ _ _ _, _ | .zero _ _, _ | .mi _, _ => by simp [CompatE]
  | .term d, h => by
    simp only [CompatE, Compat]
    simp only [splitZ] at h
    cases hφ : splitφ ix iy d with
    | none =>
      simp only [hφ, Bool.not_eq_true', List.contains_eq_mem, decide_eq_false_iff_not] at h
      simp [Env.zeroKeys, h]
    | some img =>
      simp only [hφ, Bool.and_eq_true, List.contains_eq_mem, decide_eq_true_eq, beq_iff_eq] at h
      obtain ⟨⟨hz, hi⟩, hc⟩ := h
      have hi' : img = .zero d.shape [] := eq_of_beq_inst _ _ hi
      subst hi'
      simp only
      refine ⟨by rw [hc]; decide, by rw [hc]; decide, trivial, trivial, fun s c => by simp [Env.zeroKeys, hz], fun s c ds => by simp [Env.zeroKeys, hz]⟩
  | .op k x as, h => by
    simp only [CompatE]
    simp only [splitZ] at h
    exact compatL_split ρ ix iy Z as h
theorem compatL_split (ρ : Env K) (ix iy : Option Int) (Z : List String) : ∀ as : List Expr, splitZL ix iy Z as = true →
    CompatL (splitφ ix iy) ρ (ρ.zeroKeys Z).term (ρ.zeroKeys Z).jet as
  | [], _ => by simp [CompatL]
  | a :: as, h => by
    simp only [splitZL, Bool.and_eq_true] at h
    simp only [CompatL]
    exact ⟨compat_split ρ ix iy Z a h.1, compatL_split ρ ix iy Z as h.2⟩
end

/-- splitting: the split integrand has the value of the original with the Arguments of the other parts set to zero -/
theorem split_sem (ρ : Env K) (ix iy : Option Int) (Z : List String) (e : Expr) (hw : WF e = true) (hz : splitZ ix iy Z e = true) :
    itg ρ (mapTermP (splitφ ix iy) e) = itg (ρ.zeroKeys Z) e := by
  have := map_sem (splitφ ix iy) ρ (ρ.zeroKeys Z).term (ρ.zeroKeys Z).jet .none (fun _ => 0) e [] hw (compat_split ρ ix iy Z e hz)
  simpa [itg, Env.zeroKeys] using this

/-! ### two substitutions in a row (energy norm) -/

/-- `map_integrands` under a sum of arbitrary integrand functionals `H` that vanish on zero integrands -/
theorem sum_mapItg (μ : Nat → (Env K → K) → K) (hμ : Integration μ) (f : Expr → Option Expr) (H g : Expr → Env K → K)
    (hH0 : ∀ e', isZero e' = true → ∀ ρ, AddEnv ρ → H e' ρ = 0) :
    ∀ (F F' : FormM), mapItg f F = some F' →
    (∀ p ∈ F, ∀ e', f p.2 = some e' → ∀ ρ, AddEnv ρ → H e' ρ = g p.2 ρ) →
    (F'.map (fun q => μ q.1 (H q.2))).sum = (F.map (fun p => μ p.1 (g p.2))).sum
  | [], F', h, _ => by
    simp only [mapItg, Option.some.injEq] at h
    subst h; simp
  | (t, e) :: rest, F', h, hfg => by
    simp only [mapItg] at h
    cases hfe : f e with
    | none => simp [hfe] at h
    | some e' =>
      cases hr : mapItg f rest with
      | none => simp [hfe, hr] at h
      | some rest' =>
        simp only [hfe, hr] at h
        have ih := sum_mapItg μ hμ f H g hH0 rest rest' hr (fun p hp => hfg p (by simp [hp]))
        have he := hfg (t, e) (by simp) e' hfe
        simp only [List.map_cons, List.sum_cons]
        split at h
        · rename_i hz
          simp only [Option.some.injEq] at h; subst h
          rw [ih]
          have : μ t (g e) = 0 := by
            rw [← hμ.zero t]
            apply hμ.congr
            intro ρ hρ
            rw [← he ρ hρ]
            exact hH0 e' hz ρ hρ
          rw [this, zero_add]
        · simp only [Option.some.injEq] at h; subst h
          simp only [List.map_cons, List.sum_cons, ih]
          congr 1
          exact hμ.congr t _ _ (fun ρ hρ => he ρ hρ)

mutual
theorem mapTermP_comp (φ1 φ2 : TermData → Option Expr) : ∀ e : Expr,
    mapTermP φ2 (mapTermP φ1 e) = mapTermP (fun d => match φ1 d with | some img => some (mapTermP φ2 img) | none => φ2 d) e
  | .int _ | .real _ _ | .cplx _ _ _ _ | .zero _ _ | .mi _ => by simp [mapTermP]
  | .term d => by
    simp only [mapTermP]
    cases φ1 d with
    | none => simp [mapTermP]
    | some img => simp
  | .op k x as => by simp [mapTermP, mapTermPL_comp φ1 φ2 as]
theorem mapTermPL_comp (φ1 φ2 : TermData → Option Expr) : ∀ as : List Expr,
    mapTermPL φ2 (mapTermPL φ1 as) = mapTermPL (fun d => match φ1 d with | some img => some (mapTermP φ2 img) | none => φ2 d) as
  | [] => rfl
  | a :: as => by simp [mapTermPL, mapTermP_comp φ1 φ2 a, mapTermPL_comp φ1 φ2 as]
end

mutual
theorem mapTermP_congr (φ ψ : TermData → Option Expr) (h : ∀ d, φ d = ψ d) : ∀ e : Expr, mapTermP φ e = mapTermP ψ e
  | .int _ | .real _ _ | .cplx _ _ _ _ | .zero _ _ | .mi _ => by simp [mapTermP]
  | .term d => by simp [mapTermP, h d]
  | .op k x as => by simp [mapTermP, mapTermPL_congr φ ψ h as]
theorem mapTermPL_congr (φ ψ : TermData → Option Expr) (h : ∀ d, φ d = ψ d) : ∀ as : List Expr, mapTermPL φ as = mapTermPL ψ as
  | [] => rfl
  | a :: as => by simp [mapTermPL, mapTermP_congr φ ψ h a, mapTermPL_congr φ ψ h as]
end

/- the Arguments left after renaming one Argument into a terminal that is not an Argument -/
mutual
theorem argsOf_map_ren (u f : TermData) (hf : (f.cls == "Argument") = false) : ∀ e : Expr, renOK [(u, f)] e = true →
    ∀ d ∈ argsOf (mapTermP (fun d => (renMap [(u, f)]).get d.key) e), d ∈ argsOf e ∧ d.key ≠ u.key
  | .int _, _, d, hd | .real _ _, _, d, hd | .cplx _ _ _ _, _, d, hd | .zero _ _, _, d, hd | .mi _, _, d, hd => by
    simp [mapTermP, argsOf] at hd
  | .term t, hr, d, hd => by
    simp only [mapTermP, renMap_get, renFind, List.find?_cons, List.find?_nil] at hd
    by_cases hk : (u.key == t.key) = true
    · simp [hk, argsOf, hf] at hd
    · simp only [hk, Bool.false_eq_true, ↓reduceIte, Option.map_none] at hd
      have hk' : ¬ u.key = t.key := by simpa using hk
      simp only [argsOf] at hd ⊢
      split at hd
      · simp only [List.mem_singleton] at hd
        subst hd
        rename_i hc
        simp only [hc, ↓reduceIte, List.mem_singleton, true_and]
        exact fun e => hk' e.symm
      · simp at hd
  | .op k x as, hr, d, hd => by
    simp only [mapTermP, argsOf] at hd ⊢
    simp only [renOK] at hr
    exact argsOfL_map_ren u f hf as hr d hd
theorem argsOfL_map_ren (u f : TermData) (hf : (f.cls == "Argument") = false) : ∀ as : List Expr, renOKL [(u, f)] as = true →
    ∀ d ∈ argsOfL (mapTermPL (fun d => (renMap [(u, f)]).get d.key) as), d ∈ argsOfL as ∧ d.key ≠ u.key
  | [], _, d, hd => by simp [mapTermPL, argsOfL] at hd
  | a :: as, hr, d, hd => by
    simp only [renOKL, Bool.and_eq_true] at hr
    simp only [mapTermPL, argsOfL, List.mem_append] at hd ⊢
    cases hd with
    | inl h => exact ⟨Or.inl (argsOf_map_ren u f hf a hr.1 d h).1, (argsOf_map_ren u f hf a hr.1 d h).2⟩
    | inr h => exact ⟨Or.inr (argsOfL_map_ren u f hf as hr.2 d h).1, (argsOfL_map_ren u f hf as hr.2 d h).2⟩
end

/- an Argument of the expression that carries a renamed key is the renamed Argument -/
mutual
theorem renOK_arg_eq (v f : TermData) : ∀ e : Expr, renOK [(v, f)] e = true → ∀ d ∈ argsOf e, d.key = v.key → v = d
  | .int _, _, d, hd, _ | .real _ _, _, d, hd, _ | .cplx _ _ _ _, _, d, hd, _ | .zero _ _, _, d, hd, _ | .mi _, _, d, hd, _ => by
    simp [argsOf] at hd
  | .term t, hr, d, hd, hk => by
    simp only [argsOf] at hd
    split at hd
    · simp only [List.mem_singleton] at hd
      subst hd
      simp only [renOK, List.find?_cons, List.find?_nil] at hr
      have : (v.key == d.key) = true := by simp [hk]
      simp only [this, ↓reduceIte, Bool.and_eq_true, beq_iff_eq] at hr
      exact hr.1.1.1.1.1
    · simp at hd
  | .op k x as, hr, d, hd, hk => by
    simp only [argsOf] at hd
    simp only [renOK] at hr
    exact renOKL_arg_eq v f as hr d hd hk
theorem renOKL_arg_eq (v f : TermData) : ∀ as : List Expr, renOKL [(v, f)] as = true → ∀ d ∈ argsOfL as, d.key = v.key → v = d
  | [], _, d, hd, _ => by simp [argsOfL] at hd
  | a :: as, hr, d, hd, hk => by
    simp only [renOKL, Bool.and_eq_true] at hr
    simp only [argsOfL, List.mem_append] at hd
    cases hd with
    | inl h => exact renOK_arg_eq v f a hr.1 d h hk
    | inr h => exact renOKL_arg_eq v f as hr.2 d h hk
end

/-- every listed Argument occurs in some integrand -/
theorem formArgs_mem (F : FormM) (as : List TermData) (h : formArgs F = some as) : ∀ d ∈ as, ∃ p ∈ F, d ∈ argsOf p.2 := by
  unfold formArgs at h
  simp only at h
  split at h
  · simp at h
  · simp only [Option.some.injEq] at h
    subst h
    intro d hd
    have hp := sortArgs_perm (dedupKeys (List.flatMap (fun p => argsOf p.2) F) [])
    rw [hp.mem_iff] at hd
    have : ∀ (l acc : List TermData), ∀ x ∈ dedupKeys l acc, x ∈ acc ∨ x ∈ l := by
      intro l
      induction l with
      | nil => intro acc x hx; simp only [dedupKeys, List.mem_reverse] at hx; exact Or.inl hx
      | cons y ys ih =>
        intro acc x hx
        simp only [dedupKeys] at hx
        split at hx
        · cases ih acc x hx with
          | inl h => exact Or.inl h
          | inr h => exact Or.inr (by simp [h])
        · cases ih (y :: acc) x hx with
          | inl h =>
            cases List.mem_cons.mp h with
            | inl e => exact Or.inr (by simp [e])
            | inr e => exact Or.inl e
          | inr h => exact Or.inr (by simp [h])
    cases this _ [] d hd with
    | inl h => simp at h
    | inr h =>
      simp only [List.mem_flatMap] at h
      exact h

/- nothing `replace` refuses appears when a substitution is applied to a clean expression -/
mutual
theorem plainOK_map (φ1 φ2 : TermData → Option Expr) (himg : ∀ d img, φ1 d = some img → plainOK φ2 img = true) :
    ∀ e : Expr, plainOK φ1 e = true → plainOK φ2 e = true → plainOK φ2 (mapTermP φ1 e) = true
  | .int _, _, _ | .real _ _, _, _ | .cplx _ _ _ _, _, _ | .zero _ _, _, _ | .mi _, _, _ => by simp [mapTermP, plainOK]
  | .term d, _, h2 => by
    simp only [mapTermP]
    cases hφ : φ1 d with
    | none => exact h2
    | some img => exact himg d img hφ
  | .op k x as, h1, h2 => by
    simp only [plainOK, Bool.and_eq_true] at h1 h2
    simp only [mapTermP, plainOK, Bool.and_eq_true]
    exact ⟨h1.1, plainOKL_map φ1 φ2 himg as h1.2 h2.2⟩
theorem plainOKL_map (φ1 φ2 : TermData → Option Expr) (himg : ∀ d img, φ1 d = some img → plainOK φ2 img = true) :
    ∀ as : List Expr, plainOKL φ1 as = true → plainOKL φ2 as = true → plainOKL φ2 (mapTermPL φ1 as) = true
  | [], _, _ => rfl
  | a :: as, h1, h2 => by
    simp only [plainOKL, Bool.and_eq_true] at h1 h2
    simp only [mapTermPL, plainOKL, Bool.and_eq_true]
    exact ⟨plainOK_map φ1 φ2 himg a h1.1 h2.1, plainOKL_map φ1 φ2 himg as h1.2 h2.2⟩
end

end UflVerif.MA
