/-
`sumRange` (the executable index sum of the model) as a Finset sum, for proofs.
-/
import Mathlib.Algebra.BigOperators.Ring.Finset
import Mathlib.Algebra.BigOperators.Intervals
import UflVerif.Model.Eval

namespace UflVerif
open Finset

theorem sumRange_eq_sum {K : Type} [AddCommMonoid K] (n : Nat) (f : Nat → K) :
    sumRange n f = ∑ k ∈ Finset.range n, f k := by
  unfold sumRange
  induction n with
  | zero => simp
  | succ m ih =>
    rw [List.range_succ, List.foldl_append, Finset.sum_range_succ, ← ih]
    simp

end UflVerif
