/-
The executable structural equality `Expr.beq` (used by the model wherever UFL uses `==`) decides
equality of expressions.
-/
import UflVerif.Model.Syntax

namespace UflVerif
namespace Expr

mutual
theorem beq_eq : ∀ (a b : Expr), beq a b = true → a = b
  | .int x, b, h => by cases b <;> simp_all [beq]
  | .real x y, b, h => by cases b <;> simp_all [beq]
  | .cplx x y z w, b, h => by cases b <;> simp_all [beq]
  | .zero x y, b, h => by cases b <;> simp_all [beq]
  | .mi x, b, h => by cases b <;> simp_all [beq]
  | .term x, b, h => by cases b <;> simp_all [beq]
  | .op k x as, b, h => by
    cases b with
    | op k' x' bs =>
      simp only [beq, Bool.and_eq_true, beq_iff_eq] at h
      obtain ⟨⟨hk, hx⟩, hl⟩ := h
      rw [hk, hx, beqL_eq as bs hl]
    | _ => simp [beq] at h
theorem beqL_eq : ∀ (as bs : List Expr), beqL as bs = true → as = bs
  | [], [], _ => rfl
  | a :: as, b :: bs, h => by
    simp only [beqL, Bool.and_eq_true] at h
    rw [beq_eq a b h.1, beqL_eq as bs h.2]
  | [], _ :: _, h => by simp [beqL] at h
  | _ :: _, [], h => by simp [beqL] at h
end

theorem eq_of_beq_inst (a b : Expr) (h : (a == b) = true) : a = b := beq_eq a b h

end Expr
end UflVerif
