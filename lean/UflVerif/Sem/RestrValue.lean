/-
Value preservation of restriction propagation: the inductions behind `C17_value_partial` (default
restrictions given) and `C17_value_just_propagate` (`default_restrictions=None`).
-/
import UflVerif.Sem.TwoSidedLemmas

set_option linter.unusedSectionVars false

namespace UflVerif.Restr
open UflVerif Expr

/-! ## value preservation, default restrictions given -/

section value
variable {V : Type} (S : Sem V) (E : V → V → Prop) (cfg : Cfg) (table : List (Nat × Side))

/-- invariant of one call of the propagator with `current_restriction = cur`:
    under a restriction the result means the operand on that side whatever the ambient side is (as a
    meaning, not only as a value on the facet); outside, result and operand agree on the facet for
    every choice of ambient sides -/
def Inv (cur : Side) (e e' : Expr) : Prop :=
  (cur ≠ .none → ∀ s, den S s e' = den S cur e) ∧
  (cur = .none → Guarded e = true → ∀ s s', s ≠ .none → s' ≠ .none → E (den S s' e') (den S s e))

def PV (e : Expr) : Prop :=
  ∀ cur e', Proper cfg.rule e = true → applyE cfg plainRb cur e = some e' → Inv S E cur e e'

variable (hdr : cfg.dr = some table) (hc : Continuity S E cfg table) (hr : RuleSound cfg.rule)
include hdr hc hr

theorem lit_inv (e : Expr) (hl : isLit e = true) (cur : Side) (e' : Expr)
    (h : nodeRule cfg cur (cfg.rule (clsName e)) 0 e = some e') : Inv S E cur e e' := by
  have hd : doms cfg.info e = [] := by cases e <;> simp_all [isLit, doms]
  have hnone : defaultOf cfg table e = none := by simp [defaultOf, uniqueDomain, hd]
  have he : e' = e := by
    cases hrule : cfg.rule (clsName e) <;>
      simp_all [nodeRule, requireRule, defaultRule, oppositeRule]
  subst he
  exact ⟨fun _ s => by rw [den_lit S s e' hl, den_lit S cur e' hl],
         fun _ _ s s' _ _ => by rw [den_lit S s e' hl, den_lit S s' e' hl]; exact hc.equiv.refl _⟩

theorem term_inv (d : TermData) : PV S E cfg (.term d) := by
  intro cur e' hp h
  simp only [applyE] at h
  simp only [Proper] at hp
  have o := term_out S E cfg table hdr hc hr cur d e' hp h
  refine ⟨fun hcur s => ?_, fun hcur _ s s' hs hs' => ?_⟩
  · rw [o.value_cur S E cfg table hdr hc hcur s]; simp
  · subst hcur
    simpa using o.value_none S E cfg table hdr hc s s' hs hs'

/-- the operator case, given the statement for every operand -/
theorem op_inv (k : Op) (aux : List Nat) (args : List Expr) (ih : ∀ a ∈ args, PV S E cfg a) :
    PV S E cfg (.op k aux args) := by
  intro cur e' hp h
  simp only [Proper, Bool.and_eq_true, beq_iff_eq] at hp
  obtain ⟨⟨⟨hcanon, hopok⟩, hrv⟩, hpl⟩ := hp
  unfold applyE at h
  have hpos : cfg.rule k.name = .reuse → k ≠ .positiveRestricted ∧ k ≠ .negativeRestricted := by
    intro hk
    refine ⟨fun e => ?_, fun e => ?_⟩
    · rw [e, name_pos, hr.restricted_pos] at hk; cases hk
    · rw [e, name_neg, hr.restricted_neg] at hk; cases hk
  have hnr : cfg.rule k.name ≠ .restricted → k ≠ .positiveRestricted ∧ k ≠ .negativeRestricted := by
    intro hk
    refine ⟨fun e => ?_, fun e => ?_⟩
    · rw [e, name_pos] at hk; exact hk hr.restricted_pos
    · rw [e, name_neg] at hk; exact hk hr.restricted_neg
  have reuseCase : k ≠ .positiveRestricted → k ≠ .negativeRestricted →
      (match applyL cfg plainRb cur args with
       | some args' => plainRb k aux args args'
       | none => none) = some e' → Inv S E cur (.op k aux args) e' := by
    intro hk1 hk2 h
    cases hl : applyL cfg plainRb cur args with
    | none => simp [hl] at h
    | some args' =>
      simp only [hl, plainRb, Option.some.injEq] at h
      subst h
      have hrel := applyL_spec cfg plainRb cur args args' hl
      refine ⟨fun hcur s => ?_, fun hcur hg s s' hs hs' => ?_⟩
      · rw [den_op S s k aux args' hk1 hk2, den_op S cur k aux args hk1 hk2]
        congr 1
        apply denL_congr
        exact RelL.imp args args' (fun a ha b hab => (ih a ha cur b (ProperL_mem cfg.rule args a hpl ha) hab).1 hcur s) hrel
      · rw [den_op S s' k aux args' hk1 hk2, den_op S s k aux args hk1 hk2]
        -- which arm of `Guarded` applies
        have hgen : (pointwise k = true ∧ GuardedL args = true) ∨ (k = .referenceValue ∧ ∃ d, args = [.term d]) := by
          unfold Guarded at hg
          split at hg
          · exact absurd rfl hk1
          · exact absurd rfl hk2
          · exact Or.inr ⟨rfl, _, rfl⟩
          · simp only [Bool.and_eq_true] at hg; exact Or.inl hg
        cases hgen with
        | inl hg' =>
          apply hc.pw k aux _ _ hg'.1
          apply denL_rel
          exact RelL.imp args args' (fun a ha b hab =>
            (ih a ha cur b (ProperL_mem cfg.rule args a hpl ha) hab).2 hcur (GuardedL_mem args a hg'.2 ha) s s' hs hs') hrel
        | inr hrvk =>
          obtain ⟨hkrv, d, hargs⟩ := hrvk
          subst hkrv; subst hargs; subst hcur
          match args', hrel with
          | [g], hrel =>
            have hg1 : termRule cfg .none d = some g := by simpa [RelL, applyE] using hrel
            have hpd : termRuleOK (cfg.rule d.cls) = true := by
              have := ProperL_mem cfg.rule [.term d] (.term d) hpl (by simp)
              simpa [Proper] using this
            have o := term_out S E cfg table hdr hc hr .none d g hpd hg1
            simp only [denL_cons, denL_nil, den_term]
            cases o with
            | same x' hg' hS =>
              rw [hg', den_restrict_term, hS _ s]; exact hc.equiv.refl _
            | sided x' hx' hk' hg' _ hsp =>
              rw [hg', den_restrict_term]
              simp only [hk', Bool.false_eq_true, hx', or_self, ↓reduceIte]
              have := hc.refval d aux (hsp rfl)
              cases x' <;> cases s <;>
                first | (exact absurd rfl hx') | (exact absurd rfl hs) | exact hc.equiv.refl _ | exact this | exact hc.equiv.symm this
            | flipped _ _ _ hcur' _ _ _ _ _ => exact absurd rfl hcur'
          | [], hrel => simp [RelL] at hrel
          | _ :: _ :: _, hrel => simp [RelL] at hrel
  cases hrule : cfg.rule k.name with
  | restricted =>
    simp only [hrule] at h
    match args, h, hpl, ih with
    | [a], h, hpl, ih =>
      by_cases hcur : cur = .none
      · subst hcur
        simp only [↓reduceIte] at h
        have hpa : Proper cfg.rule a = true := ProperL_mem cfg.rule [a] a hpl (by simp)
        split at h
        · have i := (ih a (by simp) .plus e' hpa h).1 (by simp)
          refine ⟨fun hn => absurd rfl hn, fun _ _ s s' _ _ => ?_⟩
          rw [den_pos, i s']; exact hc.equiv.refl _
        · have i := (ih a (by simp) .minus e' hpa h).1 (by simp)
          refine ⟨fun hn => absurd rfl hn, fun _ _ s s' _ _ => ?_⟩
          rw [den_neg, i s']; exact hc.equiv.refl _
        · cases h
      · simp [hcur] at h
    | [], h, _, _ => simp at h
    | _ :: _ :: _, h, _, _ => simp at h
  | «variable» =>
    simp only [hrule] at h
    have hk : k = .variable := op_of_name hcanon (hr.variable_only k.name hrule)
    subst hk
    match args, h, hpl, ih with
    | [a, l], h, hpl, ih =>
      cases ha : applyE cfg plainRb cur a with
      | none => simp [ha] at h
      | some a' =>
        cases hl : applyE cfg plainRb cur l with
        | none => simp [ha, hl] at h
        | some l' =>
          simp only [ha, hl, Option.some.injEq] at h
          subst h
          have hpa : Proper cfg.rule a = true := ProperL_mem cfg.rule [a, l] a hpl (by simp)
          have i := ih a (by simp) cur a' hpa ha
          have hden : ∀ s, den S s (.op .variable aux [a, l]) = den S s a := by
            intro s
            rw [den_op S s .variable aux _ (by simp) (by simp)]
            simp [hc.var]
          refine ⟨fun hcur s => by rw [hden, i.1 hcur s], fun hcur hg s s' hs hs' => ?_⟩
          rw [hden]
          have hga : Guarded a = true := by
            simp only [Guarded, GuardedL, Bool.and_eq_true] at hg
            exact hg.2.1
          exact i.2 hcur hga s s' hs hs'
    | [], h, _, _ => simp at h
    | [_], h, _, _ => simp at h
    | _ :: _ :: _ :: _, h, _, _ => simp at h
  | referenceValue =>
    simp only [hrule] at h
    have hk : k = .referenceValue := op_of_name hcanon (hr.refvalue_only k.name hrule)
    subst hk
    match args, h, hpl, hrv, ih with
    | [.term d], h, hpl, hrv, _ =>
      cases hg : termRule cfg cur d with
      | none => simp [hg] at h
      | some g =>
        simp only [hg, Option.some.injEq] at h
        subst h
        have hpd : termRuleOK (cfg.rule d.cls) = true := by
          have := ProperL_mem cfg.rule [.term d] (.term d) hpl (by simp)
          simpa [Proper] using this
        have o := term_out S E cfg table hdr hc hr cur d g hpd hg
        have hshape : ∃ x, g = restrict x (.term d) := by
          cases o with
          | same x hg _ => exact ⟨x, hg⟩
          | sided x _ _ hg _ _ => exact ⟨x, hg⟩
          | flipped _ _ _ _ _ _ _ _ hrule' => simp [hrule'] at hrv
        obtain ⟨x, hx⟩ := hshape
        have hden : ∀ s, den S s (restrict (restrictedSide g) (.op .referenceValue aux [.term d])) = S.op .referenceValue aux [den S s g] :=
          fun s => den_rv_of_restrict S s x .referenceValue aux d g (by simp) (by simp) hx
        have hden0 : ∀ s, den S s (.op .referenceValue aux [.term d]) = S.op .referenceValue aux [S.term s d] := by
          intro s; rw [den_op S s .referenceValue aux _ (by simp) (by simp)]; simp
        refine ⟨fun hcur s => ?_, fun hcur _ s s' hs hs' => ?_⟩
        · rw [hden, hden0, o.value_cur S E cfg table hdr hc hcur s]
        · subst hcur
          rw [hden, hden0]
          cases o with
          | same x' hg' hS =>
            rw [hg', den_restrict_term, hS _ s]; exact hc.equiv.refl _
          | sided x' hx' hk' hg' _ hsp =>
            rw [hg', den_restrict_term]
            simp only [hk', Bool.false_eq_true, hx', or_self, ↓reduceIte]
            have := hc.refval d aux (hsp rfl)
            cases x' <;> cases s <;>
              first | (exact absurd rfl hx') | (exact absurd rfl hs) | exact hc.equiv.refl _ | exact this | exact hc.equiv.symm this
          | flipped _ _ _ hcur' _ _ _ _ _ => exact absurd rfl hcur'
    | [], h, _, _, _ => simp at h
    | [.op _ _ _], h, _, _, _ => simp at h
    | [.int _], h, _, _, _ => simp at h
    | [.real _ _], h, _, _, _ => simp at h
    | [.cplx _ _ _ _], h, _, _, _ => simp at h
    | [.zero _ _], h, _, _, _ => simp at h
    | [.mi _], h, _, _, _ => simp at h
    | _ :: _ :: _, h, _, _, _ => simp at h
  | reuse =>
    simp only [hrule] at h
    obtain ⟨hk1, hk2⟩ := hnr (by rw [hrule]; simp)
    exact reuseCase hk1 hk2 h
  | cellOperator =>
    simp only [hrule] at h
    obtain ⟨hk1, hk2⟩ := hnr (by rw [hrule]; simp)
    split at h
    · cases h
    · exact reuseCase hk1 hk2 h
  | require =>
    simp only [hrule, requireRule, hdr] at h
    have hk1 : k ≠ .positiveRestricted := fun e => by rw [e, name_pos, hr.restricted_pos] at hrule; cases hrule
    have hk2 : k ≠ .negativeRestricted := fun e => by rw [e, name_neg, hr.restricted_neg] at hrule; cases hrule
    have hnl : pointwise k = false := by
      have := hr.require_nonlocal k.name hrule
      rwa [hcanon] at this
    cases hd : defaultOf cfg table (.op k aux args) with
    | none => simp [hd] at h
    | some r =>
      simp only [hd] at h
      by_cases hcur : cur = .none
      · subst hcur
        by_cases hrn : r = .none
        · subst hrn
          simp only [↓reduceIte, Option.some.injEq] at h
          subst h
          refine ⟨fun hn => absurd rfl hn, fun _ hg s s' _ _ => ?_⟩
          -- a pointwise operator never gets this rule; what is left is a reference value of a terminal of a one-sided domain
          unfold Guarded at hg
          split at hg
          · exact absurd rfl hk1
          · exact absurd rfl hk2
          · rename_i d
            rw [defaultOf_unary_term] at hd
            rw [den_op S s' .referenceValue aux _ (by simp) (by simp), den_op S s .referenceValue aux _ (by simp) (by simp)]
            simp only [denL_cons, denL_nil, den_term]
            rw [hc.onesided d hd s' s]
            exact hc.equiv.refl _
          · simp [hnl] at hg
        · simp [hrn] at h
      · by_cases hrn : r = .none
        · simp [hcur, hrn] at h
        · simp only [hcur, hrn, ↓reduceIte, Option.some.injEq] at h
          subst h
          exact ⟨fun _ s => den_restrict_op S s cur k aux args hcur, fun e => absurd e hcur⟩
  | ignore => simp [hrule, opRuleOK] at hopok
  | default => simp [hrule, opRuleOK] at hopok
  | opposite => simp [hrule, opRuleOK] at hopok
  | coefficient => simp [hrule, opRuleOK] at hopok
  | facetNormal => simp [hrule, opRuleOK] at hopok
  | missing => simp [hrule] at h
  | unknown => simp [hrule] at h

mutual
theorem value_aux : ∀ e : Expr, PV S E cfg e
  | .term d => term_inv S E cfg table hdr hc hr d
  | .op k aux args => op_inv S E cfg table hdr hc hr k aux args (value_auxL args)
  | .int v => fun cur e' _ h => lit_inv S E cfg table hdr hc hr (.int v) rfl cur e' (by simpa [applyE] using h)
  | .real n d => fun cur e' _ h => lit_inv S E cfg table hdr hc hr (.real n d) rfl cur e' (by simpa [applyE] using h)
  | .cplx a b c d => fun cur e' _ h => lit_inv S E cfg table hdr hc hr (.cplx a b c d) rfl cur e' (by simpa [applyE] using h)
  | .zero sh f => fun cur e' _ h => lit_inv S E cfg table hdr hc hr (.zero sh f) rfl cur e' (by simpa [applyE] using h)
  | .mi is => fun cur e' _ h => lit_inv S E cfg table hdr hc hr (.mi is) rfl cur e' (by simpa [applyE] using h)
theorem value_auxL : ∀ (as : List Expr), ∀ a ∈ as, PV S E cfg a
  | [], _, h => by cases h
  | b :: bs, a, h => by
    cases List.mem_cons.mp h with
    | inl e => rw [e]; exact value_aux b
    | inr e => exact value_auxL bs a e
end

end value

/-! ## value preservation, "just propagate" (`default_restrictions=None`) -/

section off
variable {V : Type} (S : Sem V) (cfg : Cfg)

/-- under a restriction as before; outside, the result means what the operand means, for each ambient side -/
def InvOff (cur : Side) (e e' : Expr) : Prop :=
  (cur ≠ .none → ∀ s, den S s e' = den S cur e) ∧ (cur = .none → ∀ s, den S s e' = den S s e)

def PO (e : Expr) : Prop :=
  ∀ cur e', Proper cfg.rule e = true → applyE cfg plainRb cur e = some e' → InvOff S cur e e'

variable (hdr : cfg.dr = none) (hr : RuleSound cfg.rule)
  (hfree : ∀ d, spec cfg.info d = .sideFree → ∀ s s', S.term s d = S.term s' d)
  (hvar : ∀ aux v l, S.op .variable aux [v, l] = v)
include hdr hr hfree hvar

omit hvar in
/-- with `default_restrictions=None` a terminal is left alone (side-free) or wrapped in the current restriction -/
theorem term_off (cur : Side) (d : TermData) (g : Expr) (hok : termRuleOK (cfg.rule d.cls) = true)
    (h : termRule cfg cur d = some g) :
    (g = .term d ∧ ∀ s s', S.term s d = S.term s' d) ∨ g = restrict cur (.term d) := by
  simp only [termRule] at h
  cases hrule : cfg.rule d.cls with
  | ignore =>
    simp only [hrule, nodeRule, Option.some.injEq] at h
    have := hr.ignore_free d.cls hrule
    exact Or.inl ⟨h.symm, hfree d (by rw [spec_of_not_disc cfg.info d (by rw [this]; simp), this])⟩
  | require => simp only [hrule, nodeRule, requireRule, hdr, Option.some.injEq] at h; exact Or.inr h.symm
  | default => simp only [hrule, nodeRule, defaultRule, hdr, Option.some.injEq] at h; exact Or.inr h.symm
  | opposite => simp only [hrule, nodeRule, oppositeRule, hdr, Option.some.injEq] at h; exact Or.inr h.symm
  | coefficient =>
    simp only [hrule, requireRule, defaultRule, hdr] at h
    split at h <;> exact Or.inr (Option.some.inj h).symm
  | facetNormal =>
    simp only [hrule, requireRule, oppositeRule, hdr] at h
    split at h <;> exact Or.inr (Option.some.inj h).symm
  | reuse => simp [hrule, termRuleOK] at hok
  | missing => simp [hrule, nodeRule] at h
  | referenceValue => simp [hrule, nodeRule] at h
  | «variable» => simp [hrule, nodeRule] at h
  | restricted => simp [hrule, nodeRule] at h
  | cellOperator => simp [hrule, nodeRule] at h
  | unknown => simp [hrule, nodeRule] at h

omit hr hvar in
theorem den_restrict_cur (cur s : Side) (d : TermData) (hcur : cur ≠ .none) :
    den S s (restrict cur (.term d)) = S.term cur d := by
  rw [den_restrict_term]
  by_cases hk : isConstantValue (.term d) = true
  · simp only [hk, true_or, ↓reduceIte]
    exact hfree d (constantValue_term_free cfg.info d hk) _ _
  · simp [hk, hcur]

omit hvar in
theorem term_off_inv (d : TermData) : PO S cfg (.term d) := by
  intro cur e' hp h
  simp only [applyE] at h
  simp only [Proper] at hp
  cases term_off S cfg hdr hr hfree cur d e' hp h with
  | inl o =>
    rw [o.1]
    exact ⟨fun _ s => by simp [o.2 s cur], fun _ s => rfl⟩
  | inr o =>
    rw [o]
    refine ⟨fun hcur s => ?_, fun hcur s => by subst hcur; rfl⟩
    rw [den_restrict_cur S cfg hdr hfree cur s d hcur]; simp

omit hr hfree hvar in
theorem lit_off_inv (e : Expr) (hl : isLit e = true) (cur : Side) (e' : Expr)
    (h : nodeRule cfg cur (cfg.rule (clsName e)) 0 e = some e') : InvOff S cur e e' := by
  have key : ∀ s s', den S s e' = den S s' e := by
    intro s s'
    have he : e' = e ∨ e' = restrict cur e := by
      cases hrule : cfg.rule (clsName e) <;>
        simp_all [nodeRule, requireRule, defaultRule, oppositeRule]
    cases he with
    | inl he => rw [he, den_lit S s e hl, den_lit S s' e hl]
    | inr he =>
      rw [he, den_lit S s' e hl]
      cases e <;> cases cur <;> simp_all [isLit, restrict, isConstantValue]
  exact ⟨fun _ s => key s cur, fun _ s => key s s⟩

theorem op_off_inv (k : Op) (aux : List Nat) (args : List Expr) (ih : ∀ a ∈ args, PO S cfg a) :
    PO S cfg (.op k aux args) := by
  intro cur e' hp h
  simp only [Proper, Bool.and_eq_true, beq_iff_eq] at hp
  obtain ⟨⟨⟨hcanon, hopok⟩, _⟩, hpl⟩ := hp
  unfold applyE at h
  have hnr : cfg.rule k.name ≠ .restricted → k ≠ .positiveRestricted ∧ k ≠ .negativeRestricted := by
    intro hk
    refine ⟨fun e => ?_, fun e => ?_⟩
    · rw [e, name_pos] at hk; exact hk hr.restricted_pos
    · rw [e, name_neg] at hk; exact hk hr.restricted_neg
  have reuseCase : k ≠ .positiveRestricted → k ≠ .negativeRestricted →
      (match applyL cfg plainRb cur args with
       | some args' => plainRb k aux args args'
       | none => none) = some e' → InvOff S cur (.op k aux args) e' := by
    intro hk1 hk2 h
    cases hl : applyL cfg plainRb cur args with
    | none => simp [hl] at h
    | some args' =>
      simp only [hl, plainRb, Option.some.injEq] at h
      subst h
      have hrel := applyL_spec cfg plainRb cur args args' hl
      refine ⟨fun hcur s => ?_, fun hcur s => ?_⟩
      · rw [den_op S s k aux args' hk1 hk2, den_op S cur k aux args hk1 hk2]
        congr 1
        apply denL_congr
        exact RelL.imp args args' (fun a ha b hab => (ih a ha cur b (ProperL_mem cfg.rule args a hpl ha) hab).1 hcur s) hrel
      · rw [den_op S s k aux args' hk1 hk2, den_op S s k aux args hk1 hk2]
        congr 1
        apply denL_congr
        exact RelL.imp args args' (fun a ha b hab => (ih a ha cur b (ProperL_mem cfg.rule args a hpl ha) hab).2 hcur s) hrel
  cases hrule : cfg.rule k.name with
  | restricted =>
    simp only [hrule] at h
    match args, h, hpl, ih with
    | [a], h, hpl, ih =>
      by_cases hcur : cur = .none
      · subst hcur
        simp only [↓reduceIte] at h
        have hpa : Proper cfg.rule a = true := ProperL_mem cfg.rule [a] a hpl (by simp)
        split at h
        · have i := (ih a (by simp) .plus e' hpa h).1 (by simp)
          exact ⟨fun hn => absurd rfl hn, fun _ s => by rw [den_pos, i s]⟩
        · have i := (ih a (by simp) .minus e' hpa h).1 (by simp)
          exact ⟨fun hn => absurd rfl hn, fun _ s => by rw [den_neg, i s]⟩
        · cases h
      · simp [hcur] at h
    | [], h, _, _ => simp at h
    | _ :: _ :: _, h, _, _ => simp at h
  | «variable» =>
    simp only [hrule] at h
    have hk : k = .variable := op_of_name hcanon (hr.variable_only k.name hrule)
    subst hk
    match args, h, hpl, ih with
    | [a, l], h, hpl, ih =>
      cases ha : applyE cfg plainRb cur a with
      | none => simp [ha] at h
      | some a' =>
        cases hl : applyE cfg plainRb cur l with
        | none => simp [ha, hl] at h
        | some l' =>
          simp only [ha, hl, Option.some.injEq] at h
          subst h
          have hpa : Proper cfg.rule a = true := ProperL_mem cfg.rule [a, l] a hpl (by simp)
          have i := ih a (by simp) cur a' hpa ha
          have hden : ∀ s, den S s (.op .variable aux [a, l]) = den S s a := by
            intro s
            rw [den_op S s .variable aux _ (by simp) (by simp)]
            simp [hvar]
          exact ⟨fun hcur s => by rw [hden, i.1 hcur s], fun hcur s => by rw [hden, i.2 hcur s]⟩
    | [], h, _, _ => simp at h
    | [_], h, _, _ => simp at h
    | _ :: _ :: _ :: _, h, _, _ => simp at h
  | referenceValue =>
    simp only [hrule] at h
    have hk : k = .referenceValue := op_of_name hcanon (hr.refvalue_only k.name hrule)
    subst hk
    match args, h, hpl with
    | [.term d], h, hpl =>
      cases hg : termRule cfg cur d with
      | none => simp [hg] at h
      | some g =>
        simp only [hg, Option.some.injEq] at h
        subst h
        have hpd : termRuleOK (cfg.rule d.cls) = true := by
          have := ProperL_mem cfg.rule [.term d] (.term d) hpl (by simp)
          simpa [Proper] using this
        have hden0 : ∀ s, den S s (.op .referenceValue aux [.term d]) = S.op .referenceValue aux [S.term s d] := by
          intro s; rw [den_op S s .referenceValue aux _ (by simp) (by simp)]; simp
        cases term_off S cfg hdr hr hfree cur d g hpd hg with
        | inl o =>
          have hden : ∀ s, den S s (restrict (restrictedSide g) (.op .referenceValue aux [.term d])) = S.op .referenceValue aux [den S s g] :=
            fun s => den_rv_of_restrict S s .none .referenceValue aux d g (by simp) (by simp) (by rw [o.1]; rfl)
          refine ⟨fun _ s => ?_, fun _ s => ?_⟩ <;> rw [hden, hden0, o.1, den_term]
          rw [o.2 s cur]
        | inr o =>
          have hden : ∀ s, den S s (restrict (restrictedSide g) (.op .referenceValue aux [.term d])) = S.op .referenceValue aux [den S s g] :=
            fun s => den_rv_of_restrict S s cur .referenceValue aux d g (by simp) (by simp) o
          refine ⟨fun hcur s => ?_, fun hcur s => ?_⟩
          · rw [hden, hden0, o, den_restrict_cur S cfg hdr hfree cur s d hcur]
          · subst hcur; rw [hden, hden0, o]; rfl
    | [], h, _ => simp at h
    | [.op _ _ _], h, _ => simp at h
    | [.int _], h, _ => simp at h
    | [.real _ _], h, _ => simp at h
    | [.cplx _ _ _ _], h, _ => simp at h
    | [.zero _ _], h, _ => simp at h
    | [.mi _], h, _ => simp at h
    | _ :: _ :: _, h, _ => simp at h
  | reuse =>
    simp only [hrule] at h
    obtain ⟨hk1, hk2⟩ := hnr (by rw [hrule]; simp)
    exact reuseCase hk1 hk2 h
  | cellOperator =>
    simp only [hrule] at h
    obtain ⟨hk1, hk2⟩ := hnr (by rw [hrule]; simp)
    split at h
    · cases h
    · exact reuseCase hk1 hk2 h
  | require =>
    simp only [hrule, requireRule, hdr, Option.some.injEq] at h
    subst h
    refine ⟨fun hcur s => den_restrict_op S s cur k aux args hcur, fun hcur s => by subst hcur; rfl⟩
  | ignore => simp [hrule, opRuleOK] at hopok
  | default => simp [hrule, opRuleOK] at hopok
  | opposite => simp [hrule, opRuleOK] at hopok
  | coefficient => simp [hrule, opRuleOK] at hopok
  | facetNormal => simp [hrule, opRuleOK] at hopok
  | missing => simp [hrule] at h
  | unknown => simp [hrule] at h

mutual
theorem off_aux : ∀ e : Expr, PO S cfg e
  | .term d => term_off_inv S cfg hdr hr hfree d
  | .op k aux args => op_off_inv S cfg hdr hr hfree hvar k aux args (off_auxL args)
  | .int v => fun cur e' _ h => lit_off_inv S cfg hdr (.int v) rfl cur e' (by simpa [applyE] using h)
  | .real n d => fun cur e' _ h => lit_off_inv S cfg hdr (.real n d) rfl cur e' (by simpa [applyE] using h)
  | .cplx a b c d => fun cur e' _ h => lit_off_inv S cfg hdr (.cplx a b c d) rfl cur e' (by simpa [applyE] using h)
  | .zero sh f => fun cur e' _ h => lit_off_inv S cfg hdr (.zero sh f) rfl cur e' (by simpa [applyE] using h)
  | .mi is => fun cur e' _ h => lit_off_inv S cfg hdr (.mi is) rfl cur e' (by simpa [applyE] using h)
theorem off_auxL : ∀ (as : List Expr), ∀ a ∈ as, PO S cfg a
  | [], _, h => by cases h
  | b :: bs, a, h => by
    cases List.mem_cons.mp h with
    | inl e => rw [e]; exact off_aux b
    | inr e => exact off_auxL bs a e
end

end off

end UflVerif.Restr
