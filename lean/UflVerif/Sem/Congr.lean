/-
The value of a well-formed expression depends on the index environment only through the
expression's free indices (`eval_congr`).  This is the lemma that gives free indices their meaning;
every index-manipulating constructor and pass theorem rests on it.
-/
import UflVerif.Model.WF

namespace UflVerif
namespace Expr
variable {K : Type} [Add K] [Mul K] [Sub K] [Neg K] [Div K] [Zero K] [One K] [IntCast K] [NatCast K]

/-! ### membership in free-index lists -/
namespace FIlemmas

theorem beq_decide (a b : Nat) : (a == b) = decide (b = a) := by
  by_cases h : a = b
  · subst h; simp
  · have : ¬ b = a := fun e => h e.symm
    simp [h, this]

theorem has_insert (p : Nat × Nat) : ∀ (f : FI) (c : Nat), FI.has c (FI.insert p f) = (decide (c = p.1) || FI.has c f)
  | [], c => by simp [FI.insert, FI.has, beq_decide]
  | q :: qs, c => by
    unfold FI.insert
    split
    · simp [FI.has, beq_decide]
    · split
      · rename_i h1 h2
        simp only [FI.has, List.any_cons]
        by_cases hc : c = p.1
        · subst hc; simp [h2]
        · simp [hc]
      · have ih := has_insert p qs c
        simp only [FI.has, List.any_cons] at ih ⊢
        rw [ih]
        cases (q.1 == c) <;> cases decide (c = p.1) <;> simp

theorem has_foldl_insert : ∀ (ps : List (Nat × Nat)) (f : FI) (c : Nat),
    FI.has c (ps.foldl (fun acc p => FI.insert p acc) f) = (FI.has c f || ps.any (fun p => p.1 == c))
  | [], f, c => by simp
  | p :: ps, f, c => by
    simp only [List.foldl_cons, List.any_cons]
    rw [has_foldl_insert ps, has_insert]
    by_cases h : c = p.1
    · subst h; simp
    · have : (p.1 == c) = false := by simp; exact fun e => h e.symm
      simp [h, this]

theorem has_merge (a b : FI) (c : Nat) : FI.has c (FI.merge a b) = (FI.has c a || FI.has c b) := by
  unfold FI.merge
  rw [has_foldl_insert]
  rfl

theorem has_remove (j : Nat) (f : FI) (c : Nat) : FI.has c (FI.remove j f) = (FI.has c f && decide (c ≠ j)) := by
  unfold FI.remove FI.has
  induction f with
  | nil => simp
  | cons q qs ih =>
    simp only [List.filter_cons]
    by_cases h : q.1 = j
    · simp only [h, bne_self_eq_false, Bool.false_eq_true, ↓reduceIte, List.any_cons]
      rw [ih]
      by_cases hc : c = j
      · subst hc; simp
      · have : (j == c) = false := by simp; exact fun e => hc e.symm
        simp [hc, this]
    · have : (q.1 != j) = true := by simp [h]
      simp only [this, ↓reduceIte, List.any_cons]
      rw [ih]
      by_cases hq : q.1 = c
      · subst hq; simp [h]
      · have : (q.1 == c) = false := by simp [hq]
        simp [this]

end FIlemmas

def AgreeOn (f : FI) (ι ι' : IdxEnv) : Prop := ∀ i, FI.has i f = true → ι i = ι' i

def C1 (ρ : Env K) (side : Side) (ι : IdxEnv) (e : Expr) (c : List Nat) : Prop :=
  WF e = true → c.length = (shape e).length → ∀ ι', AgreeOn (fi e) ι ι' → eval ρ side ι e c = eval ρ side ι' e c

def C2 (ρ : Env K) (side : Side) (ι : IdxEnv) (p : Expr) : Prop :=
  WFC p = true → ∀ ι', evalB ρ side ι p = evalB ρ side ι' p

def C3 (ρ : Env K) (side : Side) (ι : IdxEnv) (xs : List Expr) (n : Nat) (c : List Nat) : Prop :=
  WFL xs = true → (∀ x ∈ xs, c.length = (shape x).length) → ∀ ι', (∀ x ∈ xs, AgreeOn (fi x) ι ι') →
    evalNth ρ side ι xs n c = evalNth ρ side ι' xs n c

theorem allFree_spec : ∀ (is : List Idx) (cs : List Nat), allFree is = some cs → freeCounts is = cs ∧ cs.length = is.length ∧ is = cs.map Idx.free
  | [], cs, h => by simp [allFree] at h; subst h; simp [freeCounts]
  | .free c :: is, cs, h => by
    simp only [allFree, Option.map_eq_some_iff] at h
    obtain ⟨cs', h', rfl⟩ := h
    obtain ⟨h1, h2, h3⟩ := allFree_spec is cs' h'
    refine ⟨?_, by simp [h2], by simp [← h3]⟩
    simp only [freeCounts, List.filterMap_cons] at h1 ⊢
    rw [h1]
  | .fixed _ :: is, cs, h => by simp [allFree] at h

theorem has_foldl_remove : ∀ (cs : List Nat) (f : FI) (i : Nat),
    FI.has i (cs.foldl (fun acc c => FI.remove c acc) f) = (FI.has i f && !cs.contains i)
  | [], f, i => by simp
  | c :: cs, f, i => by
    simp only [List.foldl_cons]
    rw [has_foldl_remove cs, FIlemmas.has_remove]
    by_cases h : i = c
    · subst h; simp
    · simp [h]

theorem bind_congr (i : Nat) : ∀ (cs c : List Nat) (ι ι' : IdxEnv), cs.length = c.length →
    (cs.contains i = true ∨ ι i = ι' i) → (ι.bind (cs.map Idx.free) c) i = (ι'.bind (cs.map Idx.free) c) i
  | [], [], ι, ι', _, h => by
    simp only [List.map_nil, IdxEnv.bind]
    cases h with
    | inl h => simp at h
    | inr h => exact h
  | j :: cs, v :: c, ι, ι', hl, h => by
    simp only [List.map_cons, IdxEnv.bind]
    apply bind_congr i cs c _ _ (by simpa using hl)
    by_cases hij : i = j
    · right; simp [IdxEnv.set, hij]
    · cases h with
      | inl h =>
        left
        simp only [List.contains_cons, Bool.or_eq_true, beq_iff_eq] at h
        cases h with
        | inl h => exact absurd h hij
        | inr h => exact h
      | inr h => right; simp [IdxEnv.set, hij, h]
  | [], _ :: _, _, _, hl, _ => by simp at hl
  | _ :: _, [], _, _, hl, _ => by simp at hl

theorem resolve_congr (ι ι' : IdxEnv) : ∀ (is : List Idx), (∀ c, Idx.free c ∈ is → ι c = ι' c) →
    is.map (Idx.resolve ι) = is.map (Idx.resolve ι')
  | [], _ => rfl
  | .fixed v :: is, h => by
    simp only [List.map_cons, Idx.resolve]
    rw [resolve_congr ι ι' is (fun c hc => h c (by simp [hc]))]
  | .free c :: is, h => by
    simp only [List.map_cons, Idx.resolve]
    rw [resolve_congr ι ι' is (fun c hc => h c (by simp [hc])), h c (by simp)]

/-- the free indices of `A[is]` contain those of A and the free indices among `is` -/
theorem has_indexed_fi (a : Expr) (is : List Idx) (aux : List Nat) (i : Nat) :
    FI.has i (fi (.op .indexed aux [a, .mi is])) = (FI.has i (fi a) || is.contains (.free i)) := by
  simp only [fi]
  rw [FIlemmas.has_foldl_insert]
  congr 1
  generalize (shape a) = sh
  have : ∀ (l : List (Idx × Nat)), (idxPairs sh l).any (fun p => p.1 == i) = (l.map (·.1)).contains (.free i) := by
    intro l
    induction l with
    | nil => simp [idxPairs]
    | cons q qs ih =>
      obtain ⟨x, n⟩ := q
      cases x with
      | fixed v => simp [idxPairs, ih]
      | free c =>
        simp only [idxPairs, List.any_cons, ih, List.map_cons, List.contains_cons]
        congr 1
        by_cases h : c = i
        · subst h; simp
        · have h2 : ¬ i = c := fun e => h e.symm
          have e1 : (c == i) = false := by simp [h]
          have e2 : (Idx.free i == Idx.free c) = false := by simp [h2]
          rw [e1, e2]
  rw [this]
  simp [List.zipIdx_map_fst]

theorem congr_aux (ρ : Env K) :
    (∀ side ι e c, C1 ρ side ι e c) ∧ (∀ side ι p, C2 ρ side ι p) ∧ (∀ side ι xs n c, C3 ρ side ι xs n c) := by
  apply eval.mutual_induct ρ (motive_1 := C1 ρ) (motive_2 := C2 ρ) (motive_3 := C3 ρ)
  -- 1-5 literals, zero, multi-index
  · intro side ι v c _ _ ι' _; simp [eval]
  · intro side ι n d c _ _ ι' _; simp [eval]
  · intro side ι a b c d x _ _ ι' _; simp [eval]
  · intro side ι sh f c _ _ ι' _; simp [eval]
  · intro side ι is c hw; simp [WF] at hw
  -- 6-10 terminals
  · intro side ι d hd j _ _ ι' _; simp [eval, hd]
  · intro side ι d hd i j _ _ _ ι' _; simp [eval, hd]
  · intro side ι d c hd _ _ _ ι' _; simp [eval, hd]
  · intro side ι d c hd hl _ _ ι' _; simp [eval, hd, hl]
  · intro side ι d c hd hl _ _ ι' _; simp [eval, hd, hl]
  -- 11 sum
  · intro side ι aux c a b iha ihb hw hc ι' hag
    simp only [WF, Bool.and_eq_true, beq_iff_eq] at hw
    obtain ⟨⟨⟨wa, wb⟩, hs⟩, hf⟩ := hw
    simp only [shape] at hc
    simp only [fi] at hag
    simp only [eval]
    rw [iha wa hc ι' hag, ihb wb (by rw [← hs]; exact hc) ι' (by rw [← hf]; exact hag)]
  -- 12 product
  · intro side ι aux c a b iha ihb hw _ ι' hag
    simp only [WF, Bool.and_eq_true, List.isEmpty_iff] at hw
    obtain ⟨⟨⟨⟨wa, wb⟩, sa⟩, sb⟩, _⟩ := hw
    simp only [fi] at hag
    simp only [eval]
    rw [iha wa (by simp [sa]) ι' (fun i hi => hag i (by rw [FIlemmas.has_merge, hi]; rfl)),
        ihb wb (by simp [sb]) ι' (fun i hi => hag i (by rw [FIlemmas.has_merge, hi]; simp))]
  -- 13 division
  · intro side ι aux c a b iha ihb hw hc ι' hag
    simp only [WF, Bool.and_eq_true, List.isEmpty_iff, trueScalar] at hw
    obtain ⟨⟨⟨wa, wb⟩, sa⟩, sb, fb⟩ := hw
    simp only [shape, List.length_nil] at hc
    simp only [fi] at hag
    simp only [eval]
    rw [iha wa (by simp [sa, hc]) ι' hag, ihb wb (by simp [sb, hc]) ι' (by intro i hi; simp [fb, FI.has] at hi)]
  -- 14 power
  · intro side ι aux c a b iha ihb hw hc ι' hag
    simp only [WF, Bool.and_eq_true, List.isEmpty_iff, trueScalar] at hw
    obtain ⟨⟨⟨wa, wb⟩, sa, _⟩, sb, fb⟩ := hw
    simp only [shape, List.length_nil] at hc
    simp only [fi] at hag
    simp only [eval]
    rw [iha wa (by simp [sa, hc]) ι' hag, ihb wb (by simp [sb, hc]) ι' (by intro i hi; simp [fb, FI.has] at hi)]
  -- 15-18 abs conj real imag
  · intro side ι aux c a ih hw hc ι' hag
    simp only [WF] at hw; simp only [shape] at hc; simp only [fi] at hag
    simp only [eval]; rw [ih hw hc ι' hag]
  · intro side ι aux c a ih hw hc ι' hag
    simp only [WF] at hw; simp only [shape] at hc; simp only [fi] at hag
    simp only [eval]; rw [ih hw hc ι' hag]
  · intro side ι aux c a ih hw hc ι' hag
    simp only [WF] at hw; simp only [shape] at hc; simp only [fi] at hag
    simp only [eval]; rw [ih hw hc ι' hag]
  · intro side ι aux c a ih hw hc ι' hag
    simp only [WF] at hw; simp only [shape] at hc; simp only [fi] at hag
    simp only [eval]; rw [ih hw hc ι' hag]
  -- 19 indexed
  · intro side ι aux c a is ih hw hc ι' hag
    simp only [WF, Bool.and_eq_true, beq_iff_eq] at hw
    obtain ⟨⟨⟨wa, hl⟩, _⟩, _⟩ := hw
    simp only [eval]
    have hres : is.map (Idx.resolve ι) = is.map (Idx.resolve ι') :=
      resolve_congr ι ι' is (fun i hi => hag i (by rw [has_indexed_fi]; simp [hi]))
    rw [← hres]
    exact ih wa (by simp [hl]) ι' (fun i hi => hag i (by rw [has_indexed_fi, hi]; rfl))
  -- 20 index sum
  · intro side ι aux c a j ih hw hc ι' hag
    simp only [WF, Bool.and_eq_true] at hw
    simp only [shape] at hc
    simp only [fi] at hag
    simp only [eval]
    congr 1
    funext v
    apply ih v hw.1 hc
    intro i hi
    by_cases hij : i = j
    · simp [IdxEnv.set, hij]
    · simp only [IdxEnv.set, hij, ↓reduceIte]
      exact hag i (by rw [FIlemmas.has_remove, hi]; simp [hij])
  -- 21 component tensor
  · intro side ι aux c a is ih hw hc ι' hag
    simp only [WF, Bool.and_eq_true, List.isEmpty_iff] at hw
    obtain ⟨⟨wa, sa⟩, hm⟩ := hw
    cases haf : allFree is with
    | none => simp [haf] at hm
    | some cs =>
      obtain ⟨h1, h2, h3⟩ := allFree_spec is cs haf
      simp only [shape, h1, List.length_map] at hc
      simp only [fi, h1] at hag
      simp only [eval]
      apply ih wa (by simp [sa])
      intro i hi
      rw [h3]
      apply bind_congr i cs c ι ι' (by omega)
      by_cases hic : cs.contains i = true
      · exact Or.inl hic
      · right
        apply hag i
        rw [has_foldl_remove, hi]
        simp at hic ⊢
        exact hic
  -- 22-23 list tensor
  · intro side ι aux xs v c' ih hw hc ι' hag
    simp only [eval]
    cases xs with
    | nil => simp [WF] at hw
    | cons x0 rest =>
      simp only [WF, Bool.and_eq_true, List.all_eq_true, beq_iff_eq] at hw
      obtain ⟨⟨w0, wr⟩, hsame⟩ := hw
      simp only [shape, List.length_cons, Nat.add_right_cancel_iff] at hc
      simp only [fi] at hag
      apply ih (by simp [WFL, w0, wr])
      · intro x hx
        cases List.mem_cons.mp hx with
        | inl h => rw [h]; exact hc
        | inr h => rw [(hsame x h).1]; exact hc
      · intro x hx
        cases List.mem_cons.mp hx with
        | inl h => rw [h]; exact hag
        | inr h => rw [(hsame x h).2]; exact hag
  · intro side ι aux xs _ _ ι' _; simp [eval]
  -- 24-25 conditional
  · intro side ι aux c p t f hb ihp iht hw hc ι' hag
    simp only [WF, Bool.and_eq_true, beq_iff_eq] at hw
    obtain ⟨⟨⟨⟨wp, wt⟩, wf⟩, hs⟩, hf⟩ := hw
    simp only [shape] at hc; simp only [fi] at hag
    simp only [eval]
    rw [← ihp wp ι', hb]
    simp only [↓reduceIte]
    exact iht wt hc ι' hag
  · intro side ι aux c p t f hb ihp ihf hw hc ι' hag
    simp only [WF, Bool.and_eq_true, beq_iff_eq] at hw
    obtain ⟨⟨⟨⟨wp, wt⟩, wf⟩, hs⟩, hf⟩ := hw
    simp only [shape] at hc; simp only [fi] at hag
    simp only [eval]
    rw [← ihp wp ι']
    simp only [hb, Bool.false_eq_true, ↓reduceIte]
    exact ihf wf (by rw [← hs]; exact hc) ι' (by rw [← hf]; exact hag)
  -- 26-29 min / max
  · intro side ι aux c a b x y _ iha ihb hw hc ι' hag
    simp only [WF, Bool.and_eq_true, List.isEmpty_iff, trueScalar] at hw
    obtain ⟨⟨⟨wa, wb⟩, sa, fa⟩, sb, fb⟩ := hw
    simp only [shape, List.length_nil] at hc
    simp only [eval]
    rw [iha wa (by simp [sa, hc]) ι' (by intro i hi; simp [fa, FI.has] at hi), ihb wb (by simp [sb, hc]) ι' (by intro i hi; simp [fb, FI.has] at hi)]
  · intro side ι aux c a b x y _ iha ihb hw hc ι' hag
    simp only [WF, Bool.and_eq_true, List.isEmpty_iff, trueScalar] at hw
    obtain ⟨⟨⟨wa, wb⟩, sa, fa⟩, sb, fb⟩ := hw
    simp only [shape, List.length_nil] at hc
    simp only [eval]
    rw [iha wa (by simp [sa, hc]) ι' (by intro i hi; simp [fa, FI.has] at hi), ihb wb (by simp [sb, hc]) ι' (by intro i hi; simp [fb, FI.has] at hi)]
  · intro side ι aux c a b x y _ iha ihb hw hc ι' hag
    simp only [WF, Bool.and_eq_true, List.isEmpty_iff, trueScalar] at hw
    obtain ⟨⟨⟨wa, wb⟩, sa, fa⟩, sb, fb⟩ := hw
    simp only [shape, List.length_nil] at hc
    simp only [eval]
    rw [iha wa (by simp [sa, hc]) ι' (by intro i hi; simp [fa, FI.has] at hi), ihb wb (by simp [sb, hc]) ι' (by intro i hi; simp [fb, FI.has] at hi)]
  · intro side ι aux c a b x y _ iha ihb hw hc ι' hag
    simp only [WF, Bool.and_eq_true, List.isEmpty_iff, trueScalar] at hw
    obtain ⟨⟨⟨wa, wb⟩, sa, fa⟩, sb, fb⟩ := hw
    simp only [shape, List.length_nil] at hc
    simp only [eval]
    rw [iha wa (by simp [sa, hc]) ι' (by intro i hi; simp [fa, FI.has] at hi), ihb wb (by simp [sb, hc]) ι' (by intro i hi; simp [fb, FI.has] at hi)]
  -- 30 variable
  · intro side ι aux c a l ih hw hc ι' hag
    cases l <;> simp only [WF, Bool.false_eq_true] at hw
    simp only [shape] at hc; simp only [fi] at hag
    simp only [eval]; exact ih hw hc ι' hag
  -- 31-32 restrictions
  · intro side ι aux c a ih hw hc ι' hag
    simp only [WF] at hw; simp only [shape] at hc; simp only [fi] at hag
    simp only [eval]; exact ih hw hc ι' hag
  · intro side ι aux c a ih hw hc ι' hag
    simp only [WF] at hw; simp only [shape] at hc; simp only [fi] at hag
    simp only [eval]; exact ih hw hc ι' hag
  -- 33 atan2
  · intro side ι aux c a b iha ihb hw hc ι' hag
    simp only [WF, Bool.and_eq_true, List.isEmpty_iff, trueScalar] at hw
    obtain ⟨⟨⟨wa, wb⟩, sa, fa⟩, sb, fb⟩ := hw
    simp only [shape, List.length_nil] at hc
    simp only [eval]
    rw [iha wa (by simp [sa, hc]) ι' (by intro i hi; simp [fa, FI.has] at hi), ihb wb (by simp [sb, hc]) ι' (by intro i hi; simp [fb, FI.has] at hi)]
  -- 34-37 Bessel functions are outside the verified fragment
  · intro side ι aux c n x _ _ hw; simp [WF, mathName] at hw
  · intro side ι aux c n x _ _ hw; simp [WF, mathName] at hw
  · intro side ι aux c n x _ _ hw; simp [WF, mathName] at hw
  · intro side ι aux c n x _ _ hw; simp [WF, mathName] at hw
  -- 38-39 grad of a terminal does not read the index environment
  · intro side ι aux c a d k hk _ _ ι' _; simp [eval, hk]
  · intro side ι aux c a hk _ _ ι' _; simp [eval, hk]
  -- 40-41 math functions
  · intro side ι aux c fnk a h1 h2 h3 h4 h5 h6 h7 h8 n hn ih hw hc ι' hag
    have hwf : WF (.op fnk aux [a]) = (WF a && trueScalar a) := by
      cases fnk <;> simp_all [WF, mathName]
    have hsh : shape (.op fnk aux [a]) = [] := by
      cases fnk <;> simp_all [shape, mathName]
    have hev : ∀ ι, eval ρ side ι (.op fnk aux [a]) c = ρ.fn n (eval ρ side ι a c) := by
      intro ι; cases fnk <;> simp_all [eval, mathName]
    rw [hwf] at hw
    simp only [Bool.and_eq_true, trueScalar, List.isEmpty_iff] at hw
    obtain ⟨wa, sa, fa⟩ := hw
    rw [hsh] at hc
    rw [hev, hev, ih wa (by simp [sa] at hc ⊢; exact hc) ι' (by intro i hi; simp [fa, FI.has] at hi)]
  · intro side ι aux c fnk a h1 h2 h3 h4 h5 h6 h7 h8 hn hw
    cases fnk <;> simp_all [WF, mathName]
  -- 42 anything else is outside the verified fragment
  · intro side ι k aux args c
    intros
    intro hw
    unfold WF at hw
    split at hw <;> simp_all
  -- 43-48 comparisons
  · intro side ι aux a b iha ihb hw ι'
    simp only [WFC, Bool.and_eq_true, List.isEmpty_iff, trueScalar] at hw
    obtain ⟨⟨⟨wa, wb⟩, sa, fa⟩, sb, fb⟩ := hw
    simp only [evalB]
    rw [iha wa (by simp [sa]) ι' (by intro i hi; simp [fa, FI.has] at hi), ihb wb (by simp [sb]) ι' (by intro i hi; simp [fb, FI.has] at hi)]
  · intro side ι aux a b iha ihb hw ι'
    simp only [WFC, Bool.and_eq_true, List.isEmpty_iff, trueScalar] at hw
    obtain ⟨⟨⟨wa, wb⟩, sa, fa⟩, sb, fb⟩ := hw
    simp only [evalB]
    rw [iha wa (by simp [sa]) ι' (by intro i hi; simp [fa, FI.has] at hi), ihb wb (by simp [sb]) ι' (by intro i hi; simp [fb, FI.has] at hi)]
  · intro side ι aux a b iha ihb hw ι'
    simp only [WFC, Bool.and_eq_true, List.isEmpty_iff, trueScalar] at hw
    obtain ⟨⟨⟨wa, wb⟩, sa, fa⟩, sb, fb⟩ := hw
    simp only [evalB]
    rw [iha wa (by simp [sa]) ι' (by intro i hi; simp [fa, FI.has] at hi), ihb wb (by simp [sb]) ι' (by intro i hi; simp [fb, FI.has] at hi)]
  · intro side ι aux a b ihb iha hw ι'
    simp only [WFC, Bool.and_eq_true, List.isEmpty_iff, trueScalar] at hw
    obtain ⟨⟨⟨wa, wb⟩, sa, fa⟩, sb, fb⟩ := hw
    simp only [evalB]
    rw [iha wa (by simp [sa]) ι' (by intro i hi; simp [fa, FI.has] at hi), ihb wb (by simp [sb]) ι' (by intro i hi; simp [fb, FI.has] at hi)]
  · intro side ι aux a b ihb iha hw ι'
    simp only [WFC, Bool.and_eq_true, List.isEmpty_iff, trueScalar] at hw
    obtain ⟨⟨⟨wa, wb⟩, sa, fa⟩, sb, fb⟩ := hw
    simp only [evalB]
    rw [iha wa (by simp [sa]) ι' (by intro i hi; simp [fa, FI.has] at hi), ihb wb (by simp [sb]) ι' (by intro i hi; simp [fb, FI.has] at hi)]
  · intro side ι aux a b iha ihb hw ι'
    simp only [WFC, Bool.and_eq_true, List.isEmpty_iff, trueScalar] at hw
    obtain ⟨⟨⟨wa, wb⟩, sa, fa⟩, sb, fb⟩ := hw
    simp only [evalB]
    rw [iha wa (by simp [sa]) ι' (by intro i hi; simp [fa, FI.has] at hi), ihb wb (by simp [sb]) ι' (by intro i hi; simp [fb, FI.has] at hi)]
  -- 49-51 and / or / not
  · intro side ι aux a b iha ihb hw ι'
    simp only [WFC, Bool.and_eq_true] at hw
    simp only [evalB]; rw [iha hw.1 ι', ihb hw.2 ι']
  · intro side ι aux a b iha ihb hw ι'
    simp only [WFC, Bool.and_eq_true] at hw
    simp only [evalB]; rw [iha hw.1 ι', ihb hw.2 ι']
  · intro side ι aux a ih hw ι'
    simp only [WFC] at hw
    simp only [evalB]; rw [ih hw ι']
  -- 52-53 not a condition
  · intro side ι k aux args
    intros
    intro hw
    unfold WFC at hw
    split at hw <;> simp_all
  · intro side ι t
    intros
    intro hw
    unfold WFC at hw
    split at hw <;> simp_all
  -- 54-56 component selection in a list tensor
  · intro side ι n c _ _ ι' _; simp [evalNth]
  · intro side ι x tail c ih hw hc ι' hag
    simp only [WFL, Bool.and_eq_true] at hw
    simp only [evalNth]
    exact ih hw.1 (hc x (by simp)) ι' (hag x (by simp))
  · intro side ι x xs n c ih hw hc ι' hag
    simp only [WFL, Bool.and_eq_true] at hw
    simp only [evalNth]
    exact ih hw.2 (fun y hy => hc y (by simp [hy])) ι' (fun y hy => hag y (by simp [hy]))


/-- **The value of a well-formed expression depends on the index environment only through its
    free indices.** -/
theorem eval_congr (ρ : Env K) (side : Side) (e : Expr) (hw : WF e = true) (c : List Nat)
    (hc : c.length = (shape e).length) (ι ι' : IdxEnv) (h : AgreeOn (fi e) ι ι') :
    eval ρ side ι e c = eval ρ side ι' e c :=
  (congr_aux ρ).1 side ι e c hw hc ι' h

/-- rebinding an index that is not free in `e` does not change its value -/
theorem eval_set_irrelevant (ρ : Env K) (side : Side) (e : Expr) (hw : WF e = true) (c : List Nat)
    (hc : c.length = (shape e).length) (ι : IdxEnv) (j v : Nat) (hj : FI.has j (fi e) = false) :
    eval ρ side (ι.set j v) e c = eval ρ side ι e c := by
  apply eval_congr ρ side e hw c hc
  intro i hi
  have : i ≠ j := by intro e'; subst e'; rw [hj] at hi; cases hi
  simp [IdxEnv.set, this]

theorem evalB_congr (ρ : Env K) (side : Side) (p : Expr) (hw : WFC p = true) (ι ι' : IdxEnv) :
    evalB ρ side ι p = evalB ρ side ι' p :=
  (congr_aux ρ).2.1 side ι p hw ι'

end Expr
end UflVerif
