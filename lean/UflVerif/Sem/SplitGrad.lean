/-
The semantics extended by the componentwise gradient, and the value of a block under it.

`eval` gives a meaning to `grad` on chains `grad^k(terminal)` only.  The splitter replaces a mixed-element argument
`v` by the list tensor of the components of a sub-argument, also under gradients: `grad(v)` becomes
`grad([a[0], a[1], 0, ..])`.  `evalX` is `eval` with one more clause: the gradient of a tensor of components of
terminals (list tensors, zeros, terminals indexed by fixed indices) is taken componentwise (`evalJet`); on chains it
is `eval`'s clause.  `blockX_aux` is `block_aux` for `evalX`, without the restriction on arguments under gradients.
-/
import UflVerif.Sem.SplitValue

namespace UflVerif
namespace Expr

variable {K : Type} [Add K] [Mul K] [Sub K] [Neg K] [Div K] [Zero K] [One K] [IntCast K] [NatCast K]

/-- peel the gradients off: `grad^k(x)` ↦ `(x, k)` -/
def gradBase : Expr → Expr × Nat
  | .op .grad _ [a] => ((gradBase a).1, (gradBase a).2 + 1)
  | x => (x, 0)

mutual
/-- the derivative `ds` of component `cx` of a tensor of components of terminals -/
def evalJet (ρ : Env K) (side : Side) : Expr → List Nat → List Nat → K
  | .op .listTensor _ xs, v :: cx, ds => evalJetNth ρ side xs v cx ds
  | .term d, cx, ds => ρ.jet side d.key cx ds
  | .op .indexed _ [.term d, .mi is], [], ds =>
    (match fixedAll is with
     | some vs => ρ.jet side d.key vs ds
     | none => 0)
  | _, _, _ => 0
def evalJetNth (ρ : Env K) (side : Side) : List Expr → Nat → List Nat → List Nat → K
  | [], _, _, _ => 0
  | x :: _, 0, cx, ds => evalJet ρ side x cx ds
  | _ :: xs, n + 1, cx, ds => evalJetNth ρ side xs n cx ds
end

mutual
def evalX (ρ : Env K) (side : Side) (ι : IdxEnv) : Expr → List Nat → K
  | .int v, _ => (v : K)
  | .real n d, _ => (n : K) / (d : K)
  | .cplx a b c d, _ => (a : K) / (b : K) + ((c : K) / (d : K)) * ρ.i
  | .zero _ _, _ => 0
  | .mi _, _ => 0
  | .term d, c =>
    if d.cls = "Identity" then (match c with | [i, j] => if i = j then 1 else 0 | _ => 0)
    else if d.cls = "Label" then 0
    else ρ.term side d.key c
  | .op k _ args, c =>
    match k, args with
    | .sum, [a, b] => evalX ρ side ι a c + evalX ρ side ι b c
    | .product, [a, b] => evalX ρ side ι a [] * evalX ρ side ι b []
    | .division, [a, b] => evalX ρ side ι a c / evalX ρ side ι b c
    | .power, [a, b] => ρ.fn2 "Power" (evalX ρ side ι a c) (evalX ρ side ι b c)
    | .abs, [a] => ρ.abs (evalX ρ side ι a c)
    | .conj, [a] => ρ.conj (evalX ρ side ι a c)
    | .real, [a] => ρ.re (evalX ρ side ι a c)
    | .imag, [a] => ρ.im (evalX ρ side ι a c)
    | .indexed, [a, .mi is] => evalX ρ side ι a (is.map (Idx.resolve ι))
    | .indexSum, [a, .mi [.free j]] =>
      sumRange (FI.dimOf j (fi a)) (fun v => evalX ρ side (ι.set j v) a c)
    | .componentTensor, [a, .mi is] => evalX ρ side (ι.bind is c) a []
    | .listTensor, xs =>
      (match c with
       | v :: c' => evalXNth ρ side ι xs v c'
       | [] => 0)
    | .conditional, [p, t, f] => if evalXB ρ side ι p then evalX ρ side ι t c else evalX ρ side ι f c
    | .minValue, [a, b] =>
      let x := evalX ρ side ι a c; let y := evalX ρ side ι b c
      if ρ.lt x y then x else y
    | .maxValue, [a, b] =>
      let x := evalX ρ side ι a c; let y := evalX ρ side ι b c
      if ρ.lt y x then x else y
    | .variable, [a, _] => evalX ρ side ι a c
    | .positiveRestricted, [a] => evalX ρ .plus ι a c
    | .negativeRestricted, [a] => evalX ρ .minus ι a c
    | .atan2, [a, b] => ρ.fn2 "Atan2" (evalX ρ side ι a c) (evalX ρ side ι b c)
    | .besselJ, [n, x] => ρ.fn2 "BesselJ" (evalX ρ side ι n []) (evalX ρ side ι x [])
    | .besselY, [n, x] => ρ.fn2 "BesselY" (evalX ρ side ι n []) (evalX ρ side ι x [])
    | .besselI, [n, x] => ρ.fn2 "BesselI" (evalX ρ side ι n []) (evalX ρ side ι x [])
    | .besselK, [n, x] => ρ.fn2 "BesselK" (evalX ρ side ι n []) (evalX ρ side ι x [])
    | .grad, [a] =>
      -- the gradient of a tensor of components of terminals, componentwise (a chain grad^k(terminal) included)
      evalJet ρ side (gradBase a).1 (c.take (shape (gradBase a).1).length) (c.drop (shape (gradBase a).1).length)
    | fnk, [a] =>
      (match mathName fnk with
       | some n => ρ.fn n (evalX ρ side ι a c)
       | none => 0)
    | _, _ => 0
def evalXNth (ρ : Env K) (side : Side) (ι : IdxEnv) : List Expr → Nat → List Nat → K
  | [], _, _ => 0
  | x :: _, 0, c => evalX ρ side ι x c
  | _ :: xs, n + 1, c => evalXNth ρ side ι xs n c
def evalXB (ρ : Env K) (side : Side) (ι : IdxEnv) : Expr → Bool
  | .op k _ args =>
    match k, args with
    | .eQ, [a, b] => ρ.eq (evalX ρ side ι a []) (evalX ρ side ι b [])
    | .nE, [a, b] => !ρ.eq (evalX ρ side ι a []) (evalX ρ side ι b [])
    | .lT, [a, b] => ρ.lt (evalX ρ side ι a []) (evalX ρ side ι b [])
    | .gT, [a, b] => ρ.lt (evalX ρ side ι b []) (evalX ρ side ι a [])
    | .lE, [a, b] => !ρ.lt (evalX ρ side ι b []) (evalX ρ side ι a [])
    | .gE, [a, b] => !ρ.lt (evalX ρ side ι a []) (evalX ρ side ι b [])
    | .andCondition, [a, b] => evalXB ρ side ι a && evalXB ρ side ι b
    | .orCondition, [a, b] => evalXB ρ side ι a || evalXB ρ side ι b
    | .notCondition, [a] => !evalXB ρ side ι a
    | _, _ => false
  | _ => false
end

/-- the valuation of `imgEnv` with the derivatives of the images taken componentwise -/
def imgEnvG (ρ : Env K) (cfg : SplitCfg) (A : List TermData) (ι₀ : IdxEnv) : Env K :=
  { ρ with
    term := fun side key c => match argOf A key with
      | some d => eval ρ side ι₀ (splitArgT cfg d) c
      | none => ρ.term side key c
    jet := fun side key c ds => match argOf A key with
      | some d => evalJet ρ side (splitArgT cfg d) c ds
      | none => ρ.jet side key c ds }

/-! ### `evalX` on the pieces the splitter builds -/

theorem evalX_term (ρ : Env K) (side : Side) (ι : IdxEnv) (d : TermData) (c : List Nat) :
    evalX ρ side ι (.term d) c = eval ρ side ι (.term d) c := by
  simp only [evalX, eval]
  by_cases h1 : d.cls = "Identity"
  · simp only [h1, ↓reduceIte]
    rcases c with _ | ⟨i, _ | ⟨j, _ | ⟨k, rest⟩⟩⟩ <;> rfl
  · simp only [h1, ↓reduceIte]

theorem evalX_entry (ρ : Env K) (side : Side) (ι : IdxEnv) (x : Expr) (c : List Nat) (h : isEntry x = true) :
    evalX ρ side ι x c = eval ρ side ι x c := by
  unfold isEntry at h
  split at h
  · simp [evalX, eval]
  · exact evalX_term ρ side ι _ c
  · simp only [evalX, eval]; exact evalX_term ρ side ι _ _
  · cases h

theorem evalXNth_entries (ρ : Env K) (side : Side) (ι : IdxEnv) :
    ∀ (xs : List Expr) (n : Nat) (c : List Nat), (∀ x ∈ xs, isEntry x = true) → evalXNth ρ side ι xs n c = evalNth ρ side ι xs n c
  | [], _, _, _ => by simp [evalXNth, evalNth]
  | x :: xs, 0, c, h => by simp only [evalXNth, evalNth]; exact evalX_entry ρ side ι x c (h x (by simp))
  | x :: xs, n + 1, c, h => by
    simp only [evalXNth, evalNth]; exact evalXNth_entries ρ side ι xs n c (fun y hy => h y (by simp [hy]))

/-- on the image of an argument `evalX` is `eval` (there is no gradient inside), and it does not depend on the
    index environment -/
theorem evalX_img (ρ : Env K) (side : Side) (ι ι' : IdxEnv) (cfg : SplitCfg) (d : TermData) (c : List Nat) :
    evalX ρ side ι (splitArgT cfg d) c = eval ρ side ι' (splitArgT cfg d) c := by
  rw [← eval_img_indep ρ side ι ι' cfg d c]
  unfold splitArgT
  split
  · exact evalX_term ρ side ι d c
  · split
    · split
      · simp [evalX, eval]
      · split
        · exact evalX_term ρ side ι d c
        · simp [evalX, eval]
    · split
      · exact evalX_term ρ side ι d c
      · cases c with
        | nil => simp [evalX, eval]
        | cons v c' =>
          simp only [evalX, eval]
          exact evalXNth_entries ρ side ι _ v c' (argEntries_entry cfg.replaceArg d _ _ 0 0)

theorem evalXNth_getD (ρ : Env K) (side : Side) (ι : IdxEnv) : ∀ (xs : List Expr) (v : Nat) (c : List Nat),
    evalXNth ρ side ι xs v c = evalX ρ side ι (xs.getD v zeroS) c
  | [], v, c => by simp [evalXNth, zeroS, evalX]
  | x :: xs, 0, c => by simp [evalXNth]
  | x :: xs, v + 1, c => by simp only [evalXNth]; rw [evalXNth_getD ρ side ι xs v c]; simp [List.getD]

theorem ltGetT_evalX (ρ : Env K) (side : Side) (ι : IdxEnv) : ∀ (vs : List Nat) (e : Expr),
    evalX ρ side ι (ltGetT e vs) [] = evalX ρ side ι e vs
  | [], e => by simp [ltGetT]
  | v :: vs, e => by
    unfold ltGetT
    split
    · rename_i heq; cases heq
    · rename_i x xs v' vs' heq
      simp only [List.cons.injEq] at heq
      obtain ⟨rfl, rfl⟩ := heq
      rw [ltGetT_evalX ρ side ι vs _]
      simp only [evalX]
      exact (evalXNth_getD ρ side ι xs v vs).symm
    · rename_i e' v' vs' hne heq
      simp only [List.cons.injEq] at heq
      obtain ⟨rfl, rfl⟩ := heq
      simp only [evalX]
      rw [resolve_fixedAll ι _ (v :: vs) (fixedAll_map_fixed (v :: vs))]

/-- the base of the split chain is the image of its terminal -/
theorem chain_base (fx : Bool) (cfg : SplitCfg) : ∀ (a : Expr) (d : TermData) (k : Nat), gradChain a = some (d, k) →
    (∀ aux y, fsT fx cfg (.term d) ≠ .op .grad aux [y]) → (gradBase (fsT fx cfg a)).1 = fsT fx cfg (.term d) := by
  intro a
  fun_induction gradChain a with
  | case1 d =>
    intro d' k h hng
    simp only [Option.some.injEq, Prod.mk.injEq] at h
    obtain ⟨rfl, _⟩ := h
    unfold gradBase
    split
    · rename_i aux y heq; exact absurd heq (hng aux y)
    · rfl
  | case2 aux a d k hk ih =>
    intro d' k' h hng
    simp only [Option.some.injEq, Prod.mk.injEq] at h
    obtain ⟨rfl, _⟩ := h
    rw [fsT_op fx cfg _ _ _ rfl]
    simp only [fsTL, gradBase]
    exact ih d k hk hng
  | case3 aux a hk ih => intro d' k h; simp at h
  | case4 e h1 h2 => intro d' k h; simp at h

theorem fsT_term_not_grad (fx : Bool) (cfg : SplitCfg) (d : TermData) : ∀ aux y, fsT fx cfg (.term d) ≠ .op .grad aux [y] := by
  intro aux y h
  simp only [fsT] at h
  split at h
  · rcases img_cases cfg d with h' | h' | ⟨xs, h'⟩ <;> rw [h'] at h <;> cases h
  · cases h

def X1 (ρ : Env K) (fx : Bool) (cfg : SplitCfg) (A : List TermData) (ι₀ : IdxEnv) (side : Side) (ι : IdxEnv) (e : Expr) (c : List Nat) : Prop :=
  WF e = true → Adm (some 0) fx cfg A e = true → c.length = (shape e).length →
    evalX ρ side ι (fsT fx cfg e) c = eval (imgEnvG ρ cfg A ι₀) side ι e c

def X2 (ρ : Env K) (fx : Bool) (cfg : SplitCfg) (A : List TermData) (ι₀ : IdxEnv) (side : Side) (ι : IdxEnv) (p : Expr) : Prop :=
  WFC p = true → Adm (some 0) fx cfg A p = true → evalXB ρ side ι (fsT fx cfg p) = evalB (imgEnvG ρ cfg A ι₀) side ι p

def X3 (ρ : Env K) (fx : Bool) (cfg : SplitCfg) (A : List TermData) (ι₀ : IdxEnv) (side : Side) (ι : IdxEnv) (xs : List Expr) (n : Nat) (c : List Nat) : Prop :=
  WFL xs = true → AdmL (some 0) fx cfg A xs = true → (∀ x ∈ xs, c.length = (shape x).length) →
    evalXNth ρ side ι (fsTL fx cfg xs) n c = evalNth (imgEnvG ρ cfg A ι₀) side ι xs n c

theorem notArg_of_cls' (d : TermData) (s : String) (h : d.cls = s) (hs : s ≠ "Argument") : (d.cls == "Argument") = false := by
  rw [h]; simpa using hs

theorem blockX_aux (ρ : Env K) (fx : Bool) (cfg : SplitCfg) (A : List TermData) (ι₀ : IdxEnv) :
    (∀ side ι e c, X1 ρ fx cfg A ι₀ side ι e c) ∧ (∀ side ι p, X2 ρ fx cfg A ι₀ side ι p) ∧
    (∀ side ι xs n c, X3 ρ fx cfg A ι₀ side ι xs n c) := by
  have hsf := (preserve_aux (some 0) fx cfg A).1
  apply eval.mutual_induct (imgEnvG ρ cfg A ι₀) (motive_1 := X1 ρ fx cfg A ι₀) (motive_2 := X2 ρ fx cfg A ι₀) (motive_3 := X3 ρ fx cfg A ι₀)
  -- 1-5 literals, zero, multi-index
  · intro side ι v c _ _ _; simp [fsT, evalX, eval]
  · intro side ι n d c _ _ _; simp [fsT, evalX, eval]
  · intro side ι a b c d x _ _ _; simp [fsT, evalX, eval, imgEnvG]
  · intro side ι sh f c _ _ _; simp [fsT, evalX, eval]
  · intro side ι is c hw; simp [WF] at hw
  -- 6-10 terminals
  · intro side ι d hd j _ _ _
    simp [fsT, notArg_of_cls' d _ hd (by decide), evalX, eval, hd]
  · intro side ι d hd i j _ _ _ _
    simp [fsT, notArg_of_cls' d _ hd (by decide), evalX, eval, hd]
  · intro side ι d c hd _ _ _ _
    simp [fsT, notArg_of_cls' d _ hd (by decide), evalX, eval, hd]
  · intro side ι d c hd hl _ _ _
    simp [fsT, notArg_of_cls' d _ hl (by decide), evalX, eval, hd, hl]
  · intro side ι d c hd hl _ hg _
    simp only [Adm, termAdm] at hg
    simp only [fsT]
    split
    · rename_i hc
      rw [if_pos hc] at hg
      simp only [Bool.and_eq_true, beq_iff_eq] at hg
      simp only [eval, hd, hl, ↓reduceIte, imgEnvG, hg.1]
      exact evalX_img ρ side ι ι₀ cfg d c
    · rename_i hc
      rw [if_neg hc] at hg
      simp only [Option.isNone_iff_eq_none] at hg
      rw [evalX_term]
      simp only [eval, hd, hl, ↓reduceIte, imgEnvG, hg]
  -- 11 sum
  · intro side ι aux c a b iha ihb hw hg hc
    simp only [WF, Bool.and_eq_true, beq_iff_eq] at hw
    obtain ⟨⟨⟨wa, wb⟩, hs⟩, _⟩ := hw
    simp only [Adm, AdmL, Bool.and_true, Bool.and_eq_true] at hg
    simp only [shape] at hc
    rw [fsT_op fx cfg _ _ _ rfl]
    simp only [fsTL, evalX, eval]
    rw [iha wa hg.1 hc, ihb wb hg.2 (by rw [← hs]; exact hc)]
  -- 12 product
  · intro side ι aux c a b iha ihb hw hg _
    simp only [WF, Bool.and_eq_true, List.isEmpty_iff] at hw
    obtain ⟨⟨⟨⟨wa, wb⟩, sa⟩, sb⟩, _⟩ := hw
    simp only [Adm, AdmL, Bool.and_true, Bool.and_eq_true] at hg
    rw [fsT_op fx cfg _ _ _ rfl]
    simp only [fsTL, evalX, eval]
    rw [iha wa hg.1 (by simp [sa]), ihb wb hg.2 (by simp [sb])]
  -- 13 division
  · intro side ι aux c a b iha ihb hw hg hc
    simp only [WF, Bool.and_eq_true, List.isEmpty_iff, trueScalar] at hw
    obtain ⟨⟨⟨wa, wb⟩, sa⟩, sb, _⟩ := hw
    simp only [Adm, AdmL, Bool.and_true, Bool.and_eq_true] at hg
    simp only [shape, List.length_nil] at hc
    rw [fsT_op fx cfg _ _ _ rfl]
    simp only [fsTL, evalX, eval]
    rw [iha wa hg.1 (by simp [sa, hc]), ihb wb hg.2 (by simp [sb, hc])]
    try rfl
  -- 14 power
  · intro side ι aux c a b iha ihb hw hg hc
    simp only [WF, Bool.and_eq_true, List.isEmpty_iff, trueScalar] at hw
    obtain ⟨⟨⟨wa, wb⟩, sa, _⟩, sb, _⟩ := hw
    simp only [Adm, AdmL, Bool.and_true, Bool.and_eq_true] at hg
    simp only [shape, List.length_nil] at hc
    rw [fsT_op fx cfg _ _ _ rfl]
    simp only [fsTL, evalX, eval]
    rw [iha wa hg.1 (by simp [sa, hc]), ihb wb hg.2 (by simp [sb, hc])]
    try rfl
  -- 15-18 abs conj real imag
  · intro side ι aux c a ih hw hg hc
    simp only [WF] at hw; simp only [Adm, AdmL, Bool.and_true] at hg; simp only [shape] at hc
    rw [fsT_op fx cfg _ _ _ rfl]
    simp only [fsTL, evalX, eval]; rw [ih hw hg hc]; try rfl
  · intro side ι aux c a ih hw hg hc
    simp only [WF] at hw; simp only [Adm, AdmL, Bool.and_true] at hg; simp only [shape] at hc
    rw [fsT_op fx cfg _ _ _ rfl]
    simp only [fsTL, evalX, eval]; rw [ih hw hg hc]; try rfl
  · intro side ι aux c a ih hw hg hc
    simp only [WF] at hw; simp only [Adm, AdmL, Bool.and_true] at hg; simp only [shape] at hc
    rw [fsT_op fx cfg _ _ _ rfl]
    simp only [fsTL, evalX, eval]; rw [ih hw hg hc]; try rfl
  · intro side ι aux c a ih hw hg hc
    simp only [WF] at hw; simp only [Adm, AdmL, Bool.and_true] at hg; simp only [shape] at hc
    rw [fsT_op fx cfg _ _ _ rfl]
    simp only [fsTL, evalX, eval]; rw [ih hw hg hc]; try rfl
  -- 19 indexed
  · intro side ι aux c a is ih hw hg hc
    simp only [WF, Bool.and_eq_true, beq_iff_eq] at hw
    obtain ⟨⟨⟨wa, hl⟩, _⟩, _⟩ := hw
    simp only [Adm, Bool.and_eq_true] at hg
    have hc0 : c = [] := by simpa [shape] using hc
    subst hc0
    rw [fsT_indexed]
    simp only [eval]
    rw [← ih wa hg.1 (by simp [hl])]
    unfold fsIndexedT
    split
    · rename_i x xs vs hx hf
      rw [resolve_fixedAll ι is vs hf, hx]
      split
      · exact ltGetT_evalX ρ side ι vs _
      · rename_i hfx
        have hfx' : fx = false := by simpa using hfx
        subst hfx'
        have hso := hg.2
        simp only [shortcutOK, hx, hf, Bool.false_or, beq_iff_eq] at hso
        obtain ⟨v, rfl⟩ := List.length_eq_one_iff.mp hso
        simp only [evalX]
        exact (evalXNth_getD ρ side ι xs v []).symm
    · simp only [evalX]
  -- 20 index sum
  · intro side ι aux c a j ih hw hg hc
    simp only [WF, Bool.and_eq_true] at hw
    simp only [Adm, AdmL, Bool.and_true, Bool.and_eq_true] at hg
    simp only [shape] at hc
    rw [fsT_op fx cfg _ _ _ rfl]
    simp only [fsTL, fsT, evalX, eval, (hsf a hw.1 hg).2.1]
    congr 1
    funext v
    exact ih v hw.1 hg hc
  -- 21 component tensor
  · intro side ι aux c a is ih hw hg _
    simp only [WF, Bool.and_eq_true, List.isEmpty_iff] at hw
    simp only [Adm, AdmL, Bool.and_true, Bool.and_eq_true] at hg
    rw [fsT_op fx cfg _ _ _ rfl]
    simp only [fsTL, fsT, evalX, eval]
    exact ih hw.1.1 hg (by simp [hw.1.2])
  -- 22-23 list tensor
  · intro side ι aux xs v c' ih hw hg hc
    rw [fsT_op fx cfg _ _ _ rfl]
    simp only [eval]
    cases xs with
    | nil => simp [WF] at hw
    | cons x0 rest =>
      simp only [WF, Bool.and_eq_true, List.all_eq_true, beq_iff_eq] at hw
      obtain ⟨⟨w0, wr⟩, hsame⟩ := hw
      simp only [Adm] at hg
      simp only [shape, List.length_cons, Nat.add_right_cancel_iff] at hc
      apply ih (by simp [WFL, w0, wr]) hg
      intro x hx
      cases List.mem_cons.mp hx with
      | inl h => rw [h]; exact hc
      | inr h => rw [(hsame x h).1]; exact hc
  · intro side ι aux xs _ _ _
    rw [fsT_op fx cfg _ _ _ rfl]
    simp [evalX, eval]
  -- 24-25 conditional
  · intro side ι aux c p t f hb ihp iht hw hg hc
    simp only [WF, Bool.and_eq_true, beq_iff_eq] at hw
    obtain ⟨⟨⟨⟨wp, wt⟩, wf⟩, hs⟩, _⟩ := hw
    simp only [Adm, AdmL, Bool.and_true, Bool.and_eq_true] at hg
    simp only [shape] at hc
    rw [fsT_op fx cfg _ _ _ rfl]
    simp only [fsTL, evalX, eval]
    rw [ihp wp hg.1, hb]
    simp only [↓reduceIte]
    exact iht wt hg.2.1 hc
  · intro side ι aux c p t f hb ihp ihf hw hg hc
    simp only [WF, Bool.and_eq_true, beq_iff_eq] at hw
    obtain ⟨⟨⟨⟨wp, wt⟩, wf⟩, hs⟩, _⟩ := hw
    simp only [Adm, AdmL, Bool.and_true, Bool.and_eq_true] at hg
    simp only [shape] at hc
    rw [fsT_op fx cfg _ _ _ rfl]
    simp only [fsTL, evalX, eval]
    rw [ihp wp hg.1]
    simp only [hb, Bool.false_eq_true, ↓reduceIte]
    exact ihf wf hg.2.2 (by rw [← hs]; exact hc)
  -- 26-29 min / max
  · intro side ι aux c a b x y _ iha ihb hw hg hc
    simp only [WF, Bool.and_eq_true, List.isEmpty_iff, trueScalar] at hw
    obtain ⟨⟨⟨wa, wb⟩, sa, _⟩, sb, _⟩ := hw
    simp only [Adm, AdmL, Bool.and_true, Bool.and_eq_true] at hg
    simp only [shape, List.length_nil] at hc
    rw [fsT_op fx cfg _ _ _ rfl]
    simp only [fsTL, evalX, eval]
    rw [iha wa hg.1 (by simp [sa, hc]), ihb wb hg.2 (by simp [sb, hc])]
    try rfl
  · intro side ι aux c a b x y _ iha ihb hw hg hc
    simp only [WF, Bool.and_eq_true, List.isEmpty_iff, trueScalar] at hw
    obtain ⟨⟨⟨wa, wb⟩, sa, _⟩, sb, _⟩ := hw
    simp only [Adm, AdmL, Bool.and_true, Bool.and_eq_true] at hg
    simp only [shape, List.length_nil] at hc
    rw [fsT_op fx cfg _ _ _ rfl]
    simp only [fsTL, evalX, eval]
    rw [iha wa hg.1 (by simp [sa, hc]), ihb wb hg.2 (by simp [sb, hc])]
    try rfl
  · intro side ι aux c a b x y _ iha ihb hw hg hc
    simp only [WF, Bool.and_eq_true, List.isEmpty_iff, trueScalar] at hw
    obtain ⟨⟨⟨wa, wb⟩, sa, _⟩, sb, _⟩ := hw
    simp only [Adm, AdmL, Bool.and_true, Bool.and_eq_true] at hg
    simp only [shape, List.length_nil] at hc
    rw [fsT_op fx cfg _ _ _ rfl]
    simp only [fsTL, evalX, eval]
    rw [iha wa hg.1 (by simp [sa, hc]), ihb wb hg.2 (by simp [sb, hc])]
    try rfl
  · intro side ι aux c a b x y _ iha ihb hw hg hc
    simp only [WF, Bool.and_eq_true, List.isEmpty_iff, trueScalar] at hw
    obtain ⟨⟨⟨wa, wb⟩, sa, _⟩, sb, _⟩ := hw
    simp only [Adm, AdmL, Bool.and_true, Bool.and_eq_true] at hg
    simp only [shape, List.length_nil] at hc
    rw [fsT_op fx cfg _ _ _ rfl]
    simp only [fsTL, evalX, eval]
    rw [iha wa hg.1 (by simp [sa, hc]), ihb wb hg.2 (by simp [sb, hc])]
    try rfl
  -- 30 variable
  · intro side ι aux c a l ih hw hg hc
    cases l <;> simp only [WF, Bool.false_eq_true] at hw
    simp only [Adm, AdmL, Bool.and_true, Bool.and_eq_true] at hg
    simp only [shape] at hc
    rw [fsT_op fx cfg _ _ _ rfl]
    simp only [fsTL, fsT, evalX, eval]; exact ih hw hg.1 hc
  -- 31-32 restrictions
  · intro side ι aux c a ih hw hg hc
    simp only [WF] at hw; simp only [Adm, AdmL, Bool.and_true] at hg; simp only [shape] at hc
    rw [fsT_pos]
    simp only [eval]
    rw [← ih hw hg hc]
    split
    · rename_i hz
      obtain ⟨sh, f, he⟩ := isZero_eq' _ hz
      rw [he]; simp [evalX]
    · simp only [evalX]
  · intro side ι aux c a ih hw hg hc
    simp only [WF] at hw; simp only [Adm, AdmL, Bool.and_true] at hg; simp only [shape] at hc
    rw [fsT_neg]
    simp only [eval]
    rw [← ih hw hg hc]
    split
    · rename_i hz
      obtain ⟨sh, f, he⟩ := isZero_eq' _ hz
      rw [he]; simp [evalX]
    · simp only [evalX]
  -- 33 atan2
  · intro side ι aux c a b iha ihb hw hg hc
    simp only [WF, Bool.and_eq_true, List.isEmpty_iff, trueScalar] at hw
    obtain ⟨⟨⟨wa, wb⟩, sa, _⟩, sb, _⟩ := hw
    simp only [Adm, AdmL, Bool.and_true, Bool.and_eq_true] at hg
    simp only [shape, List.length_nil] at hc
    rw [fsT_op fx cfg _ _ _ rfl]
    simp only [fsTL, evalX, eval]
    rw [iha wa hg.1 (by simp [sa, hc]), ihb wb hg.2 (by simp [sb, hc])]
    try rfl
  -- 34-37 Bessel functions are outside the verified fragment
  · intro side ι aux c n x _ _ hw; simp [WF] at hw
  · intro side ι aux c n x _ _ hw; simp [WF] at hw
  · intro side ι aux c n x _ _ hw; simp [WF] at hw
  · intro side ι aux c n x _ _ hw; simp [WF] at hw
  -- 38-39 grad
  · intro side ι aux c a d k hk hw hg _
    simp only [Adm, hk, Bool.and_eq_true] at hg
    obtain ⟨hta, _⟩ := hg
    rw [fsT_op fx cfg _ _ _ rfl]
    simp only [fsTL, evalX]
    rw [chain_base fx cfg a d k hk (fsT_term_not_grad fx cfg d), (term_shape_fi fx cfg A d hta).1]
    simp only [eval, hk, imgEnvG]
    simp only [termAdm] at hta
    by_cases hc : (d.cls == "Argument") = true
    · rw [if_pos hc] at hta
      simp only [Bool.and_eq_true, beq_iff_eq] at hta
      simp only [fsT, hc, ↓reduceIte, hta.1]
    · have hc' : (d.cls == "Argument") = false := by simpa using hc
      rw [if_neg hc] at hta
      simp only [Option.isNone_iff_eq_none] at hta
      simp only [fsT, hc', Bool.false_eq_true, ↓reduceIte, hta, evalJet]
  · intro side ι aux c a hk hw _ _
    simp [WF, hk] at hw
  -- 40-41 math functions
  · intro side ι aux c fnk a h1 h2 h3 h4 h5 h6 h7 h8 n hn ih hw hg hc
    have hwf : WF (.op fnk aux [a]) = (WF a && trueScalar a) := by
      cases fnk <;> simp_all [WF, mathName]
    have hsh : shape (.op fnk aux [a]) = [] := by
      cases fnk <;> simp_all [shape, mathName]
    have hgf : Adm (some 0) fx cfg A (.op fnk aux [a]) = Adm (some 0) fx cfg A a := by
      cases fnk <;> simp_all [Adm, AdmL, mathName]
    have hsp : isSpecial fnk = false := by
      cases fnk <;> simp_all [mathName, isSpecial]
    have hev : ∀ (ρ' : Env K) (x : Expr), eval ρ' side ι (.op fnk aux [x]) c = ρ'.fn n (eval ρ' side ι x c) := by
      intro ρ' x; cases fnk <;> simp_all [eval, mathName]
    rw [hwf] at hw
    simp only [Bool.and_eq_true, trueScalar, List.isEmpty_iff] at hw
    obtain ⟨wa, sa, fa⟩ := hw
    rw [hsh] at hc
    rw [hgf] at hg
    have hevX : ∀ (x : Expr), evalX ρ side ι (.op fnk aux [x]) c = ρ.fn n (evalX ρ side ι x c) := by
      intro x; cases fnk <;> simp_all [evalX, mathName]
    rw [fsT_op fx cfg _ _ _ hsp]
    simp only [fsTL]
    rw [hevX, hev, ih wa hg (by simp [sa] at hc ⊢; exact hc)]
    rfl
  · intro side ι aux c fnk a h1 h2 h3 h4 h5 h6 h7 h8 hn hw
    cases fnk <;> simp_all [WF, mathName]
  -- 42 anything else is outside the verified fragment
  · intro side ι k aux args c
    intros
    intro hw
    unfold WF at hw
    split at hw <;> simp_all
  -- 43-48 comparisons
  · intro side ι aux a b iha ihb hw hg
    simp only [WFC, Bool.and_eq_true, List.isEmpty_iff, trueScalar] at hw
    obtain ⟨⟨⟨wa, wb⟩, sa, fa⟩, sb, fb⟩ := hw
    simp only [Adm, AdmL, Bool.and_true, Bool.and_eq_true] at hg
    rw [fsT_op fx cfg _ _ _ rfl]
    simp only [fsTL, evalXB, evalB]
    rw [iha wa hg.1 (by simp [sa]), ihb wb hg.2 (by simp [sb])]
    try rfl
  · intro side ι aux a b iha ihb hw hg
    simp only [WFC, Bool.and_eq_true, List.isEmpty_iff, trueScalar] at hw
    obtain ⟨⟨⟨wa, wb⟩, sa, fa⟩, sb, fb⟩ := hw
    simp only [Adm, AdmL, Bool.and_true, Bool.and_eq_true] at hg
    rw [fsT_op fx cfg _ _ _ rfl]
    simp only [fsTL, evalXB, evalB]
    rw [iha wa hg.1 (by simp [sa]), ihb wb hg.2 (by simp [sb])]
    try rfl
  · intro side ι aux a b iha ihb hw hg
    simp only [WFC, Bool.and_eq_true, List.isEmpty_iff, trueScalar] at hw
    obtain ⟨⟨⟨wa, wb⟩, sa, fa⟩, sb, fb⟩ := hw
    simp only [Adm, AdmL, Bool.and_true, Bool.and_eq_true] at hg
    rw [fsT_op fx cfg _ _ _ rfl]
    simp only [fsTL, evalXB, evalB]
    rw [iha wa hg.1 (by simp [sa]), ihb wb hg.2 (by simp [sb])]
    try rfl
  · intro side ι aux a b ihb iha hw hg
    simp only [WFC, Bool.and_eq_true, List.isEmpty_iff, trueScalar] at hw
    obtain ⟨⟨⟨wa, wb⟩, sa, fa⟩, sb, fb⟩ := hw
    simp only [Adm, AdmL, Bool.and_true, Bool.and_eq_true] at hg
    rw [fsT_op fx cfg _ _ _ rfl]
    simp only [fsTL, evalXB, evalB]
    rw [iha wa hg.1 (by simp [sa]), ihb wb hg.2 (by simp [sb])]
    try rfl
  · intro side ι aux a b ihb iha hw hg
    simp only [WFC, Bool.and_eq_true, List.isEmpty_iff, trueScalar] at hw
    obtain ⟨⟨⟨wa, wb⟩, sa, fa⟩, sb, fb⟩ := hw
    simp only [Adm, AdmL, Bool.and_true, Bool.and_eq_true] at hg
    rw [fsT_op fx cfg _ _ _ rfl]
    simp only [fsTL, evalXB, evalB]
    rw [iha wa hg.1 (by simp [sa]), ihb wb hg.2 (by simp [sb])]
    try rfl
  · intro side ι aux a b iha ihb hw hg
    simp only [WFC, Bool.and_eq_true, List.isEmpty_iff, trueScalar] at hw
    obtain ⟨⟨⟨wa, wb⟩, sa, fa⟩, sb, fb⟩ := hw
    simp only [Adm, AdmL, Bool.and_true, Bool.and_eq_true] at hg
    rw [fsT_op fx cfg _ _ _ rfl]
    simp only [fsTL, evalXB, evalB]
    rw [iha wa hg.1 (by simp [sa]), ihb wb hg.2 (by simp [sb])]
    try rfl
  -- 49-51 and / or / not
  · intro side ι aux a b iha ihb hw hg
    simp only [WFC, Bool.and_eq_true] at hw
    simp only [Adm, AdmL, Bool.and_true, Bool.and_eq_true] at hg
    rw [fsT_op fx cfg _ _ _ rfl]
    simp only [fsTL, evalXB, evalB]; rw [iha hw.1 hg.1, ihb hw.2 hg.2]
  · intro side ι aux a b iha ihb hw hg
    simp only [WFC, Bool.and_eq_true] at hw
    simp only [Adm, AdmL, Bool.and_true, Bool.and_eq_true] at hg
    rw [fsT_op fx cfg _ _ _ rfl]
    simp only [fsTL, evalXB, evalB]; rw [iha hw.1 hg.1, ihb hw.2 hg.2]
  · intro side ι aux a ih hw hg
    simp only [WFC] at hw
    simp only [Adm, AdmL, Bool.and_true, Bool.and_eq_true] at hg
    rw [fsT_op fx cfg _ _ _ rfl]
    simp only [fsTL, evalXB, evalB]; rw [ih hw hg]
  -- 52-53 not a condition
  · intro side ι k aux args
    intros
    intro hw
    unfold WFC at hw
    split at hw <;> simp_all
  · intro t side ι
    intros
    intro hw
    unfold WFC at hw
    split at hw <;> simp_all
  -- 54-56 component selection in a list tensor
  · intro side ι n c _ _ _; simp [fsTL, evalXNth, evalNth]
  · intro side ι x tail c ih hw hg hc
    simp only [WFL, Bool.and_eq_true] at hw
    simp only [AdmL, Bool.and_eq_true] at hg
    simp only [fsTL, evalXNth, evalNth]
    exact ih hw.1 hg.1 (hc x (by simp))
  · intro side ι x xs n c ih hw hg hc
    simp only [WFL, Bool.and_eq_true] at hw
    simp only [AdmL, Bool.and_eq_true] at hg
    simp only [fsTL, evalXNth, evalNth]
    exact ih hw.2 hg.2 (fun y hy => hc y (by simp [hy]))

/-! ### `evalX` is a conservative extension of `eval` -/

theorem gradBase_chain : ∀ (a : Expr) (d : TermData) (k : Nat), gradChain a = some (d, k) → (gradBase a).1 = .term d := by
  intro a
  fun_induction gradChain a with
  | case1 d => intro d' k h; simp only [Option.some.injEq, Prod.mk.injEq] at h; simp [gradBase, h.1]
  | case2 aux a d k hk ih =>
    intro d' k' h
    simp only [Option.some.injEq, Prod.mk.injEq] at h
    simp only [gradBase, ih d k hk, h.1]
  | case3 aux a hk ih => intro d' k h; simp at h
  | case4 e h1 h2 => intro d' k h; simp at h

theorem evalX_conservative (ρ : Env K) :
    (∀ side ι e c, WF e = true → evalX ρ side ι e c = eval ρ side ι e c) ∧
    (∀ side ι p, WFC p = true → evalXB ρ side ι p = evalB ρ side ι p) ∧
    (∀ side ι xs n c, WFL xs = true → evalXNth ρ side ι xs n c = evalNth ρ side ι xs n c) := by
  apply eval.mutual_induct ρ (motive_1 := fun side ι e c => WF e = true → evalX ρ side ι e c = eval ρ side ι e c)
    (motive_2 := fun side ι p => WFC p = true → evalXB ρ side ι p = evalB ρ side ι p)
    (motive_3 := fun side ι xs n c => WFL xs = true → evalXNth ρ side ι xs n c = evalNth ρ side ι xs n c)
  all_goals try (intros; simp_all [evalX, eval, evalXB, evalB, evalXNth, evalNth, WF, WFL, WFC]; done)
  · intro side ι aux xs v c' ih hw
    simp only [evalX, eval]
    apply ih
    cases xs with
    | nil => simp [WF] at hw
    | cons x0 rest =>
      simp only [WF, Bool.and_eq_true] at hw
      simp [WFL, hw.1.1, hw.1.2]
  · intro side ι aux c a l ih hw
    cases l <;> simp only [WF, Bool.false_eq_true] at hw
    simp only [evalX, eval]; exact ih hw
  · intro side ι aux c a d k hk hw
    simp only [evalX, eval, hk, gradBase_chain a d k hk, shape, evalJet]

end Expr
end UflVerif
